"""Extracted/CollectorTime.lean — the per-trigger processing-time budget of the frame collector (C05, C02), regenerated from
src/deep/processor/frame_collector.py and context/snapshot_action.py.

Translated with pylean (function bodies become Lean definitions):
  * `FrameCollector.__time_exceeded` — a method with one piece of state (the sticky flag `self.__has_time_exceeded`) and
    one external read (`time_ns()`).  It becomes a pure function of (flag, the value the clock WOULD return, ts, budget)
    returning (result, new flag, was the clock read).  The translation is statement by statement (pylean CPS), after
    an AST rewrite that turns the flag attribute into a local, `time_ns()` into the parameter `now` and every `return e`
    into `return (e, flag, <clock read on this path>)`.  Python's true division `/` becomes the exact `TimeBase.trueDiv`.
  * the guard of `_process_frame` (`collect_vars and not self.__time_exceeded()`) is RECOGNISED BY SHAPE, not translated
    statement by statement: its conjuncts are classified and one of three hand-written Lean templates is emitted by their
    order (selected-then-time: the clock is consulted only for a frame that is selected; time-then-selected; selected only).
Extracted as constants: the config key and default of `max_tp_process_time`, the initial value of the flag, that
`_process_action` builds a new FrameCollector per action (the flag is per action), that `ts` is the trigger's time stamp.
Anything whose shape is not recognised raises Untranslatable (never guessed)."""
import ast
import copy

from pylean import Translator, Untranslatable, load, find_def, lean_str, same_shape

OUT = 'DeepModel/Extracted/CollectorTime.lean'
FC = 'src/deep/processor/frame_collector.py'
SA = 'src/deep/processor/context/snapshot_action.py'
FLAG = 'self.__has_time_exceeded'
CLOCK = 'time_ns()'
CALL = 'self.__time_exceeded()'


class TTranslator(Translator):
    """pylean.Translator + Python's true division on ints (exact)."""

    def e_BinOp(self, n):
        if isinstance(n.op, ast.Div):
            return f'(TimeBase.trueDiv {self.expr(n.left)} {self.expr(n.right)})'
        return super().e_BinOp(n)


class Rewrite(ast.NodeTransformer):
    NAMES = {FLAG: 'flag', 'self.__source.ts': 'ts', 'self.__source.max_tp_process_time': 'max_tp_process_time'}

    def visit_Attribute(self, n):
        src = ast.unparse(n)
        if src in self.NAMES:
            return ast.copy_location(ast.Name(self.NAMES[src], n.ctx), n)
        return self.generic_visit(n)

    def visit_Call(self, n):
        if ast.unparse(n) == CLOCK:
            return ast.copy_location(ast.Name('now', ast.Load()), n)
        return self.generic_visit(n)


def mark_returns(stmts, read):
    """rewrite `return e` into `return (e, flag, read)`, where `read` says whether the one clock read of the function lies
    before the return on this path.  The clock may only be read by a statement of the outermost statement list."""
    out = []
    for s in stmts:
        n = ast.unparse(s).count(CLOCK)
        if isinstance(s, ast.Return):
            if n:
                raise Untranslatable('__time_exceeded: the clock is read inside a return statement')
            val = s.value if s.value is not None else ast.Constant(None)
            out.append(ast.Return(ast.Tuple([val, ast.Name('flag', ast.Load()), ast.Constant(read)], ast.Load())))
        elif isinstance(s, ast.If):
            if n:
                raise Untranslatable('__time_exceeded: the clock is read under a condition')
            s2 = copy.copy(s)
            s2.body = mark_returns(s.body, read)
            s2.orelse = mark_returns(s.orelse, read)
            out.append(s2)
        else:
            if n:
                read = True
            out.append(s)
    return out


def gen_time_exceeded(parts, fc):
    f = copy.deepcopy(find_def(fc, 'FrameCollector.__time_exceeded'))      # the rewrite below works in place
    src = ast.unparse(f)
    if src.count(CLOCK) != 1:
        raise Untranslatable(f'__time_exceeded: expected exactly one {CLOCK} read, found {src.count(CLOCK)}')
    if f.args.args and [a.arg for a in f.args.args] != ['self']:
        raise Untranslatable('__time_exceeded takes arguments')
    body = [s for s in f.body if not (isinstance(s, ast.Expr) and isinstance(s.value, ast.Constant))]
    body = mark_returns(body, False)
    g = ast.FunctionDef(name='f', args=f.args, body=[ast.fix_missing_locations(Rewrite().visit(s)) for s in body],
                        decorator_list=[])
    parts.append('/-- `FrameCollector.__time_exceeded`, as a function of the sticky flag, the value `time_ns()` would return, the\n'
                 '    trigger time stamp and the budget (ms).  Result: (what the method returns, the flag afterwards, whether the\n'
                 '    clock was read on the path taken). -/')
    parts.append(TTranslator().function(g, 'def timeExceeded (flag : Bool) (now ts max_tp_process_time : Int) : Bool × Bool × Bool'))
    # the flag starts as a literal set in __init__
    init = find_def(fc, 'FrameCollector.__init__')
    vals = [s.value for s in init.body if isinstance(s, ast.Assign) and len(s.targets) == 1
            and ast.unparse(s.targets[0]) == FLAG]
    if len(vals) != 1 or not (isinstance(vals[0], ast.Constant) and isinstance(vals[0].value, bool)):
        raise Untranslatable('FrameCollector.__init__: initial value of the time flag')
    parts.append('/-- `FrameCollector.__init__`: the flag a new collector starts with -/\n'
                 f'def initialExceeded : Bool := {"true" if vals[0].value else "false"}\n')
    # the flag is written nowhere else
    writers = []
    for cls in fc.body:
        if isinstance(cls, ast.ClassDef) and cls.name == 'FrameCollector':
            for m in cls.body:
                if isinstance(m, ast.FunctionDef):
                    for n in ast.walk(m):
                        if isinstance(n, (ast.Assign, ast.AugAssign)):
                            tg = n.targets if isinstance(n, ast.Assign) else [n.target]
                            if any(ast.unparse(t) == FLAG for t in tg):
                                writers.append(m.name)
    if sorted(set(writers)) != ['__init__', '__time_exceeded']:
        raise Untranslatable('the time flag is written by %s' % sorted(set(writers)))


def gen_guard(parts, fc):
    cls = find_def(fc, 'FrameCollector')
    calls = [(m.name, n) for m in cls.body if isinstance(m, ast.FunctionDef) for n in ast.walk(m)
             if isinstance(n, ast.Call) and ast.unparse(n) == CALL]
    pf = find_def(fc, 'FrameCollector._process_frame')
    if [a.arg for a in pf.args.args][-1] != 'collect_vars':
        raise Untranslatable('_process_frame: parameters changed')
    guards = [n for n in ast.walk(pf) if isinstance(n, ast.If)
              and any(ast.unparse(x) == "processor.process_variable('locals', f_locals)" for x in ast.walk(n)
                      if isinstance(x, ast.Call))]
    # the outermost `if` that encloses the collection of the locals
    if not guards:
        raise Untranslatable('_process_frame: the collection of the locals is not under a condition')
    g = guards[0]
    if g.orelse:
        raise Untranslatable('_process_frame: the guard of the collection has an else branch')
    if any(name != '_process_frame' for name, _ in calls) or len(calls) != ast.unparse(g.test).count(CALL):
        raise Untranslatable('__time_exceeded is called outside the guard of _process_frame')
    test = g.test
    vals = test.values if isinstance(test, ast.BoolOp) and isinstance(test.op, ast.And) else [test]
    order = []
    for v in vals:
        s = ast.unparse(v)
        if s == 'collect_vars':
            order.append('sel')
        elif s == 'not ' + CALL:
            order.append('time')
        else:
            raise Untranslatable('_process_frame: unknown conjunct of the collection guard: ' + s)
    sig = ('def frameGuard (collect_vars flag : Bool) (now ts max_tp_process_time : Int) : Bool × Bool × Bool')
    if order == ['sel', 'time']:
        body = ('  if collect_vars then\n'
                '    let r := timeExceeded flag now ts max_tp_process_time\n'
                '    ((!r.1), r.2.1, r.2.2)\n'
                '  else\n'
                '    (false, flag, false)\n')
    elif order == ['time', 'sel']:
        body = ('  let r := timeExceeded flag now ts max_tp_process_time\n'
                '  (((!r.1) && collect_vars), r.2.1, r.2.2)\n')
    elif order == ['sel']:
        body = '  (collect_vars, flag, false)\n'
    else:
        raise Untranslatable('_process_frame: collection guard %s' % order)
    parts.append('/-- the guard of the collection in `_process_frame` (`' + ast.unparse(test) + '`), recognised by shape (template chosen\n'
                 '    by the order of its conjuncts; `and` short-circuits left to right).  Result: (are the locals collected, the flag afterwards, whether the clock was read). -/\n'
                 + sig + ' :=\n' + body)
    # the guard encloses the whole collection of a frame: nothing of it happens before the test
    inner = [ast.unparse(s) for s in g.body]
    if not any('processor.process_variable' in s for s in inner) or not any('VariableSetProcessor(' in s for s in inner):
        raise Untranslatable('_process_frame: the collection is not wholly inside the guard')
    # the StackFrame is built after the guard, whatever it decided
    tail = pf.body[pf.body.index(g) + 1:] if g in pf.body else None
    if tail is None or not any(isinstance(s, ast.Return) and 'StackFrame(' in ast.unparse(s) for s in tail):
        raise Untranslatable('_process_frame: the StackFrame is not built after the guard')


def gen_consts(parts, sa, fc):
    p = find_def(sa, 'SnapshotActionContext.max_tp_process_time')
    body = [s for s in p.body if not (isinstance(s, ast.Expr) and isinstance(s.value, ast.Constant))]
    ok = (len(body) == 1 and isinstance(body[0], ast.Return) and isinstance(body[0].value, ast.Call)
          and ast.unparse(body[0].value.func) == 'self.location_action.config.get' and len(body[0].value.args) == 2
          and all(isinstance(a, ast.Constant) for a in body[0].value.args)
          and isinstance(body[0].value.args[0].value, str) and type(body[0].value.args[1].value) is int)
    if not ok:
        raise Untranslatable('SnapshotActionContext.max_tp_process_time changed shape')
    key, dflt = (a.value for a in body[0].value.args)
    parts.append('/-- `SnapshotActionContext.max_tp_process_time`: config key and default (milliseconds) -/\n'
                 f'def maxTpProcessTimeKey : String := {lean_str(key)}\n'
                 f'def maxTpProcessTimeDefault : Int := ({dflt} : Int)\n')
    ts = find_def(sa, 'SnapshotActionContext.ts')
    if not same_shape(ts, 'return self.trigger_context.ts'):
        raise Untranslatable('SnapshotActionContext.ts changed shape')
    pa = find_def(sa, 'SnapshotActionContext._process_action')
    mk = [s for s in pa.body if isinstance(s, ast.Assign) and isinstance(s.value, ast.Call)
          and ast.unparse(s.value.func) == 'FrameCollector']
    per_action = len(mk) == 1 and ast.unparse(mk[0]) == 'collector = FrameCollector(self, self.trigger_context.frame)'
    if not per_action:
        raise Untranslatable('_process_action: where the FrameCollector comes from')
    parts.append('/-- `_process_action` builds a new `FrameCollector` (hence a new flag) for every action, whose budget is counted\n'
                 '    from the time stamp of the trigger -/\n'
                 'def collectorPerAction : Bool := true\n')
    col = find_def(fc, 'FrameCollector.collect')
    loops = [n for n in ast.walk(col) if isinstance(n, ast.While)]
    if len(loops) != 1 or ast.unparse(loops[0].test) != 'current_frame is not None' or CLOCK in ast.unparse(col) \
            or '__time_exceeded' in ast.unparse(col):
        raise Untranslatable('FrameCollector.collect: the walk changed shape')


def generate():
    fc, sa = load(FC), load(SA)
    parts = ['-- GENERATED by harness/extract — do not edit; regenerated from /repo on every check run.\n'
             '-- per-trigger processing-time budget of the frame collector\n'
             f'-- sources: {FC}, {SA}\nimport DeepModel.Py\nimport DeepModel.Model.TimeBase\n',
             'namespace Extracted.CollectorTime\n']
    gen_consts(parts, sa, fc)
    gen_time_exceeded(parts, fc)
    gen_guard(parts, fc)
    parts.append('end Extracted.CollectorTime\n')
    return '\n'.join(parts)
