"""svcref — what C12 and C13 share on the judging side: the reference kept from the property statements (latest
configuration the service sent, live registrations as a multiset), the request for the Lean driver, the comparison
of the model's trace with the implementation's, and a schedule-aware op generator.

Nothing here looks at the Lean model or at the agent's code: the reference is computed from the op history alone.
"""


def tkey(d):
    # a method / function tracepoint has no line of its own: the agent's FunctionLocation reports -1
    return [d['path'], -1 if d.get('kind') in ('method', 'function') else d['line'], d['tag']]


class Reference:
    """state of the world according to the statement"""

    def __init__(self):
        self.latest_hash = None
        self.latest = []          # tracepoints of the most recent configuration the agent can interpret
        self.live = {}            # handle index -> tracepoint
        self.nreg = 0
        self.updates = []         # hashes of the configurations received, in order

    def apply(self, op):
        k = op['op']
        if k == 'poll' and not op.get('nc') and op.get('rt', 1) == 1:
            # an UPDATE is taken with the tracepoints the agent can convert and interpret; the others are skipped
            self.latest_hash = op['hash']
            self.latest = [tkey(tp) for tp in op['tps'] if tp.get('interp', True) and tp.get('conv', True)]
            self.updates.append(op['hash'])
        elif k == 'register':
            if op.get('interp', True):      # a registration the agent cannot interpret is never active
                self.live[self.nreg] = tkey(op)
            self.nreg += 1
        elif k == 'unregister':
            self.live.pop(op['handle'], None)

    def expected(self):
        return sorted(self.latest + list(self.live.values()))


def driver_ops(ops):
    out = []
    for op in ops:
        k = op['op']
        if k == 'poll':
            rt = op['rt'] if 'rt' in op else (0 if op.get('nc') else 1)
            out.append({'op': 'poll', 'rt': rt, 'ts': op.get('ts', 0), 'hash': op.get('hash', ''),
                        'tps': [{'path': t['path'], 'line': tkey(t)[1], 'tag': t['tag'],
                                 'interp': t.get('interp', True), 'conv': t.get('conv', True)} for t in op['tps']]})
        elif k == 'pollFail':
            out.append({'op': 'pollFail', 'base': bool(op.get('base'))})
        elif k == 'register':
            out.append({'op': 'register', 'path': op['path'], 'line': tkey(op)[1], 'tag': op['tag'],
                        'interp': op.get('interp', True)})
        else:
            out.append({kk: v for kk, v in op.items() if kk in ('op', 'handle', 'i', 'k', 'text')})
    return out


def norm_hash(h):
    return '' if h is None else h


_TIE = {}


def translated(area):
    """did this run's extraction of `area` follow the source (True), or is the model the kept baseline (False)?
    (lean/DeepModel/Extracted/status.json is written by the extraction step of the run)"""
    if area not in _TIE:
        import json
        import os
        p = os.path.join(os.path.dirname(os.path.dirname(os.path.abspath(__file__))),
                         'lean', 'DeepModel', 'Extracted', 'status.json')
        try:
            _TIE[area] = json.load(open(p)).get(area) == 'ok'
        except Exception:
            _TIE[area] = True
    return _TIE[area]


def settled(t):
    return t['queued'] == 0 and t['pre'] == 0 and t['holding'] == 0


def compare_traces(ops, obs, resp, limit=4):
    """model trace (Lean driver) vs implementation trace, step by step.

    When the model is the regenerated translation of the current source every step is compared, in flight too (queue
    lengths, region bookkeeping, what is installed).  When the translator could not follow the source and the baseline
    model stands in, the regions inside a task are the old code's, not necessarily the new code's: then only what the
    statement speaks about is compared — hash, hash sent, polled configuration, handles at every step, and what is
    installed whenever both sides have nothing in flight."""
    if 'error' in resp:
        return ['model error: ' + resp['error']]
    if obs.get('bench_error'):
        return ['the bench could not run the case on this implementation: ' + obs['bench_error']]
    strict = translated('configsvc')
    d = []
    mt, it = resp['trace'], obs['trace']
    if len(mt) != len(it):
        return [f'trace length: model {len(mt)} vs implementation {len(it)}']
    for n, (op, m, i) in enumerate(zip(ops, mt, it)):
        if 'raised' in i:
            d.append(f'op {n} {op["op"]}: implementation raised {i["raised"]}')
        if strict:
            for key in ('queued', 'pre', 'holding'):
                if m[key] != i[key]:
                    d.append(f'op {n} {op["op"]}: {key} model {m[key]} vs implementation {i[key]}')
        if norm_hash(m['hash']) != norm_hash(i['hash']):
            d.append(f'op {n} {op["op"]}: hash model {m["hash"]!r} vs implementation {i["hash"]!r}')
        keys = ['polled']
        if strict or (settled(m) and settled(i)):
            keys.append('installed')
        if i.get('custom') is not None:
            keys.append('custom')
        for key in keys:
            if sorted(m[key]) != sorted(i[key]):
                d.append(f'op {n} {op["op"]}: {key} model {sorted(m[key])} vs implementation {sorted(i[key])}')
        if 'req_hash' in m and norm_hash(m['req_hash']) != norm_hash(i.get('req_hash')):
            d.append(f'op {n}: hash sent model {m["req_hash"]!r} vs implementation {i.get("req_hash")!r}')
        if strict and 'moved' in m and m['moved'] != i.get('moved'):
            d.append(f'op {n} {op["op"]}: task step taken model {m["moved"]} vs implementation {i.get("moved")}')
        if 'handle' in m and m['handle'] != i.get('handle'):
            d.append(f'op {n}: handle model {m["handle"]} vs implementation {i.get("handle")}')
        if len(d) >= limit:
            break
    return d


LOCS = [('a.py', 10), ('a.py', 11), ('b.py', 10)]
ARGS = [{}, {}, {'fire_count': '3'}, {'log_msg': 'hit {x}'}, {'condition': 'x > 1'}, {'fire_period': '5'}]


class Sched:
    """generator-side bookkeeping so that generated schedules are well-formed: how many apply tasks wait, how many stand before
    the lock, whether one holds it, whether one is blocked on it (must be the next to read once the holder is done)"""

    def __init__(self, rng):
        self.rng = rng
        self.ops = []
        self.ref = Reference()
        self.queued = 0
        self.pre = 0             # tasks parked in front of the update lock
        self.holding = False
        self.blocked = None      # index (in the queued list) of a task already blocked on the lock
        self.contention = False  # may a read be attempted while another task holds the lock (costs a probe wait)
        self.tag = 0
        self.ts = 1

    def next_ts(self):
        """ts_nanos of the next poll answer: whatever the service says — it need not grow (the agent's configuration
        logic must not depend on it)"""
        r = self.rng.random()
        if r < 0.5:
            self.ts += self.rng.randint(1, 1000)
        elif r < 0.8:
            self.ts = self.rng.randint(0, max(self.ts - 1, 0))
        elif r < 0.9:
            self.ts = 0
        return self.ts

    def fresh_tag(self, prefix):
        self.tag += 1
        return f'{prefix}{self.tag}'

    def emit(self, op):
        self.ops.append(op)
        self.ref.apply(op)

    def tp(self, prefix='s', bad=0.0):
        path, line = self.rng.choice(LOCS)
        d = {'path': path, 'line': line, 'tag': self.fresh_tag(prefix), 'args': dict(self.rng.choice(ARGS))}
        q = self.rng.random()
        if q < 0.2:
            d['kind'] = 'method'        # several kinds of location in one file, in every order
        elif q < 0.32:
            d['kind'] = 'function'
        r = self.rng.random()
        if r < bad:
            d['interp'] = False
        return d

    def register(self, bad=0.05):
        d = self.tp('w', bad)
        d['op'] = 'register'
        self.emit(d)
        if d.get('interp', True):
            self.queued += 1

    def unregister(self, h=None):
        if h is None:
            h = self.rng.randrange(self.ref.nreg) if self.ref.nreg else 0
        if h in self.ref.live:
            self.queued += 1
        self.emit({'op': 'unregister', 'handle': h})

    def update(self, n=None, bad=0.0, hash_=None):
        n = self.rng.randint(0, 3) if n is None else n
        self.emit({'op': 'poll', 'nc': False, 'rt': 1, 'ts': self.next_ts(), 'hash': hash_ or self.fresh_tag('h'),
                   'tps': [self.tp('s', bad) for _ in range(n)]})
        self.queued += 1

    def nochange(self):
        # a NO_CHANGE answer may carry anything else: it must be ignored
        self.emit({'op': 'poll', 'nc': True, 'rt': 0, 'ts': self.next_ts(), 'hash': self.rng.choice(['', 'stray']),
                   'tps': [self.tp('x')] if self.rng.random() < 0.2 else []})

    def unknown(self):
        """an answer whose response_type is outside the enum; it may carry anything"""
        self.emit({'op': 'poll', 'nc': False, 'rt': self.rng.choice([2, 5, 17]), 'ts': self.next_ts(),
                   'hash': self.rng.choice(['', self.fresh_tag('u')]),
                   'tps': [self.tp('u') for _ in range(self.rng.randint(0, 2))]})

    def fail(self):
        self.emit({'op': 'pollFail', 'base': False, 'how': self.rng.choice(
            ['rpc', 'garbage', 'bad_update', 'bad_update', 'noargs', 'keyerror', 'rpc_noargs', 'badstr', 'oserror'])})

    def malformed(self):
        tps = [self.tp('m') for _ in range(self.rng.randint(1, 3))]
        self.rng.choice(tps)['conv'] = False
        self.emit({'op': 'poll', 'nc': False, 'rt': 1, 'ts': self.next_ts(), 'hash': self.fresh_tag('bad'), 'tps': tps})
        self.queued += 1

    def apply(self, i=None):
        """one whole task, atomically (only when nobody holds a value)"""
        if self.queued == 0 or self.holding:
            return False
        i = self.rng.randrange(self.queued) if i is None else i
        self.emit({'op': 'applyTask', 'i': i})
        self.queued -= 1
        return True

    def start(self):
        """a queued task runs up to the update lock and parks there (any number may)"""
        if self.queued == 0:
            return False
        self.emit({'op': 'taskStart', 'i': self.rng.randrange(self.queued)})
        self.queued -= 1
        self.pre += 1
        return True

    def read(self):
        """a parked task takes the lock (or, with `contention`, tries while another holds it and blocks)"""
        if self.pre == 0:
            return self.start()
        if self.holding:
            if self.blocked is not None or not self.contention:
                return False
            k = self.rng.randrange(self.pre)
            self.emit({'op': 'taskRead', 'k': k})       # will block on the lock
            self.blocked = k
            return True
        self.emit({'op': 'taskRead', 'k': self.rng.randrange(self.pre)})
        self.pre -= 1
        self.holding = 'read'
        return True

    def advance(self):
        """next region of the task that holds the lock"""
        if not self.holding:
            return False
        if self.holding == 'read':
            self.emit({'op': 'taskCall', 'k': 0})
            self.holding = 'called'
            return True
        self.emit({'op': 'taskInstall', 'k': 0})
        self.holding = False
        if self.blocked is not None:
            # the blocked task takes the lock at once: it reads next
            self.emit({'op': 'taskRead', 'k': self.blocked})
            self.pre -= 1
            self.holding = 'read'
            self.blocked = None
        return True

    def drain(self, atomic_only=False):
        while self.queued or self.pre or self.holding:
            if self.holding:
                self.advance()
            elif self.pre and (not self.queued or self.rng.random() < 0.6):
                self.read()
            elif atomic_only or self.rng.random() < 0.5:
                self.apply()
            else:
                self.start()


# ------------------------------------------------------------------ scale: ops made behind a backlog of queued tasks
def gen_backlog(rng, custom=False):
    s = Sched(rng)
    for _ in range(rng.randint(1, 4)):
        if custom:
            rng.choice([s.register, s.register, s.unregister, s.update])()
        else:
            rng.choice([s.update, s.update, s.register, s.nochange, s.unregister])()
    return {'kind': 'backlog', 'n': rng.choice([1000, 1024, 1100, rng.randint(1000, 3000)]), 'ops': s.ops}


def backlog_oracle(case, obs):
    if obs.get('bench_error'):
        return []
    v = ['%s' % r for r in obs.get('raised', [])][:2]
    ref = Reference()
    for op in case['ops']:
        ref.apply(op)
    f = obs.get('final') or {}
    where = f'behind a backlog of {case["n"]} queued tasks ({obs.get("pending_at_ops")} pending in the handler), after everything ran'
    if f and sorted(f['installed']) != ref.expected():
        v.append(f'{where}: installed {sorted(f["installed"])}; latest configuration + live registrations = '
                 f'{ref.expected()} (the hash reported is {f.get("hash")!r})')
    if f and norm_hash(f.get('hash')) != norm_hash(ref.latest_hash):
        v.append(f'{where}: hash {f.get("hash")!r}, the last configuration received has {ref.latest_hash!r}')
    return v


def backlog_request(case):
    return {'ops': driver_ops(case['ops']) + [{'op': 'applyTask', 'i': 0}] * (len(case['ops']) + 2)}


def backlog_compare(case, obs, resp):
    if 'error' in resp:
        return ['model error: ' + resp['error']]
    if obs.get('bench_error'):
        return ['the bench could not run the case on this implementation: ' + obs['bench_error']]
    m, i = resp['trace'][-1], obs['final']
    d = []
    if norm_hash(m['hash']) != norm_hash(i['hash']):
        d.append(f'final hash model {m["hash"]!r} vs implementation {i["hash"]!r}')
    for key in ('installed', 'polled'):
        if sorted(m[key]) != sorted(i[key]):
            d.append(f'final {key}: model {sorted(m[key])} vs implementation {sorted(i[key])}')
    return d


# ------------------------------------------------------------------ preemption cases (judged by the oracle only)
def _u(h, ts, *tps):
    return {'op': 'poll', 'nc': False, 'rt': 1, 'ts': ts, 'hash': h,
            'tps': [{'path': p, 'line': l, 'tag': t, 'args': {}} for p, l, t in tps]}


def _r(tag, line=10):
    return {'op': 'register', 'path': 'a.py', 'line': line, 'tag': tag, 'args': {}}


def preempt_templates():
    ap = {'op': 'applyTask', 'i': 0}
    return [
        # the poll thread stores a configuration while the application registers
        {'prefix': [], 'victim': _u('h1', 1000, ('a.py', 10, 's1')), 'intruder': _r('c1')},
        # ... while the application unregisters
        {'prefix': [_r('c1'), ap], 'victim': _u('h1', 1000, ('a.py', 10, 's1')),
         'intruder': {'op': 'unregister', 'handle': 0}},
        # a second configuration, two registrations live, one of them goes
        {'prefix': [_u('h1', 5, ('a.py', 10, 's1')), ap, _r('c1'), _r('c2', 11), ap, ap],
         'victim': _u('h2', 7, ('b.py', 10, 's2'), ('a.py', 10, 's3')), 'intruder': {'op': 'unregister', 'handle': 1}},
        # NO_CHANGE answer against a registration
        {'prefix': [_u('h1', 5, ('a.py', 10, 's1')), ap],
         'victim': {'op': 'poll', 'nc': True, 'rt': 0, 'ts': 9, 'hash': '', 'tps': []}, 'intruder': _r('c1')},
        # the application registers / unregisters while a configuration arrives
        {'prefix': [_u('h1', 5, ('a.py', 10, 's1')), ap], 'victim': _r('c1'),
         'intruder': _u('h2', 7, ('b.py', 10, 's2'))},
        {'prefix': [_r('c1'), _r('c2', 11), ap, ap], 'victim': {'op': 'unregister', 'handle': 0},
         'intruder': _u('h1', 7, ('b.py', 10, 's2'))},
    ]


def preempt_cases(kmax=24):
    out = []
    for t in preempt_templates():
        for k in range(1, kmax + 1):
            c = {'kind': 'preempt', 'k': k}
            c.update(t)
            out.append(c)
    return out


def preempt_oracle(case, obs):
    v = []
    if obs.get('bench_error'):
        return []
    ref = Reference()
    # handles are numbered in the order the calls RETURN: a parked victim returns after the intruder
    pair = [case['intruder'], case['victim']] if obs.get('reached') else [case['victim'], case['intruder']]
    for op in case['prefix'] + pair + case.get('then', []):
        ref.apply(op)
    # a register made by the victim may complete after the intruder's: handles are not compared, tags are
    where = f'victim {case["victim"]["op"]} parked before its line #{case["k"]} in tracepoint_config.py ' \
            f'({obs.get("where")}) while {case["intruder"]["op"]} ran to completion'
    for who in ('victim', 'intruder'):
        r = obs.get(who) or {}
        if 'raised' in r:
            v.append(f'{where}: {who} raised {r["raised"]}')
        if 'poll_raised' in r:
            v.append(f'{where}: poll raised {r["poll_raised"]}')
    if obs.get('task_raised'):
        v.append(f'{where}: apply task raised {obs["task_raised"]}')
    if obs.get('then_raised'):
        v.append(f'{where}: a later call raised {obs["then_raised"]}')
    if case.get('then'):
        where += ', then ' + ', '.join('%s %s' % (o['op'], o.get('handle', o.get('tag', ''))) for o in case['then'])
    f = obs.get('final')
    if f is None:
        return v
    if sorted(f['installed']) != ref.expected():
        v.append(f'{where}: after every apply task ran, installed {sorted(f["installed"])}; service configuration + '
                 f'live registrations = {ref.expected()}')
    if norm_hash(f['hash']) != norm_hash(ref.latest_hash):
        v.append(f'{where}: hash {f["hash"]!r}, the last configuration received has {ref.latest_hash!r}')
    if f.get('custom') is not None and sorted(f['custom']) != sorted(ref.live.values()):
        v.append(f'{where}: registered in code {sorted(f["custom"])}, expected {sorted(ref.live.values())}')
    return v


# ------------------------------------------------------------------ call forms + hits (judged by the oracle only)
FORMS = ['omitted', 'none', 'empty', 'nonempty']


def gen_hits(rng):
    regs = []
    for _ in range(rng.randint(1, 4)):
        path, line = rng.choice(LOCS)
        regs.append({'path': path, 'line': line,
                     'form': {k: rng.choice(FORMS) for k in ('args', 'watches', 'metrics')}})
    un = [i for i in range(len(regs)) if rng.random() < 0.25]
    return {'kind': 'hits', 'regs': regs, 'unregister': un}


def hits_oracle(case, obs):
    if obs.get('bench_error'):
        return []
    v = ['%s' % r for r in obs.get('raised', [])]
    live = [r for i, r in enumerate(case['regs']) if i not in case.get('unregister', [])]
    for loc, h in sorted((obs.get('hits') or {}).items()):
        here = [r for r in live if '%s:%d' % (r['path'], r['line']) == loc]
        if h['snapshots'] != len(here):
            v.append(f'one hit of {loc}: {h["snapshots"]} snapshot(s) handed to the push service; '
                     f'{len(here)} registration(s) are live there (call forms: {[r["form"] for r in here]})')
        want_w = sum(1 for r in here if r['form'].get('watches') == 'nonempty')
        if h['snapshots'] == len(here) and h['watch_results'] != want_w:
            v.append(f'one hit of {loc}: {h["watch_results"]} watch result(s), {want_w} registration(s) there have a watch')
    return v[:4]
