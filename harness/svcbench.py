"""svcbench — bench for C12 / C13: the REAL Deep object graph (ConfigService + TracepointConfigService + TaskHandler +
LongPoll + TriggerHandler and its update listener), with only the outward edges replaced:

  * the grpc channel is a FakeChannel scripted with one response (or failure) per poll; it records the
    `current_hash` of every PollRequest,
  * the ThreadPoolExecutor inside the real TaskHandler is a StepExecutor (`handler._pool = StepExecutor()`): every
    submitted callable gets its own worker thread, started only when the schedule says so,
  * three gates split a running `update_listeners` task into its four regions: a GateLock substituted for
    `svc._update_lock` (a task parks in front of the real lock), a GateListener put in front of the
    handler's listener (reached after the task took the update lock and read the polled configuration) and a wrapper
    at the entry of the real TriggerHandler.new_config (reached after the listener's argument — polled + custom as
    of then — was evaluated, before anything is stored); each blocks until the schedule releases it.

Ops (same JSON as the Lean driver, see Driver/ConfigSvcCommon.lean):
  poll {nc, rt, ts, hash, tps:[{path,line,tag,interp,conv,args}]}   pollFail {base, how}
  register {path,line,tag,args,interp}   unregister {handle}   taskStart {i}   taskRead {k}   taskCall {k}
  taskInstall {k}   applyTask {i}
Import only after core.use_repo().
"""
import os
import sys
import threading

import grpc
from concurrent.futures import Future

import core
core.use_repo()

from deep.api.deep import Deep, TracepointRegistration                 # noqa: E402
from deep.api.resource import Resource                                 # noqa: E402
from deep.config import ConfigService                                   # noqa: E402
from deep.config.tracepoint_config import TracepointConfigService, ConfigUpdateListener   # noqa: E402
from deepproto.proto.poll.v1.poll_pb2 import PollResponse               # noqa: E402
from deepproto.proto.tracepoint.v1.tracepoint_pb2 import TracePointConfig, Metric          # noqa: E402

WAIT = 20.0           # generous: a timeout here is an infrastructure error, never a verdict
BLOCK_PROBE = 0.25    # how long a task is given to show that it is NOT blocked on the update lock


class Job:
    def __init__(self, fn, args, future):
        self.fn, self.args, self.future = fn, args, future
        self.phase = 'queued'         # queued | pre | read | called | done — advanced by the schedule thread only
        self.at = None                # gate the worker thread is at (set by the worker): 'lock' | 0 | 1
        self.seen_at = None           # last gate arrival the schedule thread has consumed
        self.launched = False
        self.finished = False         # set by the worker thread
        self.gated = False
        self.thread = None
        self.held = None              # configuration seen at the gate
        # gate 'lock': in front of the update lock, gate 0: in the gate listener, gate 1: at new_config
        self.release = {'lock': threading.Event(), 0: threading.Event(), 1: threading.Event()}
        self.event = threading.Semaphore(0)     # signalled at gate arrival and at completion


class StepExecutor:
    """stands in for ThreadPoolExecutor: `submit` only queues; the schedule starts jobs explicitly."""

    def __init__(self):
        self.jobs = []
        self.hold_order = []      # jobs in the order the schedule let them read
        self.start_order = []     # jobs in the order the schedule started them
        self.local = threading.local()
        self.shutdown_called = False

    def submit(self, fn, *args, **kwargs):
        f = Future()
        self.jobs.append(Job(fn, args, f))
        return f

    def shutdown(self, wait=True, **kw):
        self.shutdown_called = True

    def _body(self, job):
        self.local.job = job
        job.future.set_running_or_notify_cancel()
        try:
            r = job.fn(*job.args)
        except BaseException as e:  # noqa: B902 — what a pool worker does
            job.future.set_exception(e)
        else:
            job.future.set_result(r)
        finally:
            job.finished = True
            job.event.release()

    def launch(self, job, gated):
        job.gated = gated
        job.launched = True
        job.thread = threading.Thread(target=self._body, args=(job,), daemon=True)
        job.thread.start()

    def current_job(self):
        return getattr(self.local, 'job', None)

    def waiting(self):
        """jobs the model still counts as queued: not started, or started but not yet past the lock"""
        return [j for j in self.jobs if j.phase == 'queued']

    def parked(self):
        """jobs that ran up to the update lock (in the order the schedule started them)"""
        return [j for j in self.start_order if j.phase == 'pre']

    def holders(self):
        return [j for j in self.hold_order if j.phase in ('read', 'called')]


class GateListener(ConfigUpdateListener):
    """gate 0: called by `update_listeners` before the handler's own listener, i.e. after the task took the lock and
    read the polled configuration, before it evaluates the argument for the handler's listener"""

    def __init__(self, executor):
        self.executor = executor

    def config_change(self, ts, old_hash, current_hash, old_config, new_config):
        gate(self.executor, 0, new_config)


def gate(executor, k, value):
    job = executor.current_job()
    if job is None or not job.gated:
        return
    job.held = list(value) if value is not None else None
    job.at = k
    job.event.release()
    if not job.release[k].wait(WAIT):
        raise TimeoutError('gate %s not released' % k)


class GateLock:
    """stands in for `TracepointConfigService._update_lock`: a task arriving at `with self._update_lock:` parks in
    front of the real lock until the schedule lets it try to take it"""

    def __init__(self, executor, real):
        self.executor, self.real = executor, real

    def __enter__(self):
        gate(self.executor, 'lock', None)
        self.real.acquire()
        return self

    def __exit__(self, *exc):
        self.real.release()
        return False

    def acquire(self, blocking=True, timeout=-1):
        gate(self.executor, 'lock', None)
        if blocking and timeout is not None and timeout >= 0:
            # an acquire that can GIVE UP: no wall clock here — if it would have to wait, its timeout is taken to have
            # expired at once (the holder may be parked by the schedule for as long as it likes)
            got = self.real.acquire(False)
            if not got:
                self.gave_up = getattr(self, 'gave_up', 0) + 1
            return got
        return self.real.acquire(blocking, timeout)

    def release(self):
        return self.real.release()

    def locked(self):
        return self.real.locked()


def gate_new_config(executor, handler):
    """gate 1: at the entry of the real TriggerHandler.new_config (argument evaluated, nothing stored yet)"""
    real = handler.new_config

    def new_config(cfg):
        gate(executor, 1, cfg)
        return real(cfg)
    handler.new_config = new_config


class FakeChannel:
    """what LongPoll.poll needs from a grpc channel; the next answer is scripted by the bench."""

    def __init__(self):
        self.next = None
        self.hashes = []
        self.calls = 0

    def unary_unary(self, method, request_serializer=None, response_deserializer=None, **kw):
        def call(request, metadata=None, **kw2):
            self.calls += 1
            self.hashes.append(request.current_hash)
            kind, val = self.script()
            if kind == 'raise':
                raise val
            return val
        return call

    def script(self):
        return self.next


class RpcFailure(Exception):
    """stands for grpc.RpcError (an Exception subclass)"""


class NoArgsRpc(grpc.RpcError):
    """an RpcError raised without arguments"""


class BadStr(Exception):
    """an exception that cannot be rendered"""

    def __str__(self):
        raise ValueError('no text for this error')

    __repr__ = __str__


def poll_failure(how):
    """the exception a failing `stub.poll` raises (all are Exception subclasses)"""
    if how == 'noargs':
        return TimeoutError()
    if how == 'keyerror':
        return KeyError()
    if how == 'rpc_noargs':
        return NoArgsRpc()
    if how == 'badstr':
        return BadStr('x')
    if how == 'oserror':
        return ConnectionResetError(104, 'Connection reset by peer')
    return RpcFailure('unavailable')


FAIL_HOW = ['rpc', 'garbage', 'bad_update', 'noargs', 'keyerror', 'rpc_noargs', 'badstr', 'oserror']


def garbage_response(how):
    """what the stub hands back instead of a PollResponse: nothing at all, or something that says UPDATE and carries a
    hash but whose tracepoint list cannot even be iterated (the conversion of the response as a whole raises)"""
    if how == 'bad_update':
        import types
        return types.SimpleNamespace(response_type=1, ts_nanos=7, current_hash='hash-of-garbage', response=None)
    return None


class Interrupt(BaseException):
    """a BaseException that is not an Exception"""


def trig_key(path, line, tag):
    return [path, line, tag]


def flatten(triggers):
    out = []
    for t in triggers:
        if t is None:
            out.append(['<None>', 0, '<None>'])
            continue
        for a in t.actions:
            w = a.config.get('watches') or []
            if w:                       # every generated tracepoint carries its tag as its one watch; the extra
                out.append([t.path, t.line, w[0]])      # span / log actions of the same tracepoint carry none
    return out


def kind_args(d):
    """tracepoint arguments for the kind of location: a line (default), a method by name (`method_name`), or the
    enclosing function of the line (`span: method`) — the last two make a FunctionLocation (line -1)"""
    args = dict(d.get('args') or {})
    if d.get('kind') == 'method':
        args['method_name'] = 'fn_' + str(d['line'])
    elif d.get('kind') == 'function':
        args['span'] = 'method'
    if not d.get('interp', True):
        args['stage'] = 'no_such_stage'
    return args


def make_response(op):
    tps = []
    for tp in op.get('tps', []):
        args = kind_args(tp)
        metrics = [] if tp.get('conv', True) else [Metric(name='m', type=99)]
        tps.append(TracePointConfig(ID='id-' + tp['tag'], path=tp['path'], line_number=tp['line'], args=args,
                                    watches=[tp['tag']], metrics=metrics))
    return PollResponse(ts_nanos=op.get('ts', 0), current_hash=op.get('hash', ''), response=tps,
                        response_type=op.get('rt', 0 if op.get('nc') else 1))


class FallbackTaskHandler:
    """used only when the real TaskHandler has no `_pool` to substitute: the public contract of a task handler
    (`submit_task(fn, *args) -> Future`) on top of the step executor"""

    def __init__(self, executor):
        self.executor = executor

    def submit_task(self, task, *args):
        return self.executor.submit(task, *args)

    def flush(self):
        pass


class LastDelivered(ConfigUpdateListener):
    """added after the handler's own listener (public `add_listener`): remembers the last configuration delivered —
    the fallback way to see what is installed when the handler's list is not where we know it"""

    def __init__(self):
        self.last = []

    def config_change(self, ts, old_hash, current_hash, old_config, new_config):
        self.last = list(new_config)


class SvcBench:
    """Everything is wired through public API (ConfigService(custom, tracepoints=…), config.add_listener,
    Deep(config), register_tracepoint / unregister, LongPoll.poll, the `current_hash` / `current_config` properties,
    TriggerHandler.new_config).  The few private attributes that make the bench sharper (the pool inside the
    TaskHandler, the update lock, the custom list, the handler's installed list) are probed with getattr; when one is
    not there the bench goes on without it and says so in `degraded`."""

    def __init__(self, poll_timer=None):
        self.degraded = []
        cfg = {'SERVICE_URL': 'unused.invalid:1', 'SERVICE_SECURE': 'False', 'APP_ROOT': '/app'}
        if poll_timer is not None:
            cfg['POLL_TIMER'] = poll_timer
        self.exec = StepExecutor()
        self.tps = TracepointConfigService()
        self.config = ConfigService(cfg, tracepoints=self.tps)
        self.config.resource = Resource.get_empty()
        # our gate listener first, then Deep() lets the trigger handler add its own: ours is called before it
        self.gate = GateListener(self.exec)
        self.config.add_listener(self.gate)
        self.deep = Deep(self.config)
        self.last = LastDelivered()
        self.config.add_listener(self.last)
        th = self.deep.task_handler
        pool = getattr(th, '_pool', None)
        if pool is not None and hasattr(pool, 'submit'):
            try:
                pool.shutdown(wait=False)
            except Exception:
                pass
            th._pool = self.exec
        else:
            self.degraded.append('TaskHandler has no _pool: a stand-in task handler is given to the config service')
            self.config.set_task_handler(FallbackTaskHandler(self.exec))
        self.channel = FakeChannel()
        self.deep.grpc.channel = self.channel
        try:
            gate_new_config(self.exec, self.deep.trigger_handler)
        except Exception as e:
            self.degraded.append('no gate at TriggerHandler.new_config: %s' % type(e).__name__)
        lock = getattr(self.tps, '_update_lock', None)
        if lock is not None and hasattr(lock, 'acquire') and hasattr(lock, 'release'):
            self.tps._update_lock = GateLock(self.exec, lock)
        else:
            self.degraded.append('no _update_lock to put a gate in front of')
        self.handles = []

    # ---- observation
    def _safe(self, fn, what, default=None):
        try:
            return fn()
        except BaseException as e:  # noqa: B902
            note = f'{what} not observable ({type(e).__name__})'
            if note not in self.degraded:
                self.degraded.append(note)
            return default

    def installed(self):
        tp = getattr(self.deep.trigger_handler, '_tp_config', None)
        if isinstance(tp, list):
            return self._safe(lambda: flatten(tp), 'installed list', [])
        if 'handler._tp_config is gone: installed = last configuration delivered to a listener' not in self.degraded:
            self.degraded.append('handler._tp_config is gone: installed = last configuration delivered to a listener')
        return self._safe(lambda: flatten(self.last.last), 'delivered configuration', [])

    def custom(self):
        c = getattr(self.tps, '_custom', None)
        if isinstance(c, list):
            return self._safe(lambda: flatten(c), 'custom list')
        if 'custom list not observable (not a plain list any more)' not in self.degraded:
            self.degraded.append('custom list not observable (not a plain list any more)')
        return None

    def snapshot(self):
        return {'hash': self._safe(lambda: self.tps.current_hash, 'current_hash'),
                'queued': len(self.exec.waiting()),
                'pre': len(self.exec.parked()), 'holding': len(self.exec.holders()),
                'installed': self.installed(),
                'custom': self.custom(),
                'custom_n': (len(self.tps._custom) if isinstance(getattr(self.tps, '_custom', None), list) else None),
                'custom_ids_n': (len(self.tps._custom_ids) if isinstance(getattr(self.tps, '_custom_ids', None), list)
                                 else None),
                'polled': self._safe(lambda: flatten(self.tps.current_config), 'current_config', [])}

    # ---- ops
    def do(self, op):
        """returns the op's own visible result (dict); exceptions of the implementation are returned as data"""
        k = op['op']
        if k in ('poll', 'pollFail'):
            if k == 'poll':
                self.channel.next = ('resp', make_response(op))
            elif op.get('how') in ('garbage', 'bad_update'):
                self.channel.next = ('resp', garbage_response(op.get('how')))
            else:
                self.channel.next = ('raise', Interrupt('stop') if op.get('base') else poll_failure(op.get('how')))
            n = len(self.channel.hashes)
            res = {}
            try:
                self.deep.poll.poll()
            except BaseException as e:  # noqa: B902
                res['poll_raised'] = type(e).__name__
            res['req_hash'] = self.channel.hashes[n] if len(self.channel.hashes) > n else '<no request>'
            return res
        if k == 'register':
            args = kind_args(op)
            try:
                reg = self.deep.register_tracepoint(op['path'], op['line'], args, [op['tag']])
            except BaseException as e:  # noqa: B902
                self.handles.append(None)
                return {'raised': f'{type(e).__name__}: {e}'}
            self.handles.append(reg)
            return {'handle': len(self.handles) - 1, 'is_registration': isinstance(reg, TracepointRegistration)}
        if k == 'unregister':
            h = op['handle']
            reg = self.handles[h] if h < len(self.handles) else TracepointRegistration('never-issued-%d' % h, self.tps)
            if reg is None:
                return {}
            try:
                reg.unregister()
            except BaseException as e:  # noqa: B902
                return {'raised': f'{type(e).__name__}: {e}'}
            return {}
        if k == 'applyTask':
            w = self.exec.waiting()
            if op['i'] >= len(w):
                return {'moved': False}
            job = w[op['i']]
            if job.launched:
                raise core.Infra('schedule asks to run a task atomically that is already blocked on the lock')
            contended = len(self.exec.holders()) > 0
            self.exec.launch(job, gated=False)
            if not job.event.acquire(timeout=BLOCK_PROBE if contended else WAIT):
                if contended:
                    return {'moved': False}      # blocked on the update lock
                raise core.Infra('apply task did not finish in %s s' % WAIT)
            job.thread.join(WAIT)
            job.phase = 'done'
            res = {'moved': True}
            if job.future.exception() is not None:
                res['task_raised'] = type(job.future.exception()).__name__
            return res
        if k == 'taskStart':
            w = self.exec.waiting()
            if op['i'] >= len(w):
                return {'moved': False}
            job = w[op['i']]
            self.exec.launch(job, gated=True)
            if not job.event.acquire(timeout=WAIT):
                raise core.Infra('task did not reach the update lock in %s s' % WAIT)
            if job.finished:
                job.phase = 'done'
                return {'moved': True, 'ran_through': True}
            job.phase = 'pre'            # at the lock gate (or, if the code takes no lock, already at the listener)
            job.seen_at = job.at         # the worker is parked there: the gate whose arrival we have consumed
            self.exec.start_order.append(job)
            return {'moved': True}
        if k == 'taskRead':
            w = self.exec.parked()
            if op['k'] >= len(w):
                return {'moved': False}
            job = w[op['k']]
            contended = len(self.exec.holders()) > 0
            # decide on what THIS thread has seen (job.seen_at), never on job.at: the worker may already have moved on
            # (a task that was blocked on the lock arrives at the listener by itself once the lock is free) and its
            # arrival must still be consumed here, or the next step would take it for its own
            if job.seen_at == 'lock':
                job.release['lock'].set()
                if not job.event.acquire(timeout=BLOCK_PROBE if contended else WAIT):
                    if not contended:
                        raise core.Infra('task did not reach the listener in %s s' % WAIT)
                    return {'moved': False}          # blocked on the update lock
                if job.finished:
                    job.phase = 'done'
                    return {'moved': True, 'ran_through': True}
                job.seen_at = job.at
            job.phase = 'read'
            self.exec.hold_order.append(job)
            return {'moved': True}
        if k == 'taskCall':
            hs = self.exec.holders()
            if op['k'] >= len(hs) or hs[op['k']].phase != 'read':
                return {'moved': False}
            job = hs[op['k']]
            job.release[0].set()
            if not job.event.acquire(timeout=WAIT):
                raise core.Infra('task did not reach new_config after gate 0 was released')
            if job.finished:
                job.phase = 'done'
                return {'moved': True, 'ran_through': True}
            job.phase = 'called'
            return {'moved': True}
        if k == 'taskInstall':
            hs = self.exec.holders()
            if op['k'] >= len(hs) or hs[op['k']].phase != 'called':
                return {'moved': False}
            job = hs[op['k']]
            job.release[1].set()
            if not job.event.acquire(timeout=WAIT):
                raise core.Infra('task did not finish after its gate was released')
            job.thread.join(WAIT)
            job.phase = 'done'
            res = {'moved': True}
            if job.future.exception() is not None:
                res['task_raised'] = type(job.future.exception()).__name__
            return res
        raise core.Infra('unknown op ' + k)

    def close(self):
        """let every thread go"""
        for j in self.exec.jobs:
            for e in j.release.values():
                e.set()
        for j in self.exec.jobs:
            if j.thread is not None:
                j.thread.join(2)


def run_ops(ops, poll_timer=None):
    b = SvcBench(poll_timer)
    trace = []
    try:
        for op in ops:
            r = b.do(op)
            r.update(b.snapshot())
            trace.append(r)
        return {'trace': trace, 'degraded': list(b.degraded)}
    except core.Infra:
        raise
    except BaseException as e:  # noqa: B902 — the bench itself tripped over the implementation: data, not a crash
        import traceback
        return {'trace': trace, 'degraded': list(b.degraded),
                'bench_error': f'{type(e).__name__}: {e} @ ' + ' <- '.join(
                    f'{f.name}:{f.lineno}' for f in reversed(traceback.extract_tb(e.__traceback__)[-3:]))}
    finally:
        b.close()


def run_backlog(case):
    """SCALE: `n` filler tasks are handed to the REAL TaskHandler first and stay queued (the step executor starts nothing
    by itself), then the ops (poll answers, register, unregister) are made behind that backlog, then everything is
    released in submission order: fillers complete at once, apply tasks run.  Final state only."""
    b = SvcBench()
    out = {'degraded': list(b.degraded), 'raised': []}
    try:
        th = b.deep.task_handler
        fill = []
        for _ in range(case['n']):
            try:
                fill.append(th.submit_task(_filler))
            except BaseException as e:  # noqa: B902
                out['raised'].append(f'filler: {type(e).__name__}')
                break
        out['pending_at_ops'] = len(getattr(th, '_pending', ()) or ())
        for op in case['ops']:
            r = b.do(op)
            if 'raised' in r or 'poll_raised' in r:
                out['raised'].append(f'{op["op"]}: {r.get("raised") or r.get("poll_raised")}')
        out['queued_after_ops'] = len([j for j in b.exec.jobs if j.fn is not _filler])
        for j in list(b.exec.jobs):
            if j.fn is _filler and j.phase == 'queued':
                j.phase = 'done'
                j.finished = True
                j.future.set_running_or_notify_cancel()
                j.future.set_result(None)
        n = 0
        while b.exec.waiting() and n < 500:
            r = b.do({'op': 'applyTask', 'i': 0})
            if 'task_raised' in r:
                out['raised'].append('apply task: ' + r['task_raised'])
            n += 1
        out['final'] = b.snapshot()
        out['degraded'] = list(b.degraded)
        return out
    except core.Infra:
        raise
    except BaseException as e:  # noqa: B902
        out['bench_error'] = f'{type(e).__name__}: {e}'
        return out
    finally:
        b.close()


def _filler():
    return None


def run_closed(case):
    """`ops` while the task handler accepts work (every apply task is then run), the real TaskHandler.flush(), then the
    `closed` register / unregister calls through the real Deep API; state after each."""
    b = SvcBench()
    out = {'trace': [], 'closed_trace': [], 'degraded': list(b.degraded)}
    try:
        for op in case['ops']:
            r = b.do(op)
            r.update(b.snapshot())
            out['trace'].append(r)
        n = 0
        while b.exec.waiting() and n < 100:
            b.do({'op': 'applyTask', 'i': 0})
            n += 1
        try:
            b.deep.task_handler.flush()
        except BaseException as e:  # noqa: B902
            out['flush_raised'] = type(e).__name__
        out['at_close'] = b.snapshot()
        for op in case['closed']:
            r = b.do(op)
            r.update(b.snapshot())
            out['closed_trace'].append(r)
        out['degraded'] = list(b.degraded)
        return out
    except core.Infra:
        raise
    except BaseException as e:  # noqa: B902
        out['bench_error'] = f'{type(e).__name__}: {e}'
        return out
    finally:
        b.close()


# ------------------------------------------------------------------ line-granular preemption (no model region)
CONFIG_FILE = os.path.join('config', 'tracepoint_config.py')


class ParkAtLine:
    """trace hook for the victim thread: park just before the k-th line it executes inside
    deep/config/tracepoint_config.py"""

    def __init__(self, k):
        self.k = k
        self.steps = 0
        self.parked = threading.Event()
        self.release = threading.Event()
        self.where = None

    def __call__(self, frame, event, arg):
        if not frame.f_code.co_filename.endswith(CONFIG_FILE):
            return None
        return self.local

    def local(self, frame, event, arg):
        if event == 'line':
            self.steps += 1
            if self.steps == self.k:
                self.where = '%s:%s' % (frame.f_code.co_name, frame.f_lineno)
                self.parked.set()
                self.release.wait(WAIT)
        return self.local


def run_preempt(case):
    """prefix ops (run normally), then the `victim` op on its own thread, parked before the k-th line it executes in
    tracepoint_config.py while the `intruder` op runs to completion on this thread; then every apply task is run.
    Returns the final public state; not modelled (the Lean model has no regions inside these methods)."""
    b = SvcBench()
    out = {'reached': False, 'where': None}
    try:
        for op in case['prefix']:
            b.do(op)
        park = ParkAtLine(case['k'])
        finished = threading.Event()
        res = {}

        def victim():
            sys.settrace(park)
            try:
                res['victim'] = b.do(case['victim'])
            except BaseException as e:  # noqa: B902
                res['victim'] = {'raised': f'{type(e).__name__}: {e}'}
            finally:
                sys.settrace(None)
                finished.set()
                park.parked.set()
        t = threading.Thread(target=victim, daemon=True)
        t.start()
        if not park.parked.wait(WAIT):
            raise core.Infra('victim thread neither parked nor finished')
        out['reached'] = not finished.is_set()
        out['where'] = park.where
        try:
            res['intruder'] = b.do(case['intruder'])
        except BaseException as e:  # noqa: B902
            res['intruder'] = {'raised': f'{type(e).__name__}: {e}'}
        park.release.set()
        t.join(WAIT)
        if t.is_alive():
            raise core.Infra('victim thread did not end')
        def drain():
            n = 0
            while b.exec.waiting() and n < 50:
                r = b.do({'op': 'applyTask', 'i': 0})
                if 'task_raised' in r:
                    res.setdefault('task_raised', []).append(r['task_raised'])
                n += 1
        drain()
        for op in case.get('then', []):          # follow-up calls, made one after the other
            r = b.do(op)
            if 'raised' in r:
                res.setdefault('then_raised', []).append(r['raised'])
        drain()
        out.update({'then_raised': res.get('then_raised', []), 'victim': res.get('victim'), 'intruder': res.get('intruder'),
                    'task_raised': res.get('task_raised', []), 'final': b.snapshot(), 'degraded': list(b.degraded)})
        return out
    except core.Infra:
        raise
    except BaseException as e:  # noqa: B902
        out.update({'bench_error': f'{type(e).__name__}: {e}', 'degraded': list(b.degraded)})
        return out
    finally:
        b.close()


# ------------------------------------------------------------------ minimal call forms + real hits (oracle only)
def _form_kwargs(form):
    from deep.api.tracepoint.tracepoint_config import MetricDefinition
    kw = {}
    vals = {'args': {'fire_period': '0'}, 'watches': ['x + 1'], 'metrics': [MetricDefinition('m', 'COUNTER')]}
    empty = {'args': {}, 'watches': [], 'metrics': []}
    for name in ('args', 'watches', 'metrics'):
        f = form.get(name, 'omitted')
        if f == 'none':
            kw[name] = None
        elif f == 'empty':
            kw[name] = type(empty[name])()
        elif f == 'nonempty':
            kw[name] = vals[name]
    return kw


def run_hits(case):
    """registrations through the real Deep.register_tracepoint in every call form (each of args / watches / metrics
    omitted, None, empty or given), some unregistered again, every apply task run; then each location is hit once
    through the real TriggerHandler.trace_call and the snapshots handed to the push service are counted."""
    import rig
    b = SvcBench()
    out = {'raised': [], 'degraded': list(b.degraded)}
    try:
        pushed = []
        b.deep.push.push_snapshot = lambda s: pushed.append(s)
        regs = []
        for r in case['regs']:
            try:
                regs.append(b.deep.register_tracepoint(r['path'], r['line'], **_form_kwargs(r.get('form', {}))))
            except BaseException as e:  # noqa: B902
                regs.append(None)
                out['raised'].append(f'register {r}: {type(e).__name__}: {e}')
        for i in case.get('unregister', []):
            try:
                if regs[i] is not None:
                    regs[i].unregister()
            except BaseException as e:  # noqa: B902
                out['raised'].append(f'unregister {i}: {type(e).__name__}: {e}')
        n = 0
        while b.exec.waiting() and n < 100:
            b.do({'op': 'applyTask', 'i': 0})
            n += 1
        hits = {}
        for path, line in sorted({(r['path'], r['line']) for r in case['regs']}):
            before = len(pushed)
            try:
                b.deep.trigger_handler.trace_call(rig.MockFrame('/app/' + path, 'fn', line, {'x': 1}), 'line', None)
            except BaseException as e:  # noqa: B902
                out['raised'].append(f'trace_call {path}:{line}: {type(e).__name__}: {e}')
            new = pushed[before:]
            hits['%s:%d' % (path, line)] = {'snapshots': len(new),
                                            'watch_results': sum(len(s.watches) for s in new)}
        out['hits'] = hits
        return out
    except core.Infra:
        raise
    except BaseException as e:  # noqa: B902
        out['bench_error'] = f'{type(e).__name__}: {e}'
        return out
    finally:
        b.close()


# ------------------------------------------------------------------ the poll thread under a gated Event (C12)
class GateEvent:
    """stands in for `RepeatedTimer.event` (a threading.Event): `wait(timeout)` parks the poll thread until the
    schedule lets the wait time out (returns False) or `set()` is called (returns True) — no wall clock anywhere"""

    def __init__(self):
        self.flag = False
        self.arrived = threading.Semaphore(0)
        self.go = threading.Semaphore(0)
        self.timeouts = []

    def wait(self, timeout=None):
        self.timeouts.append(timeout)
        if timeout is not None and timeout > threading.TIMEOUT_MAX:
            raise OverflowError('timeout value is too large')      # what threading.Event.wait does with inf
        if self.flag:
            return True
        self.arrived.release()
        if not self.go.acquire(timeout=WAIT):
            raise TimeoutError('gate event not released')
        return self.flag

    def set(self):
        self.flag = True
        self.go.release()

    def is_set(self):
        return self.flag

    def clear(self):
        self.flag = False


BASE_HOW = {'interrupt': lambda: Interrupt('stop'), 'keyboard': KeyboardInterrupt, 'systemexit': lambda: SystemExit(3)}


def run_thread(case):
    """the REAL RepeatedTimer thread (made exactly as LongPoll.start makes it, minus the inline first poll) running the
    REAL LongPoll.poll; its Event is a GateEvent, so every pass of the loop is one `tick` of the schedule.  `flush` runs
    every waiting apply task and then the real TaskHandler.flush(); `stop` is the real LongPoll.shutdown()."""
    from deep.utils import RepeatedTimer
    b = SvcBench()
    out = {'trace': [], 'degraded': list(b.degraded)}
    deaths = {}
    old_hook = threading.excepthook
    threading.excepthook = lambda a: deaths.__setitem__(a.thread.name if a.thread else '?', a.exc_type)
    ge = GateEvent()
    timer = None
    try:
        interval = case.get('interval', 0.05)
        timer = RepeatedTimer('Tracepoint Long Poll', interval, b.deep.poll.poll)
        if not hasattr(timer, 'event') or not hasattr(timer, 'thread'):
            out['skipped'] = 'RepeatedTimer has no event/thread attribute to gate'
            return out
        timer.event = ge
        b.deep.poll.timer = timer
        thread = timer.thread
        stopped = [False]

        def settle():
            """wait until the thread is parked in the gate again, or has ended"""
            import time as _t
            deadline = _t.time() + WAIT
            while not ge.arrived.acquire(timeout=0.005):
                if not thread.is_alive():
                    return False
                if _t.time() > deadline:
                    raise core.Infra('poll thread neither came back to its wait nor ended in %s s' % WAIT)
            return True
        timer.start()
        parked = settle()
        for ev in case['evs']:
            r = {}
            k = ev['ev']
            restore = None
            if k == 'tick':
                if parked and not stopped[0]:
                    op = ev['op']
                    if op['op'] == 'poll':
                        b.channel.next = ('resp', make_response(op))
                    elif op.get('how') in ('garbage', 'bad_update'):
                        b.channel.next = ('resp', garbage_response(op.get('how')))
                    elif op.get('how') == 'metadata':
                        # a failure BEFORE the send: grpc.metadata() raises while the arguments of stub.poll are evaluated
                        real_md = b.deep.grpc.metadata

                        def failing_md(*a, **k):
                            raise RpcFailure('no credentials')
                        b.deep.grpc.metadata = failing_md
                        restore = lambda: setattr(b.deep.grpc, 'metadata', real_md)   # noqa: E731
                        b.channel.next = ('resp', make_response({'op': 'poll', 'nc': True, 'rt': 0, 'tps': []}))
                    elif op.get('base'):
                        b.channel.next = ('raise', BASE_HOW[op.get('how', 'interrupt')]())
                    else:
                        b.channel.next = ('raise', poll_failure(op.get('how')))
                    ge.go.release()
                    parked = settle()
                    if restore is not None:
                        restore()
            elif k == 'flush':
                n = 0
                while b.exec.waiting() and n < 100:
                    b.do({'op': 'applyTask', 'i': 0})
                    n += 1
                try:
                    b.deep.task_handler.flush()
                except BaseException as e:  # noqa: B902
                    r['raised'] = f'{type(e).__name__}: {e}'
            elif k == 'stop':
                try:
                    b.deep.poll.shutdown()
                except BaseException as e:  # noqa: B902
                    r['raised'] = f'{type(e).__name__}: {e}'
                if ge.flag:
                    stopped[0] = True
                    thread.join(WAIT)
                    if thread.is_alive():
                        raise core.Infra('poll thread did not end after its event was set')
                # (an implementation whose shutdown() does not set the event leaves the thread parked: it goes on)
                parked = parked and thread.is_alive()
            else:
                raise core.Infra('unknown event ' + k)
            alive = thread.is_alive()
            died = None
            if not alive and not stopped[0] or (not alive and thread.name in deaths):
                et = deaths.get(thread.name)
                died = 'exc' if (et is not None and issubclass(et, Exception)) else 'base'
            r.update({'alive': alive, 'issued': b.channel.calls, 'sent': list(b.channel.hashes), 'died': died,
                      'hash': b._safe(lambda: b.tps.current_hash, 'current_hash'),
                      'polled': b._safe(lambda: flatten(b.tps.current_config), 'current_config', []),
                      'queued': len(b.exec.waiting()),
                      'handler_open': getattr(b.deep.task_handler, '_open', None)})
            out['trace'].append(r)
        out['timeouts'] = [t for t in ge.timeouts]
        out['interval'] = float(interval)
        out['degraded'] = list(b.degraded)
        return out
    except core.Infra:
        raise
    except BaseException as e:  # noqa: B902
        out['bench_error'] = f'{type(e).__name__}: {e}'
        return out
    finally:
        ge.set()
        if timer is not None and getattr(timer, 'thread', None) is not None and timer.thread.is_alive():
            timer.thread.join(2)
        threading.excepthook = old_hook
        b.close()
