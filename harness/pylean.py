"""pylean — a small translator from a pure subset of Python (read with `ast` from /repo's *current*
sources) to shallow Lean 4 definitions.

It is the (T) tie of DESIGN.md §2: the decision functions of the agent (rate limit check, window
check, location matching, app-frame test, truncation, ...) are not re-typed by hand in the model;
their Lean definitions are *regenerated from the source on every run*, the theorems in `Props/` are
stated about the regenerated definitions, and the driver executes the regenerated definitions, so the
correspondence check also validates this translator against the real code.

Supported subset (anything else raises `Untranslatable`, which the caller reports as a broken tie for
the properties that depend on the function — never silently skipped):

  statements : `if/elif/else`, `return e`, `x = e` (local), `for x in xs: if c: return e` (search
               loop), docstrings / `pass`; a statement list is translated in continuation-passing style so
               early returns and fall-through work;
  expressions: int / str / bool / None literals, names, `a.b.c` attribute paths and calls through a
               substitution table, `and`/`or`/`not`, (chained) comparisons `== != < <= > >=`,
               `in` / `not in` against list/tuple displays or names, `+ - *` on ints, unary `-`,
               tuples, `s.startswith(p)`, `s.lower()`, `s.strip()`, `len(s)`, slices `s[:n]`, `s[n:]`.

Typing is supplied by the caller: the Lean signature is given verbatim, attribute paths / calls are
mapped through `subst` (exact `ast.unparse` text -> Lean text) and `calls` (`ast.unparse(func)` ->
callable(list of translated args) -> Lean text).  Python `int` is Lean `Int`, `str` is `String`,
`bool` is `Bool`, conditions are `Bool`.
"""
import ast
import os
import textwrap

REPO = os.environ.get('VERIF_REPO', '/repo')


class Untranslatable(Exception):
    pass


def load(relpath):
    path = os.path.join(REPO, relpath)
    with open(path, encoding='utf-8') as f:
        src = f.read()
    return ast.parse(src, filename=path)


def find_def(tree, qualname):
    """find `Class.method` / `func` / `Outer.Inner.method` in a module AST."""
    parts = qualname.split('.')
    body = tree.body
    node = None
    for p in parts:
        node = None
        for n in body:
            if isinstance(n, (ast.FunctionDef, ast.ClassDef)) and n.name == p:
                node = n
                break
        if node is None:
            raise Untranslatable(f'definition {qualname} not found')
        body = node.body
    return node


def lean_str(s):
    out = ['"']
    for ch in s:
        if ch == '"':
            out.append('\\"')
        elif ch == '\\':
            out.append('\\\\')
        elif ch == '\n':
            out.append('\\n')
        elif ch == '\t':
            out.append('\\t')
        elif ord(ch) < 32 or ord(ch) == 127:
            out.append('\\x%02x' % ord(ch))
        else:
            out.append(ch)
    out.append('"')
    return ''.join(out)


def module_constants(tree):
    """top-level `NAME = <str|int|list of names/strs>` assignments, evaluated in order."""
    env = {}
    for n in tree.body:
        if isinstance(n, ast.Assign) and len(n.targets) == 1 and isinstance(n.targets[0], ast.Name):
            try:
                env[n.targets[0].id] = _const_eval(n.value, env)
            except Untranslatable:
                pass
        elif isinstance(n, ast.AugAssign) and isinstance(n.target, ast.Name) and isinstance(n.op, ast.Add):
            try:
                env[n.target.id] = env[n.target.id] + _const_eval(n.value, env)
            except (Untranslatable, KeyError, TypeError):
                pass
    return env


def _const_eval(node, env):
    if isinstance(node, ast.Constant) and isinstance(node.value, (str, int, bool, float, type(None))):
        return node.value
    if isinstance(node, ast.UnaryOp) and isinstance(node.op, ast.USub):
        return -_const_eval(node.operand, env)
    if isinstance(node, ast.Name) and node.id in env:
        return env[node.id]
    if isinstance(node, (ast.List, ast.Tuple)):
        return [_const_eval(e, env) for e in node.elts]
    raise Untranslatable(ast.dump(node))


def lean_const(v):
    if isinstance(v, bool):
        return 'true' if v else 'false'
    if isinstance(v, int):
        return f'({v} : Int)' if v < 0 else f'({v} : Int)'
    if isinstance(v, str):
        return lean_str(v)
    if isinstance(v, list):
        return '[' + ', '.join(lean_const(x) for x in v) + ']'
    raise Untranslatable(repr(v))


def lean_const_type(v):
    if isinstance(v, bool):
        return 'Bool'
    if isinstance(v, int):
        return 'Int'
    if isinstance(v, str):
        return 'String'
    if isinstance(v, list):
        if not v:
            return 'List String'
        return 'List ' + lean_const_type(v[0])
    raise Untranslatable(repr(v))


class Translator:
    """translate one function body.

    subst : dict  ast.unparse(expr) -> Lean text   (checked first, on every sub-expression)
    calls : dict  ast.unparse(call.func) -> fn(args: list[str]) -> Lean text
    names : dict  python local / constant name -> Lean text (default: same identifier)
    ret   : optional fn(lean_text, node) -> Lean text applied to every returned expression
    """

    def __init__(self, subst=None, calls=None, names=None, ret=None, none='none'):
        self.subst = subst or {}
        self.calls = calls or {}
        self.names = names or {}
        self.ret = ret
        self.none = none

    # ---- expressions -------------------------------------------------------------------------
    def expr(self, n):
        key = ast.unparse(n)
        if key in self.subst:
            return self.subst[key]
        m = getattr(self, 'e_' + type(n).__name__, None)
        if m is None:
            raise Untranslatable(f'expression {type(n).__name__}: {key}')
        return m(n)

    def e_Constant(self, n):
        v = n.value
        if v is None:
            return self.none
        if isinstance(v, bool):
            return 'true' if v else 'false'
        if isinstance(v, int):
            return f'({v} : Int)'
        if isinstance(v, str):
            return lean_str(v)
        raise Untranslatable(f'constant {v!r}')

    def e_Name(self, n):
        return self.names.get(n.id, n.id)

    def e_Attribute(self, n):
        raise Untranslatable(f'attribute path {ast.unparse(n)} has no substitution')

    def e_UnaryOp(self, n):
        if isinstance(n.op, ast.Not):
            return f'(!{self.expr(n.operand)})'
        if isinstance(n.op, ast.USub):
            if isinstance(n.operand, ast.Constant) and isinstance(n.operand.value, int):
                return f'(-{n.operand.value} : Int)'
            return f'(-{self.expr(n.operand)})'
        raise Untranslatable(ast.unparse(n))

    def e_BoolOp(self, n):
        op = ' && ' if isinstance(n.op, ast.And) else ' || '
        return '(' + op.join(self.expr(v) for v in n.values) + ')'

    def e_BinOp(self, n):
        ops = {ast.Add: '+', ast.Sub: '-', ast.Mult: '*'}
        for k, v in ops.items():
            if isinstance(n.op, k):
                return f'({self.expr(n.left)} {v} {self.expr(n.right)})'
        raise Untranslatable(ast.unparse(n))

    def _cmp(self, op, a, b, bnode):
        if isinstance(op, ast.Eq):
            return f'({a} == {b})'
        if isinstance(op, ast.NotEq):
            return f'({a} != {b})'
        if isinstance(op, ast.Lt):
            return f'decide ({a} < {b})'
        if isinstance(op, ast.LtE):
            return f'decide ({a} ≤ {b})'
        if isinstance(op, ast.Gt):
            return f'decide ({a} > {b})'
        if isinstance(op, ast.GtE):
            return f'decide ({a} ≥ {b})'
        if isinstance(op, ast.In):
            return f'(List.contains {b} {a})'
        if isinstance(op, ast.NotIn):
            return f'(!(List.contains {b} {a}))'
        if isinstance(op, ast.Is):
            return f'({a} == {b})'
        if isinstance(op, ast.IsNot):
            return f'({a} != {b})'
        raise Untranslatable(type(op).__name__)

    def e_Compare(self, n):
        parts = []
        left = n.left
        for op, right in zip(n.ops, n.comparators):
            parts.append(self._cmp(op, self.expr(left), self.expr(right), right))
            left = right
        return parts[0] if len(parts) == 1 else '(' + ' && '.join(parts) + ')'

    def e_List(self, n):
        return '[' + ', '.join(self.expr(e) for e in n.elts) + ']'

    def e_Tuple(self, n):
        return '(' + ', '.join(self.expr(e) for e in n.elts) + ')'

    def e_IfExp(self, n):
        return f'(if {self.expr(n.test)} then {self.expr(n.body)} else {self.expr(n.orelse)})'

    def e_Call(self, n):
        f = ast.unparse(n.func)
        args = [self.expr(a) for a in n.args]
        if f in self.calls:
            return self.calls[f](args)
        if isinstance(n.func, ast.Attribute):
            recv = n.func.value
            meth = n.func.attr
            if meth == 'startswith' and len(args) == 1:
                return f'(Py.startsWith {self.expr(recv)} {args[0]})'
            if meth == 'lower' and not args:
                return f'(Py.lower {self.expr(recv)})'
            if meth == 'strip' and not args:
                return f'(Py.strip {self.expr(recv)})'
        if f == 'len' and len(args) == 1:
            return f'(Py.len {args[0]})'
        raise Untranslatable(f'call {ast.unparse(n)}')

    def e_Subscript(self, n):
        if isinstance(n.slice, ast.Slice) and n.slice.step is None:
            v = self.expr(n.value)
            lo, hi = n.slice.lower, n.slice.upper
            if lo is None and hi is not None:
                return f'(Py.sliceTo {v} {self.expr(hi)})'
            if lo is not None and hi is None:
                return f'(Py.sliceFrom {v} {self.expr(lo)})'
        raise Untranslatable(ast.unparse(n))

    # ---- statements (continuation passing) --------------------------------------------------
    def block(self, stmts, k):
        """translate `stmts`; `k` is the Lean text of what follows (None = falling off the end)."""
        if not stmts:
            if k is None:
                raise Untranslatable('function may fall off its end (implicit None)')
            return k
        s, rest = stmts[0], stmts[1:]
        if isinstance(s, ast.Expr) and isinstance(s.value, ast.Constant):
            return self.block(rest, k)          # docstring
        if isinstance(s, ast.Pass):
            return self.block(rest, k)
        if isinstance(s, ast.Return):
            e = self.none if s.value is None else self.expr(s.value)
            if self.ret:
                e = self.ret(e, s.value)
            return e
        if isinstance(s, ast.Assign) and len(s.targets) == 1 and isinstance(s.targets[0], ast.Name):
            name = self.names.get(s.targets[0].id, s.targets[0].id)
            return f'let {name} := {self.expr(s.value)}\n{self.block(rest, k)}'
        if isinstance(s, ast.If):
            after = self.block(rest, k) if (rest or k is not None) else None
            a = self.block(s.body, after)
            b = self.block(s.orelse, after)
            return f'if {self.expr(s.test)} then\n{textwrap.indent(a, "  ")}\nelse\n{textwrap.indent(b, "  ")}'
        if isinstance(s, ast.For):
            return self.search_loop(s, rest, k)
        raise Untranslatable(f'statement {type(s).__name__}: {ast.unparse(s)[:80]}')

    def search_loop(self, s, rest, k):
        # for x in xs: if c: return e      ==>  match xs.find? (fun x => c) with | some x => e | none => rest
        if (isinstance(s.target, ast.Name) and len(s.body) == 1 and isinstance(s.body[0], ast.If)
                and not s.body[0].orelse and len(s.body[0].body) == 1
                and isinstance(s.body[0].body[0], ast.Return) and not s.orelse):
            x = s.target.id
            c = self.expr(s.body[0].test)
            e = self.block(s.body[0].body, None)
            after = self.block(rest, k)
            return (f'match List.find? (fun {x} => {c}) {self.expr(s.iter)} with\n'
                    f'| some {x} => {e}\n| none =>\n{textwrap.indent(after, "  ")}')
        raise Untranslatable(f'for loop shape: {ast.unparse(s)[:80]}')

    def function(self, fdef, lean_sig, skip_docstring=True):
        body = self.block(list(fdef.body), None)
        return f'{lean_sig} :=\n{textwrap.indent(body, "  ")}\n'


def translate(relpath, qualname, lean_sig, **kw):
    tree = load(relpath)
    fdef = find_def(tree, qualname)
    return Translator(**kw).function(fdef, lean_sig)


def header(title, sources):
    return ('-- GENERATED by harness/extract — do not edit; regenerated from /repo on every check run.\n'
            f'-- {title}\n-- sources: {", ".join(sources)}\nimport DeepModel.Py\n')


def update_function(fdef, tr, state='st', fields=None):
    """translate a method whose body only assigns `self.<attr>` (plain or augmented) into a chain of
    record updates of the Lean value `state`.  `fields` maps python attribute -> Lean field."""
    fields = fields or {}
    out = []
    for s in fdef.body:
        if isinstance(s, ast.Expr) and isinstance(s.value, ast.Constant):
            continue
        if isinstance(s, ast.AugAssign) and isinstance(s.target, ast.Attribute) \
                and ast.unparse(s.target.value) == 'self' and isinstance(s.op, (ast.Add, ast.Sub)):
            f = fields.get(s.target.attr)
            if f is None:
                raise Untranslatable(f'unknown field {s.target.attr}')
            op = '+' if isinstance(s.op, ast.Add) else '-'
            out.append(f'let {state} := {{ {state} with {f} := {state}.{f} {op} {tr.expr(s.value)} }}')
        elif isinstance(s, ast.Assign) and len(s.targets) == 1 and isinstance(s.targets[0], ast.Attribute) \
                and ast.unparse(s.targets[0].value) == 'self':
            f = fields.get(s.targets[0].attr)
            if f is None:
                raise Untranslatable(f'unknown field {s.targets[0].attr}')
            out.append(f'let {state} := {{ {state} with {f} := {tr.expr(s.value)} }}')
        else:
            raise Untranslatable(f'not a field update: {ast.unparse(s)[:80]}')
    out.append(state)
    return '\n'.join(out)


def same_shape(fdef, template_src):
    """True iff the body of `fdef` (docstring removed) is syntactically identical to `template_src`."""
    def strip_doc(body):
        if body and isinstance(body[0], ast.Expr) and isinstance(body[0].value, ast.Constant) \
                and isinstance(body[0].value.value, str):
            return body[1:]
        return body
    want = ast.parse(textwrap.dedent(template_src)).body
    got = strip_doc(list(fdef.body))
    return [ast.dump(x) for x in got] == [ast.dump(x) for x in want]


def write_if_changed(path, text):
    try:
        with open(path, encoding='utf-8') as f:
            if f.read() == text:
                return False
    except FileNotFoundError:
        pass
    os.makedirs(os.path.dirname(path), exist_ok=True)
    tmp = path + '.tmp%d' % os.getpid()
    with open(tmp, 'w', encoding='utf-8') as f:
        f.write(text)
    os.replace(tmp, path)
    return True
