import Cs.Basic
namespace Cs

/-- count invariant -/
def CountInv (L : Limits) (s : CState) : Prop := s.cache.length ≤ L.maxVars + 1

theorem step_count (H : Heap) (L : Limits) (s : CState) (h : CountInv L s) : CountInv L (step H L s) := by
  unfold CountInv step at *
  split
  · exact h
  · split
    · exact h
    · split
      · exact h
      · split
        · exact h
        · simp; omega

theorem run_count (H : Heap) (L : Limits) (k : Nat) (s : CState) (h : CountInv L s) : CountInv L (run H L k s) := by
  induction k generalizing s with
  | zero => exact h
  | succ k ih => exact ih _ (step_count H L s h)

theorem count_bound (H : Heap) (L : Limits) (root : ObjId) (k : Nat) :
    (run H L k (init root)).cache.length ≤ L.maxVars + 1 :=
  run_count H L k _ (by simp [CountInv, init])

/-- BFS invariant -/
def BfsInv (s : CState) : Prop :=
  (s.processed.Pairwise (fun a b => a.depth ≤ b.depth)) ∧
  (s.queue.Pairwise (fun a b => a.depth ≤ b.depth)) ∧
  (∀ p ∈ s.processed, ∀ q ∈ s.queue, p.depth ≤ q.depth) ∧
  (∀ a ∈ s.queue, ∀ b ∈ s.queue, b.depth ≤ a.depth + 1)

theorem expand_depth (H : Heap) (L : Limits) (n m : Node) (h : m ∈ expand H L n) : m.depth = n.depth + 1 := by
  unfold expand at h
  split at h
  · simp at h
  · simp only [List.mem_map] at h
    obtain ⟨o, _, rfl⟩ := h
    rfl

theorem step_bfs (H : Heap) (L : Limits) (s : CState) (h : BfsInv s) : BfsInv (step H L s) := by
  unfold step
  split
  · exact h
  · split
    · exact h
    · rename_i n rest heq
      obtain ⟨hp, hq, hc, hsp⟩ := h
      rw [heq] at hq hc hsp
      have hq1 := (List.pairwise_cons.mp hq).1
      have hq2 := (List.pairwise_cons.mp hq).2
      have hdrop : BfsInv { s with queue := rest } :=
        ⟨hp, hq2, fun p hp' q hq' => hc p hp' q (List.mem_cons_of_mem _ hq'),
          fun a ha b hb => hsp a (List.mem_cons_of_mem _ ha) b (List.mem_cons_of_mem _ hb)⟩
      split
      · exact ⟨hdrop.1, hdrop.2.1, hdrop.2.2.1, hdrop.2.2.2⟩
      · split
        · exact hdrop
        · have hE := expand_depth H L n
          have hn : ∀ p ∈ s.processed, p.depth ≤ n.depth := fun p hp' => hc p hp' n (List.mem_cons_self ..)
          have hspn : ∀ a ∈ rest, a.depth ≤ n.depth + 1 := fun a ha => hsp n (List.mem_cons_self ..) a (List.mem_cons_of_mem _ ha)
          refine ⟨?_, ?_, ?_, ?_⟩
          · simp only [List.pairwise_append, List.pairwise_cons, List.Pairwise.nil, List.mem_singleton]
            exact ⟨hp, ⟨by simp, trivial⟩, fun a ha b hb => hb ▸ hn a ha⟩
          · simp only [List.pairwise_append]
            refine ⟨hq2, ?_, ?_⟩
            · apply List.Pairwise.imp_of_mem (R := fun _ _ => True) ?_ (List.pairwise_of_forall (fun _ _ => trivial))
              intro a b ha hb _
              rw [hE a ha, hE b hb]; exact Nat.le_refl _
            · intro a ha b hb
              rw [hE b hb]; exact hspn a ha
          · intro p hp' q hq'
            simp only [List.mem_append, List.mem_singleton] at hp' hq'
            rcases hp' with hp' | rfl <;> rcases hq' with hq' | hq'
            · exact hc p hp' q (List.mem_cons_of_mem _ hq')
            · rw [hE q hq']; have := hn p hp'; omega
            · exact hq1 q hq'
            · rw [hE q hq']; omega
          · intro a ha b hb
            simp only [List.mem_append] at ha hb
            rcases ha with ha | ha <;> rcases hb with hb | hb
            · exact hsp a (List.mem_cons_of_mem _ ha) b (List.mem_cons_of_mem _ hb)
            · rw [hE b hb]; have := hq1 a ha; omega
            · rw [hE a ha]; have := hspn b hb; omega
            · rw [hE a ha, hE b hb]; omega

theorem run_bfs (H : Heap) (L : Limits) (k : Nat) (s : CState) (h : BfsInv s) : BfsInv (run H L k s) := by
  induction k generalizing s with
  | zero => exact h
  | succ k ih => exact ih _ (step_bfs H L s h)

/-- every reachable state: the newly recorded nodes were recorded in non-decreasing depth order -/
theorem bfs_order (H : Heap) (L : Limits) (root : ObjId) (k : Nat) :
    (run H L k (init root)).processed.Pairwise (fun a b => a.depth ≤ b.depth) :=
  (run_bfs H L k _ (by simp [BfsInv, init])).1
end Cs
