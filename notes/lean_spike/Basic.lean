namespace Cs

abbrev ObjId := Nat

structure Node where
  obj : ObjId
  depth : Nat
deriving Repr, DecidableEq

structure Limits where
  maxVars : Nat
  maxColl : Nat
  maxDepth : Nat

/-- state of the work-list traversal -/
structure CState where
  queue : List Node
  cache : List ObjId            -- objects that got an id, in id order (id = index+1)
  processed : List Node         -- newly cached nodes, in processing order
  stopped : Bool
deriving Repr

/-- children facts of the heap: for each object, its children (already capped by kind in the real model) -/
abbrev Heap := ObjId → List ObjId

def expand (H : Heap) (L : Limits) (n : Node) : List Node :=
  if n.depth + 1 ≥ L.maxDepth then [] else (H n.obj |>.take L.maxColl).map (fun o => ⟨o, n.depth + 1⟩)

/-- one iteration of `breadth_first_search` with `queue.pop(0)` -/
def step (H : Heap) (L : Limits) (s : CState) : CState :=
  if s.stopped then s else
  match s.queue with
  | [] => s
  | n :: rest =>
    if s.cache.length > L.maxVars then { s with queue := rest, stopped := true }
    else if n.obj ∈ s.cache then { s with queue := rest }
    else { s with queue := rest ++ expand H L n, cache := s.cache ++ [n.obj], processed := s.processed ++ [n] }

def run (H : Heap) (L : Limits) : Nat → CState → CState
  | 0, s => s
  | k+1, s => run H L k (step H L s)

def init (root : ObjId) : CState := ⟨[⟨root, 0⟩], [], [], false⟩

end Cs
