import Cs.Cb
namespace Cb

def Disjoint (stk : List Ctx) (fns : List Fn) : Prop := ∀ c ∈ stk, c.fn ∉ fns

theorem opens_append (a b : List Eff) : opens (a ++ b) = opens a + opens b := by simp [opens]
theorem closes_append (a b : List Eff) : closes (a ++ b) = closes a + closes b := by simp [closes]

/-- the stack while the body of `f` runs: its own context on top (if still pending), then the caller's stack -/
def frameStk (b : Bool) (f : Fn) (stk : List Ctx) : List Ctx := if b then ⟨f⟩ :: stk else stk

/-- a non-call event of function `f` on a stack whose contexts belong to other functions: nothing happens -/
theorem foreign_event (sp : Fn → Bool) (stk : List Ctx) (k : Kind) (f : Fn) (hk : k ≠ .call)
    (hf : ∀ c ∈ stk, c.fn ≠ f) : onEvent sp stk ⟨k, f⟩ = (stk, []) := by
  unfold onEvent
  simp only [hk, false_and, if_false]
  cases stk with
  | nil => rfl
  | cons top rest =>
    have : top.fn ≠ f := hf top (List.mem_cons_self ..)
    simp [this]

theorem run_single (sp : Fn → Bool) (stk : List Ctx) (ev : Ev) :
    run sp stk [ev] = onEvent sp stk ev := by
  simp [run]

mutual
theorem inv_balanced (sp : Fn → Bool) (i : Inv) (stk : List Ctx) (hn : i.NoClash) (hd : Disjoint stk i.fns) :
    (run sp stk i.flatten).1 = stk ∧ opens (run sp stk i.flatten).2 = closes (run sp stk i.flatten).2 := by
  match i with
  | .mk f body raises =>
    simp only [Inv.NoClash] at hn
    simp only [Inv.fns] at hd
    have hf : ∀ c ∈ stk, c.fn ≠ f := fun c hc h => hd c hc (h ▸ List.mem_cons_self ..)
    have hdb : Disjoint stk body.fns := fun c hc h => hd c hc (List.mem_cons_of_mem _ h)
    -- the call event
    have hcall : run sp stk [⟨.call, f⟩] = (frameStk (sp f) f stk, if sp f then [Eff.opened f] else []) := by
      rw [run_single]; unfold onEvent frameStk; cases sp f <;> simp
    obtain ⟨b', hb', hstk, hcnt⟩ := items_frame sp body f stk (sp f) hn.2 hn.1 hf hdb
    -- exit events
    have hexit : ∀ evs, (evs = [(⟨.exc, f⟩ : Ev), ⟨.ret, f⟩] ∨ evs = [⟨.ret, f⟩]) →
        (run sp (frameStk b' f stk) evs).1 = stk ∧
        closes (run sp (frameStk b' f stk) evs).2 = (if b' then 1 else 0) ∧ opens (run sp (frameStk b' f stk) evs).2 = 0 := by
      intro evs hevs
      have hfr := foreign_event sp stk .ret f (by decide) hf
      have hfe := foreign_event sp stk .exc f (by decide) hf
      cases b' with
      | false =>
        simp only [frameStk, Bool.false_eq_true, if_false]
        rcases hevs with rfl | rfl
        · simp only [run, hfe, hfr]; simp [opens, closes]
        · simp only [run, hfr]; simp [opens, closes]
      | true =>
        simp only [frameStk, if_true]
        rcases hevs with rfl | rfl
        · have h1 : onEvent sp (⟨f⟩ :: stk) ⟨.exc, f⟩ = (stk, [Eff.closed f ⟨.exc, f⟩]) := by
            simp [onEvent]
          simp only [run, h1, hfr]; simp [opens, closes]
        · have h1 : onEvent sp (⟨f⟩ :: stk) ⟨.ret, f⟩ = (stk, [Eff.closed f ⟨.ret, f⟩]) := by
            simp [onEvent]
          simp only [run, h1]; simp [opens, closes]
    have hx := hexit (if raises then [⟨.exc, f⟩, ⟨.ret, f⟩] else [⟨.ret, f⟩]) (by cases raises <;> simp)
    simp only [Inv.flatten, run_append, hcall, hstk]
    refine ⟨hx.1, ?_⟩
    simp only [opens_append, closes_append, hx.2.1, hx.2.2]
    have : opens (if sp f = true then [Eff.opened f] else []) = (if sp f then 1 else 0) := by
      cases sp f <;> simp [opens]
    have hc0 : closes (if sp f = true then [Eff.opened f] else []) = 0 := by
      cases sp f <;> simp [closes]
    omega

theorem items_frame (sp : Fn → Bool) (its : Items) (f : Fn) (stk : List Ctx) (b : Bool) (hn : its.NoClash)
    (hfi : f ∉ its.fns) (hf : ∀ c ∈ stk, c.fn ≠ f) (hd : Disjoint stk its.fns) :
    ∃ b' : Bool, (b' = true → b = true) ∧
      (run sp (frameStk b f stk) (its.flatten f)).1 = frameStk b' f stk ∧
      closes (run sp (frameStk b f stk) (its.flatten f)).2 + (if b' then 1 else 0)
        = opens (run sp (frameStk b f stk) (its.flatten f)).2 + (if b then 1 else 0) := by
  match its with
  | .nil => exact ⟨b, id, by simp [Items.flatten, run], by simp [Items.flatten, run, opens, closes]⟩
  | .line rest =>
    simp only [Items.NoClash] at hn
    simp only [Items.fns] at hfi hd
    obtain ⟨b', h1, h2, h3⟩ := items_frame sp rest f stk b hn hfi hf hd
    have hline : onEvent sp (frameStk b f stk) ⟨.line, f⟩ = (frameStk b f stk, []) := by
      cases b with
      | false => simpa [frameStk] using foreign_event sp stk .line f (by decide) hf
      | true => simp [frameStk, onEvent]
    refine ⟨b', h1, ?_, ?_⟩
    · simp only [Items.flatten, run, hline]; simpa using h2
    · simp only [Items.flatten, run, hline]; simpa using h3
  | .caught rest =>
    simp only [Items.NoClash] at hn
    simp only [Items.fns] at hfi hd
    -- the exception event closes f's own pending context, if any
    have hexc : onEvent sp (frameStk b f stk) ⟨.exc, f⟩ = (stk, if b then [Eff.closed f ⟨.exc, f⟩] else []) := by
      cases b with
      | false => simpa [frameStk] using foreign_event sp stk .exc f (by decide) hf
      | true => simp [frameStk, onEvent]
    obtain ⟨b', h1, h2, h3⟩ := items_frame sp rest f stk false hn hfi hf hd
    have hb' : b' = false := by cases b' <;> simp_all
    subst hb'
    refine ⟨false, by simp, ?_, ?_⟩
    · simp only [Items.flatten, run, hexc]; simpa [frameStk] using h2
    · simp only [Items.flatten, run, hexc, opens_append, closes_append]
      simp only [frameStk, Bool.false_eq_true, if_false] at h3
      cases b <;> simp [opens, closes] at h3 ⊢ <;> omega
  | .call i rest =>
    simp only [Items.NoClash] at hn
    simp only [Items.fns, List.mem_append, not_or] at hfi
    have hdi : Disjoint (frameStk b f stk) i.fns := by
      intro c hc hmem
      cases b with
      | false => exact hd c hc (by simp [Items.fns, hmem])
      | true =>
        simp only [frameStk, if_true, List.mem_cons] at hc
        rcases hc with rfl | hc
        · exact hfi.1 hmem
        · exact hd c hc (by simp [Items.fns, hmem])
    have hdr : Disjoint stk rest.fns := fun c hc hmem => hd c hc (by simp [Items.fns, hmem])
    obtain ⟨hi1, hi2⟩ := inv_balanced sp i (frameStk b f stk) hn.1 hdi
    obtain ⟨b', h1, h2, h3⟩ := items_frame sp rest f stk b hn.2 hfi.2 hf hdr
    refine ⟨b', h1, ?_, ?_⟩
    · simp only [Items.flatten, run_append, hi1]; exact h2
    · simp only [Items.flatten, run_append, hi1, opens_append, closes_append]; omega
end

/-- C15 (partial): over any well-nested program without same-name nesting, every method span that is opened is
closed exactly once and the thread ends with nothing pending. -/
theorem c15_partial (sp : Fn → Bool) (i : Inv) (hn : i.NoClash) :
    (run sp [] i.flatten).1 = [] ∧ opens (run sp [] i.flatten).2 = closes (run sp [] i.flatten).2 :=
  inv_balanced sp i [] hn (by intro c hc; simp at hc)

/-- D27: recursion with a single permitted opening (fire_count = 1 is modelled by "only the outer call opens") is
outside the hypothesis; with name matching the span closes at the inner return. -/
example : ¬ (Inv.mk 7 (.call (.mk 7 .nil false) .nil) false).NoClash := by
  simp [Inv.NoClash, Items.NoClash, Items.fns, Inv.fns]

end Cb
