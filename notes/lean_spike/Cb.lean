namespace Cb

abbrev Fn := Nat   -- (file, function name) key

inductive Kind | call | line | ret | exc
deriving DecidableEq, Repr

structure Ev where
  kind : Kind
  fn : Fn
deriving DecidableEq, Repr

mutual
inductive Inv where
  | mk (fn : Fn) (body : Items) (raises : Bool)
inductive Items where
  | nil
  | line (rest : Items)
  | caught (rest : Items)          -- an exception raised and caught inside the current function
  | call (i : Inv) (rest : Items)
end

mutual
def Inv.flatten : Inv → List Ev
  | .mk f body raises => [⟨.call, f⟩] ++ body.flatten f ++ (if raises then [⟨.exc, f⟩, ⟨.ret, f⟩] else [⟨.ret, f⟩])
def Items.flatten : Items → Fn → List Ev
  | .nil, _ => []
  | .line rest, f => ⟨.line, f⟩ :: rest.flatten f
  | .caught rest, f => ⟨.exc, f⟩ :: rest.flatten f
  | .call i rest, f => i.flatten ++ rest.flatten f
end

mutual
def Inv.fns : Inv → List Fn
  | .mk f body _ => f :: body.fns
def Items.fns : Items → List Fn
  | .nil => []
  | .line rest => rest.fns
  | .caught rest => rest.fns
  | .call i rest => i.fns ++ rest.fns
end

mutual
def Inv.NoClash : Inv → Prop
  | .mk f body _ => f ∉ body.fns ∧ body.NoClash
def Items.NoClash : Items → Prop
  | .nil => True
  | .line rest => rest.NoClash
  | .caught rest => rest.NoClash
  | .call i rest => i.NoClash ∧ rest.NoClash
end

/-- pending method-span callback: the function that opened it -/
structure Ctx where
  fn : Fn
deriving DecidableEq, Repr

inductive Eff | opened (f : Fn) | closed (f : Fn) (atEv : Ev)
deriving DecidableEq, Repr

/-- one trace event, as `trace_call` treats pending callbacks and method-span triggers -/
def onEvent (spanned : Fn → Bool) (stk : List Ctx) (ev : Ev) : List Ctx × List Eff :=
  let (stk1, e1) :=
    if ev.kind = .call then (stk, []) else
    match stk with
    | [] => ([], [])
    | top :: rest =>
      if top.fn = ev.fn ∧ (ev.kind = .ret ∨ ev.kind = .exc) then (rest, [Eff.closed top.fn ev]) else (stk, [])
  if ev.kind = .call ∧ spanned ev.fn then (⟨ev.fn⟩ :: stk1, e1 ++ [Eff.opened ev.fn]) else (stk1, e1)

def run (spanned : Fn → Bool) : List Ctx → List Ev → List Ctx × List Eff
  | stk, [] => (stk, [])
  | stk, ev :: evs =>
    let (s1, e1) := onEvent spanned stk ev
    let (s2, e2) := run spanned s1 evs
    (s2, e1 ++ e2)

theorem run_append (sp : Fn → Bool) (stk : List Ctx) (a b : List Ev) :
    run sp stk (a ++ b) = ((run sp (run sp stk a).1 b).1, (run sp stk a).2 ++ (run sp (run sp stk a).1 b).2) := by
  induction a generalizing stk with
  | nil => simp [run]
  | cons ev evs ih => simp [run, ih, List.append_assoc]

def opens : List Eff → Nat := fun l => (l.filter (fun e => match e with | .opened _ => true | _ => false)).length
def closes : List Eff → Nat := fun l => (l.filter (fun e => match e with | .closed .. => true | _ => false)).length

end Cb
