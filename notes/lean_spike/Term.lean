import Cs.Proofs
namespace Cs

/-- work remaining: lexicographic (budget left, queue length), encoded in one Nat is awkward, so use Prod.Lex -/
def active (s : CState) : Prop := s.stopped = false ∧ s.queue ≠ []

def mu (L : Limits) (s : CState) : Nat × Nat := (L.maxVars + 2 - s.cache.length, s.queue.length)

theorem step_decreases (H : Heap) (L : Limits) (s : CState) (hc : CountInv L s) (ha : active s) :
    (step H L s).stopped = true ∨ Prod.Lex (· < ·) (· < ·) (mu L (step H L s)) (mu L s) := by
  obtain ⟨hs, hq⟩ := ha
  unfold step
  simp only [hs, Bool.false_eq_true, if_false]
  match hq' : s.queue with
  | [] => exact absurd hq' hq
  | n :: rest =>
    simp only
    split
    · left; rfl
    · split
      · right
        simp only [mu, hq']
        exact Prod.Lex.right _ (by simp)
      · right
        rename_i hle _
        simp only [mu, hq', List.length_append, List.length_cons, List.length_nil]
        apply Prod.Lex.left
        omega

end Cs
