namespace Guard

/-- class of a Python exception, as far as `except` clauses in the agent distinguish them -/
inductive Exn | exc | base      -- `Exception` subclass | other `BaseException`
deriving DecidableEq, Repr

inductive Catch | exception | baseException
deriving DecidableEq, Repr

def Catch.catches : Catch → Exn → Bool
  | .baseException, _ => true
  | .exception, .exc => true
  | .exception, .base => false

/-- control skeleton extracted from a Python function body -/
inductive Stmt where
  | call (site : String)                       -- may raise anything
  | pure                                       -- whitelisted: cannot raise
  | seq (a b : Stmt)
  | loop (body : Stmt)                         -- any number of iterations
  | tryExcept (body : Stmt) (c : Catch) (handler : Stmt)
  | ret
deriving Repr

/-- outcome of running a statement -/
inductive Out | normal | returned | raised (e : Exn)
deriving DecidableEq, Repr

/-- a fault oracle: for the k-th executed call (global counter), does it raise? -/
abbrev Faults := Nat → Option Exn

/-- big-step execution with a call counter; loops take their iteration counts from `iters` -/
def exec (iters : Nat) : Stmt → Faults → Nat → Out × Nat
  | .call _, f, k => (match f k with | some e => .raised e | none => .normal, k + 1)
  | .pure, _, k => (.normal, k)
  | .ret, _, k => (.returned, k)
  | .seq a b, f, k =>
    match exec iters a f k with
    | (.normal, k') => exec iters b f k'
    | r => r
  | .loop body, f, k => loopN iters body f k iters
  | .tryExcept body c h, f, k =>
    match exec iters body f k with
    | (.raised e, k') => if c.catches e then exec iters h f k' else (.raised e, k')
    | r => r
where
  loopN (iters : Nat) (body : Stmt) (f : Faults) (k : Nat) : Nat → Out × Nat
    | 0 => (.normal, k)
    | n + 1 =>
      match exec iters body f k with
      | (.normal, k') => loopN iters body f k' n
      | r => r

/-- abstract interpretation: which exception classes may escape -/
structure RaiseSet where
  exc : Bool
  base : Bool
deriving DecidableEq, Repr

def RaiseSet.mem (e : Exn) (r : RaiseSet) : Bool := match e with | .exc => r.exc | .base => r.base
def RaiseSet.union (a b : RaiseSet) : RaiseSet := ⟨a.exc || b.exc, a.base || b.base⟩

def mayRaise : Stmt → RaiseSet
  | .call _ => ⟨true, true⟩
  | .pure => ⟨false, false⟩
  | .ret => ⟨false, false⟩
  | .seq a b => (mayRaise a).union (mayRaise b)
  | .loop b => mayRaise b
  | .tryExcept b c h =>
    let rb := mayRaise b
    let uncaught : RaiseSet := ⟨rb.exc && !c.catches .exc, rb.base && !c.catches .base⟩
    let caughtAny := (rb.exc && c.catches .exc) || (rb.base && c.catches .base)
    if caughtAny then uncaught.union (mayRaise h) else uncaught

def AllGuarded (s : Stmt) : Prop := mayRaise s = ⟨false, false⟩
instance (s : Stmt) : Decidable (AllGuarded s) := by unfold AllGuarded; infer_instance

end Guard
