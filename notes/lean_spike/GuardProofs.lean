import Cs.Guard
namespace Guard

theorem union_mem (e : Exn) (a b : RaiseSet) : (a.union b).mem e = (a.mem e || b.mem e) := by
  cases e <;> simp [RaiseSet.union, RaiseSet.mem]

mutual
theorem exec_sound (iters : Nat) (s : Stmt) (f : Faults) (k : Nat) (e : Exn) (k' : Nat)
    (h : exec iters s f k = (.raised e, k')) : (mayRaise s).mem e = true := by
  match s with
  | .call _ => cases e <;> simp [mayRaise, RaiseSet.mem]
  | .pure => simp [exec] at h
  | .ret => simp [exec] at h
  | .seq a b =>
    simp only [exec] at h
    rw [mayRaise, union_mem]
    generalize ha : exec iters a f k = ra at h
    obtain ⟨oa, ka⟩ := ra
    cases oa with
    | normal => simp only at h; simp [exec_sound iters b f ka e k' h]
    | returned => simp at h
    | raised e' =>
      simp only [Prod.mk.injEq, Out.raised.injEq] at h
      obtain ⟨rfl, rfl⟩ := h
      simp [exec_sound iters a f k e' ka ha]
  | .loop b =>
    simp only [exec] at h
    rw [mayRaise]
    exact loop_sound iters b f k iters e k' h
  | .tryExcept b c hd =>
    simp only [exec] at h
    generalize hb : exec iters b f k = rb at h
    obtain ⟨ob, kb⟩ := rb
    cases ob with
    | normal => simp at h
    | returned => simp at h
    | raised e' =>
      have hbm := exec_sound iters b f k e' kb hb
      simp only at h
      by_cases hc : c.catches e' = true
      · simp only [hc, if_true] at h
        have hh := exec_sound iters hd f kb e k' h
        simp only [mayRaise]
        have : ((mayRaise b).exc && c.catches .exc || (mayRaise b).base && c.catches .base) = true := by
          cases e' <;> simp_all [RaiseSet.mem]
        simp only [this, if_true, union_mem, hh, Bool.or_true]
      · simp only [hc] at h
        simp only [Bool.false_eq_true, if_false, Prod.mk.injEq, Out.raised.injEq] at h
        obtain ⟨rfl, rfl⟩ := h
        simp only [mayRaise]
        split <;> cases e' <;> simp_all [RaiseSet.mem, RaiseSet.union]
theorem loop_sound (iters : Nat) (b : Stmt) (f : Faults) (k n : Nat) (e : Exn) (k' : Nat)
    (h : exec.loopN iters b f k n = (.raised e, k')) : (mayRaise b).mem e = true := by
  match n with
  | 0 => simp [exec.loopN] at h
  | n + 1 =>
    simp only [exec.loopN] at h
    generalize hb : exec iters b f k = rb at h
    obtain ⟨ob, kb⟩ := rb
    cases ob with
    | normal => exact loop_sound iters b f kb n e k' h
    | returned => simp at h
    | raised e' =>
      simp only [Prod.mk.injEq, Out.raised.injEq] at h
      obtain ⟨rfl, rfl⟩ := h
      exact exec_sound iters b f k e' kb hb
end

/-- the generic containment theorem: a guarded skeleton never lets a fault escape -/
theorem guard_sound (s : Stmt) (hg : AllGuarded s) (iters : Nat) (f : Faults) (k : Nat) :
    ∀ e k', exec iters s f k ≠ (.raised e, k') := by
  intro e k' h
  have := exec_sound iters s f k e k' h
  rw [hg] at this
  cases e <;> simp [RaiseSet.mem] at this

/-- shape of the repaired `trace_call` -/
def traceCallSk : Stmt :=
  .tryExcept
    (.seq (.call "location_from_event") (.seq (.call "TriggerContext") (.seq (.call "process_call_backs")
      (.seq (.call "actions_for_location")
        (.seq (.tryExcept (.loop (.tryExcept (.call "action") .baseException .pure)) .baseException .pure)
          (.seq (.call "push_callbacks") .ret))))))
    .baseException (.seq .pure .ret)

example : AllGuarded traceCallSk := by decide
/-- shape of today's `trace_call`: not guarded -/
example : ¬ AllGuarded (.seq (.call "location_from_event") (.tryExcept (.call "action") .baseException .pure)) := by decide

end Guard
