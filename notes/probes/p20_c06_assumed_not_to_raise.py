"""C06 finding candidates (low, contrived): expressions of the collector that run host code and are NOT guarded, outside the
fault model of the Lean heap (type name, key string methods, str() result methods).  Each aborts the whole collection.
The 4th case (a dict key whose __hash__ raises after insertion) takes the guarded path: dict recorded without children.
run: /venv/bin/python p20_c06_assumed_not_to_raise.py"""
import sys
sys.path.insert(0,'/verif/harness')
import core; core.use_repo()
from deep.processor.variable_set_processor import VariableSetProcessor, VariableCacheProvider, VariableProcessorConfig
class Meta(type):
    @property
    def __name__(cls): raise RuntimeError('meta name')
class WithMeta(metaclass=Meta): pass
class BadStr(str):
    def startswith(self, *a): raise RuntimeError('startswith')
class LenStr(str):
    def __len__(self): raise RuntimeError('strlen')
class StrRet:
    def __str__(self): return LenStr('abc')
class HashLater:
    ok = True
    def __hash__(self):
        if HashLater.ok: return 1
        raise RuntimeError('hash')
hk = HashLater(); dk = {hk: 1, 'b': 2}; HashLater.ok = False
for name, v in [('metaclass __name__ raises', WithMeta()), ('str-subclass key, startswith raises', {BadStr('k'): 1}),
                ('__str__ returns str subclass with raising __len__', StrRet()), ('dict key whose __hash__ raises now', dk)]:
    p = VariableSetProcessor({}, VariableCacheProvider(), VariableProcessorConfig())
    try:
        r = p.process_variable('locals', {'v': v, 'x': 1})
        print(name, '-> ok', {k:(x.type,x.value,len(x.children)) for k,x in p.var_lookup.items()})
    except BaseException as e:
        import traceback
        tb = traceback.extract_tb(e.__traceback__)
        print(name, '-> RAISES', type(e).__name__, e, '| at', [f'{t.name}:{t.lineno}' for t in tb if 'deep' in t.filename][-2:])
