"""probe (audit C06-1): a local named `self` whose __class__ lookup raises aborts the whole frame collection."""
import sys
sys.path.insert(0, (sys.argv[1] if len(sys.argv) > 1 else '/repo') + '/src')
from deep.processor.frame_collector import FrameCollector
from deep.processor.variable_set_processor import VariableCacheProvider
from deep.config import ConfigService


class Odd:
    def __getattribute__(self, name):
        if name == '__class__':
            raise RuntimeError('no class for you')
        return object.__getattribute__(self, name)


class Src:
    def __init__(self):
        from deep.processor.variable_processor import VariableProcessorConfig
        self.collection_config = VariableProcessorConfig()
        self.config = ConfigService({})
    def should_collect_vars(self, i): return True
    max_tp_process_time = 10 ** 12
    ts = 0


def host(self, y):
    import sys as _s
    return _s._getframe()


def run(name):
    o = Odd()
    frame = host(o, 1) if name == 'self' else (lambda x, y: sys._getframe())(o, 1)
    try:
        from deep.processor.context.snapshot_action import SnapshotActionContext  # noqa
    except Exception:
        pass
    src = Src()
    try:
        fc = FrameCollector(src, frame)
        frames, table = fc.collect({}, VariableCacheProvider())
        return 'ok %d frames %d vars' % (len(frames), len(table))
    except BaseException as e:
        return 'RAISED %s: %s' % (type(e).__name__, e)


print('as self:', run('self'))
print('as x   :', run('x'))
