import sys; sys.path.insert(0,'/repo/src')
from deep.push import convert_snapshot
from deep.api.tracepoint import *
from deep.api.tracepoint.eventsnapshot import *
from deep.api.resource import Resource
tp = TracePointConfig('id', 'p.py', 3, {'a':'b'}, ['w'], [])
s = EventSnapshot(tp, 123, Resource.create(), [], {'1': Variable('str','v','99',[],True)})
s.add_watch_result(WatchResult('LOG','e2',VariableId('1','e2')))
c = convert_snapshot(s)
print(c.watches[0]); print(c.watches)
print(repr(c.watches[0].good_result.ID))
