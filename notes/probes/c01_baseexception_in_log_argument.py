"""C01-4 (audit): the skeleton whitelists the logging calls ("logging never raises").  logging swallows `Exception`s
raised while formatting a record, but NOT a BaseException: a log argument whose __str__ raises KeyboardInterrupt /
SystemExit propagates out of logging.exception(...) — i.e. out of the `except` handler that was logging.
Sites that log an object that is not the agent's own: "Cannot close span %s" (the plugin's span), "Cannot create span
… %s" / "Cannot process metric … %s" / "Failed to decorate snapshot: %s" (the plugin), "Failed to complete shutdown
step %s" (a plugin's bound method).  No site logs a HOST value (watch results are logged as the expression text).
This probe: a span whose close() fails and whose __str__ raises KeyboardInterrupt, with logging ENABLED.
Expected (and observed): the BaseException leaves the per-span handler but is contained by trace_call's outer guard
(whose own log argument is the event name, a str): host unaffected, trace function kept, later tracepoint fires.
run: SRC=/repo/src /venv/bin/python c01_baseexception_in_log_argument.py"""
import io, os, sys, threading, logging
sys.path.insert(0, os.environ.get('SRC', '/repo/src'))
buf = io.StringIO()
lg = logging.getLogger('deep'); lg.setLevel(logging.DEBUG); lg.addHandler(logging.StreamHandler(buf)); lg.propagate = False
from deep.config import ConfigService
from deep.config.tracepoint_config import TracepointConfigService
from deep.processor.trigger_handler import TriggerHandler
from deep.push.push_service import PushService
from deep.api.resource import Resource
from deep.api.plugin import TracepointLogger
from deep.api.plugin.span import SpanProcessor, Span
from deep.api.tracepoint.trigger import build_trigger


class Lg(TracepointLogger):
    logged = []
    def log_tracepoint(self, msg, tp_id, ctx_id): self.logged.append(msg)


class Sp(Span):
    name = trace_id = span_id = 's'
    def add_attribute(self, k, v): pass
    def add_event(self, n, a=None): pass
    def close(self): raise RuntimeError('close fails')
    def __str__(self): raise KeyboardInterrupt('str of the span')
    __repr__ = __str__


class SpP(SpanProcessor):
    def create_span(self, name, ctx, tp): return Sp()
    def current_span(self): return None


src = '''
def f(x):
    a = x + 1      # line 3: line span
    b = a * 2      # line 4: the span is closed here -> failure, logged with the span as argument
    c = b - 1      # line 5: log tracepoint
    return c
'''
ns = {}
exec(compile(src, '/app/hostz.py', 'exec'), ns)
cfg = ConfigService({'APP_ROOT': '/app'}, tracepoints=TracepointConfigService())
cfg.resource = Resource.get_empty()
cfg.plugins = [Lg(), SpP()]
h = TriggerHandler(cfg, PushService(None, None))
h.new_config([build_trigger('tp1', 'hostz.py', 3, {'span': 'line', 'snapshot': 'no_collect'}, [], []),
              build_trigger('tp2', 'hostz.py', 5, {'log_msg': 'hello {b}', 'snapshot': 'no_collect'}, [], [])])
out = {}


def body():
    sys.settrace(h.trace_call)
    try:
        try:
            out['ret'] = ns['f'](1)
        except BaseException as e:
            out['exc'] = repr(e)
    finally:
        out['trace'] = sys.gettrace() == h.trace_call
        sys.settrace(None)


t = threading.Thread(target=body); t.start(); t.join()
print('host:', out)
print('later tracepoint logged:', Lg.logged)
print('agent log lines:', [l[:70] for l in buf.getvalue().splitlines() if l.startswith('Cannot')])
