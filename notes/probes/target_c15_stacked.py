def f(x):
    y = x + 1
    return y


def g(x):
    a = f(x)
    b = a + 1
    return b
