"""Probe (C17, suspicious behaviour — not a violation at the MetricProcessor interface, which is what the statement
names, but of "with its name, namespace ... labels" at the provider): PrometheusPlugin keeps its client objects under
the key f'{name}_{type}' only.  Namespace, unit and label names are not part of the key, so

  1. a second metric with the same name and type but another namespace (or unit) is counted on the FIRST metric's
     time series; nothing is ever exported under the second namespace;
  2. a second metric with the same name and type but other label names is refused by the client library on every
     hit ("Incorrect label names"), the error is logged and the report is dropped;
  3. a counter reported with a negative value leaves a 0-valued series behind and drops the report (client rule).

usage: /venv/bin/python c17_prom_cache_key.py [<checkout>]     (prints what a scrape shows; exit 1 when 1. or 2. occur)
"""
import logging
import sys

sys.path.insert(0, (sys.argv[1] if len(sys.argv) > 1 else '/repo') + '/src')
logging.getLogger('deep').addHandler(logging.NullHandler())
logging.getLogger('deep').propagate = False

from prometheus_client import REGISTRY  # noqa: E402
from deep.api.plugin.metric.prometheus_metrics import PrometheusPlugin  # noqa: E402

p = PrometheusPlugin(None)
bad = 0
try:
    p.counter('probe_hits', {}, 'shop', 'h', None, 1)
    p.counter('probe_hits', {}, 'billing', 'h', None, 1)
    a = REGISTRY.get_sample_value('shop_probe_hits_total')
    b = REGISTRY.get_sample_value('billing_probe_hits_total')
    print('1. two counters probe_hits in namespaces shop / billing, one report each: shop_probe_hits_total =', a,
          ' billing_probe_hits_total =', b)
    bad += (a, b) != (1.0, 1.0)
    p.gauge('probe_depth', {'queue': 'a'}, 'deep', 'h', None, 5)
    p.gauge('probe_depth', {'region': 'eu'}, 'deep', 'h', None, 7)
    c = REGISTRY.get_sample_value('deep_probe_depth', {'queue': 'a'})
    d = REGISTRY.get_sample_value('deep_probe_depth', {'region': 'eu'})
    print("2. two gauges probe_depth with label names ('queue',) / ('region',): queue=a ->", c, ' region=eu ->', d)
    bad += d is None
    p.counter('probe_neg', {}, 'deep', 'h', None, -1)
    print('3. counter reported with -1: deep_probe_neg_total =', REGISTRY.get_sample_value('deep_probe_neg_total'))
finally:
    p.clear()
sys.exit(1 if bad else 0)
