"""Suspicious (performance, not a verdict of C05–C07): `VariableSetProcessor.process_variable` returns
`safe_str(value)` of its ROOT value as a log text; for a frame the root is the whole locals dict, so every snapshot
computes `str(frame.f_locals)`.  Python's repr expands shared sub-structures as a tree: a DAG of DEPTH lists of WIDTH
references each costs WIDTH**DEPTH, inside the trace function of the application thread, whatever the collection limits
are (the collector itself records 1 + DEPTH variables here).  The per-trigger time budget is not consulted.

run:  SRC=/repo/src /venv/bin/python p19_c05_repr_of_locals_exponential.py [WIDTH] [DEPTH]
"""
import sys
import time
from common import mk, run_traced
from deep.api.tracepoint.trigger import build_trigger
import deep.processor.frame_collector as fc
import deep.processor.context.trigger_context as tc

fc.time_ns = lambda: 1
tc.time_ns = lambda: 1
WIDTH = int(sys.argv[1]) if len(sys.argv) > 1 else 10
DEPTH = int(sys.argv[2]) if len(sys.argv) > 2 else 7


def host(x):
    return 0


x = 1
for _ in range(DEPTH):
    x = [x] * WIDTH
LINE = host.__code__.co_firstlineno + 1
cfg, push, h, lg = mk({'APP_ROOT': '/'})
h.new_config([build_trigger('tp1', 'p19_c05_repr_of_locals_exponential.py', LINE, {}, [], [])])
t0 = time.time()
run_traced(h, host, x)
print(f'{DEPTH} lists of {WIDTH} references each: trace_call took {time.time() - t0:.2f} s, '
      f'{len(push.pushed[0].var_lookup) if push.pushed else 0} variables recorded')
