import io, sys, logging
sys.path.insert(0,'/repo/src')
buf=io.StringIO(); lg=logging.getLogger('deep'); lg.setLevel(logging.DEBUG); lg.addHandler(logging.StreamHandler(buf)); lg.propagate=False
from deep.api import Deep
from deep.config import ConfigService
from deep.config.tracepoint_config import TracepointConfigService
from deep.api.plugin import Plugin
class P(Plugin):
    def shutdown(self): raise RuntimeError('shutdown fails')
    def __repr__(self): raise KeyboardInterrupt('repr')
class Q(Plugin):
    called=[]
    def shutdown(self): Q.called.append(1)
d=Deep(ConfigService({'APP_ROOT':'/app'}, tracepoints=TracepointConfigService()))
d.started=True; d.config.plugins=[P('p'),Q('q')]; d.poll.shutdown=lambda: None
try:
    d.shutdown(); print('shutdown returned', d.started, Q.called)
except BaseException as e:
    print('shutdown raised', repr(e), 'started', d.started, 'Q shut', Q.called)
