"""C03/nameless-method-location: a method tracepoint WITHOUT a method name (stage=method_start, no method_name ->
FunctionLocation(path, None)) on a real file with source.  FunctionLocation.at_location tests
`start <= line >= end` with the EVENT's line and without looking at the event kind: for a module-level frame
(getsourcelines: start 0, all lines) it is true at the module's last line, so the tracepoint's action runs at a `line`
event there (no function is entered), the location then names itself `<module>`.
Run: SRC=<tree>/src /venv/bin/python p_c03_nameless_method_location.py
Observed on the clean tree: [('log', 'NAMELESS')] produced while the module frame is at line 3 (`c = b * 2`).
Function frames are not affected (every event line of a function is before the end of its block)."""
import os
import sys
import threading
sys.path.insert(0, os.environ.get('SRC', '/repo/src'))
HERE = os.path.dirname(os.path.abspath(__file__))
sys.path.insert(0, HERE)
from common import *   # noqa

cfg, push, h, lg = mk()
h.new_config([build_trigger('NAMELESS', 'target_c03_nameless_aux.py', 0,
                            {'fire_count': '-1', 'fire_period': '0', 'stage': 'method_start', 'snapshot': 'no_collect',
                             'log_msg': 'nameless'}, [], [])])
path = os.path.join(HERE, 'target_c03_nameless_aux.py')
code = compile(open(path).read(), path, 'exec')
events = []


def body():
    def rec(frame, event, arg):
        if frame.f_code.co_filename == path:
            events.append((event, frame.f_lineno, len(lg.logged)))
        return rec
    sys.settrace(h.trace_call)
    try:
        exec(code, {})
    finally:
        sys.settrace(None)


t = threading.Thread(target=body)
t.start()
t.join()
print('log actions:', [(m, tp) for m, tp, _ in lg.logged])
print('VIOLATED: an action of a method tracepoint without any function being entered' if lg.logged else 'ok')
