"""probe (finding candidate C08/auth-metadata-cached-forever): GRPCService.metadata() asks the auth provider ONCE and
caches the answer for the life of the agent.  A provider whose token rotates / expires (the normal case for bearer
tokens) is never asked again: every later poll and snapshot upload carries the first token.
usage: SRC=/repo/src /venv/bin/python p_c08_auth_token_rotation.py"""
import os, sys, types, logging
sys.path.insert(0, os.environ.get('SRC', '/repo/src'))
logging.disable(logging.CRITICAL)
from deepproto.proto.poll.v1.poll_pb2 import PollResponse, ResponseType
from deepproto.proto.tracepoint.v1.tracepoint_pb2 import SnapshotResponse
from deep.api.auth import AuthProvider
from deep.api.resource import Resource
from deep.api.tracepoint import EventSnapshot, TracePointConfig
from deep.config import ConfigService
from deep.config.tracepoint_config import TracepointConfigService
from deep.grpc import GRPCService
from deep.poll import LongPoll
from deep.push.push_service import PushService


class Rotating(AuthProvider):
    calls = 0

    def provide(self):
        Rotating.calls += 1
        return [('authorization', 'Bearer token-%d' % Rotating.calls)]     # a new token every time it is asked


mod = types.ModuleType('c08_probe_auth'); mod.Rotating = Rotating; sys.modules['c08_probe_auth'] = mod


class Channel:
    def __init__(self): self.calls = []
    def unary_unary(self, method, request_serializer=None, response_deserializer=None, **kw):
        def call(request, timeout=None, metadata=None, **_):
            self.calls.append((method.rsplit('/', 1)[-1], metadata))
            return PollResponse(response_type=ResponseType.NO_CHANGE, ts_nanos=1) if method.endswith('poll') else SnapshotResponse()
        return call


config = ConfigService({'SERVICE_AUTH_PROVIDER': 'c08_probe_auth.Rotating'}, tracepoints=TracepointConfigService())
config.resource = Resource.get_empty()
grpc = GRPCService(config); ch = Channel(); grpc.channel = ch
poll = LongPoll(config, grpc); push = PushService(grpc, None)
snap = EventSnapshot(TracePointConfig('tp', 'a.py', 1, {}, [], []), 1, config.resource, [], {}); snap.complete()
poll.poll(); push._push_task(snap); poll.poll(); push._push_task(snap)
for kind, md in ch.calls:
    print(kind, md)
print('provider asked', Rotating.calls, 'time(s) for', len(ch.calls), 'requests')
