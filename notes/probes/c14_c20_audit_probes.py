import sys, threading, types, logging
sys.path.insert(0,'/repo/src')
logging.getLogger('deep').addHandler(logging.NullHandler()); logging.getLogger('deep').propagate=False
from deep.api import Deep
from deep.config import ConfigService
from deep.config.tracepoint_config import TracepointConfigService
from deep.api.plugin import Plugin, load_plugins
import deep.grpc.grpc_service as gs
class Ch:
    def unary_unary(self, path, request_serializer=None, response_deserializer=None, **k):
        def call(req, **kw):
            from deepproto.proto.poll.v1.poll_pb2 import PollResponse, ResponseType
            return PollResponse(response_type=ResponseType.NO_CHANGE)
        return call
class G:
    def insecure_channel(self,*a,**k): return Ch()
    secure_channel=insecure_channel
    def ssl_channel_credentials(self,*a,**k): return None
gs.grpc = G()
OFF={'PLUGIN_OTELPLUGIN':'False','PLUGIN_PYTHONPLUGIN':'False','PLUGIN_PROMETHEUSPLUGIN':'False','PLUGIN_OTELMETRICS':'False'}
# --- C14-3: start on thread A, shutdown on thread B
d = Deep(ConfigService(dict(OFF, APP_ROOT='/app', POLL_TIMER=5, SERVICE_SECURE='False'), tracepoints=TracepointConfigService()))
res={}
go=threading.Event(); done=threading.Event()
def A():
    res['A_before']=sys.gettrace()
    d.start()
    res['A_started']=sys.gettrace()==d.trigger_handler.trace_call
    go.set(); done.wait(10)
    res['A_after_shutdown_elsewhere']= 'agent' if sys.gettrace()==d.trigger_handler.trace_call else sys.gettrace()
    sys.settrace(None)
def B():
    go.wait(10)
    def hb(f,e,a): return None
    sys.settrace(hb)
    d.shutdown()
    res['B_after']= 'agent' if sys.gettrace()==d.trigger_handler.trace_call else ('own' if sys.gettrace() is hb else sys.gettrace())
    sys.settrace(None); done.set()
ta=threading.Thread(target=A); tb=threading.Thread(target=B); ta.start(); tb.start(); ta.join(); tb.join()
threading.settrace(None)
print('C14-3', res)
# --- C20-4: order() raises / not comparable
class P1(Plugin):
    def __init__(self, config=None): super().__init__('P1', config)
    def order(self): raise RuntimeError('order fails')
class P2(Plugin):
    def __init__(self, config=None): super().__init__('P2', config)
    def order(self): return 'high'
class P3(Plugin):
    def __init__(self, config=None): super().__init__('P3', config)
m=types.ModuleType('pm'); m.P1=P1; m.P2=P2; m.P3=P3; sys.modules['pm']=m
for names in (['pm.P1','pm.P3'], ['pm.P2','pm.P3']):
    cfg=ConfigService(dict(OFF, APP_ROOT='/app'), tracepoints=TracepointConfigService())
    try: print('C20-4', names, [type(p).__name__ for p in load_plugins(cfg, names)])
    except BaseException as e: print('C20-4', names, 'load_plugins raised', type(e).__name__, e)
