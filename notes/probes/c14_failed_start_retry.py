"""C14 (suspicious, outside the quantifier): grpc.start() fails once during Deep.start (after trigger_handler.start()\nhas installed the hooks); the application retries; after shutdown() the trace functions are the AGENT's own trace_call\n(the retry remembered it as "previous") and the host's functions are lost.  Lean: C14.c14_failed_start_witness."""
import sys, threading
sys.path.insert(0, '/repo/src'); sys.path.insert(0, '/verif/harness')
import fc_env
fc_env.install_fake_grpc()
from deep.api import Deep
from deep.config import ConfigService
from deep.config.tracepoint_config import TracepointConfigService
def host(frame, event, arg): return None
sys.settrace(host); threading.settrace(host)
d = Deep(ConfigService({'SERVICE_URL': 'fake:1', 'SERVICE_SECURE': 'False', 'POLL_TIMER': 5}, tracepoints=TracepointConfigService()))
orig = d.grpc.start
n = [0]
def flaky():
    n[0] += 1
    if n[0] == 1: raise ConnectionError('first connect fails')
    return orig()
d.grpc.start = flaky
try:
    d.start()
except Exception as e:
    print('start 1 raised', type(e).__name__, 'started', d.started, 'hook is agent', sys.gettrace() == d.trigger_handler.trace_call)
d.start()
print('start 2 started', d.started)
d.shutdown()
print('after shutdown: sys hook is host', sys.gettrace() is host, 'is agent', sys.gettrace() == d.trigger_handler.trace_call, 'thr is host', threading.gettrace() is host)
sys.settrace(None); threading.settrace(None)
