import threading
def rec(n):
    if n == 0:
        return 'base'
    r = rec(n - 1)      # line 5
    return 'lvl%d' % n  # line 6
def gated(gate, tag):
    x = tag
    return x     # line 9
def worker(n):
    t = 0
    for i in range(n):
        t += i   # line 13
    return t
