from common import *
import target2, pprint
cfg, push, h, lg = mk()
h.new_config([build_trigger('tp', 'target2.py', 12, {}, ['y+1000', 'y+2000', 'y+3000', '"a"*3+str(y)', '"b"*3+str(y)'], [])])
r = run_traced(h, target2.f_glob)
d = dump(push.pushed[0]); pprint.pprint(d['watches']); pprint.pprint(d['vars'])
cfg, push, h, lg = mk()
h.new_config([build_trigger('tp', 'target2.py', 12, {'log_msg': '{y+1000} {y+2000} {y+3000}', 'snapshot': 'no_collect'}, [], [])])
r = run_traced(h, target2.f_glob)
print(lg.logged[0][0])
