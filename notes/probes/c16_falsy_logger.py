"""probe: a registered tracepoint logger that is a falsy object (e.g. a collecting logger whose __len__ is the number of
lines so far) never receives a message: LogActionResult.process tests `if tracepoint_logger:` (truthiness, not None-ness).
SRC=<tree>/src /venv/bin/python c16_falsy_logger.py"""
import os, sys
sys.path.insert(0, os.environ.get('SRC', '/repo/src'))
import logging; logging.disable(logging.CRITICAL)
from deep.config import ConfigService
from deep.config.tracepoint_config import TracepointConfigService
from deep.processor.trigger_handler import TriggerHandler
from deep.push.push_service import PushService
from deep.api.resource import Resource
from deep.api.plugin import TracepointLogger
from deep.api.tracepoint.trigger import build_trigger


class Lines(TracepointLogger):
    def __init__(self): super().__init__(); self.lines = []
    def log_tracepoint(self, log_msg, tp_id, ctx_id): self.lines.append(log_msg)


class CountingLines(Lines):
    def __len__(self): return len(self.lines)          # empty at start => falsy


class Code: co_filename = '/app/host.py'; co_name = 'fn'
class Frame:
    f_code = Code(); f_lineno = 7; f_back = None; f_globals = {'__builtins__': __builtins__}; f_locals = {'n': 5}

for cls in (Lines, CountingLines):
    cfg = ConfigService({'APP_ROOT': '/app'}, tracepoints=TracepointConfigService())
    cfg.resource = Resource.get_empty(); lg = cls(); cfg.plugins = [lg]
    h = TriggerHandler(cfg, PushService(None, None))
    h.new_config([build_trigger('tp', 'host.py', 7, {'snapshot': 'no_collect', 'log_msg': 'n={n}'}, [], [])])
    h.trace_call(Frame(), 'line', None)
    print(f'{cls.__name__:14} received: {lg.lines}')
