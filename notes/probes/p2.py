from common import *
import target2, pprint
from deep.api.tracepoint.trigger import LocationAction, Trigger, LineLocation, FunctionLocation, Location
# C06: local with raising __str__
cfg, push, h, lg = mk()
h.new_config([build_trigger('tp1', 'target2.py', 9, {}, [], [])])
r = run_traced(h, target2.f_bad)
print('bad str local: pushed', len(push.pushed), r.get('ret'), r.get('exc'), r['trace_after'] is not None)
# KeyboardInterrupt from __str__
cfg, push, h, lg = mk()
h.new_config([build_trigger('tp1', 'target2.py', 22, {}, [], [])])
r = run_traced(h, target2.f_kb)
print('KB str local: pushed', len(push.pushed), r.get('ret'), repr(r.get('exc')), r['trace_after'] is not None)
# C10 globals visibility
cfg, push, h, lg = mk()
h.new_config([build_trigger('tp1', 'target2.py', 12, {}, ['G', 'y', 'len', 'uuid', 'FrameType', 'nope'], [])])
r = run_traced(h, target2.f_glob)
pprint.pprint(dump(push.pushed[0])['watches']); 
d = dump(push.pushed[0]); print({k:v for k,v in d['vars'].items()})
# C10 condition false does not consume budget; C04 count
cfg, push, h, lg = mk()
h.new_config([build_trigger('tp1', 'target2.py', 18, {'condition': 'i == 3', 'fire_count':'2', 'fire_period':'0'}, [], [])])
r = run_traced(h, target2.f_loop, 10)
print('cond i==3 pushed', len(push.pushed))
cfg, push, h, lg = mk()
h.new_config([build_trigger('tp1', 'target2.py', 18, {'condition': 'i >= 3', 'fire_count':'2', 'fire_period':'0'}, [], [])])
r = run_traced(h, target2.f_loop, 10)
print('cond i>=3 fc=2 pushed', len(push.pushed))
cfg, push, h, lg = mk()
h.new_config([build_trigger('tp1', 'target2.py', 18, {'fire_count':'-1', 'fire_period':'0'}, [], [])])
r = run_traced(h, target2.f_loop, 10)
print('fc=-1 pushed', len(push.pushed))
cfg, push, h, lg = mk()
h.new_config([build_trigger('tp1', 'target2.py', 18, {'fire_count':'abc', 'fire_period':'x'}, [], [])])
r = run_traced(h, target2.f_loop, 10)
print('fc=abc pushed', len(push.pushed))
cfg, push, h, lg = mk()
h.new_config([build_trigger('tp1', 'target2.py', 18, {'fire_count':'0', 'fire_period':'0'}, [], [])])
r = run_traced(h, target2.f_loop, 10)
print('fc=0 pushed', len(push.pushed))
cfg, push, h, lg = mk()
h.new_config([build_trigger('tp1', 'target2.py', 18, {'fire_count':'-2', 'fire_period':'0'}, [], [])])
r = run_traced(h, target2.f_loop, 10)
print('fc=-2 pushed', len(push.pushed))
# condition failing
cfg, push, h, lg = mk()
h.new_config([build_trigger('tp1', 'target2.py', 18, {'condition': 'nosuch', 'fire_count':'2', 'fire_period':'0'}, [], [])])
r = run_traced(h, target2.f_loop, 10)
print('cond nosuch pushed', len(push.pushed))
# condition evaluating to truthy non-bool e.g. 5 / "yes" / [1]
for c in ['5', '"yes"', '[1]', '1', 'True', '"t"', 'i', '1.0','None']:
    cfg, push, h, lg = mk()
    h.new_config([build_trigger('tp1', 'target2.py', 18, {'condition': c, 'fire_count':'-1', 'fire_period':'0'}, [], [])])
    r = run_traced(h, target2.f_loop, 4)
    print('cond', c, 'pushed', len(push.pushed))
# C16 log ids
cfg, push, h, lg = mk()
h.new_config([build_trigger('tpL', 'target2.py', 12, {'log_msg': 'a {y} {{b}} {nope} {G}', 'snapshot':'no_collect'}, [], [])])
r = run_traced(h, target2.f_glob)
print(lg.logged)
cfg, push, h, lg = mk()
h.new_config([build_trigger('tpL', 'target2.py', 12, {'log_msg': 'a {y} {y!r:>5} {y.real} {0} {}'}, [], [])])
r = run_traced(h, target2.f_glob)
print(lg.logged, len(push.pushed), push.pushed and (push.pushed[0].log_msg, dump(push.pushed[0])['watches']))
