import sys, time, threading; sys.path.insert(0,'/repo/src')
import logging; logging.disable(logging.CRITICAL)
from deep.task import TaskHandler
th = TaskHandler()
ran=[]
ev = threading.Event()
f1 = th.submit_task(lambda: (ev.wait(), ran.append('t1')))   # worker 1 exists and is busy
# the second submit must start worker 2: make the thread start fail (resource exhaustion: "can't start new thread")
orig = threading.Thread.start
def bad_start(self):
    if self.name.startswith('ThreadPoolExecutor'):
        raise RuntimeError("can't start new thread")
    return orig(self)
threading.Thread.start = bad_start
try:
    th.submit_task(lambda: ran.append('t2'))
    print('submit returned')
except BaseException as e:
    print('pool.submit raised:', type(e).__name__, e, '| pending ids:', list(th._pending), '| job id used:', th._job_id)
threading.Thread.start = orig
ev.set(); time.sleep(0.3)
print('tasks that ran:', ran, '| pending after:', list(th._pending))
th.flush(); print('flush returned; ran:', ran)
