"""Probe (owner O6, C12 "polling continues"): POLL_TIMER = 0 (or '0', or DEEP_POLL_TIMER=0) ends the poll thread
before its first pass: RepeatedTimer._time computes `x % self.interval` with interval 0.0 -> ZeroDivisionError, and
`_time` is evaluated in the loop TEST of `_target`, outside the `try`.  LongPoll.start() returns normally, the initial
inline poll is made, and no poll is ever made again.  Not judged by C12 (a zero interval is a configuration value,
not a poll outcome) - recorded as an observation; the C12 model states the assumption (`_time` does not raise).

run: /venv/bin/python notes/probes/o6_poll_timer_zero_interval.py   (VERIF_REPO=/path to use another tree)
"""
import os
import sys
import threading
import time

sys.path.insert(0, os.path.join(os.environ.get('VERIF_REPO', '/repo'), 'src'))
from deep.utils import RepeatedTimer  # noqa: E402

calls = []
died = []
threading.excepthook = lambda a: died.append(a.exc_type.__name__)
for interval in (0, '0', 0.0):
    t = RepeatedTimer('probe', interval, lambda: calls.append(1))
    t.start()
    time.sleep(0.05)
    print('interval=%r  thread alive: %s  calls: %d  died of: %s' % (interval, t.thread.is_alive(), len(calls), died[-1:]))
    t.stop()
