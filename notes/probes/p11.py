from common import *
import target2, pprint
cfg, push, h, lg = mk()
ws = ['(y,%d)' % i for i in range(8)] + ['[y,%d]' % i for i in range(4)] + ['{"k":%d}' % i for i in range(4)] + ['float(y)+%d.5' % i for i in range(4)]
h.new_config([build_trigger('tp', 'target2.py', 12, {}, ws, [])])
r = run_traced(h, target2.f_glob)
d = dump(push.pushed[0]); 
for w in d['watches']:
    vid = w[1][0]; print(w[0], vid, d['vars'][vid][:3])
