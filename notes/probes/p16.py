from common import *
import target6, pprint
cfg, push, h, lg = mk()
h.new_config([build_trigger('tp', 'target6.py', 5, {}, [], [])])
r = run_traced(h, target6.f_locals_ref)
d = dump(push.pushed[0])
print('D32 frame vars', d['frames'][0][2]); print('D32 table keys', sorted(d['vars'].keys()))
refs = [v for v in d['frames'][0][2]] + [c for e in d['vars'].values() for c in e[2]]
print('D32 dangling refs:', [r for r in refs if r[0] not in d['vars']])
