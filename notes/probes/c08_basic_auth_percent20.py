"""Probe (C08, documentation only - NOT a violation of the C08 statement): BasicAuthProvider.provide returns
    [('authorization', 'Basic%20' + base64(user:password))]
i.e. the scheme and the credentials are separated by the three characters "%20" (a URL-encoded space), where RFC 7617
("Authorization: Basic <credentials>") has a single space.  A server that parses the header per the RFC sees the scheme
"Basic%20Ym9i..." and no credentials; the deep service presumably un-quotes the value.

C08 says "every outgoing poll and snapshot request carries the metadata supplied by the configured auth provider": it
constrains what is SENT relative to what the provider SUPPLIES, not what a provider must supply - so this is recorded,
not counted.  What is proved about it (Props/C08.lean c08_basic_auth_header): the provider supplies exactly this one
pair and the base64 part decodes to the UTF-8 bytes of `user:password` for every user / password.

run: /venv/bin/python /verif/notes/probes/c08_basic_auth_percent20.py     (exit 0; prints the header and both readings)
"""
import base64
import os
import sys

sys.path.insert(0, os.path.join(os.environ.get('VERIF_REPO', '/repo'), 'src'))
from deep.api.auth import BasicAuthProvider  # noqa: E402


class Cfg:
    SERVICE_USERNAME = 'bob'
    SERVICE_PASSWORD = 'p:w é'


md = BasicAuthProvider(Cfg()).provide()
print('supplied metadata      :', md)
value = dict(md)['authorization']
scheme, _, credentials = value.partition(' ')
print('RFC 7617 reading       : scheme=%r credentials=%r' % (scheme, credentials))
after = value[len('Basic%20'):] if value.startswith('Basic%20') else None
print('"%20"-aware reading    :', None if after is None else base64.b64decode(after).decode('utf-8'))
print('separator is "%20"     :', value.startswith('Basic%20'), '| separator is a space:', value.startswith('Basic '))
