"""C01 candidate finding: one contained failure inside callback processing switches the agent off for the thread.

TriggerHandler.__process_call_backs pops the pending CallbackContext, then calls context.process(...).  If that call
(or anything after the pop and before the `clear()`) raises — BaseException or Exception class, e.g. a span whose
close() raises KeyboardInterrupt-like, or any internal failure — trace_call's wrapper contains it, but the per-thread
deque stays *set and empty*.  Every later line/return/exception event of this thread then dies in
`self._callbacks.value.pop()` (IndexError, contained) BEFORE trigger matching: no tracepoint fires in this thread
again, although sys.gettrace() is still the handler and the host is unaffected.

run: SRC=/repo/src /venv/bin/python c01_callback_fault_dead_thread.py
expected on a correct tree: the log tracepoint on line 5 still fires after the failure (`logged` non-empty).
"""
import os, sys, threading
sys.path.insert(0, os.environ.get('SRC', '/repo/src'))
import logging
logging.getLogger('deep').addHandler(logging.NullHandler()); logging.getLogger('deep').propagate = False
from deep.config import ConfigService
from deep.config.tracepoint_config import TracepointConfigService
from deep.processor.trigger_handler import TriggerHandler
from deep.push.push_service import PushService
from deep.api.resource import Resource
from deep.api.plugin import TracepointLogger
from deep.api.plugin.span import SpanProcessor, Span
from deep.api.tracepoint.trigger import build_trigger
import deep.logging as dl


class Boom(BaseException):
    pass


class Lg(TracepointLogger):
    logged = []
    def log_tracepoint(self, msg, tp_id, ctx_id): self.logged.append(msg)


class Sp(Span):
    name = trace_id = span_id = 's'
    def add_attribute(self, k, v): pass
    def add_event(self, n, a=None): pass
    def close(self): raise Boom('span close fails')          # BaseException class: not caught per span


class SpP(SpanProcessor):
    def create_span(self, name, ctx, tp): return Sp()
    def current_span(self): return None


src = '''
def f(x):
    a = x + 1      # line 3: line span
    b = a * 2      # line 4: the span is closed here -> failure
    c = b - 1      # line 5: log tracepoint
    return c
'''
ns = {}
exec(compile(src, '/app/hostx.py', 'exec'), ns)
cfg = ConfigService({'APP_ROOT': '/app'}, tracepoints=TracepointConfigService())
cfg.resource = Resource.get_empty()
cfg.plugins = [Lg(), SpP()]
h = TriggerHandler(cfg, PushService(None, None))
h.new_config([build_trigger('tp1', 'hostx.py', 3, {'span': 'line', 'snapshot': 'no_collect'}, [], []),
              build_trigger('tp2', 'hostx.py', 5, {'log_msg': 'hello {b}', 'snapshot': 'no_collect'}, [], [])])
errs = []
dl.exception = lambda msg, *a, **k: errs.append(repr(sys.exc_info()[1]))
out = {}


def body():
    sys.settrace(h.trace_call)
    try:
        out['ret'] = ns['f'](1)
    finally:
        out['trace'] = sys.gettrace() == h.trace_call
        sys.settrace(None)


t = threading.Thread(target=body); t.start(); t.join()
print('host result', out['ret'], '| trace function kept:', out['trace'])
print('agent errors:', errs)
print('logged after the failure:', Lg.logged, '<- expected ["[deep] hello 4"]')
