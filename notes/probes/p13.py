import string, _string
for t in ['a{x}b', '{{x}}', '{x[1:2]}', '{x!r}', '{x:>5}', '{x:{w}}', '{d["a:b"]}', "{d['k']}", '{x!=1}', '{ x }', '{x.y[0].z}', '}', '{', '{x', 'x}', '{}', '{0}{1}', '{x}{}', 'é{ü}', '{x:}', '{x!s:}', '{x[}]}', "{f(a, b)}", "{a if b else c}", "{ {1:2}[1] }", "{lambda: 1}", "{x:%Y}"]:
    try:
        print(repr(t), list(_string.formatter_parser(t)))
    except Exception as e:
        print(repr(t), 'ERR', e)
class F(string.Formatter):
    def get_field(self, name, a, k): return ('<%s>' % name, name)
for t in ['a{x}b', '{x!r}', '{x:>7}', '{x:{w}}', '{x!a}', '{}', '{}{}', '{0}{}']:
    try: print(repr(t), repr(F().vformat(t, (), {})))
    except Exception as e: print(repr(t), 'ERR', e)
