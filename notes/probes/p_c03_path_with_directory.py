"""C03 (candidate, not a claimed defect): a tracepoint whose path has a directory part never acts.

TriggerHandler.location_from_event reduces the executing file to os.path.basename(co_filename) and
LineLocation / FunctionLocation.at_location compare that NAME with the tracepoint's path by `==`.  A tracepoint
whose path is the file's absolute path (exactly frame.f_code.co_filename), a relative path with a directory, or the
format the repo's own dev test-server sends (dev/test-server/src/test_server/server.py: path="/simple-app/simple_test.py")
is therefore at no event of any program; only the bare file name acts.  Lean: C03.c03_dir_path_never_matches.
The C03 check lists "tracepoint paths are file names" as an assumption (DESIGN.md §6: basename reading), so its oracle
does not flag this; whether the service really sends directory paths is outside /repo.
Run: SRC=<tree>/src /venv/bin/python p_c03_path_with_directory.py
Observed on the clean tree: only tracepoint NAME logs.
"""
import os
import sys
sys.path.insert(0, os.environ.get('SRC', '/repo/src'))
HERE = os.path.dirname(os.path.abspath(__file__))
sys.path.insert(0, HERE)
from common import *   # noqa

ARGS = {'fire_count': '-1', 'fire_period': '0', 'snapshot': 'no_collect', 'log_msg': 'hit'}


def target(x):
    y = x + 1          # <- tracepoints on this line
    return y


FILE = target.__code__.co_filename            # absolute path of this file
LINE = target.__code__.co_firstlineno + 1
cfg, push, h, lg = mk()
h.new_config([t for t in [
    build_trigger('NAME', os.path.basename(FILE), LINE, dict(ARGS), [], []),
    build_trigger('ABSOLUTE', FILE, LINE, dict(ARGS), [], []),
    build_trigger('RELATIVE', os.path.join(os.path.basename(os.path.dirname(FILE)), os.path.basename(FILE)), LINE,
                  dict(ARGS), [], []),
    build_trigger('DEVSERVER', '/' + os.path.basename(os.path.dirname(FILE)) + '/' + os.path.basename(FILE), LINE,
                  dict(ARGS), [], []),
] if t is not None])
run_traced(h, target, 1)
print('executing file :', FILE)
print('tracepoints that acted at line %d: %s' % (LINE, [tp for (_m, tp, _c) in lg.logged]))
