"""probe: a frame local used inside a lambda / generator expression of a watch (condition, log field, metric expression)
is not visible: eval(expr, f_globals, f_locals) resolves free names of nested code objects in globals/builtins only.
SRC=<tree>/src /venv/bin/python c10_nested_scope.py"""
import os, sys
sys.path.insert(0, os.environ.get('SRC', '/repo/src'))
import logging; logging.disable(logging.CRITICAL)
from deep.config import ConfigService
from deep.config.tracepoint_config import TracepointConfigService
from deep.processor.trigger_handler import TriggerHandler
from deep.push.push_service import PushService
from deep.api.resource import Resource
from deep.api.tracepoint.trigger import build_trigger


class Push(PushService):
    def __init__(self): super().__init__(None, None); self.pushed = []
    def push_snapshot(self, s): self.pushed.append(s)


def host(limit, items):
    mark = 0            # TP: at this line `any(x > limit for x in items)` is True, `(lambda q: q + limit)(1)` is 4
    return mark


line = host.__code__.co_firstlineno + 1
watches = ['limit + 1', '(lambda q: q + limit)(1)', 'any(x > limit for x in items)', '[x + limit for x in items]']
cfg = ConfigService({'APP_ROOT': os.path.dirname(os.path.abspath(__file__))}, tracepoints=TracepointConfigService())
cfg.resource = Resource.get_empty(); cfg.plugins = []
push = Push(); h = TriggerHandler(cfg, push)
h.new_config([build_trigger('tp', os.path.basename(__file__), line, {}, watches, [])])
sys.settrace(h.trace_call)
try:
    host(3, [1, 5])
finally:
    sys.settrace(None)
s = push.pushed[0]
for w in s.watches:
    var = s.var_lookup[w.result.vid]
    print(f'{w.expression!r:34} -> {var.type}: {var.value}')
