"""C02 — observations on the real code that the property statement does not decide (not reported as violations).

run:  /venv/bin/python notes/probes/c02_observations.py        (SRC=<tree>/src to use another tree)

1. The tracepoint echoed in a snapshot carries the *snapshot action's* config, not the tracepoint's args: `condition`,
   `method_name`, `stage`, `snapshot`, `span` … are dropped, defaults are filled in; a function tracepoint echoes line 0.
2. `correct_names` strips the prefix `_<Class>` from ANY attribute name that starts with it: `_Trapdoor` of class `Trap`
   is shown as `door` (original `_Trapdoor`), although it is not a private (`__x`) name; a private attribute inherited
   from a base class (`_Priv__secret` on a `Child`) is not de-mangled and is labelled `protected`.
3. `parse_short_name` cuts exactly the matched prefix, so the short path keeps the leading `/`
   (`/app/x.py` with APP_ROOT `/app` -> `/x.py`); its docstring shows a different example.
"""
import os
import sys

sys.path.insert(0, os.environ.get('SRC', '/repo/src'))
from deep.api.tracepoint.trigger import build_trigger          # noqa: E402
from deep.processor.variable_processor import correct_names, var_modifiers   # noqa: E402

t = build_trigger('tp1', 'x.py', 12, {'condition': 'a > 1', 'frame_type': 'all_frame'}, ['w'], [])
tp = t.actions[0].tracepoint
print('1a. configured args {condition, frame_type}; echoed:', tp.args, 'line', tp.line_no)
t = build_trigger('tp2', 'x.py', 12, {'method_name': 'f'}, [], [])
tp = t.actions[0].tracepoint
print('1b. function tracepoint configured at line 12; echoed:', tp.args, 'line', tp.line_no)
print('2a. Trap._Trapdoor ->', correct_names('Trap', '_Trapdoor'), var_modifiers(correct_names('Trap', '_Trapdoor')))
print('2b. Child inherits _Priv__secret ->', correct_names('Child', '_Priv__secret'),
      var_modifiers(correct_names('Child', '_Priv__secret')))
from deep.config import ConfigService                          # noqa: E402
from deep.config.tracepoint_config import TracepointConfigService   # noqa: E402
c = ConfigService({'APP_ROOT': '/app', 'IN_APP_EXCLUDE': [], 'IN_APP_INCLUDE': []}, tracepoints=TracepointConfigService())
ok, match = c.is_app_frame('/app/x.py')
print('3.  /app/x.py with APP_ROOT /app ->', ('/app/x.py'[len(match):], ok))
