"""probe: attribute values that BoundedAttributes accepts and keeps but convert_value / protobuf cannot carry:
(a) a sequence with a None element (explicitly kept by _clean_attribute) -> TypeError inside ArrayValue(...)
(b) an int outside int64 -> ValueError.  Either way convert_snapshot returns None and the snapshot is silently
dropped (same mechanism as D29); the poll request with such a resource attribute raises out of LongPoll.poll.
usage: SRC=/repo/src /venv/bin/python probe_attr_values.py"""
import os, sys, logging
sys.path.insert(0, os.environ.get('SRC', '/repo/src'))
logging.disable(logging.CRITICAL)
from deep.api.tracepoint import EventSnapshot, TracePointConfig
from deep.api.resource import Resource
from deep.push import convert_snapshot
from deep.grpc import convert_resource

def snap(attrs):
    s = EventSnapshot(TracePointConfig('tp', 'a.py', 1, {}, [], []), 1, Resource.get_empty(), [], {})
    for k, v in attrs.items():
        s.attributes[k] = v
    return s

for name, attrs in [('plain', {'k': 'v'}), ('seq with None', {'k': ['x', None, 'y']}), ('int 2**70', {'k': 2 ** 70})]:
    s = snap(attrs)
    print(f'{name:14} stored={dict(s.attributes.items())!r:40} converted={"DROPPED (None)" if convert_snapshot(s) is None else "ok"}')
try:
    convert_resource(Resource({'k': ['x', None]}))
    print('resource with [x, None]: ok')
except Exception as e:
    print('resource with [x, None]: poll request raises', type(e).__name__)
