"""Probe (C01-adjacent observation, found through C16's nested format specs): in a log template a format spec may
contain fields — `{x:{n}}` — so the WIDTH of a field is frame data.  `process_log` (string.Formatter) then builds a
string of n characters in the host process while the host thread is paused: n = 10**7 allocates 10 MB per hit;
n >= 2**62 raises MemoryError at once, n >= 2**63 ValueError.  The errors are contained (the hit's message — and the
snapshot of a collecting tracepoint — is lost, nothing reaches the host), the allocation in between is not bounded by
any agent limit (MAX_STRING_LENGTH applies to collected values, not to the rendered message).

usage: /venv/bin/python c16_width_from_frame.py [<checkout>]     (prints sizes; always exit 0 — an observation)
"""
import logging
import sys
import time

sys.path.insert(0, '/verif/harness')
import core  # noqa: E402
if len(sys.argv) > 1:
    core.SRC = sys.argv[1] + '/src'
core.use_repo()
from props import c16  # noqa: E402

logging.getLogger('deep').propagate = False
base = {'via': 'mock', 'logger': 'rec', 'mode': 'snap', 'cfg': {'fire_count': '-1', 'fire_period': '0'}, 'hits': [100], 'kind': 'raw'}
c16.LOCALS.append(['wide7', 10 ** 7])
c16.LOCALS.append(['wide62', 2 ** 62])
c16.LOCALS.append(['wide63', 2 ** 63])
for tpl in ('{s:{wide7}}', '{s:{wide62}}', '{s:{wide63}}'):
    t0 = time.time()
    obs = c16.run_impl(dict(base, tpl=tpl))
    h = obs['hits'][0]
    size = len(h['logger'][0][0]) if h['logger'] else None
    print('%-14s message length %s, snapshots %d, raised into host: %s (%.2fs)'
          % (tpl, size, h['snapshots'], h.get('raised'), time.time() - t0))
