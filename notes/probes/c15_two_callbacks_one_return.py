"""Observation for C15 (found by C01's differential runs, not a C01 matter): only ONE pending CallbackContext is
popped per event.  A method span on f() plus a line span on the LAST line of f(): at f's return event the line
span's context (top of the deque) is processed, the method span's context stays pending — there is no further
event of f, so the method span is never closed (until some later return of a function with the same file+name).

run: SRC=/repo/src /venv/bin/python c15_two_callbacks_one_return.py     expected on a correct tree: 2 opens, 2 closes
"""
import os, sys, threading
sys.path.insert(0, os.environ.get('SRC', '/repo/src'))
import logging
logging.getLogger('deep').addHandler(logging.NullHandler()); logging.getLogger('deep').propagate = False
from deep.config import ConfigService
from deep.config.tracepoint_config import TracepointConfigService
from deep.processor.trigger_handler import TriggerHandler
from deep.push.push_service import PushService
from deep.api.resource import Resource
from deep.api.plugin.span import SpanProcessor, Span
from deep.api.tracepoint.trigger import build_trigger

events = []


class Sp(Span):
    def __init__(self, n): self.n = n
    name = trace_id = span_id = 's'
    def add_attribute(self, k, v): pass
    def add_event(self, n, a=None): pass
    def close(self): events.append(('close', self.n))


class SpP(SpanProcessor):
    def create_span(self, name, ctx, tp): events.append(('open', tp)); return Sp(tp)
    def current_span(self): return None


src = '''
def f(x):
    a = x + 1
    return a        # line 4: line span; f itself: method span
'''
ns = {}
exec(compile(src, '/app/hosty.py', 'exec'), ns)
cfg = ConfigService({'APP_ROOT': '/app'}, tracepoints=TracepointConfigService())
cfg.resource = Resource.get_empty()
cfg.plugins = [SpP()]
h = TriggerHandler(cfg, PushService(None, None))
h.new_config([build_trigger('method', 'hosty.py', 2, {'span': 'method', 'method_name': 'f', 'snapshot': 'no_collect'}, [], []),
              build_trigger('line', 'hosty.py', 4, {'span': 'line', 'snapshot': 'no_collect'}, [], [])])


def body():
    sys.settrace(h.trace_call)
    try:
        ns['f'](1)
    finally:
        sys.settrace(None)


t = threading.Thread(target=body); t.start(); t.join()
print(events)
