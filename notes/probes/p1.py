from common import *
import target1, pprint
# P1: bytes local
cfg, push, h, lg = mk()
h.new_config([build_trigger('tp1', 'target1.py', 5, {}, [], [])])
r = run_traced(h, target1.f_bytes)
print('P1 bytes: pushed', len(push.pushed), r)
# int-key dict
cfg, push, h, lg = mk()
h.new_config([build_trigger('tp1', 'target1.py', 19, {}, [], [])])
r = run_traced(h, target1.f_intkey)
print('P1b intkey: pushed', len(push.pushed), r)
# P2: two tracepoints same line (separately built triggers)
cfg, push, h, lg = mk()
h.new_config([build_trigger('tp1', 'target1.py', 10, {}, [], []), build_trigger('tp2', 'target1.py', 10, {}, [], [])])
r = run_traced(h, target1.f_plain)
print('P2 two tps: pushed', len(push.pushed))
for s in push.pushed: pprint.pprint(dump(s))
# P3 BFS order
cfg, push, h, lg = mk()
h.new_config([build_trigger('tp1', 'target1.py', 15, {}, [], [])])
r = run_traced(h, target1.f_big)
pprint.pprint(dump(push.pushed[0]))
