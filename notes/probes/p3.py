from common import *
import target2, pprint, traceback
from deep.api.tracepoint.trigger import LocationAction, Trigger, LineLocation, FunctionLocation, Location
from deep.api.plugin.span import SpanProcessor, Span
# log + snapshot
cfg, push, h, lg = mk()
h.new_config([build_trigger('tpL', 'target2.py', 12, {'log_msg': 'a {y} {y!r:>5} {y.real} {y+1}'}, [], [])])
r = run_traced(h, target2.f_glob)
print(lg.logged, len(push.pushed), push.pushed and (push.pushed[0].log_msg, dump(push.pushed[0])['watches']))
# stage=method_capture via build_trigger: deferred?
cfg, push, h, lg = mk()
h.new_config([build_trigger('tpC', 'target2.py', -1, {'method_name': 'f_glob', 'stage': 'method_capture'}, [], [])])
r = run_traced(h, target2.f_glob)
print('method_capture pushed', len(push.pushed), [dump(s)['watches'] for s in push.pushed], [ (f[0], f[1]) for f in dump(push.pushed[0])['frames'][:1]])
cfg, push, h, lg = mk()
h.new_config([build_trigger('tpC', 'target2.py', 12, {'stage': 'line_capture'}, [], [])])
r = run_traced(h, target2.f_glob)
print('line_capture pushed', len(push.pushed), [dump(s)['watches'] for s in push.pushed])
# method_end
cfg, push, h, lg = mk()
h.new_config([build_trigger('tpC', 'target2.py', -1, {'method_name': 'f_glob', 'stage': 'method_end'}, [], [])])
r = run_traced(h, target2.f_glob)
print('method_end pushed', len(push.pushed), [ (f[0], f[1]) for f in dump(push.pushed[0])['frames'][:1]])
# method tracepoint without method name -> getsourcelines
cfg, push, h, lg = mk()
h.new_config([build_trigger('tpM', 'target2.py', 12, {'stage': 'method_start'}, [], [])])
r = run_traced(h, target2.f_glob)
print('method_start no name: pushed', len(push.pushed), r)
# same but code with no source: exec'd code with filename target2.py
cfg, push, h, lg = mk()
h.new_config([build_trigger('tpM', 'nosrc_zz.py', 12, {'stage': 'method_start'}, [], [])])
ns = {}
exec(compile("def g():\n    return 7\n", "/nonexistent/nosrc_zz.py", "exec"), ns)
r = run_traced(h, ns['g'])
print('no source: ', r)
# span plugin
class RSpan(Span):
    def __init__(s, name, log, fail_close=False): s._n=name; s.log=log; s.fail_close=fail_close
    name = property(lambda s: s._n); trace_id = property(lambda s: 't'); span_id=property(lambda s:'s')
    def add_attribute(s,k,v): pass
    def add_event(s,n,attributes=None): pass
    def close(s):
        s.log.append(('close', s._n, threading.current_thread().name))
        if s.fail_close: raise RuntimeError('close fail')
class RSpanProc(SpanProcessor):
    def __init__(s, fail_close=False, fail_create=False): super().__init__(); s.log=[]; s.fail_close=fail_close; s.fail_create=fail_create
    def create_span(s, name, context_id, tracepoint_id):
        if s.fail_create: raise RuntimeError('create fail')
        s.log.append(('open', name)); return RSpan(name, s.log, s.fail_close)
    def current_span(s): return None
if __name__ != "__main__": raise SystemExit
sp = RSpanProc(fail_close=True)
cfg, push, h, lg = mk(plugins=[sp])
h.new_config([build_trigger('tpS', 'target2.py', -1, {'method_name': 'f_glob', 'span': 'method', 'snapshot':'no_collect'}, [], [])])
r = run_traced(h, target2.f_glob)
print('span close fail:', sp.log, r)
sp = RSpanProc()
cfg, push, h, lg = mk(plugins=[sp])
h.new_config([build_trigger('tpS', 'target2.py', 18, {'span': 'line', 'snapshot':'no_collect', 'fire_count': '-1', 'fire_period': '0'}, [], [])])
r = run_traced(h, target2.f_loop, 3)
print('line span:', sp.log, r)
