import sys, threading, os, logging
sys.path.insert(0, __import__('os').environ.get('SRC', '/repo/src'))
from deep.config import ConfigService
from deep.config.tracepoint_config import TracepointConfigService
from deep.processor.trigger_handler import TriggerHandler
from deep.push.push_service import PushService
from deep.api.resource import Resource
from deep.api.plugin import TracepointLogger
from deep.api.tracepoint.trigger import build_trigger
logging.getLogger("deep").addHandler(logging.NullHandler())
logging.getLogger("deep").propagate = False

class MockPush(PushService):
    def __init__(self):
        super().__init__(None, None)
        self.pushed = []
    def push_snapshot(self, s):
        self.pushed.append(s)

class RecLogger(TracepointLogger):
    def __init__(self):
        super().__init__()
        self.logged = []
    def log_tracepoint(self, log_msg, tp_id, ctx_id):
        self.logged.append((log_msg, tp_id, ctx_id))

def mk(custom=None, plugins=None):
    cfg = ConfigService(custom or {}, tracepoints=TracepointConfigService())
    cfg.resource = Resource.get_empty()
    lg = RecLogger()
    cfg.plugins = [lg] + (plugins or [])
    push = MockPush()
    h = TriggerHandler(cfg, push)
    return cfg, push, h, lg

def run_traced(h, fn, *a):
    res = {}
    def body():
        sys.settrace(h.trace_call)
        try:
            res['ret'] = fn(*a)
        except BaseException as e:
            res['exc'] = e
        finally:
            res['trace_after'] = sys.gettrace()
            sys.settrace(None)
    t = threading.Thread(target=body); t.start(); t.join()
    return res

def dump(s):
    out = {'frames': [(f.method_name, f.line_number, [(v.vid, v.name) for v in f.variables]) for f in s.frames],
           'vars': {k: (v.type, v.value, [(c.vid, c.name) for c in v.children], v.truncated) for k, v in s.var_lookup.items()},
           'watches': [(w.expression, (w.result.vid, w.result.name) if w.result else None, w.error, w.source) for w in s.watches]}
    return out
