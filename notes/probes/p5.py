from common import *
import time, threading, traceback, os
from deep.task import TaskHandler
from deep.config.tracepoint_config import TracepointConfigService
# C13: two registrations same line; unregister second
class SyncTH:
    def submit_task(self, task, *args):
        from concurrent.futures import Future
        f = Future()
        try: f.set_result(task(*args))
        except Exception as e: f.set_exception(e)
        return f
tcs = TracepointConfigService(); tcs.set_task_handler(SyncTH())
installed = []
from deep.config.tracepoint_config import ConfigUpdateListener
class L(ConfigUpdateListener):
    def config_change(self, ts, old_hash, current_hash, old_config, new_config):
        installed[:] = [new_config]
tcs.add_listener(L())
id1 = tcs.add_custom('a.py', 10, {}, ['w1'], [])
id2 = tcs.add_custom('a.py', 10, {}, ['w2'], [])
print(id1, id2)
tcs.remove_custom(id2)
print('after remove 2nd:', [[a.config.get('watches') for a in t.actions] for t in installed[0]])
# C12: update then custom
from deep.api.tracepoint.trigger import build_trigger
tcs.update_new_config(1, 'h1', [build_trigger('s1', 'b.py', 3, {}, [], [])])
print('installed', [[a.id for a in t.actions] for t in installed[0]])
# C14 lifecycle hooks
import sys
cfg, push, h, lg = mk({'NO_TRACE': True})
def prev(frame, event, arg): return None
sys.settrace(prev); threading.settrace(prev)
h.start(); print('NO_TRACE after start', sys.gettrace() is prev, threading.gettrace() is prev)
h.shutdown(); print('NO_TRACE after shutdown', sys.gettrace(), threading.gettrace())
sys.settrace(prev); threading.settrace(prev)
cfg, push, h, lg = mk()
h.start(); h.shutdown(); print('normal after shutdown restored', sys.gettrace() is prev, threading.gettrace() is prev)
sys.settrace(None); threading.settrace(None)
print('NO_TRACE default', repr(ConfigService({}, tracepoints=TracepointConfigService()).NO_TRACE))
# C19 env POLL_TIMER string
from deep.utils import RepeatedTimer
calls = []
t = RepeatedTimer('x', '0.05', lambda: calls.append(1))
t.start(); time.sleep(0.3); print('timer alive with str interval', t.thread.is_alive(), len(calls))
os.environ['DEEP_FOO'] = 'envfoo'
c = ConfigService({'FOO': 'code'}, tracepoints=TracepointConfigService()); print('FOO', c.FOO)
c = ConfigService({}, tracepoints=TracepointConfigService()); print('FOO', c.FOO, 'POLL', repr(c.POLL_TIMER), 'BAR', c.BAR)
c = ConfigService({'POLL_TIMER': None, 'X': lambda: 5}, tracepoints=TracepointConfigService()); print('POLL None in code', repr(c.POLL_TIMER), c.X)
c = ConfigService({'APP_ROOT': '/app', 'IN_APP_INCLUDE': ['/lib/inc'], 'IN_APP_EXCLUDE': ['/app/vendor']}, tracepoints=TracepointConfigService())
for p in ['/app/x.py', '/app/vendor/y.py', '/lib/inc/z.py', '/other/q.py', '/application/w.py']:
    print(p, c.is_app_frame(p))
c = ConfigService({'APP_ROOT': '/app'}, tracepoints=TracepointConfigService())
print('default excl', c.IN_APP_EXCLUDE, c.is_app_frame(sys.exec_prefix + '/lib/x.py'))
os.environ['DEEP_IN_APP_EXCLUDE'] = '/a,/b'
print('env excl', c.IN_APP_EXCLUDE)
os.environ['DEEP_IN_APP_EXCLUDE'] = '/a'
try: print('env excl single', c.IN_APP_EXCLUDE)
except Exception as e: print('env excl single ERR', repr(e))
