"""Probe (C17, genuine-defect candidate): a metric expression may evaluate to nan / inf — `float('nan')`, or the TEXT
"nan" / "inf" (float("nan") succeeds in MetricActionContext._process_metric) — and the value is handed to every
processor.  prometheus_client accepts it: the counter reads nan for the rest of the process whatever is reported later;
a histogram gets `_sum` nan with `_count` 0.  The statement's "value equal to the metric's expression evaluated as a
number" holds at the MetricProcessor interface (nan is what float() gave), the provider's series is lost.

usage: /venv/bin/python c17_prom_nan.py [<checkout>]      exit 1 when the counter is poisoned
"""
import logging
import sys

sys.path.insert(0, (sys.argv[1] if len(sys.argv) > 1 else '/repo') + '/src')
logging.getLogger('deep').addHandler(logging.NullHandler())
logging.getLogger('deep').propagate = False

from prometheus_client import REGISTRY  # noqa: E402
from deep.api.plugin.metric.prometheus_metrics import PrometheusPlugin  # noqa: E402

p = PrometheusPlugin(None)
try:
    p.counter('probe_nan', {}, 'deep', 'h', None, 1.0)
    p.counter('probe_nan', {}, 'deep', 'h', None, float('nan'))       # what float("nan") / float('nan') gives
    p.counter('probe_nan', {}, 'deep', 'h', None, 2.0)
    total = REGISTRY.get_sample_value('deep_probe_nan_total')
    print('counter after reports 1, nan, 2: deep_probe_nan_total =', total)
    p.histogram('probe_h', {}, 'deep', 'h', None, float('nan'))
    print('histogram after one report nan: _count =', REGISTRY.get_sample_value('deep_probe_h_count'),
          ' _sum =', REGISTRY.get_sample_value('deep_probe_h_sum'))
finally:
    p.clear()
sys.exit(1 if total != total else 0)
