from common import *
import target2, pprint
from deep.api.plugin.metric import MetricProcessor
from deep.api.tracepoint.tracepoint_config import MetricDefinition, LabelExpression
class RM(MetricProcessor):
    def __init__(s, fail=False): super().__init__(); s.calls=[]; s.fail=fail
    def _r(s, kind, *a):
        s.calls.append((kind,)+a)
        if s.fail: raise RuntimeError('metric fail')
    def counter(s,*a): s._r('counter',*a)
    def gauge(s,*a): s._r('gauge',*a)
    def histogram(s,*a): s._r('histogram',*a)
    def summary(s,*a): s._r('summary',*a)
m1, m2 = RM(), RM()
cfg, push, h, lg = mk(plugins=[m1, m2])
defs = [MetricDefinition('c1','COUNTER', [LabelExpression('k','v',None), LabelExpression('e',None,'y+1'), LabelExpression('bad',None,'nope')], 'y*2', None, 'help', 'u'),
        MetricDefinition('g1','GAUGE', [], '"abc"', 'ns'), MetricDefinition('h1','HISTOGRAM', [], 'nope'), MetricDefinition('s1','SUMMARY', [], None), MetricDefinition('b1','True', [], 'True')]
h.new_config([build_trigger('tpM', 'target2.py', 12, {'snapshot':'no_collect'}, [], defs)])
r = run_traced(h, target2.f_glob)
pprint.pprint(m1.calls); print(m2.calls == m1.calls, r)
# failing processor first
m1, m2 = RM(fail=True), RM()
cfg, push, h, lg = mk(plugins=[m1, m2])
h.new_config([build_trigger('tpM', 'target2.py', 12, {'snapshot':'no_collect'}, [], defs[:2])])
r = run_traced(h, target2.f_glob)
print('fail first:', m1.calls, m2.calls)
# no processor: budget
cfg, push, h, lg = mk()
t = build_trigger('tpM', 'target2.py', 18, {'snapshot':'no_collect'}, [], defs[:1])
h.new_config([t])
r = run_traced(h, target2.f_loop, 3)
m3 = RM(); cfg.plugins = cfg.plugins + [m3]
r = run_traced(h, target2.f_loop, 3)
print('after adding processor calls', len(m3.calls))
# C20 decorator failing, logger failing
from deep.api.plugin import SnapshotDecorator, TracepointLogger, Plugin
from deep.api.attributes import BoundedAttributes
class D(SnapshotDecorator):
    def __init__(s, name, fail=False, base=False): super().__init__(name); s.fail=fail; s.base=base
    def decorate(s, sid, ctx):
        if s.base: raise KeyboardInterrupt('kb')
        if s.fail: raise RuntimeError('dec fail')
        return BoundedAttributes(attributes={s.name: 'ok'})
cfg, push, h, lg = mk(plugins=[D('d1'), D('d2', fail=True), D('d3')])
h.new_config([build_trigger('tp', 'target2.py', 12, {}, [], [])])
r = run_traced(h, target2.f_glob)
print('decor:', len(push.pushed), push.pushed and dict(push.pushed[0].attributes))
class FL(TracepointLogger):
    def log_tracepoint(s, *a): raise RuntimeError('log fail')
cfg, push, h, lg = mk()
cfg.plugins = [FL()]
h.new_config([build_trigger('tp', 'target2.py', 12, {'log_msg': 'x {y}'}, [], [])])
r = run_traced(h, target2.f_glob)
print('failing logger + snapshot: pushed', len(push.pushed), r)
