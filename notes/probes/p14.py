from common import *
import target4, target2, pprint, time
from concurrent.futures import Future
from deep.api.plugin.span import SpanProcessor, Span
from deep.api.plugin import Plugin
from deep.api.tracepoint.trigger import LocationAction, Trigger, LineLocation

# D10: budget exhausted before watch root -> VariableId(None)
cfg, push, h, lg = mk()
act = LocationAction('tp', None, {'watches': ['y + 1000'], 'MAX_VARIABLES': 1, 'fire_count': '1', 'fire_period': '0'}, LocationAction.ActionType.Snapshot)
h.new_config([Trigger(LineLocation('target4.py', 14, None), [act])])
r = run_traced(h, target4.f_many)
d = dump(push.pushed[0]); print('D10 watches:', d['watches'], 'vars', len(d['vars']))

# D14: unknown stage kills whole response
from deepproto.proto.tracepoint.v1.tracepoint_pb2 import TracePointConfig
from deep.grpc import convert_response
resp = [TracePointConfig(ID='good', path='a.py', line_number=3), TracePointConfig(ID='bad', path='a.py', line_number=4, args={'stage': 'weird'})]
try: print('D14', convert_response(resp))
except Exception as e: print('D14 whole response lost:', repr(e))

# D15: reverse-order apply leaves stale config
from deep.config.tracepoint_config import TracepointConfigService, ConfigUpdateListener
class Deferred:
    def __init__(s): s.q = []
    def submit_task(s, task, *args):
        f = Future(); s.q.append((f, task, args)); return f
    def run(s, i):
        f, task, args = s.q.pop(i); f.set_result(task(*args))
tcs = TracepointConfigService(); ex = Deferred(); tcs.set_task_handler(ex)
installed = {}
class L(ConfigUpdateListener):
    def config_change(self, ts, old_hash, current_hash, old_config, new_config): installed['cfg'] = [t.id for t in new_config]
tcs.add_listener(L())
tcs.update_new_config(1, 'h1', [build_trigger('t1', 'one.py', 1, {}, [], [])])
tcs.update_new_config(2, 'h2', [build_trigger('t2', 'two.py', 2, {}, [], [])])
ex.run(1); ex.run(0)
print('D15 hash', tcs.current_hash, 'installed', installed['cfg'])

# D19: plugin shutdown raising aborts Deep.shutdown
from deep.api.deep import Deep
class P(Plugin):
    def __init__(s, name, fail=False): super().__init__(name); s.fail = fail; s.shut = False
    def shutdown(s):
        s.shut = True
        if s.fail: raise RuntimeError('shutdown fail')
c = ConfigService({'SERVICE_URL': 'localhost:1', 'SERVICE_SECURE': 'False', 'NO_TRACE': True}, tracepoints=TracepointConfigService())
dp = Deep(c); dp.started = True
class FakePoll:
    def shutdown(s): pass
dp.poll = FakePoll()
p1, p2 = P('p1', fail=True), P('p2')
c.plugins = [p1, p2]
try: dp.shutdown(); print('D19 shutdown ok')
except BaseException as e: print('D19 shutdown raised', repr(e), 'p2 shut:', p2.shut, 'started:', dp.started)

# D22: first span processor create fails -> second skipped
class RSpan(Span):
    def __init__(s, n): s._n = n
    name = property(lambda s: s._n); trace_id = property(lambda s: 't'); span_id = property(lambda s: 's')
    def add_attribute(s, k, v): pass
    def add_event(s, n, attributes=None): pass
    def close(s): pass
class SP(SpanProcessor):
    def __init__(s, name, fail): super().__init__(name); s.fail = fail; s.created = 0
    def create_span(s, name, c, t):
        if s.fail: raise RuntimeError('create fail')
        s.created += 1; return RSpan(name)
    def current_span(s): return None
s1, s2 = SP('s1', True), SP('s2', False)
cfg, push, h, lg = mk(plugins=[s1, s2])
h.new_config([build_trigger('tpS', 'target4.py', -1, {'method_name': 'inner', 'span': 'method', 'snapshot': 'no_collect'}, [], [])])
r = run_traced(h, target4.inner)
print('D22 second processor created:', s2.created)

# D26: window args ignored
cfg, push, h, lg = mk()
h.new_config([build_trigger('tpW', 'target4.py', 9, {'window_start': '1', 'window_end': '2'}, [], [])])
r = run_traced(h, target4.inner)
t = h._tp_config[0]
print('D26 window_end=2 (long past) but pushed:', len(push.pushed), 'action config keys:', sorted(t.actions[0].config.keys()))

# D28: config emptied while method span open -> never closed
log = []
class RSpan2(RSpan):
    def close(s): log.append('close')
class SP2(SpanProcessor):
    def create_span(s, name, c, t): log.append('open'); return RSpan2(name)
    def current_span(s): return None
sp = SP2()
cfg, push, h, lg = mk(plugins=[sp])
h.new_config([build_trigger('tpS', 'target4.py', -1, {'method_name': 'outer', 'span': 'method', 'snapshot': 'no_collect'}, [], []),
              build_trigger('tpE', 'target4.py', 9, {'condition': 'empty()', 'fire_count': '-1'}, [], [])])
target4.empty = lambda: h.new_config([]) or False
r = run_traced(h, target4.outer)
print('D28 span log:', log, r.get('ret'))

# D30: IN_APP_INCLUDE given in code as comma separated string
c = ConfigService({'APP_ROOT': '/app', 'IN_APP_INCLUDE': '/lib/a,/lib/b'}, tracepoints=TracepointConfigService())
print('D30', c.is_app_frame('/somewhere/else.py'), c.is_app_frame('/lib/b/x.py'))
