"""Probe (C19, finding candidate C19/own-getter-attributeerror-falls-through) — run: /venv/bin/python <this file>

ConfigService.__getattribute__ decides "is this an attribute of the object itself?" by whether
super().__getattribute__(name) raised AttributeError.  A PROPERTY of the class whose getter raises AttributeError
internally (here: walking a broken plugin list) is therefore taken for "no such attribute": the failure is swallowed
and the name is resolved as a configuration key — from the code dict, else DEEP_<name> — so a caller of
cfg.tracepoint_logger gets a configuration value (or None) instead of the plugin or the error.
Also: a class that is a module attribute of deep.config (ConfigService) is callable and is therefore CALLED:
cfg.ConfigService is a fresh ConfigService object.
Lean: C19.c19_attribute_error_falls_through, c19_own_getter_attribute_error_witness, c19_module_class_called.
"""
import logging
import os
import sys

sys.path.insert(0, os.path.join(os.environ.get('VERIF_REPO', '/repo'), 'src'))
logging.disable(logging.CRITICAL)
from deep.config import ConfigService                                   # noqa: E402
from deep.config.tracepoint_config import TracepointConfigService      # noqa: E402


class FailingPlugins(list):
    def __iter__(self):
        raise AttributeError('walking the plugin list failed inside the property getter')


os.environ['DEEP_has_span_processor'] = 'ENVTEXT'
cfg = ConfigService({'tracepoint_logger': 'CODE VALUE'}, tracepoints=TracepointConfigService())
healthy = cfg.tracepoint_logger
object.__setattr__(cfg, '_plugins', FailingPlugins())
got = (cfg.tracepoint_logger, cfg.has_span_processor, type(cfg.ConfigService).__name__)
print('getter returning      : cfg.tracepoint_logger ->', repr(healthy))
print('getter AttributeError : cfg.tracepoint_logger ->', repr(got[0]), '| cfg.has_span_processor ->', repr(got[1]))
print('module class          : type(cfg.ConfigService) ->', got[2])
ok = healthy is None and got == ('CODE VALUE', 'ENVTEXT', 'ConfigService')
print('OBSERVED AS DESCRIBED' if ok else 'NOT as described')
sys.exit(0 if ok else 1)
