def outer():
    a = 1
    b = inner()      # line 3
    c = 2            # line 4
    return a + b + c

def inner():
    x = 10
    return x         # line 9

def f_many():
    big = list(range(100, 140))
    y = 7
    return y         # line 14
