a = 1
b = a + 1
c = b * 2
