"""C07 finding candidate `C07/capture-result-without-id` — stand-alone probe.

MAX_VARIABLES=2, a line-capture snapshot on `return [a, b, 7]`: the frame uses up the variable budget, then
`ActionContext.process_capture_variable` collects the returned value — the search stops at once, the root gets no id,
and the WatchResult(CAPTURE, 'return', VariableId(None, 'return')) is attached as a *good* result with no id
(`eval_watch` got a guard for this in baa34ec, `process_capture_variable` did not).

run:  SRC=/repo/src /venv/bin/python p18_c07_capture_without_id.py
"""
from common import mk, run_traced, dump
from deep.api.tracepoint.trigger import LocationAction, Trigger, LineLocation, Location
import deep.processor.frame_collector as fc
import deep.processor.context.trigger_context as tc

fc.time_ns = lambda: 1
tc.time_ns = lambda: 1


def host(a, b):
    return [a, b, 7]


LINE = host.__code__.co_firstlineno + 1
cfg, push, h, lg = mk({'APP_ROOT': '/'})
act = LocationAction('tp1', None, {'MAX_VARIABLES': 2, 'stage': 'line_capture'}, LocationAction.ActionType.Snapshot)
h.new_config([Trigger(LineLocation('p18_c07_capture_without_id.py', LINE, Location.Position.START), [act])])
run_traced(h, host, [1, 2, 3], 'bb')
for s in push.pushed:
    d = dump(s)
    print('table ids :', sorted(d['vars']))
    print('watches   :', d['watches'])
    bad = [w for w in d['watches'] if w[1] is not None and w[1][0] is None]
    print('results without id:', bad)
