from common import *
import target3, pprint, time
from deep.api.plugin.span import SpanProcessor, Span
class RSpan(Span):
    def __init__(s, name, log): s._n=name; s.log=log
    name = property(lambda s: s._n); trace_id = property(lambda s: 't'); span_id=property(lambda s:'s')
    def add_attribute(s,k,v): pass
    def add_event(s,n,attributes=None): pass
    def close(s): s.log.append(('close', s._n, threading.current_thread().name, s.where()))
class RSpanProc(SpanProcessor):
    def __init__(s): super().__init__(); s.log=[]; s.depth = lambda: None
    def create_span(s, name, context_id, tracepoint_id):
        s.log.append(('open', name, s.depth())); sp = RSpan(name, s.log); sp.where = s.depth; return sp
    def current_span(s): return None
# C15 recursion with fire_count=1: span opened by outermost rec(2) closes at innermost return
import sys
sp = RSpanProc()
def depth():
    f = sys._getframe(); d = []
    while f:
        if f.f_code.co_name == 'rec': d.append(f.f_locals.get('n'))
        f = f.f_back
    return d
sp.depth = depth
cfg, push, h, lg = mk(plugins=[sp])
h.new_config([build_trigger('tpS', 'target3.py', -1, {'method_name': 'rec', 'span': 'method', 'snapshot':'no_collect'}, [], [])])
r = run_traced(h, target3.rec, 2)
print('recursion span log:', sp.log)
# C04 concurrency: gate in condition
import threading
cfg, push, h, lg = mk()
h.new_config([build_trigger('tp', 'target3.py', 9, {'condition': 'gate(tag)', 'fire_count': '1'}, [], [])])
arrived = {1: threading.Event(), 2: threading.Event()}; go = threading.Event()
def gate(tag):
    arrived[tag].set(); go.wait(5); return True
ths = [threading.Thread(target=lambda t=t: run_traced(h, target3.gated, gate, t)) for t in (1,2)]
for t in ths: t.start()
ok = arrived[1].wait(3) and arrived[2].wait(3)
go.set()
for t in ths: t.join()
print('both passed limit check concurrently:', ok, 'snapshots with fire_count=1:', len(push.pushed))
# C14: thread started before shutdown keeps acting
cfg, push, h, lg = mk()
h.new_config([build_trigger('tp', 'target3.py', 13, {'fire_count': '-1', 'fire_period': '0', 'log_msg':'L {i}', 'snapshot':'no_collect'}, [], [])])
h.start()
ev = threading.Event(); res = {}
def bg():
    ev.wait(5); res['r'] = target3.worker(3)
t = threading.Thread(target=bg); t.start()
time.sleep(0.1)
h.shutdown()
n0 = len(lg.logged)
ev.set(); t.join()
print('logs after shutdown from earlier thread:', len(lg.logged) - n0)
