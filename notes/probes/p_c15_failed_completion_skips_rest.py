"""C15/failed-completion-skips-rest (candidate): two deferred items registered by ONE event (a deferred method capture
and a method span on the same function, one CallbackContext with two callbacks).  The push of the deferred snapshot
raises at completion: CallbackContext.process stops at the first callback that raises, the context was already removed
from the thread's queue, so the remaining item (the span) is never completed.
Run: SRC=<tree>/src /venv/bin/python p_c15_failed_completion_skips_rest.py
Observed on the clean tree: open f ; push attempt (raises) ; no close of f."""
import os
import sys
import threading
sys.path.insert(0, os.environ.get('SRC', '/repo/src'))
sys.path.insert(0, os.path.dirname(os.path.abspath(__file__)))
import logging
logging.getLogger('deep').addHandler(logging.NullHandler())
logging.getLogger('deep').propagate = False
from deep.config import ConfigService
from deep.config.tracepoint_config import TracepointConfigService
from deep.processor.trigger_handler import TriggerHandler
from deep.push.push_service import PushService
from deep.api.resource import Resource
from deep.api.plugin.span import SpanProcessor, Span
from deep.api.tracepoint.trigger import build_trigger, LocationAction, Trigger, FunctionLocation, Location
import target_c15_stacked

events = []


class S(Span):
    def __init__(self, name): self._n = name
    name = property(lambda self: self._n)
    trace_id = property(lambda self: 't')
    span_id = property(lambda self: 's')
    def add_attribute(self, key, value): pass
    def add_event(self, name, attributes=None): pass
    def close(self): events.append(('close', self._n))


class P(SpanProcessor):
    def create_span(self, name, context_id, tracepoint_id):
        events.append(('open', name))
        return S(name)
    def current_span(self): return None


class FailingPush(PushService):
    def __init__(self): super().__init__(None, None)
    def push_snapshot(self, s):
        events.append(('push attempt', s.tracepoint.id))
        raise RuntimeError('cannot schedule new futures after shutdown')


cfg = ConfigService({}, tracepoints=TracepointConfigService())
cfg.resource = Resource.get_empty()
cfg.plugins = [P(name='P')]
h = TriggerHandler(cfg, FailingPush())
U = {'fire_count': '-1', 'fire_period': '0'}
cap = Trigger(FunctionLocation('target_c15_stacked.py', 'f', Location.Position.CAPTURE),
              [LocationAction('CAP', None, dict(U, stage='method_capture', watches=[], frame_type='single_frame'),
                              LocationAction.ActionType.Snapshot)])
span = build_trigger('SPAN', 'target_c15_stacked.py', 1, dict(U, span='method', method_name='f', snapshot='no_collect'),
                     [], [])
h.new_config([cap, span])


def body():
    sys.settrace(h.trace_call)
    try:
        target_c15_stacked.g(1)
    finally:
        sys.settrace(None)


t = threading.Thread(target=body)
t.start()
t.join()
for e in events:
    print(e)
print('VIOLATED' if ('close', 'f') not in events else 'ok')
