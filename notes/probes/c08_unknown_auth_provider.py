"""Probe (C08, suspicious - NOT a violation of the C08 statement): AuthProvider.get_provider documents
`:raises: UnknownAuthProvider if we cannot load the provider configured`, but the branch that raises it
(`if provider_class is None`) is reached only when the attribute EXISTS AND IS None (e.g. 'builtins.None' - audit a1);
for every realistic mistake it is not: `getattr(import_module(module), cls)` raises AttributeError for a missing
class, `import_module` raises ModuleNotFoundError for a missing module, and a name without a dot fails in
`provider.rsplit(".", 1)` with ValueError.  Consequence: with a mistyped SERVICE_AUTH_PROVIDER every poll / snapshot upload
raises one of those exceptions from GRPCService.metadata() (nothing is sent, nothing is cached - consistent with C08), and
a caller that catches UnknownAuthProvider never sees it.
Also noteworthy: BasicAuthProvider sends `authorization: Basic%20<b64>` (a literal "%20", not the space of RFC 7617).

run: /venv/bin/python /verif/notes/probes/c08_unknown_auth_provider.py   (prints the exception type per provider name)
"""
import os
import sys

sys.path.insert(0, os.path.join(os.environ.get('VERIF_REPO', '/repo'), 'src'))
from deep.api.auth import AuthProvider, UnknownAuthProvider  # noqa: E402


class Cfg:
    def __init__(self, p):
        self.SERVICE_AUTH_PROVIDER = p


seen = {}
for name in ['nodot', 'deep.api.auth.Missing', 'no.such.module.X', 'builtins.None']:
    try:
        AuthProvider.get_provider(Cfg(name))
        seen[name] = 'no exception'
    except UnknownAuthProvider:
        seen[name] = 'UnknownAuthProvider'
    except Exception as e:  # noqa: B902
        seen[name] = type(e).__name__
    print(f'{name!r}: {seen[name]}')
print('documented exception raised only for builtins.None:',
      [k for k, v in seen.items() if v == 'UnknownAuthProvider'] == ['builtins.None'])
