def f_locals_ref():
    a = 1
    l = locals()
    b = 2
    return a     # line 5
