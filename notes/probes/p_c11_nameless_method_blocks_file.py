"""probe (suspicious, C11/C03 border): a METHOD-stage tracepoint WITHOUT method_name on file F makes at_location call
inspect.getsourcelines(frame) for every event in F; when F's source is not available (code from exec / .pyc-only /
frozen) that raises OSError, the D1 wrapper swallows the whole event, so a perfectly good LINE tracepoint on the same
file never fires.  (With source available the nameless method location never matches at all: `start <= line >= end`.)
usage: SRC=/repo/src /venv/bin/python p_c11_nameless_method_blocks_file.py"""
import os, sys, logging, threading
sys.path.insert(0, os.environ.get('SRC', '/repo/src'))
logging.disable(logging.CRITICAL)
from deep.config import ConfigService
from deep.config.tracepoint_config import TracepointConfigService
from deep.processor.trigger_handler import TriggerHandler
from deep.api.resource import Resource
from deep.api.tracepoint.trigger import build_trigger

class Push:
    def __init__(self): self.n = 0
    def push_snapshot(self, s): self.n += 1

src = "def f(a):\n    b = a + 1\n    return b\n"
ns = {}
exec(compile(src, '/app/nosrc.py', 'exec'), ns)          # a code object whose file does not exist

def run(with_nameless):
    cfg = ConfigService({'APP_ROOT': '/app'}, tracepoints=TracepointConfigService())
    cfg.resource = Resource.get_empty()
    push = Push()
    h = TriggerHandler(cfg, push)
    trigs = [build_trigger('good', 'nosrc.py', 2, {}, [], [])]
    if with_nameless:
        trigs.append(build_trigger('nameless', 'nosrc.py', 3, {'stage': 'method_start'}, [], []))
    h.new_config(trigs)
    def body():
        sys.settrace(h.trace_call)
        try: ns['f'](1)
        finally: sys.settrace(None)
    t = threading.Thread(target=body); t.start(); t.join()
    return push.n

print('line tracepoint alone                       -> snapshots:', run(False))
print('+ method tracepoint without method_name     -> snapshots:', run(True))
