"""probe: a tracepoint REGISTERED IN CODE with an unknown stage (build_trigger -> None) is appended to the custom
list as None; afterwards every event raises inside the handler (None.at_location) and no other tracepoint fires.
usage: SRC=/repo/src /venv/bin/python probe_custom_none.py"""
import os, sys, logging
sys.path.insert(0, os.environ.get('SRC', '/repo/src'))
logging.disable(logging.CRITICAL)
from deep.config import ConfigService
from deep.config.tracepoint_config import TracepointConfigService
from deep.processor.trigger_handler import TriggerHandler
from deep.api.resource import Resource

class Push:
    def __init__(self): self.n = 0
    def push_snapshot(self, s): self.n += 1

class Inline:                      # run the listener update inline instead of on the pool
    def submit_task(self, fn, *a):
        fn(*a)
        class F:
            def add_done_callback(self, cb): pass
        return F()

class Code:  co_filename = '/app/host.py'; co_name = 'fn'
class Frame:
    f_code = Code(); f_lineno = 7; f_locals = {}; f_back = None; f_globals = {}

def run(with_bad):
    tps = TracepointConfigService()
    cfg = ConfigService({'APP_ROOT': '/app'}, tracepoints=tps)
    cfg.resource = Resource.get_empty()
    tps.set_task_handler(Inline())
    push = Push()
    h = TriggerHandler(cfg, push)
    tps.add_custom('host.py', 7, {}, [], [])                      # a good snapshot tracepoint on host.py:7
    if with_bad:
        tps.add_custom('other.py', 1, {'stage': 'bogus'}, [], [])  # uninterpretable, on another file
    h.trace_call(Frame(), 'line', None)
    return push.n

print('good tracepoint alone      -> snapshots:', run(False))
print('good + uninterpretable one -> snapshots:', run(True))
