"""Probe (found by the C18 check): a resource attribute that is a sequence containing None — a value
BoundedAttributes accepts and stores, e.g. ('a', None), or (None,) from an undecodable bytes element — cannot be
converted for the wire: convert_value(None) returns None and ArrayValue(values=[..., None]) raises TypeError, so
convert_resource(resource) raises and no PollRequest can be built (LongPoll.poll fails on every tick; the same
conversion is used for snapshot attributes/resources in push/__init__.py).

run: SRC=/repo/src /venv/bin/python p_c18_none_in_sequence.py
"""
import os
import sys
sys.path.insert(0, os.environ.get('SRC', '/repo/src'))
from deep.api.resource import Resource          # noqa: E402
from deep.grpc import convert_resource           # noqa: E402

res = Resource.create().merge(Resource({'tags': ['a', None, 'b']}))
print('stored      :', dict(res.attributes)['tags'])
try:
    msg = convert_resource(res)
    print('converted   :', [(kv.key, kv.value.WhichOneof('value')) for kv in msg.attributes])
except Exception as e:      # noqa: B902
    print('convert_resource raised:', type(e).__name__, e)
