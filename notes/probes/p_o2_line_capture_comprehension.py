"""Probe (O2, session 3): a `line_capture` snapshot on a line that contains a comprehension is completed BEFORE the line returns.

CPython 3.12 inlines comprehensions (PEP 709): while the comprehension loops, the interpreter delivers further 'line' events
for the SAME line of the SAME function.  `CallbackContext.__check_at_next_line` treats the next 'line' event in the function as
"the line has completed", so the deferred snapshot is pushed at the first loop iteration — without the returned value — and the
`return` event that follows finds no pending callback.  With the value built in a helper function the value is captured.

Not a violation of C05/C06/C07 as stated (the snapshot is produced, bounded and closed); recorded because the stage's purpose
("capture what the line returns / raises") is silently missed.  Run: /venv/bin/python notes/probes/p_o2_line_capture_comprehension.py
(SRC=<tree>/src to point at another tree)."""
import os
import sys

sys.path.insert(0, os.environ.get('SRC', '/repo/src'))
sys.path.insert(0, os.path.join(os.path.dirname(os.path.abspath(__file__)), '..', '..', 'harness'))
import core  # noqa: E402
core.use_repo()
from rig import Rig, run_traced  # noqa: E402
from deep.api.tracepoint.trigger import LocationAction, Trigger, LineLocation, Location  # noqa: E402

SRC_A = 'def host(a):\n    return [i + a for i in range(3)]\n'
SRC_B = 'def big(a):\n    return [i + a for i in range(3)]\ndef host(a):\n    return big(a)\n'


def run(src, line):
    rig = Rig()
    try:
        glb = {'__name__': 'probehost'}
        exec(compile(src, '/app/probehost.py', 'exec'), glb)
        act = LocationAction('tp', None, {'stage': 'line_capture', 'fire_count': '-1', 'frame_type': 'single_frame'},
                             LocationAction.ActionType.Snapshot)
        rig.install([Trigger(LineLocation('probehost.py', line, Location.Position.START), [act])])
        run_traced(rig.handler, glb["host"], 1000)
        return [[(w.source, w.expression) for w in s.watches] for s in rig.push.pushed]
    finally:
        rig.close()


if __name__ == '__main__':
    a, b = run(SRC_A, 2), run(SRC_B, 4)
    print('comprehension on the tracepoint line :', a)
    print('value built in a helper function     :', b)
    print('OBSERVED: returned value missing' if a and not a[0] and b and b[0] else 'not reproduced')
