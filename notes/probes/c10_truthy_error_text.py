"""probe: a condition that FAILS to evaluate still fires when the error text is one of str2bool's truthy words.
SRC=<tree>/src /venv/bin/python p_c10_truthy_error.py"""
import os, sys
sys.path.insert(0, os.environ.get('SRC', '/repo/src'))
import logging; logging.disable(logging.CRITICAL)
from deep.config import ConfigService
from deep.config.tracepoint_config import TracepointConfigService
from deep.processor.trigger_handler import TriggerHandler
from deep.push.push_service import PushService
from deep.api.resource import Resource
from deep.api.tracepoint.trigger import build_trigger

class Push(PushService):
    def __init__(self): super().__init__(None, None); self.pushed = []
    def push_snapshot(self, s): self.pushed.append(s)

class Code:  co_filename = '/app/host.py'; co_name = 'fn'
class Frame:
    f_code = Code(); f_lineno = 7; f_back = None
    f_globals = {'__builtins__': __builtins__}
    def __init__(self, loc): self.f_locals = loc

for cond in ('cache[1]', 'cache[2]', "cache['y']", 'missing_name'):
    cfg = ConfigService({'APP_ROOT': '/app'}, tracepoints=TracepointConfigService())
    cfg.resource = Resource.get_empty(); cfg.plugins = []
    push = Push(); h = TriggerHandler(cfg, push)
    h.new_config([build_trigger('tp', 'host.py', 7, {'condition': cond}, [], [])])
    h.trace_call(Frame({'cache': {}}), 'line', None)
    print(f'condition {cond!r:14} (raises on cache={{}}) -> snapshots: {len(push.pushed)}')
