"""C12 candidate finding: a PollResponse whose response_type is outside the enum (proto3 enums are open) is applied as
an UPDATE — LongPoll.poll only tests `== NO_CHANGE`, everything else goes to update_new_config with the (empty)
response and hash it carries.  SRC=<tree>/src /venv/bin/python p17_unknown_response_type.py"""
import os, sys, time
sys.path.insert(0, os.environ.get('SRC', '/repo/src'))
import logging
logging.disable(logging.CRITICAL)
from deep.api.deep import Deep
from deep.api.resource import Resource
from deep.config import ConfigService
from deep.config.tracepoint_config import TracepointConfigService
from deepproto.proto.poll.v1.poll_pb2 import PollResponse
from deepproto.proto.tracepoint.v1.tracepoint_pb2 import TracePointConfig

cfg = ConfigService({'SERVICE_URL': 'unused:1'}, tracepoints=TracepointConfigService())
cfg.resource = Resource.get_empty()
d = Deep(cfg)
answers = [PollResponse(response_type=1, current_hash='h1', ts_nanos=1,
                        response=[TracePointConfig(ID='t1', path='a.py', line_number=3, watches=['w'])]),
           PollResponse(response_type=5)]


class Channel:
    def unary_unary(self, *a, **k):
        return lambda request, **kw: answers.pop(0)


d.grpc.channel = Channel()
d.poll.poll(); time.sleep(0.2)
print('after UPDATE      :', cfg.tracepoints.current_hash, len(d.trigger_handler._tp_config), 'trigger(s) installed')
d.poll.poll(); time.sleep(0.2)
print('after type=5 reply:', repr(cfg.tracepoints.current_hash), len(d.trigger_handler._tp_config), 'trigger(s) installed')
d.task_handler.flush()
