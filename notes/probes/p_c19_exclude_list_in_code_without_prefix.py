"""Probe (C19-3): IN_APP_EXCLUDE given as DEEP_IN_APP_EXCLUDE gets sys.exec_prefix appended (deep.config.IN_APP_EXCLUDE),
the same prefixes given in code (a list) are used as given: with an app root above the virtualenv, a site-packages
file is an application frame on the code route and a library frame on the environment route.
run: SRC=/repo/src /venv/bin/python p_c19_exclude_list_in_code_without_prefix.py
"""
import os
import sys
sys.path.insert(0, os.environ.get('SRC', '/repo/src'))
f = sys.exec_prefix + '/lib/python3.12/site-packages/p/q.py'
from deep.config import ConfigService                                   # noqa: E402
from deep.config.tracepoint_config import TracepointConfigService      # noqa: E402
code = ConfigService({'APP_ROOT': '/', 'IN_APP_EXCLUDE': ['/opt']}, tracepoints=TracepointConfigService())
print('code  IN_APP_EXCLUDE=["/opt"]   :', code.IN_APP_EXCLUDE, code.is_app_frame(f))
os.environ['DEEP_IN_APP_EXCLUDE'] = '/opt'
env = ConfigService({'APP_ROOT': '/'}, tracepoints=TracepointConfigService())
print('env   DEEP_IN_APP_EXCLUDE=/opt  :', env.IN_APP_EXCLUDE, env.is_app_frame(f))
