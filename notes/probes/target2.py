G = 42
class Bad:
    def __str__(self): raise RuntimeError('nostr')
    __repr__ = __str__
class BadBase:
    def __str__(self): raise KeyboardInterrupt('kb')
def f_bad():
    x = Bad()
    return 1   # line 9
def f_glob():
    y = 1
    return y   # line 12
def ret_bad():
    return Bad()   # line 14
def f_loop(n):
    t = 0
    for i in range(n):
        t += i     # line 18
    return t
def f_kb():
    x = BadBase()
    return 2   # line 22
