import weakref


class Res:
    pass


def f(log):
    o = Res()
    weakref.finalize(o, log.append, 'finalised')
    x = 1          # line 11: tracepoint here (snapshot collects the locals, among them `o`)
    return x


def g(log):
    f(log)
    log.append('after f')
