"""Suspicious (C01, host transparency — not C03/C15): a snapshot keeps the collected local objects alive until the
next cyclic garbage collection (TriggerContext -> results -> action context -> trigger context is a reference cycle,
and the variable cache holds the processed values).  An application object whose finalisation is observable
(weakref.finalize, __del__, a suspended generator's GeneratorExit) is finalised later than without the agent.
Run: SRC=<tree>/src /venv/bin/python p_c01_snapshot_retains_locals.py
Observed on the clean tree: without agent ['finalised', 'after f']; with a snapshot tracepoint ['after f'] (the
object is finalised only by gc.collect())."""
import gc
import os
import sys
import threading
sys.path.insert(0, os.environ.get('SRC', '/repo/src'))
sys.path.insert(0, os.path.dirname(os.path.abspath(__file__)))
from common import *   # noqa
import target_c01_retention as t

gc.disable()
log0 = []
t.g(log0)
print('without agent:', log0)
cfg, push, h, lg = mk()
h.new_config([build_trigger('tp', 'target_c01_retention.py', 11, {'fire_count': '-1', 'fire_period': '0'}, [], [])])
log1 = []
r = run_traced(h, t.g, log1)
print('with snapshot tracepoint:', log1, 'snapshots:', len(push.pushed))
gc.collect()
print('after gc.collect():', log1)
