"""Probes for the defects found by the independent theorem audit (DESIGN §12.5).  usage: audit_defects.py [repo-root]
Each probe prints OK (statement holds) or DEFECT with what happened, on the real code of the given tree."""
import os
import sys
import threading

ROOT = os.path.abspath(sys.argv[1] if len(sys.argv) > 1 else '/repo')
sys.path.insert(0, os.path.join(ROOT, 'src'))
sys.path.insert(0, os.path.join(os.path.dirname(os.path.abspath(__file__)), '..', '..', 'harness'))
import logging  # noqa: E402
logging.disable(logging.CRITICAL)
import rig  # noqa: E402
from deep.api.tracepoint.trigger import build_trigger  # noqa: E402

ALWAYS = {'fire_count': '-1', 'fire_period': '0'}


class Odd:
    def __getattribute__(self, name):
        if name == '__class__':
            raise RuntimeError('no class for you')
        return object.__getattribute__(self, name)


def host(self, y):
    z = y + 1  # TP
    return z


def line_of(fn, marker):
    import inspect
    lines, start = inspect.getsourcelines(fn)
    for i, t in enumerate(lines):
        if t.rstrip().endswith('# ' + marker):
            return start + i


def probe_c06_self_class():
    r = rig.Rig()
    try:
        r.install([build_trigger('tp', os.path.basename(__file__), line_of(host, 'TP'), dict(ALWAYS), [], [])])
        rig.run_traced(r.handler, host, Odd(), 1)
        n = len(r.push.pushed)
        return ('OK' if n == 1 else 'DEFECT') + ': %d snapshot(s) for a frame whose `self` has a raising __class__' % n
    finally:
        r.close()


def probe_c11_unknown_metric_type():
    from deepproto.proto.tracepoint.v1.tracepoint_pb2 import TracePointConfig, Metric
    from deep.grpc import convert_response
    good = TracePointConfig(ID='good', path='a.py', line_number=3, args=dict(ALWAYS))
    bad = TracePointConfig(ID='bad', path='a.py', line_number=4, args=dict(ALWAYS), metrics=[Metric(name='m', type=7)])
    msgs = [TracePointConfig.FromString(m.SerializeToString()) for m in (good, bad)]
    try:
        out = convert_response(msgs)
        ids = sorted(a.tracepoint.id for t in out for a in t.actions)
        return ('OK' if 'good' in ids else 'DEFECT') + ': installed %s' % ids
    except BaseException as e:
        return 'DEFECT: the whole response is lost: %s: %s' % (type(e).__name__, e)


def probe_c19_bool_setting():
    from deep.config import ConfigService
    from deep.grpc.grpc_service import GRPCService
    out = []
    for v in ('False', False):
        try:
            g = GRPCService(ConfigService({'SERVICE_SECURE': v, 'SERVICE_URL': 'localhost:1'}))
            g.start()
            out.append('%r -> channel %s' % (v, type(g.channel).__name__))
        except BaseException as e:
            out.append('%r -> %s: %s' % (v, type(e).__name__, e))
    from deep.api.plugin import Plugin

    class P(Plugin):
        pass
    try:
        act = P('P', ConfigService({'PLUGIN_P': False})).is_active()
        out.append('PLUGIN_P=False -> is_active %s' % act)
    except BaseException as e:
        out.append('PLUGIN_P=False -> %s: %s' % (type(e).__name__, e))
    bad = any('Error' in o for o in out) or 'is_active True' in out[-1]
    return ('DEFECT' if bad else 'OK') + ': ' + '; '.join(out)


def probe_c08_negative_duration():
    import deep.api.tracepoint.eventsnapshot as es
    from deep.api.resource import Resource
    from deep.api.tracepoint.tracepoint_config import TracePointConfig
    from deep.push import convert_snapshot
    orig = es.time_ns
    try:
        es.time_ns = lambda: 2_000
        s = es.EventSnapshot(TracePointConfig('t', 'a.py', 1, {}, [], []), 5_000, Resource.get_empty(), [], {})
        s.complete()  # the wall clock stepped back between the hit and the completion
    finally:
        es.time_ns = orig
    msg = convert_snapshot(s)
    return ('OK' if msg is not None else 'DEFECT') + ': duration %s, converted message %s' % (
        s.duration_nanos, 'produced' if msg is not None else 'None (snapshot dropped)')


def probe_c18_executable_name():
    from deep.api.resource import Resource
    try:
        r = Resource.create({'process.executable.name': 5})
        return 'OK: service.name %r' % r.attributes.get('service.name')
    except BaseException as e:
        return 'DEFECT: Resource.create raised %s: %s' % (type(e).__name__, e)


def probe_c14_restart():
    """start, shutdown, start again while the service answers UPDATE; then shutdown."""
    import sys as _sys
    import deep.api.deep as dmod
    from deep.api.deep import Deep
    from deep.config import ConfigService
    from deep.config.tracepoint_config import TracepointConfigService
    cfg = ConfigService({'APP_ROOT': ROOT, 'PLUGINS': []}, tracepoints=TracepointConfigService())
    d = Deep(cfg)
    d.grpc.start = lambda: None
    polls = []

    def fake_start():
        polls.append(1)
        # what LongPoll.poll does with an UPDATE response
        cfg.tracepoints.update_new_config(1, 'h%d' % len(polls), [])
    d.poll.start = fake_start
    d.poll.shutdown = lambda: None
    res = {}

    def body():
        before = _sys.gettrace()
        try:
            d.start()
            d.shutdown()
            try:
                d.start()
                res['second_start'] = 'returned'
            except BaseException as e:
                res['second_start'] = 'raised %s into the application' % type(e).__name__
            res['started'] = d.started
            d.shutdown()
            res['hooks_restored'] = _sys.gettrace() is before
        finally:
            _sys.settrace(before)
            threading.settrace(None)
    t = threading.Thread(target=body)
    t.start()
    t.join()
    bad = 'raised' in res.get('second_start', '') or not res.get('hooks_restored')
    return ('DEFECT' if bad else 'OK') + ': %s' % res


if __name__ == '__main__':
    for name, fn in sorted(globals().items()):
        if name.startswith('probe_'):
            try:
                print(name[6:], '->', fn())
            except BaseException as e:  # noqa
                import traceback
                print(name[6:], '-> PROBE FAILED', type(e).__name__, e)
                traceback.print_exc()
