"""Probe (C18-2): Resource.create applies the service-name fallback when the name is missing OR EMPTY, but plugin
resources are merged afterwards (Deep.start) without it: a ResourceProvider returning Resource({'service.name': ''})
(or 0 / False / ()) leaves the client resource with an empty service name.
run: SRC=/repo/src /venv/bin/python p_c18_empty_service_name_from_plugin.py
"""
import os
import sys
sys.path.insert(0, os.environ.get('SRC', '/repo/src'))
from deep.api.resource import Resource          # noqa: E402

base = Resource.create()
print('created      :', dict(base.attributes)['service.name'])
final = base.merge(Resource({'service.name': ''}))          # what Deep.start does with a plugin resource
print('after plugin :', repr(dict(final.attributes)['service.name']))
print('create() itself treats an empty name as missing:', dict(Resource.create({'service.name': ''}).attributes)['service.name'])
