from common import *
import time, threading, traceback
from deep.task import TaskHandler, IllegalStateException
# C09: flush with still-running failing task
th = TaskHandler()
def slow_fail():
    time.sleep(0.3); raise ValueError('boom')
th.submit_task(slow_fail)
try:
    th.flush(); print('flush ok')
except BaseException as e:
    print('flush raised', repr(e))
# flush then pending leftover?
print('pending after', th._pending)
# quick failing
th = TaskHandler()
def fail(): raise ValueError('boom')
for i in range(20): th.submit_task(fail)
try:
    th.flush(); print('flush ok2')
except BaseException as e:
    print('flush raised2', repr(e))
# flush doesn't wait for tasks > 10 s: skip
# submit after flush
try:
    th.submit_task(fail)
except BaseException as e:
    print('submit after flush', type(e), isinstance(e, Exception))
# race: callback deletes between get and index -> KeyError ; stress
errs = 0
for n in range(300):
    th = TaskHandler()
    for i in range(6): th.submit_task(lambda: None)
    try: th.flush()
    except BaseException as e:
        errs += 1; last = repr(e)
print('flush race errors', errs, errs and last)
