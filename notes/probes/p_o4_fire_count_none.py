"""Probe (O4, C04/C11): a tracepoint registered in code with a fire_count that is neither text nor a number.

register_tracepoint's args are typed Dict[str, str], but nothing checks it.  `LocationAction.__get_int` and
`TracePointConfig.get_arg_int` catch ValueError only, so fire_count=None (TypeError) or float('inf') (OverflowError)
makes `fire_count` raise on every hit; the handler contains the exception, the action never fires, and nothing tells
the caller at registration time.  An unparsable TEXT falls back to the default 1.  Not a violation of a property as
stated (the service sends text only); recorded because the fallback rule is asymmetric.

run: /venv/bin/python notes/probes/p_o4_fire_count_none.py [repo]     (prints the outcomes, exit 0)
"""
import sys
sys.path.insert(0, (sys.argv[1] if len(sys.argv) > 1 else '/repo') + '/src')
from deep.api.tracepoint.trigger import build_trigger  # noqa: E402

for v in ('abc', '', None, float('inf'), float('nan'), True, 2.7):
    act = build_trigger('tp', 'a.py', 1, {'fire_count': v}, [], []).actions[0]
    try:
        print(repr(v), '->', act.fire_count)
    except Exception as e:  # noqa: B902
        print(repr(v), '-> raises', type(e).__name__, e)
