"""C03 (instance of C03/nameless-method-location; audit a5 P6): a method tracepoint WITHOUT a method name
(FunctionLocation(path, None)) answers from the FRAME's own source, so the same event (kind, file name, line, function) in
two same-named files of different directories gets different answers — here / not here / OSError.  This is why
C03.c03_same_name_any_dir is stated for line tracepoints and named method tracepoints only (the model's getsourcelines
oracle is keyed by co_name only and cannot express the difference).
Run: SRC=<tree>/src /venv/bin/python p_c03_nameless_same_name_dirs.py
Observed on the clean tree: x/a.py (3 lines) True, y/a.py (5 lines) False, a.py compiled from a string: OSError.
"""
import os
import sys
import tempfile
sys.path.insert(0, os.environ.get('SRC', '/repo/src'))
from deep.api.tracepoint.trigger import FunctionLocation, Location   # noqa: E402

tmp = tempfile.mkdtemp(prefix='p_c03_dirs_')
out = []
for sub, nlines in (('x', 3), ('y', 5)):
    os.makedirs(os.path.join(tmp, sub))
    path = os.path.join(tmp, sub, 'a.py')
    with open(path, 'w') as f:
        f.write(''.join('v%d = %d\n' % (i, i) for i in range(nlines)))
    res = []

    def tr(frame, event, arg, path=path, res=res):
        if frame.f_code.co_filename == path and event == 'line' and frame.f_lineno == 3:
            loc = FunctionLocation('a.py', None, Location.Position.START)      # fresh: it has not settled yet
            try:
                res.append(loc.at_location('line', 'a.py', 3, frame.f_code.co_name, frame))
            except Exception as e:
                res.append('raised ' + type(e).__name__)
        return tr
    code = compile(open(path).read(), path, 'exec')
    sys.settrace(tr)
    try:
        exec(code, {})
    finally:
        sys.settrace(None)
    out.append((path.replace(tmp, ''), res))
res = []


def tr2(frame, event, arg):
    if frame.f_code.co_filename == 'nowhere/a.py' and event == 'line' and frame.f_lineno == 3:
        loc = FunctionLocation('a.py', None, Location.Position.START)
        try:
            res.append(loc.at_location('line', 'a.py', 3, frame.f_code.co_name, frame))
        except Exception as e:
            res.append('raised ' + type(e).__name__)
    return tr2


code = compile('a = 1\nb = 2\nc = 3\n', 'nowhere/a.py', 'exec')
sys.settrace(tr2)
try:
    exec(code, {})
finally:
    sys.settrace(None)
out.append(('nowhere/a.py (from a string)', res))
for o in out:
    print('event (line, a.py, 3, <module>) in %-30s -> %s' % o)
import shutil
shutil.rmtree(tmp)
