"""C14/plugin-shutdown-attribute-unreadable: Deep.shutdown builds `steps += [plugin.shutdown for plugin in self.config.plugins]`
OUTSIDE the per-step try.  A loaded plugin whose `shutdown` attribute cannot be read (load_plugins accepts any class with
is_active/order; here: a property that raises) makes shutdown() raise before any step: the hooks stay the agent's,
`started` stays True, the poll timer goes on, and every later shutdown() raises again.
Lean: C14.c14_unreadable_shutdown_witness (hypothesis `Readable` of c14_shutdown_translated_partial)."""
import sys, threading, types
sys.path.insert(0, '/repo/src'); sys.path.insert(0, '/verif/harness')
import fc_env
fc_env.install_fake_grpc()
from deep.api import Deep
from deep.api.plugin import Plugin
from deep.config import ConfigService
from deep.config.tracepoint_config import TracepointConfigService


def host(frame, event, arg):
    return None


class PropShut(Plugin):
    @property
    def shutdown(self):
        raise AttributeError('cannot read shutdown')


mod = types.ModuleType('probe_c14_unreadable'); mod.PropShut = PropShut; sys.modules['probe_c14_unreadable'] = mod
sys.settrace(host); threading.settrace(host)
d = Deep(ConfigService({'SERVICE_URL': 'fake:1', 'SERVICE_SECURE': 'False', 'POLL_TIMER': 5,
                        'PLUGINS': ['probe_c14_unreadable.PropShut']}, tracepoints=TracepointConfigService()))
d.start()
try:
    d.shutdown(); print('shutdown returned')
except BaseException as e:
    print('shutdown RAISED', type(e).__name__, e)
print('after: started', d.started, '| sys hook is the host\'s', sys.gettrace() is host, '| is the agent\'s',
      sys.gettrace() == d.trigger_handler.trace_call)
sys.settrace(None); threading.settrace(None)
try:
    d.poll.shutdown()
except BaseException:
    pass
