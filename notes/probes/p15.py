from common import *
import target5
from deep.api.tracepoint.trigger import LocationAction, Trigger, LineLocation
# D10: default budget (1000) exhausted by the frame, then a watch
cfg, push, h, lg = mk()
h.new_config([build_trigger('tp', 'target5.py', 5, {}, ['y + 1000'], [])])
r = run_traced(h, target5.f_huge)
s = push.pushed[0]
w = s.watches[0]
print('D10 table size', len(s.var_lookup), 'watch result vid:', w.result and w.result.vid, 'error:', w.error)
from deep.push import convert_snapshot
c = convert_snapshot(s); print('D10 converted watch:', str(c.watches[0]).replace('\n', ' | '))
# D31: watch values ignore the action's configured limits
cfg, push, h, lg = mk()
act = LocationAction('tp', None, {'watches': ['"x" * 50', 'list(range(30))'], 'MAX_STRING_LENGTH': 8, 'MAX_COLLECTION_SIZE': 2, 'fire_count': '1', 'fire_period': '0'}, LocationAction.ActionType.Snapshot)
h.new_config([Trigger(LineLocation('target4.py', 14, None), [act])])
import target4
r = run_traced(h, target4.f_many)
s = push.pushed[0]
for w in s.watches:
    v = s.var_lookup[w.result.vid]; print('D31', w.expression, 'len(value)=', len(v.value), 'truncated', v.truncated, 'children', len(v.children))
fv = {vid.name: s.var_lookup[vid.vid] for vid in s.frames[0].variables}
print('D31 frame big children', len(fv['big'].children))
