"""C15/top-only-stacked-contexts: a method span (opened at f's call) and a line span (opened at f's last line,
`return y`) are both pending at f's return event.  __process_call_backs pops only the top context per event: the
line span closes, the method span is never closed and stays on the thread's stack after f returned.
Run: SRC=<tree>/src /venv/bin/python p_c15_stacked_contexts.py     (default SRC=/repo/src)
Observed on the clean tree: open f / open target_c15_stacked.py#3 / close target_c15_stacked.py#3 — no close of f."""
import os
import sys
import threading
sys.path.insert(0, os.environ.get('SRC', '/repo/src'))
sys.path.insert(0, os.path.dirname(os.path.abspath(__file__)))
import logging
logging.getLogger('deep').addHandler(logging.NullHandler())
logging.getLogger('deep').propagate = False
from deep.config import ConfigService
from deep.config.tracepoint_config import TracepointConfigService
from deep.processor.trigger_handler import TriggerHandler
from deep.push.push_service import PushService
from deep.api.resource import Resource
from deep.api.plugin.span import SpanProcessor, Span
from deep.api.tracepoint.trigger import build_trigger
import target_c15_stacked

events = []


class S(Span):
    def __init__(self, name): self._n = name
    name = property(lambda self: self._n)
    trace_id = property(lambda self: 't')
    span_id = property(lambda self: 's')
    def add_attribute(self, key, value): pass
    def add_event(self, name, attributes=None): pass
    def close(self): events.append(('close', self._n))


class P(SpanProcessor):
    def create_span(self, name, context_id, tracepoint_id):
        events.append(('open', name))
        return S(name)
    def current_span(self): return None


cfg = ConfigService({}, tracepoints=TracepointConfigService())
cfg.resource = Resource.get_empty()
cfg.plugins = [P(name='P')]
h = TriggerHandler(cfg, PushService(None, None))
U = {'fire_count': '-1', 'fire_period': '0', 'snapshot': 'no_collect'}
h.new_config([build_trigger('M', 'target_c15_stacked.py', 1, dict(U, span='method', method_name='f'), [], []),
              build_trigger('L', 'target_c15_stacked.py', 3, dict(U, span='line'), [], [])])
left = {}


def body():
    sys.settrace(h.trace_call)
    try:
        target_c15_stacked.g(1)
    finally:
        sys.settrace(None)
        left['pending'] = h._callbacks.is_set


t = threading.Thread(target=body)
t.start()
t.join()
for e in events:
    print(e)
print('pending after the thread\'s work:', left['pending'])
print('VIOLATED' if ('close', 'f') not in events else 'ok')
