from common import *
import pprint
from deep.api.attributes import BoundedAttributes
from deep.api.resource import Resource
from deep.push import convert_snapshot
from deep.api.tracepoint import *
from deep.api.tracepoint.eventsnapshot import *
b = BoundedAttributes(max_length=2, immutable=False)
b['a']=1; b['b']=2; b['c']=3; print(dict(b), b.dropped)
b['b']=5; print(dict(b), list(b))
b['x']=None; b['']=1; b['l']=[1,'a']; print(dict(b), b.dropped)
b['l']=[1,2]; print(dict(b), b.dropped)
b = BoundedAttributes(max_length=0, immutable=False); b['a']=1; print(dict(b), b.dropped)
b = BoundedAttributes(attributes={'a': b'\xff', 'b': b'ok', 'c': 'x'*10}, max_value_len=3); print(dict(b))
try: b['q']=1
except TypeError: print('immutable ok')
try: del b['b']
except TypeError: print('immutable del ok')
try: b.merge_in({'z':1})
except TypeError: print('immutable merge ok')
# invalid value replacing existing key: keeps old?
b = BoundedAttributes(immutable=False); b['a']=1; b['a']=object(); print('invalid overwrite', dict(b))
r1 = Resource({'a':1,'b':2},'s1'); r2 = Resource({'b':3,'c':4},'s2'); m = r1.merge(r2); print(dict(m.attributes), m.schema_url, dict(r1.attributes))
print(dict(Resource.create({'service.name': ''}).attributes))
# C08 conversions
tp = TracePointConfig('id', 'p.py', 3, {'a':'b'}, ['w'], [])
s = EventSnapshot(tp, 123, Resource.create(), [StackFrame('f','s','m',1,[VariableId('1','n',['private'],'_C__n')], None, app_frame=True)], {'1': Variable('str','v\ud800','99',[VariableId('2','c')],True)})
s.add_watch_result(WatchResult('WATCH','e',None,'err')); s.add_watch_result(WatchResult('LOG','e2',VariableId('1','e2')))
s.log_msg='hello'
c = convert_snapshot(s); print('surrogate ->', c is None)
s._var_lookup['1'] = Variable('str','v','99',[VariableId('2','c')],True)
c = convert_snapshot(s); print(c is not None and c.watches, )
s2 = EventSnapshot(TracePointConfig('id','p.py',3,{'a':None},[],[]), 1, Resource.create(), [], {})
print('None arg ->', convert_snapshot(s2) is None)
s2 = EventSnapshot(TracePointConfig('id','p.py',3,{'fire_count':5},[],[]), 1, Resource.create(), [], {})
print('int arg ->', convert_snapshot(s2) is None)
s3 = EventSnapshot(tp, 1, Resource.create(), [], {}); s3.attributes['t']=(1,2)
cc = convert_snapshot(s3); print('tuple attr ->', cc is None, cc and [ (a.key, a.value.WhichOneof('value')) for a in cc.attributes])
s3 = EventSnapshot(tp, 1, Resource.create(), [], {'1': Variable('str','v','99',[VariableId(None,'c')],True)})
print('None vid ->', convert_snapshot(s3) is None)
s3 = EventSnapshot(tp, 1, Resource.create(), [], {'1': Variable('dict','Size: 1','99',[VariableId('2', 5)],False)})
print('int name ->', convert_snapshot(s3) is None)
