def f_bytes():
    a = 1
    b = b'xyz'
    c = 'hello'
    return a   # line 5

def f_plain():
    a = 1
    c = 'hello'
    return a   # line 10

def f_big():
    big = [[1,2,3],[4,5,6],[7,8,9]]
    z = 5
    return z   # line 15

def f_intkey():
    d = {1: 'one'}
    return d   # line 19
