def f_huge():
    d = {('k%d' % i): float(i) + 0.5 for i in range(1200)}
    y = 7
    s = 'x' * 50
    return y         # line 5
