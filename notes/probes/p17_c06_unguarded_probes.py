"""C06 finding candidate `C06/unguarded-probe-aborts-snapshot` — stand-alone probe.

One local on which an UNGUARDED probe of the collector raises aborts the whole snapshot (0 pushed), although the
property promises a snapshot "whatever objects are reachable ... objects whose str/repr/len/attribute access raise".
Unguarded: `len(value)` in variable_to_string (dicts and types *named* list/tuple/set/frozenset),
`isinstance(value, Exception)` (reads __class__ through __getattribute__), `value.args`, `tuple(value.args)`,
`hasattr(value, '__dict__')` (propagates anything but AttributeError), `value.__dict__` — all in
variable_processor.find_children_for_parent / variable_to_string.

run:  SRC=/repo/src /venv/bin/python p17_c06_unguarded_probes.py
"""
import sys
from common import mk, run_traced, dump
from deep.api.tracepoint.trigger import build_trigger
import deep.processor.frame_collector as fc

fc.time_ns = lambda: 1          # scripted clock of the rig: keep the per-trigger time budget out of the picture


class SlotsGetattr:
    __slots__ = ()

    def __getattr__(self, name):
        raise RuntimeError('getattr ' + name)


class Getattribute:
    def __getattribute__(self, name):
        raise RuntimeError('getattribute ' + name)


ImposterList = type('list', (), {})      # a user class *named* list: no __len__, not iterable


class ArgsNotIterable(Exception):
    args = 5


class DictProp:
    __slots__ = ()

    @property
    def __dict__(self):
        raise RuntimeError('dict')


def host(v):
    x = 1
    return x


LINE = host.__code__.co_firstlineno + 2
for name, v in [('control: a list', [1]), ('slotted, __getattr__ raises RuntimeError', SlotsGetattr()),
                ('__getattribute__ raises RuntimeError', Getattribute()), ('user class named list', ImposterList()),
                ('exception whose args is 5', ArgsNotIterable()), ('__dict__ property raises', DictProp())]:
    cfg, push, h, lg = mk({'APP_ROOT': '/'})
    import deep.processor.context.trigger_context as tc
    tc.time_ns = lambda: 1
    h.new_config([build_trigger('tp1', 'p17_c06_unguarded_probes.py', LINE, {}, [], [])])
    r = run_traced(h, host, v)
    print(f'{name:45s} snapshots pushed: {len(push.pushed)}   host result: {r.get("ret", r.get("exc"))!r}')
