-- root of the library: importing everything makes `lake build` check every model, proof and audit file
import DeepModel.Py
