/-
  Proofs/FramesEntries — every entry the collector records describes its object (C02), for every heap, every limits,
  any number of frames and watches, whether or not the variable budget cuts the search.

  `EntryOK e`: type = the object's type name, value = its rendered text cut to the string limit, truncated = "the
  text was longer".  The invariant is carried through `Collector.step`, `run`, `processVariable`, `collectFrames`,
  `collectWatches`, `collect`.
-/
import DeepModel.Model.Frames

namespace Frames
open Heap Collector FrameBase Extracted.Frames Extracted.Collector

def EntryOK (H : Heap) (L : Limits) (e : Entry) : Prop :=
  ∃ text, renderText (H.obj e.obj) = .ok text ∧ e.ty = (H.obj e.obj).tyName ∧
    e.value = (truncateString text L.maxStr).1 ∧ e.truncated = (truncateString text L.maxStr).2

def TableOK (H : Heap) (L : Limits) (t : List Entry) : Prop := ∀ e ∈ t, EntryOK H L e

theorem addChild_ok {H : Heap} {L : Limits} {t : List Entry} (p : Nat) (c : VarId) (h : TableOK H L t) :
    TableOK H L (addChild p c t) := by
  intro e he
  simp only [addChild, List.mem_map] at he
  obtain ⟨e0, he0, rfl⟩ := he
  have := h e0 he0
  by_cases hp : e0.vid = p
  · simpa [hp, EntryOK] using this
  · simpa [hp] using this

theorem attach_ok {H : Heap} {L : Limits} (parent : Option Nat) (c : VarId) (s : BState)
    (h : TableOK H L s.table) : TableOK H L (attach parent c s).table := by
  cases parent with
  | none => simpa [attach] using h
  | some p => simpa [attach] using addChild_ok p c h

theorem mkEntry_ok (H : Heap) (L : Limits) (id : Nat) (n : Node) (text : String)
    (h : renderText (H.obj n.obj) = .ok text) : EntryOK H L (mkEntry L id (H.obj n.obj) text n) :=
  ⟨text, h, rfl, rfl, rfl⟩

theorem step_ok {H : Heap} {L : Limits} (s : BState) (h : TableOK H L s.table) :
    TableOK H L (step H L s).table := by
  unfold step
  split
  · exact h
  · split
    · exact h
    · rename_i n rest _
      split
      · exact h
      · split
        · exact attach_ok _ _ _ h
        · dsimp only
          split
          · exact h
          · rename_i text htext
            split
            · apply attach_ok
              intro e he
              simp only [List.mem_append, List.mem_singleton] at he
              rcases he with he | rfl
              · exact h e he
              · exact mkEntry_ok H L _ n text htext
            · apply attach_ok
              intro e he
              simp only [List.mem_append, List.mem_singleton] at he
              rcases he with he | rfl
              · exact h e he
              · exact mkEntry_ok H L _ n text htext

theorem run_ok {H : Heap} {L : Limits} (k : Nat) (s : BState) (h : TableOK H L s.table) :
    TableOK H L (run H L k s).table := by
  induction k generalizing s with
  | zero => exact h
  | succ k ih => exact ih _ (step_ok s h)

theorem bfsInit_table (L : Limits) (c : Cache) (t : List Entry) (name : String) (o : ObjId) :
    (bfsInit L c t name o).table = t := by
  unfold bfsInit; split <;> rfl

theorem processVariable_ok {H : Heap} {L : Limits} (c : Cache) (t : List Entry) (name : String) (o : ObjId)
    (h : TableOK H L t) : TableOK H L (processVariable H L c t name o).table := by
  unfold processVariable
  split
  · exact h
  · exact run_ok _ _ (by rw [bfsInit_table]; exact h)

theorem removeEntry_ok {H : Heap} {L : Limits} {t : List Entry} (v : Nat) (h : TableOK H L t) :
    TableOK H L (removeEntry t v) := by
  intro e he
  exact h e (List.mem_filter.mp he).1

theorem unwrap_ok {H : Heap} {L : Limits} {t : List Entry} (vid : Option Nat) (h : TableOK H L t) :
    TableOK H L (unwrap t vid).2 := by
  unfold unwrap
  split
  · exact h
  · split
    · exact removeEntry_ok _ h
    · exact h

theorem collectFrames_ok {H : Heap} {L : Limits} (fs : List FrameIn) (c : Cache) (t : List Entry)
    (h : TableOK H L t) : TableOK H L (collectFrames H L fs c t).table := by
  induction fs generalizing c t with
  | nil => exact h
  | cons f fs ih =>
    unfold collectFrames
    split
    · exact ih c t h
    · dsimp only
      split
      · exact processVariable_ok _ _ _ _ h
      · exact ih _ _ (unwrap_ok _ (processVariable_ok _ _ _ _ h))

theorem collectWatches_ok {H : Heap} {L : Limits} (ws : List WatchIn) (c : Cache) (t : List Entry)
    (h : TableOK H L t) : TableOK H L (collectWatches H L ws c t).table := by
  induction ws generalizing c t with
  | nil => exact h
  | cons w ws ih =>
    have hpv : TableOK H L (processVariable H L c [] w.expr w.value).table :=
      processVariable_ok _ _ _ _ (by intro e he; simp at he)
    have happ : TableOK H L (t ++ (processVariable H L c [] w.expr w.value).table) := by
      intro e he
      rcases List.mem_append.mp he with he | he
      · exact h e he
      · exact hpv e he
    unfold collectWatches
    dsimp only
    split
    · split
      · exact h
      · split
        · exact ih _ _ h
        · exact ih _ _ happ
    · split
      · exact ih _ _ h
      · split
        · exact ih _ _ h
        · exact ih _ _ happ

theorem collect_ok {H : Heap} {a : ActionIn} {s : Collector.Snapshot} (h : Collector.collect H a = .ok s) :
    TableOK H a.limits s.table := by
  unfold Collector.collect collectFrom at h
  simp only at h
  split at h
  · simp at h
  · split at h
    · simp at h
    · simp only [Outcome.ok.injEq] at h
      subst h
      exact collectWatches_ok _ _ _ (collectFrames_ok _ _ _ (by intro e he; simp at he))

end Frames
