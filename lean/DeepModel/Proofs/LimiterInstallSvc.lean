/- the facts Model/LimiterInstall reads from the configuration service, proved of its TRANSLATION (Props/C04) -/
import DeepModel.Model.LimiterInstallSvc

namespace Limiter
open Extracted.ConfigSvc

theorem handed_eq (st : Svc) : handed st = st.polled ++ st.custom := by
  simp [handed, listenerArg, listenerRead]

theorem handed_noChange (st : Svc) (ts : Int) : handed (updateNoChange st ts) = handed st := by
  simp [handed_eq, updateNoChange]

theorem handed_update (st : Svc) (ts : Int) (h : String) (cfg : List Trig) :
    handed (updateNewConfig st ts h cfg) = cfg ++ st.custom := by
  simp [handed_eq, updateNewConfig, triggerUpdate]

theorem handed_addCustom (st : Svc) (t : Trig) : handed (addCustom st (some t)).1 = handed st ++ [t] := by
  simp [handed_eq, addCustom, triggerUpdate]

theorem handed_addCustom_none (st : Svc) : handed (addCustom st none).1 = handed st := by
  simp [handed_eq, addCustom]

theorem handed_removeCustom (st : Svc) (h : Handle) :
    (removeCustom st h).polled = st.polled ∧ ((removeCustom st h).custom).Sublist st.custom := by
  unfold removeCustom
  split
  · exact ⟨rfl, List.Sublist.refl _⟩
  · exact ⟨by simp [triggerUpdate], by simpa [triggerUpdate] using List.eraseIdx_sublist _ _⟩

/-! ### whole sequences, service origin: installed per the translated service ⇔ installed per `stepOp` -/

def hostIn (l : List Trig) : Bool := l.any (fun t => t.path == "host.py")

theorem installedObj_isSome (w : World) : (installedObj w).isSome = (hostIn w.svc.polled || hostIn w.svc.custom) := by
  simp only [installedObj, handed_eq, Option.isSome_map, hostIn, ← List.any_append]
  cases h : List.find? (fun t => t.path == "host.py") (w.svc.polled ++ w.svc.custom) with
  | none =>
    have := List.find?_eq_none.mp h
    simp only [Option.isSome_none]
    symm
    rw [Bool.eq_false_iff]
    intro ha
    obtain ⟨x, hx, hp⟩ := List.any_eq_true.mp ha
    exact this x hx hp
  | some t =>
    have hm := List.mem_of_find?_eq_some h
    have hp := List.find?_some h
    simp only [Option.isSome_some]
    symm
    exact List.any_eq_true.mpr ⟨t, hm, hp⟩

/-- one operation, service origin: the registrations never hold our tracepoint, and installed-ness moves alike -/
theorem svcOp_service_step (c : Cfg) (w : World) (s : Option Extracted.Limiter.Stats) (op : Op)
    (hcus : hostIn w.svc.custom = false) (hrel : (installedObj w).isSome = s.isSome) :
    hostIn (svcOp .service w op).svc.custom = false ∧
    (installedObj (svcOp .service w op)).isSome = (stepOp c .service s op).1.isSome := by
  rw [installedObj_isSome] at hrel ⊢
  cases op with
  | hit h =>
    refine ⟨hcus, ?_⟩
    cases s with
    | none => simpa [svcOp, stepOp] using hrel
    | some st => simpa [svcOp, stepOp] using hrel
  | update present =>
    cases present <;>
      simp [svcOp, stepOp, updateNewConfig, triggerUpdate, hostIn, ourTrig, otherTrig] <;>
      simpa [hostIn] using hcus
  | noChange => exact ⟨by simpa [svcOp, updateNoChange] using hcus, by simpa [svcOp, stepOp, updateNoChange] using hrel⟩
  | otherCustom =>
    have e : hostIn (w.svc.custom ++ [otherTrig (w.gen + 1)]) = false := by
      simp [hostIn, List.any_append, otherTrig] at hcus ⊢
      exact hcus
    exact ⟨by simpa [svcOp, addCustom, triggerUpdate] using e,
      by simpa [svcOp, stepOp, addCustom, triggerUpdate, e, hcus] using hrel⟩
  | register => exact ⟨by simpa [svcOp] using hcus, by simpa [svcOp, stepOp] using hrel⟩
  | unregister => exact ⟨by simpa [svcOp] using hcus, by simpa [svcOp, stepOp] using hrel⟩

theorem svcOp_service_run (c : Cfg) : ∀ (ops : List Op) (w : World) (s : Option Extracted.Limiter.Stats),
    hostIn w.svc.custom = false → (installedObj w).isSome = s.isSome →
    (installedObj (ops.foldl (svcOp .service) w)).isSome =
      (ops.foldl (fun s op => (stepOp c .service s op).1) s).isSome := by
  intro ops
  induction ops with
  | nil => intro w s _ h; simpa using h
  | cons op ops ih =>
    intro w s hc hr
    obtain ⟨h1, h2⟩ := svcOp_service_step c w s op hc hr
    simpa using ih _ _ h1 h2

end Limiter
