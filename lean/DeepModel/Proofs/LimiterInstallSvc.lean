/- the facts Model/LimiterInstall reads from the configuration service, proved of its TRANSLATION (Props/C04) -/
import DeepModel.Model.LimiterInstallSvc

namespace Limiter
open Extracted.ConfigSvc

theorem handed_eq (st : Svc) : handed st = st.polled ++ st.custom := by
  simp [handed, listenerArg, listenerRead]

theorem handed_noChange (st : Svc) (ts : Int) : handed (updateNoChange st ts) = handed st := by
  simp [handed_eq, updateNoChange]

theorem handed_update (st : Svc) (ts : Int) (h : String) (cfg : List Trig) :
    handed (updateNewConfig st ts h cfg) = cfg ++ st.custom := by
  simp [handed_eq, updateNewConfig, triggerUpdate]

theorem handed_addCustom (st : Svc) (t : Trig) : handed (addCustom st (some t)).1 = handed st ++ [t] := by
  simp [handed_eq, addCustom, triggerUpdate]

theorem handed_addCustom_none (st : Svc) : handed (addCustom st none).1 = handed st := by
  simp [handed_eq, addCustom]

theorem handed_removeCustom (st : Svc) (h : Handle) :
    (removeCustom st h).polled = st.polled ∧ ((removeCustom st h).custom).Sublist st.custom := by
  unfold removeCustom
  split
  · exact ⟨rfl, List.Sublist.refl _⟩
  · exact ⟨by simp [triggerUpdate], by simpa [triggerUpdate] using List.eraseIdx_sublist _ _⟩

end Limiter
