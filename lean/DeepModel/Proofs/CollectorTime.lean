/-
  Proofs/CollectorTime — the sticky-flag walk of `Model/CollectorTime` refines the stateless `Spec.collects`.
-/
import DeepModel.Model.CollectorTime

namespace CollectorTime
open Extracted.CollectorTime

theorem timeExceeded_true (now ts m : Int) : timeExceeded true now ts m = (true, true, false) := by
  simp [timeExceeded]

theorem timeExceeded_false (now ts m : Int) :
    timeExceeded false now ts m = (decide (m * 1000000 < now - ts), decide (m * 1000000 < now - ts), true) := by
  have h : (TimeBase.trueDiv (now - ts) 1000000 > ((m : Int) : TimeBase.Ratio)) ↔ m * 1000000 < now - ts :=
    TimeBase.gt_int_iff _ _ _
  simp only [timeExceeded, Bool.false_eq_true, if_false]
  by_cases hm : m * 1000000 < now - ts
  · simp [hm, h.mpr hm]
  · have : ¬ (TimeBase.trueDiv (now - ts) 1000000 > ((m : Int) : TimeBase.Ratio)) := fun x => hm (h.mp x)
    simp [hm, this]

/-- one frame, flag set: nothing collected, nothing read -/
theorem frameStep_flag (ck : Clock) (sel : Bool) (r : Nat) : frameStep ck sel ⟨true, r⟩ = (false, ⟨true, r⟩) := by
  cases sel <;> simp [frameStep, frameGuard, timeExceeded_true]

/-- one frame that is not selected: nothing collected, nothing read, flag as it was -/
theorem frameStep_unselected (ck : Clock) (st : TState) : frameStep ck false st = (false, st) := by
  simp [frameStep, frameGuard]

/-- one selected frame, flag clear: one reading; collected iff that reading is within the budget -/
theorem frameStep_selected (ck : Clock) (r : Nat) :
    frameStep ck true ⟨false, r⟩ = (!Spec.over ck r, ⟨Spec.over ck r, r + 1⟩) := by
  simp [frameStep, frameGuard, timeExceeded_false, Spec.over]

theorem decisionsFrom_flag (ck : Clock) (sels : List Bool) (r : Nat) :
    decisionsFrom ck sels ⟨true, r⟩ = (List.replicate sels.length false, ⟨true, r⟩) := by
  induction sels with
  | nil => rfl
  | cons s rest ih => simp [decisionsFrom, frameStep_flag, ih, List.replicate_succ]

theorem decisionsFrom_length (ck : Clock) (sels : List Bool) (st : TState) :
    (decisionsFrom ck sels st).1.length = sels.length := by
  induction sels generalizing st with
  | nil => rfl
  | cons s rest ih => simp [decisionsFrom, ih]

/-- the invariant: started with a clear flag at reading `r`, frame `i` is collected iff it is selected and the readings
    `r … r + (selected frames above it)` are all within the budget -/
theorem decisionsFrom_spec (ck : Clock) (sels : List Bool) (r i : Nat) (hi : i < sels.length) :
    (decisionsFrom ck sels ⟨false, r⟩).1[i]? =
      some (sels.getD i false &&
        (List.range (Spec.selectedBefore sels i + 1)).all (fun m => !Spec.over ck (r + m))) := by
  induction sels generalizing r i with
  | nil => simp at hi
  | cons s rest ih =>
    cases s with
    | false =>
      simp only [decisionsFrom, frameStep_unselected]
      cases i with
      | zero => simp
      | succ j =>
        have hj : j < rest.length := by simpa using hi
        simp only [List.getElem?_cons_succ, ih r j hj, List.getD_cons_succ]
        simp [Spec.selectedBefore]
    | true =>
      simp only [decisionsFrom, frameStep_selected]
      cases i with
      | zero => simp [Spec.selectedBefore]
      | succ j =>
        have hj : j < rest.length := by simpa using hi
        simp only [List.getElem?_cons_succ, List.getD_cons_succ]
        by_cases ho : Spec.over ck r = true
        · rw [ho, decisionsFrom_flag]
          have : (List.range (Spec.selectedBefore (true :: rest) (j + 1) + 1)).all
              (fun m => !Spec.over ck (r + m)) = false := by
            rw [List.all_eq_false]
            exact ⟨0, by simp, by simp [ho]⟩
          simp [this, hj]
        · have ho' : Spec.over ck r = false := by simpa using ho
          rw [ho', ih (r + 1) j hj]
          congr 2
          have hsb : Spec.selectedBefore (true :: rest) (j + 1) = Spec.selectedBefore rest j + 1 := by
            simp [Spec.selectedBefore]
          rw [hsb, List.range_succ_eq_map (n := Spec.selectedBefore rest j + 1)]
          simp only [List.all_cons, List.all_map, Nat.add_zero, ho', Bool.not_false, Bool.true_and]
          congr 1
          funext m
          simp only [Function.comp]
          congr 2
          omega

/-- reads: never more than one per selected frame -/
theorem decisionsFrom_reads_le (ck : Clock) (sels : List Bool) (st : TState) :
    (decisionsFrom ck sels st).2.reads ≤ st.reads + sels.count true := by
  induction sels generalizing st with
  | nil => simp [decisionsFrom]
  | cons s rest ih =>
    cases s with
    | false =>
      simp only [decisionsFrom, frameStep_unselected]
      have := ih st
      simpa using this
    | true =>
      obtain ⟨fl, r⟩ := st
      cases fl with
      | true =>
        simp only [decisionsFrom, frameStep_flag]
        have := ih ⟨true, r⟩
        simp only [List.count_cons_self]
        simp only at this ⊢
        omega
      | false =>
        simp only [decisionsFrom, frameStep_selected]
        have := ih ⟨Spec.over ck r, r + 1⟩
        simp only [List.count_cons_self]
        simp only at this ⊢
        omega

/-- reads: one per collected frame, plus at most the one that found the budget spent -/
theorem decisionsFrom_reads_collected (ck : Clock) (sels : List Bool) (st : TState) :
    st.reads + (decisionsFrom ck sels st).1.count true ≤ (decisionsFrom ck sels st).2.reads ∧
    (decisionsFrom ck sels st).2.reads + (if st.flag then 1 else 0) ≤
      st.reads + (decisionsFrom ck sels st).1.count true + 1 := by
  induction sels generalizing st with
  | nil => simp [decisionsFrom]; split <;> omega
  | cons s rest ih =>
    cases s with
    | false =>
      simp only [decisionsFrom, frameStep_unselected]
      have := ih st
      simpa using this
    | true =>
      obtain ⟨fl, r⟩ := st
      cases fl with
      | true =>
        simp only [decisionsFrom, frameStep_flag]
        have := ih ⟨true, r⟩
        simpa using this
      | false =>
        simp only [decisionsFrom, frameStep_selected]
        have := ih ⟨Spec.over ck r, r + 1⟩
        cases ho : Spec.over ck r
        · rw [ho] at this
          simp only [Bool.not_false, List.count_cons_self, Bool.false_eq_true, if_false] at this ⊢
          omega
        · rw [ho] at this
          simp only [Bool.not_true, if_true] at this ⊢
          simp only [Bool.false_eq_true, if_false]
          have hc : (false :: (decisionsFrom ck rest ⟨true, r + 1⟩).1).count true =
              (decisionsFrom ck rest ⟨true, r + 1⟩).1.count true := by simp
          rw [hc]
          omega

theorem initial_flag : TState.init = ⟨false, 0⟩ := by
  simp [TState.init, initialExceeded]

end CollectorTime
