/-
  Proofs/Tasks — invariants of the task-handler machine (C09), proved for every failure assignment `f` and every
  schedule: job ids are fresh, a task leaves the pending map only through its callback after it is done, a flush in
  progress has closed the handler and waits for every unfinished task, per-task run/send counters, nothing runs on
  the calling thread, flush never ends by raising.  Each uses the extracted facts it needs by `decide`/`rfl`.
-/
import DeepModel.Model.Tasks
import DeepModel.Proofs.Guard

set_option linter.unusedSimpArgs false

namespace Tasks
open Extracted.Tasks

/-! ### extracted facts the proofs rest on (re-checked against the source on every run) -/

theorem fact_flushCloses : flushCloses = true := by decide
theorem fact_catches (e : Py.Exn) : flushCatches e = true := by cases e <;> decide
theorem fact_snapshot : flushIteratesSnapshot = true := by decide
theorem fact_refuses : checkOpenRefuses false = true := by decide
theorem fact_accepts : checkOpenRefuses true = false := by decide
theorem fact_viaSubmit : pushViaSubmit = true := by decide
theorem fact_noInline : pushInlineCalls = 0 := by decide
theorem fact_attached : callbackAttached = true := by decide

/-! ### task list helpers -/

theorem findTask_some {id : Int} {ts : List Task} {t : Task} (h : findTask id ts = some t) : t ∈ ts ∧ t.id = id := by
  unfold findTask at h
  have := List.find?_some h
  exact ⟨List.mem_of_find?_eq_some h, by simpa using this⟩

theorem findTask_none {id : Int} {ts : List Task} (h : findTask id ts = none) : ∀ t ∈ ts, t.id ≠ id := by
  unfold findTask at h
  intro t ht
  have := List.find?_eq_none.mp h t ht
  simpa using this

theorem mem_updTask {id : Int} {g : Task → Task} {ts : List Task} {t' : Task} :
    t' ∈ updTask id g ts ↔ ∃ t ∈ ts, t' = if t.id = id then g t else t := by
  unfold updTask
  simp only [List.mem_map]
  constructor
  · rintro ⟨t, ht, rfl⟩; exact ⟨t, ht, rfl⟩
  · rintro ⟨t, ht, rfl⟩; exact ⟨t, ht, rfl⟩

theorem ids_updTask {id : Int} {g : Task → Task} (hg : ∀ t, (g t).id = t.id) (ts : List Task) :
    (updTask id g ts).map (·.id) = ts.map (·.id) := by
  unfold updTask
  rw [List.map_map]
  apply List.map_congr_left
  intro t _
  simp only [Function.comp]
  split <;> simp [hg]

theorem eq_of_id_eq {ts : List Task} (hn : (ts.map (·.id)).Nodup) {a b : Task} (ha : a ∈ ts) (hb : b ∈ ts)
    (h : a.id = b.id) : a = b := by
  induction ts with
  | nil => simp at ha
  | cons x xs ih =>
    simp only [List.map_cons, List.nodup_cons, List.mem_map, not_exists, not_and] at hn
    rcases List.mem_cons.mp ha with rfl | ha' <;> rcases List.mem_cons.mp hb with rfl | hb'
    · rfl
    · exact absurd h.symm (hn.1 b hb')
    · exact absurd h (hn.1 a ha')
    · exact ih hn.2 ha' hb'

/-! ### the steps, unfolded with the facts -/

theorem push_closed (s : St) (h : s.th.isOpen = false) : push s = { s with refused := s.refused + 1 } := by
  simp [push, fact_viaSubmit, fact_noInline, submitTask, submitAccept, h, fact_refuses]

theorem push_open (s : St) (h : s.th.isOpen = true) :
    push s = { s with
      th := { s.th with jobId := s.th.jobId + 1, accepted := s.th.accepted ++ [s.th.jobId + 1],
                        pending := s.th.pending ++ [s.th.jobId + 1] },
      tasks := s.tasks ++ [⟨s.th.jobId + 1, .queued, false, [], 0⟩] } := by
  simp [push, fact_viaSubmit, fact_noInline, submitTask, submitAccept, submitStore, h, fact_accepts, nextId]

theorem callback_isOpen (th : TH) (id : Int) : (callback th id).isOpen = th.isOpen := by
  unfold callback; split <;> rfl
theorem callback_jobId (th : TH) (id : Int) : (callback th id).jobId = th.jobId := by
  unfold callback; split <;> rfl
theorem callback_pending_mem (th : TH) (id x : Int) (hx : x ∈ th.pending) (hne : x ≠ id) :
    x ∈ (callback th id).pending := by
  unfold callback
  split
  · exact (List.mem_erase_of_ne hne).mpr hx
  · exact hx

/-! ### the invariant -/

/-- no flush began while a push was between `pool.submit` and its store, and no wait of flush timed out -/
def Clean (s : St) : Prop := s.overlap = false ∧ s.timedOut = false

structure Inv (f : Int → Outcome) (s : St) : Prop where
  jobnn : 0 ≤ s.th.jobId
  pos : ∀ t ∈ s.tasks, 0 < t.id ∧ t.id ≤ s.th.jobId
  nodup : (s.tasks.map (·.id)).Nodup
  pend : ∀ t ∈ s.tasks, t.cb = false → t.id ∈ s.th.pending ∨ t.id ∈ s.storing
  cbdone : ∀ t ∈ s.tasks, t.cb = true → t.fut = .done
  onceQ : ∀ t ∈ s.tasks, t.fut = .queued → t.ranOn = [] ∧ t.sends = 0
  onceR : ∀ t ∈ s.tasks, ∀ w, t.fut = .running w → t.ranOn = [w] ∧ t.sends = 0
  onceD : ∀ t ∈ s.tasks, t.fut = .done → t.ranOn.length = 1 ∧ t.sends = (f t.id).sends
  storingOpen : s.overlap = false → s.th.isOpen = false → s.storing = []
  closedW : Clean s → ∀ todo, s.flush = .waiting todo →
    s.th.isOpen = false ∧ ∀ t ∈ s.tasks, t.fut ≠ .done → t.id ∈ todo
  closedR : Clean s → s.flush = .returned → s.th.isOpen = false ∧ ∀ t ∈ s.tasks, t.fut = .done
  noraise : ∀ e, s.flush ≠ .raised e
  caller : s.callerRuns = 0

theorem inv_init (f : Int → Outcome) : Inv f St.init := by
  refine ⟨by decide, ?_, by simp [St.init], ?_, ?_, ?_, ?_, ?_, ?_, ?_, ?_, ?_, rfl⟩ <;> simp [St.init]

theorem inv_push (f : Int → Outcome) (s : St) (h : Inv f s) : Inv f (push s) := by
  cases ho : s.th.isOpen with
  | false =>
    rw [push_closed s ho]
    exact ⟨h.jobnn, h.pos, h.nodup, h.pend, h.cbdone, h.onceQ, h.onceR, h.onceD, h.storingOpen, h.closedW, h.closedR, h.noraise,
      h.caller⟩
  | true =>
    rw [push_open s ho]
    have hj := h.jobnn
    refine ⟨?_, ?_, ?_, ?_, ?_, ?_, ?_, ?_, ?_, ?_, ?_, h.noraise, h.caller⟩
    · show 0 ≤ s.th.jobId + 1; omega
    · intro t ht
      show 0 < t.id ∧ t.id ≤ s.th.jobId + 1
      rcases List.mem_append.mp ht with ht | ht
      · have := h.pos t ht; omega
      · simp only [List.mem_singleton] at ht; subst ht; simp only; omega
    · show ((s.tasks ++ [(⟨s.th.jobId + 1, .queued, false, [], 0⟩ : Task)]).map (·.id)).Nodup
      rw [List.map_append, List.nodup_append]
      refine ⟨h.nodup, by simp, ?_⟩
      intro a ha b hb
      simp only [List.map_cons, List.map_nil, List.mem_singleton] at hb
      obtain ⟨t, ht, rfl⟩ := List.mem_map.mp ha
      have := h.pos t ht
      omega
    · intro t ht hcb
      show t.id ∈ s.th.pending ++ [s.th.jobId + 1] ∨ t.id ∈ s.storing
      rcases List.mem_append.mp ht with ht | ht
      · rcases h.pend t ht hcb with hp | hp
        · exact Or.inl (List.mem_append_left _ hp)
        · exact Or.inr hp
      · simp only [List.mem_singleton] at ht; subst ht; simp
    · intro t ht hcb
      rcases List.mem_append.mp ht with ht | ht
      · exact h.cbdone t ht hcb
      · simp only [List.mem_singleton] at ht; subst ht; simp at hcb
    · intro t ht hq
      rcases List.mem_append.mp ht with ht | ht
      · exact h.onceQ t ht hq
      · simp only [List.mem_singleton] at ht; subst ht; simp
    · intro t ht w hq
      rcases List.mem_append.mp ht with ht | ht
      · exact h.onceR t ht w hq
      · simp only [List.mem_singleton] at ht; subst ht; simp at hq
    · intro t ht hq
      rcases List.mem_append.mp ht with ht | ht
      · exact h.onceD t ht hq
      · simp only [List.mem_singleton] at ht; subst ht; simp at hq
    · intro _ hcl
      have : s.th.isOpen = false := hcl
      rw [ho] at this; simp at this
    · intro hc todo hw
      have := (h.closedW hc todo hw).1
      rw [ho] at this; simp at this
    · intro hc hw
      have := (h.closedR hc hw).1
      rw [ho] at this; simp at this

theorem inv_start (f : Int → Outcome) (s : St) (id : Int) (w : Nat) (h : Inv f s) : Inv f (step f s (.start id w)) := by
  simp only [step]
  cases hf : findTask id s.tasks with
  | none => exact h
  | some t0 =>
    obtain ⟨h0m, h0id⟩ := findTask_some hf
    dsimp only
    by_cases hq : t0.fut = .queued
    · rw [if_pos hq]
      have uniq : ∀ t ∈ s.tasks, t.id = id → t = t0 := fun t ht e => eq_of_id_eq h.nodup ht h0m (e.trans h0id.symm)
      refine ⟨h.jobnn, ?_, ?_, ?_, ?_, ?_, ?_, ?_, h.storingOpen, ?_, ?_, h.noraise, h.caller⟩
      · intro t' ht'
        obtain ⟨t, ht, rfl⟩ := mem_updTask.mp ht'
        have := h.pos t ht
        split <;> exact this
      · rw [ids_updTask (g := fun t => { t with fut := .running w, ranOn := t.ranOn ++ [w] }) (fun _ => rfl)]
        exact h.nodup
      · intro t' ht' hcb
        obtain ⟨t, ht, rfl⟩ := mem_updTask.mp ht'
        have := h.pend t ht
        split at hcb <;> split <;> exact this hcb
      · intro t' ht' hcb
        obtain ⟨t, ht, rfl⟩ := mem_updTask.mp ht'
        by_cases e : t.id = id
        · rw [if_pos e] at hcb ⊢
          have := h.cbdone t ht hcb
          rw [uniq t ht e, hq] at this; simp at this
        · rw [if_neg e] at hcb ⊢; exact h.cbdone t ht hcb
      · intro t' ht' hq'
        obtain ⟨t, ht, rfl⟩ := mem_updTask.mp ht'
        by_cases e : t.id = id
        · rw [if_pos e] at hq'; simp at hq'
        · rw [if_neg e] at hq' ⊢; exact h.onceQ t ht hq'
      · intro t' ht' w' hq'
        obtain ⟨t, ht, rfl⟩ := mem_updTask.mp ht'
        by_cases e : t.id = id
        · rw [if_pos e] at hq' ⊢
          simp only [Fut.running.injEq] at hq'
          subst hq'
          have := h.onceQ t ht (by rw [uniq t ht e]; exact hq)
          simp [this.1, this.2]
        · rw [if_neg e] at hq' ⊢; exact h.onceR t ht w' hq'
      · intro t' ht' hq'
        obtain ⟨t, ht, rfl⟩ := mem_updTask.mp ht'
        by_cases e : t.id = id
        · rw [if_pos e] at hq'; simp at hq'
        · rw [if_neg e] at hq' ⊢; exact h.onceD t ht hq'
      · intro hc todo hw
        refine ⟨(h.closedW hc todo hw).1, ?_⟩
        intro t' ht' hnd
        obtain ⟨t, ht, rfl⟩ := mem_updTask.mp ht'
        by_cases e : t.id = id
        · rw [if_pos e]
          exact (h.closedW hc todo hw).2 t ht (by rw [uniq t ht e, hq]; simp)
        · rw [if_neg e] at hnd ⊢; exact (h.closedW hc todo hw).2 t ht hnd
      · intro hc hw
        have := (h.closedR hc hw).2 t0 h0m
        rw [hq] at this; simp at this
    · rw [if_neg hq]; exact h

theorem inv_finish (f : Int → Outcome) (s : St) (id : Int) (h : Inv f s) : Inv f (step f s (.finish id)) := by
  simp only [step]
  cases hf : findTask id s.tasks with
  | none => exact h
  | some t0 =>
    obtain ⟨h0m, h0id⟩ := findTask_some hf
    dsimp only
    cases hq : t0.fut with
    | queued => exact h
    | done => exact h
    | running w0 =>
      dsimp only
      have uniq : ∀ t ∈ s.tasks, t.id = id → t = t0 := fun t ht e => eq_of_id_eq h.nodup ht h0m (e.trans h0id.symm)
      refine ⟨h.jobnn, ?_, ?_, ?_, ?_, ?_, ?_, ?_, h.storingOpen, ?_, ?_, h.noraise, h.caller⟩
      · intro t' ht'
        obtain ⟨t, ht, rfl⟩ := mem_updTask.mp ht'
        have := h.pos t ht
        split <;> exact this
      · rw [ids_updTask (g := fun t => { t with fut := .done, sends := t.sends + (f id).sends }) (fun _ => rfl)]
        exact h.nodup
      · intro t' ht' hcb
        obtain ⟨t, ht, rfl⟩ := mem_updTask.mp ht'
        have := h.pend t ht
        split at hcb <;> split <;> exact this hcb
      · intro t' ht' hcb
        obtain ⟨t, ht, rfl⟩ := mem_updTask.mp ht'
        by_cases e : t.id = id
        · rw [if_pos e]
        · rw [if_neg e] at hcb ⊢; exact h.cbdone t ht hcb
      · intro t' ht' hq'
        obtain ⟨t, ht, rfl⟩ := mem_updTask.mp ht'
        by_cases e : t.id = id
        · rw [if_pos e] at hq'; simp at hq'
        · rw [if_neg e] at hq' ⊢; exact h.onceQ t ht hq'
      · intro t' ht' w' hq'
        obtain ⟨t, ht, rfl⟩ := mem_updTask.mp ht'
        by_cases e : t.id = id
        · rw [if_pos e] at hq'; simp at hq'
        · rw [if_neg e] at hq' ⊢; exact h.onceR t ht w' hq'
      · intro t' ht' hq'
        obtain ⟨t, ht, rfl⟩ := mem_updTask.mp ht'
        by_cases e : t.id = id
        · rw [if_pos e]
          have := h.onceR t ht w0 (by rw [uniq t ht e]; exact hq)
          simp [this.1, this.2, e]
        · rw [if_neg e] at hq' ⊢; exact h.onceD t ht hq'
      · intro hc todo hw
        refine ⟨(h.closedW hc todo hw).1, ?_⟩
        intro t' ht' hnd
        obtain ⟨t, ht, rfl⟩ := mem_updTask.mp ht'
        by_cases e : t.id = id
        · rw [if_pos e] at hnd; simp at hnd
        · rw [if_neg e] at hnd ⊢; exact (h.closedW hc todo hw).2 t ht hnd
      · intro hc hw
        have := (h.closedR hc hw).2 t0 h0m
        rw [hq] at this; simp at this

theorem inv_callback (f : Int → Outcome) (s : St) (id : Int) (h : Inv f s) : Inv f (step f s (.callback id)) := by
  simp only [step]
  cases hf : findTask id s.tasks with
  | none => exact h
  | some t0 =>
    obtain ⟨h0m, h0id⟩ := findTask_some hf
    dsimp only
    by_cases hc : t0.fut = .done ∧ t0.cb = false ∧ callbackAttached = true ∧ s.storing.contains id = false
    · rw [if_pos hc]
      have uniq : ∀ t ∈ s.tasks, t.id = id → t = t0 := fun t ht e => eq_of_id_eq h.nodup ht h0m (e.trans h0id.symm)
      -- the flush state is not touched: the loop iterates over a snapshot
      suffices key : Inv f { s with tasks := updTask id (fun t => { t with cb := true }) s.tasks,
                                    th := callback s.th id } by
        split
        · rw [if_pos fact_snapshot]; exact key
        · exact key
      refine ⟨?_, ?_, ?_, ?_, ?_, ?_, ?_, ?_, ?_, ?_, ?_, h.noraise, h.caller⟩
      · show 0 ≤ (callback s.th id).jobId; rw [callback_jobId]; exact h.jobnn
      · intro t' ht'
        show 0 < t'.id ∧ t'.id ≤ (callback s.th id).jobId
        rw [callback_jobId]
        obtain ⟨t, ht, rfl⟩ := mem_updTask.mp ht'
        have := h.pos t ht
        split <;> exact this
      · show ((updTask id (fun t => { t with cb := true }) s.tasks).map (·.id)).Nodup
        rw [ids_updTask (g := fun t => { t with cb := true }) (fun _ => rfl)]
        exact h.nodup
      · intro t' ht' hcb
        show t'.id ∈ (callback s.th id).pending ∨ t'.id ∈ s.storing
        obtain ⟨t, ht, rfl⟩ := mem_updTask.mp ht'
        by_cases e : t.id = id
        · rw [if_pos e] at hcb; simp at hcb
        · rw [if_neg e] at hcb ⊢
          rcases h.pend t ht hcb with hp | hp
          · exact Or.inl (callback_pending_mem _ _ _ hp e)
          · exact Or.inr hp
      · intro t' ht' hcb
        obtain ⟨t, ht, rfl⟩ := mem_updTask.mp ht'
        by_cases e : t.id = id
        · rw [if_pos e]
          show t.fut = .done
          rw [uniq t ht e]; exact hc.1
        · rw [if_neg e] at hcb ⊢; exact h.cbdone t ht hcb
      · intro t' ht' hq'
        obtain ⟨t, ht, rfl⟩ := mem_updTask.mp ht'
        by_cases e : t.id = id
        · rw [if_pos e] at hq' ⊢; exact h.onceQ t ht hq'
        · rw [if_neg e] at hq' ⊢; exact h.onceQ t ht hq'
      · intro t' ht' w' hq'
        obtain ⟨t, ht, rfl⟩ := mem_updTask.mp ht'
        by_cases e : t.id = id
        · rw [if_pos e] at hq' ⊢; exact h.onceR t ht w' hq'
        · rw [if_neg e] at hq' ⊢; exact h.onceR t ht w' hq'
      · intro t' ht' hq'
        obtain ⟨t, ht, rfl⟩ := mem_updTask.mp ht'
        by_cases e : t.id = id
        · rw [if_pos e] at hq' ⊢; exact h.onceD t ht hq'
        · rw [if_neg e] at hq' ⊢; exact h.onceD t ht hq'
      · intro ho hcl
        have : (callback s.th id).isOpen = false := hcl
        rw [callback_isOpen] at this
        exact h.storingOpen ho this
      · intro hcl todo hw
        refine ⟨by show (callback s.th id).isOpen = false; rw [callback_isOpen]; exact (h.closedW hcl todo hw).1, ?_⟩
        intro t' ht' hnd
        obtain ⟨t, ht, rfl⟩ := mem_updTask.mp ht'
        by_cases e : t.id = id
        · rw [if_pos e] at hnd ⊢; exact (h.closedW hcl todo hw).2 t ht hnd
        · rw [if_neg e] at hnd ⊢; exact (h.closedW hcl todo hw).2 t ht hnd
      · intro hcl hw
        refine ⟨by show (callback s.th id).isOpen = false; rw [callback_isOpen]; exact (h.closedR hcl hw).1, ?_⟩
        intro t' ht'
        obtain ⟨t, ht, rfl⟩ := mem_updTask.mp ht'
        by_cases e : t.id = id
        · rw [if_pos e]; exact (h.closedR hcl hw).2 t ht
        · rw [if_neg e]; exact (h.closedR hcl hw).2 t ht
    · rw [if_neg hc]; exact h

theorem not_done_pending (f : Int → Outcome) (s : St) (h : Inv f s) (t : Task) (ht : t ∈ s.tasks)
    (hnd : t.fut ≠ .done) : t.id ∈ s.th.pending ∨ t.id ∈ s.storing := by
  apply h.pend t ht
  cases hcb : t.cb with
  | false => rfl
  | true => exact absurd (h.cbdone t ht hcb) hnd

theorem inv_flushBegin (f : Int → Outcome) (s : St) (h : Inv f s) : Inv f (step f s .flushBegin) := by
  have key : Inv f { s with th := { s.th with isOpen := if flushCloses then false else s.th.isOpen },
                            flush := .waiting s.th.pending, overlap := s.overlap || !s.storing.isEmpty } := by
    have hov : (s.overlap || !s.storing.isEmpty) = false → s.overlap = false ∧ s.storing = [] := by
      intro ho
      simp only [Bool.or_eq_false_iff, Bool.not_eq_false', List.isEmpty_iff] at ho
      exact ho
    refine ⟨h.jobnn, h.pos, h.nodup, h.pend, h.cbdone, h.onceQ, h.onceR, h.onceD, ?_, ?_, ?_, ?_, h.caller⟩
    · intro ho _; exact (hov ho).2
    · intro hcl todo hw
      simp only [Flush.waiting.injEq] at hw
      subst hw
      refine ⟨by simp [fact_flushCloses], ?_⟩
      intro t ht hnd
      rcases not_done_pending f s h t ht hnd with hp | hp
      · exact hp
      · rw [(hov hcl.1).2] at hp; simp at hp
    · intro _ hw; simp at hw
    · intro e; simp
  simp only [step]
  split
  · exact key
  · exact key
  · exact h

theorem inv_flushWait (f : Int → Outcome) (s : St) (h : Inv f s) : Inv f (step f s .flushWait) := by
  simp only [step]
  split
  · rename_i id rest hfl
    have mk : (∀ t ∈ s.tasks, t.id = id → t.fut = .done) → Inv f { s with flush := .waiting rest } := by
      intro hd
      refine ⟨h.jobnn, h.pos, h.nodup, h.pend, h.cbdone, h.onceQ, h.onceR, h.onceD, h.storingOpen, ?_, ?_, ?_,
        h.caller⟩
      · intro hcl todo hw'
        have hw := h.closedW hcl (id :: rest) hfl
        simp only [Flush.waiting.injEq] at hw'
        subst hw'
        refine ⟨hw.1, ?_⟩
        intro t ht hnd
        rcases List.mem_cons.mp (hw.2 t ht hnd) with e | e
        · exact absurd (hd t ht e) hnd
        · exact e
      · intro _ hw'; simp at hw'
      · intro e; simp
    cases hf : findTask id s.tasks with
    | none =>
      exact mk (fun t ht e => absurd e (findTask_none hf t ht))
    | some t0 =>
      obtain ⟨h0m, h0id⟩ := findTask_some hf
      dsimp only
      by_cases hd : t0.fut = .done
      · rw [if_pos hd]
        have hall : ∀ t ∈ s.tasks, t.id = id → t.fut = .done := by
          intro t ht e
          rw [eq_of_id_eq h.nodup ht h0m (e.trans h0id.symm)]; exact hd
        cases (f id).error with
        | none => exact mk hall
        | some e => simp only [fact_catches, if_true]; exact mk hall
      · rw [if_neg hd]; exact h
  · exact h

theorem inv_flushEnd (f : Int → Outcome) (s : St) (h : Inv f s) : Inv f (step f s .flushEnd) := by
  simp only [step]
  split
  · rename_i hfl
    refine ⟨h.jobnn, h.pos, h.nodup, h.pend, h.cbdone, h.onceQ, h.onceR, h.onceD, h.storingOpen, ?_, ?_, ?_,
      h.caller⟩
    · intro _ todo hw'; simp at hw'
    · intro hcl _
      have hw := h.closedW hcl [] hfl
      refine ⟨hw.1, ?_⟩
      intro t ht
      by_cases hd : t.fut = .done
      · exact hd
      · have := hw.2 t ht hd; simp at this
    · intro e; simp
  · exact h

/-- a wait of flush gives up: nothing but the flush position and the ghost flag change -/
theorem inv_flushTimeout (f : Int → Outcome) (s : St) (h : Inv f s) : Inv f (step f s .flushTimeout) := by
  simp only [step]
  split
  · rename_i id rest hfl
    cases hf : findTask id s.tasks with
    | none => exact h
    | some t0 =>
      dsimp only
      by_cases hd : t0.fut = .done
      · rw [if_pos hd]; exact h
      · rw [if_neg hd, if_pos (fact_catches .exc)]
        refine ⟨h.jobnn, h.pos, h.nodup, h.pend, h.cbdone, h.onceQ, h.onceR, h.onceD, h.storingOpen, ?_, ?_, ?_,
          h.caller⟩
        · intro hcl; exact absurd hcl.2 (by simp)
        · intro hcl; exact absurd hcl.2 (by simp)
        · intro e; simp
  · exact h

theorem pushBegin_closed (s : St) (h : s.th.isOpen = false) : pushBegin s = { s with refused := s.refused + 1 } := by
  simp [pushBegin, fact_viaSubmit, fact_noInline, submitAccept, h, fact_refuses]

theorem pushBegin_open (s : St) (h : s.th.isOpen = true) :
    pushBegin s = { s with
      th := { s.th with jobId := s.th.jobId + 1, accepted := s.th.accepted ++ [s.th.jobId + 1] },
      tasks := s.tasks ++ [⟨s.th.jobId + 1, .queued, false, [], 0⟩],
      storing := s.storing ++ [s.th.jobId + 1] } := by
  simp [pushBegin, fact_viaSubmit, fact_noInline, submitAccept, h, fact_accepts, nextId]

theorem inv_pushBegin (f : Int → Outcome) (s : St) (h : Inv f s) : Inv f (pushBegin s) := by
  cases ho : s.th.isOpen with
  | false =>
    rw [pushBegin_closed s ho]
    exact ⟨h.jobnn, h.pos, h.nodup, h.pend, h.cbdone, h.onceQ, h.onceR, h.onceD, h.storingOpen, h.closedW, h.closedR,
      h.noraise, h.caller⟩
  | true =>
    rw [pushBegin_open s ho]
    have hj := h.jobnn
    refine ⟨?_, ?_, ?_, ?_, ?_, ?_, ?_, ?_, ?_, ?_, ?_, h.noraise, h.caller⟩
    · show 0 ≤ s.th.jobId + 1; omega
    · intro t ht
      show 0 < t.id ∧ t.id ≤ s.th.jobId + 1
      rcases List.mem_append.mp ht with ht | ht
      · have := h.pos t ht; omega
      · simp only [List.mem_singleton] at ht; subst ht; simp only; omega
    · show ((s.tasks ++ [(⟨s.th.jobId + 1, .queued, false, [], 0⟩ : Task)]).map (·.id)).Nodup
      rw [List.map_append, List.nodup_append]
      refine ⟨h.nodup, by simp, ?_⟩
      intro a ha b hb
      simp only [List.map_cons, List.map_nil, List.mem_singleton] at hb
      obtain ⟨t, ht, rfl⟩ := List.mem_map.mp ha
      have := h.pos t ht
      omega
    · intro t ht hcb
      show t.id ∈ s.th.pending ∨ t.id ∈ s.storing ++ [s.th.jobId + 1]
      rcases List.mem_append.mp ht with ht | ht
      · rcases h.pend t ht hcb with hp | hp
        · exact Or.inl hp
        · exact Or.inr (List.mem_append_left _ hp)
      · simp only [List.mem_singleton] at ht; subst ht; simp
    · intro t ht hcb
      rcases List.mem_append.mp ht with ht | ht
      · exact h.cbdone t ht hcb
      · simp only [List.mem_singleton] at ht; subst ht; simp at hcb
    · intro t ht hq
      rcases List.mem_append.mp ht with ht | ht
      · exact h.onceQ t ht hq
      · simp only [List.mem_singleton] at ht; subst ht; simp
    · intro t ht w hq
      rcases List.mem_append.mp ht with ht | ht
      · exact h.onceR t ht w hq
      · simp only [List.mem_singleton] at ht; subst ht; simp at hq
    · intro t ht hq
      rcases List.mem_append.mp ht with ht | ht
      · exact h.onceD t ht hq
      · simp only [List.mem_singleton] at ht; subst ht; simp at hq
    · intro _ hcl
      have : s.th.isOpen = false := hcl
      rw [ho] at this; simp at this
    · intro hc todo hw
      have := (h.closedW hc todo hw).1
      rw [ho] at this; simp at this
    · intro hc hw
      have := (h.closedR hc hw).1
      rw [ho] at this; simp at this

theorem submitStore_eq (th : TH) (id : Int) : submitStore th id = { th with pending := th.pending ++ [id] } := rfl

theorem inv_pushStore (f : Int → Outcome) (s : St) (id : Int) (h : Inv f s) : Inv f (step f s (.pushStore id)) := by
  simp only [step]
  by_cases hin : s.storing.contains id = true
  · rw [if_pos hin]
    have hmem : id ∈ s.storing := by simpa using hin
    -- a push in its window means the handler is open, or a flush overlapped it
    have hopen : s.overlap = false → s.th.isOpen = true := by
      intro ho
      cases hio : s.th.isOpen with
      | true => rfl
      | false => rw [h.storingOpen ho hio] at hmem; simp at hmem
    have base : Inv f { s with storing := s.storing.erase id, th := submitStore s.th id } := by
      rw [submitStore_eq]
      refine ⟨h.jobnn, h.pos, h.nodup, ?_, h.cbdone, h.onceQ, h.onceR, h.onceD, ?_, ?_, ?_, h.noraise, h.caller⟩
      · intro t ht hcb
        show t.id ∈ s.th.pending ++ [id] ∨ t.id ∈ s.storing.erase id
        by_cases e : t.id = id
        · left; rw [e]; simp
        · rcases h.pend t ht hcb with hp | hp
          · exact Or.inl (List.mem_append_left _ hp)
          · exact Or.inr ((List.mem_erase_of_ne e).mpr hp)
      · intro ho hcl
        have := hopen ho
        rw [show s.th.isOpen = false from hcl] at this; simp at this
      · intro hcl todo hw
        have := (h.closedW hcl todo hw).1
        rw [hopen hcl.1] at this; simp at this
      · intro hcl hw
        have := (h.closedR hcl hw).1
        rw [hopen hcl.1] at this; simp at this
    show Inv f (match findTask id s.tasks with
      | some t =>
        if t.fut = .done ∧ callbackAttached = true then
          { s with storing := s.storing.erase id,
                   tasks := updTask id (fun t => { t with cb := true }) s.tasks,
                   th := callback (submitStore s.th id) id }
        else { s with storing := s.storing.erase id, th := submitStore s.th id }
      | none => { s with storing := s.storing.erase id, th := submitStore s.th id })
    cases hf : findTask id s.tasks with
    | none => exact base
    | some t0 =>
      obtain ⟨h0m, h0id⟩ := findTask_some hf
      dsimp only
      by_cases hd : t0.fut = .done ∧ callbackAttached = true
      · rw [if_pos hd]
        have uniq : ∀ t ∈ s.tasks, t.id = id → t = t0 :=
          fun t ht e => eq_of_id_eq h.nodup ht h0m (e.trans h0id.symm)
        refine ⟨?_, ?_, ?_, ?_, ?_, ?_, ?_, ?_, ?_, ?_, ?_, base.noraise, base.caller⟩
        · show 0 ≤ (callback (submitStore s.th id) id).jobId; rw [callback_jobId]; exact base.jobnn
        · intro t' ht'
          show 0 < t'.id ∧ t'.id ≤ (callback (submitStore s.th id) id).jobId
          rw [callback_jobId]
          obtain ⟨t, ht, rfl⟩ := mem_updTask.mp ht'
          have := base.pos t ht
          split <;> exact this
        · show ((updTask id (fun t => { t with cb := true }) s.tasks).map (·.id)).Nodup
          rw [ids_updTask (g := fun t => { t with cb := true }) (fun _ => rfl)]
          exact h.nodup
        · intro t' ht' hcb
          show t'.id ∈ (callback (submitStore s.th id) id).pending ∨ t'.id ∈ s.storing.erase id
          obtain ⟨t, ht, rfl⟩ := mem_updTask.mp ht'
          by_cases e : t.id = id
          · rw [if_pos e] at hcb; simp at hcb
          · rw [if_neg e] at hcb ⊢
            rcases base.pend t ht hcb with hp | hp
            · exact Or.inl (callback_pending_mem _ _ _ hp e)
            · exact Or.inr hp
        · intro t' ht' hcb
          obtain ⟨t, ht, rfl⟩ := mem_updTask.mp ht'
          by_cases e : t.id = id
          · rw [if_pos e]
            show t.fut = .done
            rw [uniq t ht e]; exact hd.1
          · rw [if_neg e] at hcb ⊢; exact h.cbdone t ht hcb
        · intro t' ht' hq'
          obtain ⟨t, ht, rfl⟩ := mem_updTask.mp ht'
          by_cases e : t.id = id
          · rw [if_pos e] at hq' ⊢; exact h.onceQ t ht hq'
          · rw [if_neg e] at hq' ⊢; exact h.onceQ t ht hq'
        · intro t' ht' w' hq'
          obtain ⟨t, ht, rfl⟩ := mem_updTask.mp ht'
          by_cases e : t.id = id
          · rw [if_pos e] at hq' ⊢; exact h.onceR t ht w' hq'
          · rw [if_neg e] at hq' ⊢; exact h.onceR t ht w' hq'
        · intro t' ht' hq'
          obtain ⟨t, ht, rfl⟩ := mem_updTask.mp ht'
          by_cases e : t.id = id
          · rw [if_pos e] at hq' ⊢; exact h.onceD t ht hq'
          · rw [if_neg e] at hq' ⊢; exact h.onceD t ht hq'
        · intro ho hcl
          have hcl' : s.th.isOpen = false := by
            have : (callback (submitStore s.th id) id).isOpen = false := hcl
            rw [callback_isOpen] at this; exact this
          have := hopen ho
          rw [hcl'] at this; simp at this
        · intro hcl todo hw
          have := (h.closedW hcl todo hw).1
          rw [hopen hcl.1] at this; simp at this
        · intro hcl hw
          have := (h.closedR hcl hw).1
          rw [hopen hcl.1] at this; simp at this
      · rw [if_neg hd]; exact base
  · rw [if_neg hin]; exact h

theorem submitRejected_closed (th : TH) (h : th.isOpen = false) : submitRejected th = (th, .base) := by
  simp [submitRejected, h, fact_refuses, refusalClass]

theorem submitRejected_open (th : TH) (h : th.isOpen = true) :
    submitRejected th = ({ th with jobId := th.jobId + 1 }, .exc) := by
  simp [submitRejected, h, fact_accepts, nextId]

theorem pushRejected_eq (s : St) :
    pushRejected s = { s with th := { s.th with jobId := if s.th.isOpen then s.th.jobId + 1 else s.th.jobId },
                              refused := s.refused + 1 } := by
  cases ho : s.th.isOpen with
  | false =>
    have : s.th = { s.th with jobId := s.th.jobId } := rfl
    simp [pushRejected, fact_viaSubmit, fact_noInline, submitRejected_closed _ ho]
  | true => simp [pushRejected, fact_viaSubmit, fact_noInline, submitRejected_open _ ho]

theorem inv_pushRejected (f : Int → Outcome) (s : St) (h : Inv f s) : Inv f (pushRejected s) := by
  rw [pushRejected_eq]
  have hj := h.jobnn
  refine ⟨?_, ?_, h.nodup, h.pend, h.cbdone, h.onceQ, h.onceR, h.onceD, h.storingOpen, h.closedW, h.closedR, h.noraise,
    h.caller⟩
  · show 0 ≤ (if s.th.isOpen then s.th.jobId + 1 else s.th.jobId); split <;> omega
  · intro t ht
    have := h.pos t ht
    refine ⟨this.1, ?_⟩
    show t.id ≤ (if s.th.isOpen then s.th.jobId + 1 else s.th.jobId)
    split <;> omega

theorem inv_refused (f : Int → Outcome) (s : St) (n : Nat) (h : Inv f s) : Inv f { s with refused := n } :=
  ⟨h.jobnn, h.pos, h.nodup, h.pend, h.cbdone, h.onceQ, h.onceR, h.onceD, h.storingOpen, h.closedW, h.closedR, h.noraise,
    h.caller⟩

theorem inv_pushQueuedRaised (f : Int → Outcome) (s : St) (h : Inv f s) : Inv f (pushQueuedRaised s) := by
  unfold pushQueuedRaised
  split
  · exact inv_refused f _ _ (inv_pushBegin f s h)
  · exact inv_pushBegin f s h

theorem inv_step (f : Int → Outcome) (s : St) (st : Step) (h : Inv f s) : Inv f (step f s st) := by
  cases st with
  | push => exact inv_push f s h
  | pushQueuedRaised => exact inv_pushQueuedRaised f s h
  | pushRejected => exact inv_pushRejected f s h
  | pushBegin => exact inv_pushBegin f s h
  | pushStore id => exact inv_pushStore f s id h
  | flushTimeout => exact inv_flushTimeout f s h
  | start id w => exact inv_start f s id w h
  | finish id => exact inv_finish f s id h
  | callback id => exact inv_callback f s id h
  | flushBegin => exact inv_flushBegin f s h
  | flushWait => exact inv_flushWait f s h
  | flushEnd => exact inv_flushEnd f s h

theorem inv_runFrom (f : Int → Outcome) (sched : List Step) (s : St) (h : Inv f s) : Inv f (runFrom f s sched) := by
  induction sched generalizing s with
  | nil => exact h
  | cons st rest ih => exact ih _ (inv_step f s st h)

theorem inv_run (f : Int → Outcome) (sched : List Step) : Inv f (run f sched) := inv_runFrom f sched _ (inv_init f)

/-! ### failures do not interfere: the machine's evolution does not depend on the failure assignment -/

def eraseTask (t : Task) : Task := { t with sends := 0 }
/-- the state without the per-task send counters -/
def erase (s : St) : St := { s with tasks := s.tasks.map eraseTask }

theorem findTask_erase (id : Int) (ts : List Task) :
    findTask id (ts.map eraseTask) = (findTask id ts).map eraseTask := by
  unfold findTask
  rw [List.find?_map]
  rfl

theorem updTask_erase (id : Int) (g g' : Task → Task) (ts : List Task)
    (hg : ∀ t, eraseTask (g t) = eraseTask (g' (eraseTask t))) :
    (updTask id g ts).map eraseTask = (updTask id g' (ts.map eraseTask)).map eraseTask := by
  unfold updTask
  simp only [List.map_map]
  apply List.map_congr_left
  intro t _
  simp only [Function.comp]
  have : (eraseTask t).id = t.id := rfl
  rw [this]
  split
  · exact hg t
  · rfl

theorem erase_erase (s : St) : erase (erase s) = erase s := by
  simp [erase, List.map_map, Function.comp, eraseTask]

theorem erase_step (f g : Int → Outcome) (s : St) (st : Step) :
    erase (step f s st) = erase (step g (erase s) st) := by
  cases st with
  | pushRejected =>
    show erase (pushRejected s) = erase (pushRejected (erase s))
    rw [pushRejected_eq, pushRejected_eq]
    simp only [erase, List.map_map]
    have : (eraseTask ∘ eraseTask) = eraseTask := by funext t; simp [Function.comp, eraseTask]
    rw [this]
    rfl
  | push =>
    show erase (push s) = erase (push (erase s))
    cases ho : s.th.isOpen with
    | false =>
      rw [push_closed s ho, push_closed (erase s) ho]; simp [erase, List.map_map, Function.comp, eraseTask]
    | true =>
      rw [push_open s ho, push_open (erase s) ho]; simp [erase, List.map_map, Function.comp, eraseTask]
  | start id w =>
    simp only [step, erase, findTask_erase]
    cases hf : findTask id s.tasks with
    | none => simp [List.map_map, Function.comp, eraseTask]
    | some t0 =>
      simp only [Option.map_some]
      have : (eraseTask t0).fut = t0.fut := rfl
      rw [this]
      by_cases hq : t0.fut = .queued
      · simp only [hq, if_true]
        congr 1
        exact updTask_erase id _ _ s.tasks (fun _ => rfl)
      · simp only [hq, if_false]
        simp [List.map_map, Function.comp, eraseTask]
  | finish id =>
    simp only [step, erase, findTask_erase]
    cases hf : findTask id s.tasks with
    | none => simp [List.map_map, Function.comp, eraseTask]
    | some t0 =>
      simp only [Option.map_some]
      have : (eraseTask t0).fut = t0.fut := rfl
      rw [this]
      cases hq : t0.fut with
      | running w =>
        simp only
        congr 1
        exact updTask_erase id _ _ s.tasks (fun _ => rfl)
      | queued => simp [List.map_map, Function.comp, eraseTask]
      | done => simp [List.map_map, Function.comp, eraseTask]
  | callback id =>
    simp only [step, erase, findTask_erase]
    cases hf : findTask id s.tasks with
    | none => simp [List.map_map, Function.comp, eraseTask]
    | some t0 =>
      simp only [Option.map_some]
      have h1 : (eraseTask t0).fut = t0.fut := rfl
      have h2 : (eraseTask t0).cb = t0.cb := rfl
      rw [h1, h2]
      by_cases hc : t0.fut = .done ∧ t0.cb = false ∧ callbackAttached = true ∧ s.storing.contains id = false
      · obtain ⟨c1, c2, c3, c4⟩ := hc
        have c4' : (erase s).storing.contains id = false := c4
        simp only [erase] at c4'
        simp only [c1, c2, c3, c4, c4', and_self, if_true]
        have e := updTask_erase id (fun t => { t with cb := true }) (fun t => { t with cb := true }) s.tasks (fun _ => rfl)
        cases hfl : s.flush with
        | waiting todo => simp only [fact_snapshot, if_true]; rw [e]
        | idle => simp only; rw [e]
        | returned => simp only; rw [e]
        | raised x => simp only; rw [e]
      · have hc' : ¬(t0.fut = .done ∧ t0.cb = false ∧ callbackAttached = true ∧
            (erase s).storing.contains id = false) := hc
        simp only [erase] at hc'
        simp only [hc, hc', if_false]
        simp [List.map_map, Function.comp, eraseTask]
  | pushQueuedRaised =>
    show erase (pushQueuedRaised s) = erase (pushQueuedRaised (erase s))
    have hb : erase (pushBegin s) = erase (pushBegin (erase s)) := by
      cases ho : s.th.isOpen with
      | false =>
        rw [pushBegin_closed s ho, pushBegin_closed (erase s) ho]; simp [erase, List.map_map, Function.comp, eraseTask]
      | true =>
        rw [pushBegin_open s ho, pushBegin_open (erase s) ho]; simp [erase, List.map_map, Function.comp, eraseTask]
    have ho' : (erase s).th.isOpen = s.th.isOpen := rfl
    unfold pushQueuedRaised
    rw [ho']
    split
    · have h1 : ∀ x : St, erase { x with refused := x.refused + 1 } = { erase x with refused := (erase x).refused + 1 } :=
        fun _ => rfl
      rw [h1, h1, hb]
    · exact hb
  | pushBegin =>
    show erase (pushBegin s) = erase (pushBegin (erase s))
    cases ho : s.th.isOpen with
    | false =>
      rw [pushBegin_closed s ho, pushBegin_closed (erase s) ho]; simp [erase, List.map_map, Function.comp, eraseTask]
    | true =>
      rw [pushBegin_open s ho, pushBegin_open (erase s) ho]; simp [erase, List.map_map, Function.comp, eraseTask]
  | pushStore id =>
    simp only [step, erase, findTask_erase]
    by_cases hin : s.storing.contains id = true
    · rw [if_pos hin, if_pos hin]
      cases hf : findTask id s.tasks with
      | none => simp [List.map_map, Function.comp, eraseTask]
      | some t0 =>
        simp only [Option.map_some]
        have h1 : (eraseTask t0).fut = t0.fut := rfl
        rw [h1]
        by_cases hd : t0.fut = .done ∧ callbackAttached = true
        · rw [if_pos hd, if_pos hd]
          have e := updTask_erase id (fun t => { t with cb := true }) (fun t => { t with cb := true }) s.tasks
            (fun _ => rfl)
          simp only; rw [e]
        · rw [if_neg hd, if_neg hd]
          simp [List.map_map, Function.comp, eraseTask]
    · rw [if_neg hin, if_neg hin]
      simp [List.map_map, Function.comp, eraseTask]
  | flushTimeout =>
    simp only [step, erase]
    cases hfl : s.flush with
    | waiting todo =>
      cases todo with
      | nil => simp [hfl, List.map_map, Function.comp, eraseTask]
      | cons id rest =>
        simp only [findTask_erase]
        cases hf : findTask id s.tasks with
        | none => simp [hfl, List.map_map, Function.comp, eraseTask]
        | some t0 =>
          simp only [Option.map_some]
          have h1 : (eraseTask t0).fut = t0.fut := rfl
          rw [h1]
          by_cases hd : t0.fut = .done
          · simp [hd, hfl, List.map_map, Function.comp, eraseTask]
          · simp [hd, hfl, fact_catches, List.map_map, Function.comp, eraseTask]
    | idle => simp [hfl, List.map_map, Function.comp, eraseTask]
    | returned => simp [hfl, List.map_map, Function.comp, eraseTask]
    | raised x => simp [hfl, List.map_map, Function.comp, eraseTask]
  | flushBegin =>
    simp only [step, erase]
    cases hfl : s.flush <;> simp [hfl, List.map_map, Function.comp, eraseTask]
  | flushWait =>
    simp only [step, erase]
    cases hfl : s.flush with
    | waiting todo =>
      cases todo with
      | nil => simp [hfl, List.map_map, Function.comp, eraseTask]
      | cons id rest =>
        simp only [findTask_erase]
        cases hf : findTask id s.tasks with
        | none => simp [hfl, List.map_map, Function.comp, eraseTask]
        | some t0 =>
          simp only [Option.map_some]
          have h1 : (eraseTask t0).fut = t0.fut := rfl
          rw [h1]
          by_cases hd : t0.fut = .done
          · simp only [hd, if_true]
            cases (f id).error <;> cases (g id).error <;>
              simp [hfl, fact_catches, List.map_map, Function.comp, eraseTask]
          · simp only [hd, if_false]
            simp [hfl, List.map_map, Function.comp, eraseTask]
    | idle => simp [hfl, List.map_map, Function.comp, eraseTask]
    | returned => simp [hfl, List.map_map, Function.comp, eraseTask]
    | raised x => simp [hfl, List.map_map, Function.comp, eraseTask]
  | flushEnd =>
    simp only [step, erase]
    cases hfl : s.flush with
    | waiting todo => cases todo <;> simp [hfl, List.map_map, Function.comp, eraseTask]
    | idle => simp [hfl, List.map_map, Function.comp, eraseTask]
    | returned => simp [hfl, List.map_map, Function.comp, eraseTask]
    | raised x => simp [hfl, List.map_map, Function.comp, eraseTask]

theorem erase_runFrom (f g : Int → Outcome) (sched : List Step) (s s' : St) (h : erase s = erase s') :
    erase (runFrom f s sched) = erase (runFrom g s' sched) := by
  induction sched generalizing s s' with
  | nil => exact h
  | cons st rest ih =>
    apply ih
    rw [erase_step f g s st, h, ← erase_step g g s' st]

end Tasks
