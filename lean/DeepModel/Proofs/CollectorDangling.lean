/-
  Proofs/CollectorDangling — WITHOUT any hypothesis on the heap: every id the identity cache of an action hands out has
  its entry in the action's table, except the ids of the locals dicts of collected frames (whose pseudo-entries the
  "unwrap" step of `_process_frame` deletes).  This is the covering half of `CollectorClosed.CInv`, proved on its own so
  that it does not need `NoRef`.
-/
import DeepModel.Proofs.CollectorSnap

namespace Collector
open Heap Extracted.Collector

/-- every cached id has its entry, or belongs to one of the objects `LO` -/
def Cov (LO : List ObjId) (c : Cache) (t : List Entry) : Prop := ∀ p ∈ c, p.2 ∈ t.map (·.vid) ∨ p.1 ∈ LO

theorem noRef_nil (H : Heap) : NoRef H [] := fun _ _ _ => by simp

theorem processVariable_cov {H : Heap} {L : Limits} {LO : List ObjId} (c : Cache) (t : List Entry) (name : String)
    (o : ObjId) (hc : Cov LO c t) :
    Cov LO (processVariable H L c t name o).cache (processVariable H L c t name o).table := by
  have pc := processVariable_closed (L := L) (LO := []) (benign_all H) (noRef_nil H) c t name o (by simp)
  intro p hp
  rcases pc.cov p hp with h1 | h1
  · rcases hc p h1 with h2 | h2
    · exact Or.inl (pc.keep _ h2)
    · exact Or.inr h2
  · exact Or.inl h1

theorem collectFrames_cov {H : Heap} {L : Limits} {LO : List ObjId} (fs : List FrameIn)
    (hLO : ∀ f ∈ fs, f.collect = true → f.locals ∈ LO) {c : Cache} {t : List Entry}
    (ha : AInv L c t) (hc : Cov LO c t) :
    Cov LO (collectFrames H L fs c t).cache (collectFrames H L fs c t).table := by
  induction fs generalizing c t with
  | nil => exact hc
  | cons f fs ih =>
    have hLO' : ∀ g ∈ fs, g.collect = true → g.locals ∈ LO := fun g hg => hLO g (List.mem_cons_of_mem _ hg)
    simp only [collectFrames]
    split
    · exact ih hLO' ha hc
    · rename_i hcoll
      have hcoll' : f.collect = true := by simpa using hcoll
      have pf := processVariable_facts H ha localsName f.locals
      have hnf : (processVariable H L c t localsName f.locals).failed = none :=
        processVariable_nofail (benign_all H) L c t localsName f.locals
      rw [hnf]
      simp only
      have hu := pf.inv.unwrap (processVariable H L c t localsName f.locals).vid
      have hcov0 := processVariable_cov (H := H) (L := L) c t localsName f.locals hc
      have hcu : Cov LO (processVariable H L c t localsName f.locals).cache
          (Collector.unwrap (processVariable H L c t localsName f.locals).table
            (processVariable H L c t localsName f.locals).vid).2 := by
        unfold Collector.unwrap
        cases hv : (processVariable H L c t localsName f.locals).vid with
        | none => exact hcov0
        | some v =>
          simp only
          cases hfe : findEntry (processVariable H L c t localsName f.locals).table v with
          | none => exact hcov0
          | some e =>
            simp only
            intro p hp
            by_cases hpv : p.2 = v
            · right
              have hm := pf.vid v hv
              have hp' : (p.1, v) ∈ (processVariable H L c t localsName f.locals).cache := by
                rw [← hpv]; exact hp
              have : p.1 = f.locals := pf.inv.cok.obj_inj hp' hm
              rw [this]; exact hLO f (List.mem_cons_self ..) hcoll'
            · rcases hcov0 p hp with h1 | h1
              · exact Or.inl (mem_removeEntry_vids h1 hpv)
              · exact Or.inr h1
      exact ih hLO' hu.1 hcu

theorem collectWatches_cov {H : Heap} {L : Limits} {LO : List ObjId} (ws : List WatchIn) {c : Cache} {t : List Entry}
    (hc : Cov LO c t) : Cov LO (collectWatches H L ws c t).cache (collectWatches H L ws c t).table := by
  induction ws generalizing c t with
  | nil => exact hc
  | cons w ws ih =>
    have pc := processVariable_closed (L := L) (LO := []) (benign_all H) (noRef_nil H) c [] w.expr w.value (by simp)
    have hmerge : Cov LO (processVariable H L c [] w.expr w.value).cache
        (t ++ (processVariable H L c [] w.expr w.value).table) := by
      intro p hp
      simp only [List.map_append, List.mem_append]
      rcases pc.cov p hp with h1 | h1
      · rcases hc p h1 with h2 | h2
        · exact Or.inl (Or.inl h2)
        · exact Or.inr h2
      · exact Or.inl (Or.inr h1)
    simp only [collectWatches]
    rw [pc.nofail]
    split
    · simp only
      split
      · rename_i hvn _
        have := processVariable_vid_none (H := H) (L := L) c [] w.expr w.value hvn
        rw [this.1]
        exact ih hc
      · exact ih hmerge
    · simp only
      split
      · rename_i hvn _
        have := processVariable_vid_none (H := H) (L := L) c [] w.expr w.value hvn
        rw [this.1]
        exact ih hc
      · exact ih hmerge

/-- on a finished snapshot: every id of the action's cache has its entry in the snapshot's table, or is the id of the
    locals dict of a collected frame -/
theorem collect_cov {H : Heap} {a : ActionIn} {s : Snapshot} (h : collect H a = .ok s) :
    Cov (localsOf a.frames) (collectFrom H a [] []).cache s.table := by
  have hLO : ∀ f ∈ a.frames, f.collect = true → f.locals ∈ localsOf a.frames := by
    intro f hf hc
    simp only [localsOf, List.mem_map, List.mem_filter]
    exact ⟨f, ⟨hf, hc⟩, rfl⟩
  have ff := collectFrames_facts H a.frames (AInv.nil a.limits)
  have fc := collectFrames_cov (H := H) (L := a.limits) a.frames hLO (AInv.nil a.limits)
    (fun p hp => by simp at hp)
  have wc := collectWatches_cov (H := H) (L := a.limits) a.watches fc
  unfold collect at h
  unfold collectFrom at h ⊢
  simp only at h ⊢
  split at h
  · simp at h
  · split at h
    · simp at h
    · simp only [Outcome.ok.injEq] at h
      subst h
      exact wc

end Collector
