/-
  Proofs/CollectorClosed — referential closure of a snapshot (C07) and totality of the action (C06), under the two
  hypotheses the code forces:

  * `Benign H`: rendering and child discovery raise for no object of the heap (the probes `len`, `tuple`, `isinstance`,
    `.args`, `hasattr`, `.__dict__` are not guarded in the code; `str` is, and may raise freely);
  * `NoRef H LO`: no object refers to one of the locals dicts `LO` of the collected frames (the entry of a locals dict
    is deleted from the table when the frame is unwrapped).
-/
import DeepModel.Proofs.CollectorAct

namespace Collector
open Heap Extracted.Collector

def probeObjs : Probe (List ObjId) → List ObjId
  | .ok xs => xs
  | .raises _ => []

def probeItems : Probe (List (Key × ObjId)) → List ObjId
  | .ok kvs => kvs.map (·.2)
  | .raises _ => []

/-- every object a kind test can make a child of `o` -/
def kidObjs (o : PyObj) : List ObjId :=
  o.dictItems.map (·.2) ++ probeObjs o.seq ++ probeObjs o.excArgs ++ probeItems o.attrs

/-- no object of the heap has one of `LO` among its possible children -/
def NoRef (H : Heap) (LO : List ObjId) : Prop := ∀ i, ∀ x ∈ kidObjs (H.obj i), x ∉ LO

/-- rendering and child discovery raise for no object (for any limits, any depth) -/
def Benign (H : Heap) : Prop :=
  ∀ i, (∃ text, renderText (H.obj i) = .ok text) ∧ ∀ L pvid d, ∃ cs, childNodes L pvid (H.obj i) d = .ok cs

theorem listChildrenFrom_objs (m pvid depth : Nat) (xs : List ObjId) (t : Nat) :
    ∀ c ∈ listChildrenFrom m pvid depth xs t, c.obj ∈ xs := by
  induction xs generalizing t with
  | nil => simp [listChildrenFrom]
  | cons x xs ih =>
    intro c hc
    unfold listChildrenFrom at hc
    split at hc
    · simp at hc
    · rcases List.mem_cons.mp hc with rfl | hc
      · simp
      · exact List.mem_cons_of_mem _ (ih _ c hc)

theorem dictChildren_objs (f : String → String) (pvid depth : Nat) (items : List (Key × ObjId)) :
    ∀ c ∈ dictChildren f pvid depth items, c.obj ∈ items.map (·.2) := by
  intro c hc
  simp only [dictChildren, List.mem_map] at hc ⊢
  obtain ⟨kv, hkv, rfl⟩ := hc
  exact ⟨kv, hkv, rfl⟩

theorem branchChildren_objs (L : Limits) (pvid depth : Nat) (o : PyObj) (bs : List Branch) (cs : List Node)
    (h : branchChildren L pvid depth o bs = .ok cs) : ∀ c ∈ cs, c.obj ∈ kidObjs o := by
  induction bs with
  | nil => simp [branchChildren] at h; subst h; simp
  | cons b bs ih =>
    cases b with
    | dictExact =>
      simp only [branchChildren] at h
      split at h
      · simp only [Except.ok.injEq] at h; subst h
        intro c hc
        have := dictChildren_objs _ _ _ _ c hc
        simp only [kidObjs, List.mem_append]; exact Or.inl (Or.inl (Or.inl this))
      · exact ih h
    | listLike =>
      simp only [branchChildren] at h
      split at h
      · cases hs : o.seq with
        | ok xs =>
          simp only [hs, probeList, Except.ok.injEq] at h; subst h
          intro c hc
          have := listChildrenFrom_objs _ _ _ _ _ c hc
          simp only [kidObjs, List.mem_append, hs, probeObjs]; exact Or.inl (Or.inl (Or.inr this))
        | raises m => simp [hs, probeList] at h
      · exact ih h
    | isException =>
      simp only [branchChildren] at h
      cases he : o.isExc with
      | raises m => simp [he] at h
      | ok b =>
        cases b with
        | true =>
          simp only [he] at h
          cases hs : o.excArgs with
          | ok xs =>
            simp only [hs, probeList, Except.ok.injEq] at h; subst h
            intro c hc
            have := listChildrenFrom_objs _ _ _ _ _ c hc
            simp only [kidObjs, List.mem_append, hs, probeObjs]; exact Or.inl (Or.inr this)
          | raises m => simp [hs, probeList] at h
        | false => simp only [he] at h; exact ih h
    | hasDict =>
      simp only [branchChildren] at h
      cases he : o.hasDict with
      | raises m => simp [he] at h
      | ok b =>
        cases b with
        | true =>
          simp only [he] at h
          cases hs : o.attrs with
          | ok xs =>
            simp only [hs, probeList, Except.ok.injEq] at h; subst h
            intro c hc
            have := dictChildren_objs _ _ _ _ c hc
            simp only [kidObjs, List.mem_append, hs, probeItems]; exact Or.inr this
          | raises m => simp [hs, probeList] at h
        | false => simp only [he] at h; exact ih h

theorem childNodes_objs (L : Limits) (pvid : Nat) (o : PyObj) (d : Nat) (cs : List Node)
    (h : childNodes L pvid o d = .ok cs) : ∀ c ∈ cs, c.obj ∈ kidObjs o := by
  rcases childNodes_ok_cases h with rfl | ⟨_, hb⟩
  · simp
  · exact branchChildren_objs L pvid (d + 1) o childBranches cs hb

/-- closure invariant of one search started from cache `c0` and table `t0` -/
structure KInv (LO : List ObjId) (c0 : Cache) (t0 : List Entry) (s : BState) : Prop where
  nofail : s.failed = none
  qLO : ∀ n ∈ s.queue, n.parent ≠ none → n.obj ∉ LO
  refsLO : ∀ e ∈ s.table, ∀ r ∈ e.children, r.obj ∉ LO
  cov : ∀ p ∈ s.cache, p ∈ c0 ∨ p.2 ∈ s.table.map (·.vid)
  keep : ∀ v ∈ t0.map (·.vid), v ∈ s.table.map (·.vid)

theorem refsLO_attach {LO : List ObjId} {s : BState} (n : Node) (id : Nat)
    (hq : n.parent ≠ none → n.obj ∉ LO) (h : ∀ e ∈ s.table, ∀ r ∈ e.children, r.obj ∉ LO) :
    ∀ e ∈ (attach n.parent (mkRef n id) s).table, ∀ r ∈ e.children, r.obj ∉ LO := by
  intro e he r hr
  cases hp : n.parent with
  | none =>
    simp only [attach, hp] at he
    exact h e he r hr
  | some p =>
    simp only [attach, hp] at he
    obtain ⟨e0, he0, _, _, _, _, _, _, hch⟩ := mem_addChild he
    rcases hch with hch | hch
    · rw [hch] at hr; exact h e0 he0 r hr
    · rw [hch] at hr
      rcases List.mem_append.mp hr with hr | hr
      · exact h e0 he0 r hr
      · simp only [List.mem_singleton] at hr; subst hr
        exact hq (by simp [hp])

theorem step_kinv {H : Heap} {L : Limits} {LO : List ObjId} {c0 : Cache} {t0 : List Entry} (hB : Benign H)
    (hN : NoRef H LO) (s : BState) (h : KInv LO c0 t0 s) : KInv LO c0 t0 (step H L s) := by
  rcases step_cases H L s with hf | ⟨n, rest, _, hq, hc⟩
  · rw [step_final hf]; exact h
  · have hqm : ∀ x ∈ rest, x ∈ s.queue := fun x hx => by rw [hq]; exact List.mem_cons_of_mem _ hx
    have hn : n ∈ s.queue := by rw [hq]; exact List.mem_cons_self ..
    generalize step H L s = s' at hc ⊢
    have hrec : ∀ text cs, childNodes L (newId s.cache) (H.obj n.obj) n.depth = .ok cs →
        KInv LO c0 t0 { recState H L s n text with queue := rest ++ cs } := by
      intro text cs hk
      have hmeta := childNodes_meta L _ _ _ cs hk
      have hobjs := childNodes_objs L _ _ _ cs hk
      have hvids : (recState H L s n text).table.map (·.vid) = s.table.map (·.vid) ++ [newId s.cache] := by
        simp [recState, attach_vids, mkEntry]
      refine ⟨by simpa [recState] using h.nofail, ?_, ?_, ?_, ?_⟩
      · intro x hx hp
        rcases List.mem_append.mp hx with hx | hx
        · exact h.qLO x (hqm x hx) hp
        · exact hN n.obj x.obj (hobjs x hx)
      · show ∀ e ∈ (recState H L s n text).table, ∀ r ∈ e.children, r.obj ∉ LO
        unfold recState
        apply refsLO_attach n _ (h.qLO n hn)
        intro e he r hr
        rcases List.mem_append.mp he with he | he
        · exact h.refsLO e he r hr
        · simp only [List.mem_singleton] at he; subst he; simp [mkEntry] at hr
      · show ∀ p ∈ (recState H L s n text).cache, p ∈ c0 ∨ p.2 ∈ (recState H L s n text).table.map (·.vid)
        intro p hp
        rw [hvids]
        simp only [recState, attach_cache, List.mem_append, List.mem_singleton] at hp
        rcases hp with hp | rfl
        · rcases h.cov p hp with h1 | h1
          · exact Or.inl h1
          · exact Or.inr (List.mem_append_left _ h1)
        · exact Or.inr (by simp)
      · show ∀ v ∈ t0.map (·.vid), v ∈ (recState H L s n text).table.map (·.vid)
        intro v hv; rw [hvids]; exact List.mem_append_left _ (h.keep v hv)
    cases hc with
    | stop hb => exact ⟨h.nofail, h.qLO, h.refsLO, h.cov, h.keep⟩
    | hit hb id hl =>
      refine ⟨by simpa using h.nofail, fun x hx hp => h.qLO x (hqm x (by simpa using hx)) hp, ?_, ?_, ?_⟩
      · exact refsLO_attach (s := { s with queue := rest, popped := s.popped ++ [n] }) n id (h.qLO n hn) h.refsLO
      · intro p hp; simp only [attach_vids, attach_cache] at hp ⊢; exact h.cov p hp
      · intro v hv; simp only [attach_vids]; exact h.keep v hv
    | renderFails hb hl m hr => obtain ⟨text, ht⟩ := (hB n.obj).1; rw [ht] at hr; simp at hr
    | kidsFail hb hl text m hr hk => obtain ⟨cs, hcs⟩ := (hB n.obj).2 L (newId s.cache) n.depth; rw [hcs] at hk; simp at hk
    | record hb hl text cs hr hk => simpa [recState] using hrec text cs hk

theorem run_kinv {H : Heap} {L : Limits} {LO : List ObjId} {c0 : Cache} {t0 : List Entry} (hB : Benign H)
    (hN : NoRef H LO) (k : Nat) (s : BState) (h : KInv LO c0 t0 s) : KInv LO c0 t0 (run H L k s) :=
  run_inv (KInv LO c0 t0) (fun s hs => step_kinv hB hN s hs) k s h

/-- closure facts about the action's cache and table between searches -/
structure CInv (LO : List ObjId) (c : Cache) (t : List Entry) : Prop where
  refsLO : ∀ e ∈ t, ∀ r ∈ e.children, r.obj ∉ LO
  cov : ∀ p ∈ c, p.2 ∈ t.map (·.vid) ∨ p.1 ∈ LO

theorem bfsInit_kinv {L : Limits} {LO : List ObjId} (c : Cache) (t : List Entry) (name : String) (o : ObjId)
    (hr : ∀ e ∈ t, ∀ r ∈ e.children, r.obj ∉ LO) : KInv LO c t (bfsInit L c t name o) := by
  unfold bfsInit
  split
  · exact ⟨rfl, by simp, hr, fun p hp => Or.inl hp, fun v hv => hv⟩
  · exact ⟨rfl, by simp, hr, fun p hp => Or.inl hp, fun v hv => hv⟩

/-- the first step of a search within budget records its root, and an object once in the cache stays there -/
theorem step_lookup_mono {H : Heap} {L : Limits} (s : BState) (o : ObjId) (h : (lookupId s.cache o).isSome = true) :
    (lookupId (step H L s).cache o).isSome = true := by
  rcases step_cases H L s with hf | ⟨n, rest, _, hq, hc⟩
  · rw [step_final hf]; exact h
  · generalize step H L s = s' at hc ⊢
    cases hc with
    | stop hb => exact h
    | hit hb id hl => simpa using h
    | renderFails hb hl m hr => exact lookupId_isSome_append _ h
    | kidsFail hb hl text m hr hk => simpa using lookupId_isSome_append _ h
    | record hb hl text cs hr hk => simpa using lookupId_isSome_append _ h

theorem run_lookup_mono {H : Heap} {L : Limits} (k : Nat) (s : BState) (o : ObjId)
    (h : (lookupId s.cache o).isSome = true) : (lookupId (run H L k s).cache o).isSome = true :=
  run_inv (fun s => (lookupId s.cache o).isSome = true) (fun s hs => step_lookup_mono s o hs) k s h

theorem root_gets_id {H : Heap} {L : Limits} (c : Cache) (t : List Entry) (name : String) (o : ObjId)
    (hb : budgetOk L c = true) (hl : lookupId c o = none) :
    (lookupId (runToEnd H L (bfsInit L c t name o)).cache o).isSome = true := by
  unfold runToEnd fuelBound
  rw [Nat.add_comm, run_add]
  apply run_lookup_mono
  simp only [run]
  have hs : bfsInit L c t name o = ⟨[⟨name, none, o, 0, none⟩], c, t, [], false, none, [], []⟩ := by
    simp [bfsInit, hb]
  rw [hs]
  unfold step
  simp only [BState.final, Bool.or_false, Option.isSome_none, List.isEmpty_cons, Bool.false_eq_true, if_false]
  have hp : pop [(⟨name, none, o, 0, none⟩ : Node)] = some (⟨name, none, o, 0, none⟩, []) := by
    unfold pop; rw [queueEnd_front]; rfl
  simp only [hp, hb, Bool.not_true, Bool.false_eq_true, if_false, hl]
  cases renderText (H.obj o) with
  | error m => simp [lookupId_append_self _ hl]
  | ok text =>
    simp only
    cases childNodes L (newId c) (H.obj o) 0 with
    | error m => simp [lookupId_append_self _ hl]
    | ok cs => simp [lookupId_append_self _ hl]

/-- a search whose root ends without an id never started: the budget was already used up -/
theorem processVariable_vid_none {H : Heap} {L : Limits} (c : Cache) (t : List Entry) (name : String) (o : ObjId)
    (h : (processVariable H L c t name o).vid = none) :
    (processVariable H L c t name o).cache = c ∧ (processVariable H L c t name o).table = t := by
  unfold processVariable at h ⊢
  cases hl : lookupId c o with
  | some id => simp [hl] at h
  | none =>
    simp only [hl] at h ⊢
    cases hb : budgetOk L c with
    | true =>
      have := root_gets_id (H := H) c t name o hb hl
      rw [h] at this; simp at this
    | false =>
      have hs : bfsInit L c t name o = ⟨[], c, t, [], true, none, [], []⟩ := by simp [bfsInit, hb]
      have hfin : (bfsInit L c t name o).final = true := by rw [hs]; simp [BState.final]
      unfold runToEnd
      rw [run_final _ hfin, hs]
      exact ⟨rfl, rfl⟩

/-- facts about one `process_variable` call on a benign heap -/
structure PVClosed (LO : List ObjId) (c : Cache) (t : List Entry) (pv : PV) : Prop where
  nofail : pv.failed = none
  refsLO : ∀ e ∈ pv.table, ∀ r ∈ e.children, r.obj ∉ LO
  cov : ∀ p ∈ pv.cache, p ∈ c ∨ p.2 ∈ pv.table.map (·.vid)
  keep : ∀ v ∈ t.map (·.vid), v ∈ pv.table.map (·.vid)

theorem processVariable_closed {H : Heap} {L : Limits} {LO : List ObjId} (hB : Benign H) (hN : NoRef H LO)
    (c : Cache) (t : List Entry) (name : String) (o : ObjId) (hr : ∀ e ∈ t, ∀ r ∈ e.children, r.obj ∉ LO) :
    PVClosed LO c t (processVariable H L c t name o) := by
  unfold processVariable
  cases hl : lookupId c o with
  | some id => exact ⟨rfl, hr, fun p hp => Or.inl hp, fun v hv => hv⟩
  | none =>
    have hk := run_kinv (L := L) hB hN (fuelBound H L (bfsInit L c t name o)) _ (bfsInit_kinv (L := L) c t name o hr)
    exact ⟨hk.nofail, hk.refsLO, hk.cov, hk.keep⟩

theorem mem_removeEntry_vids {t : List Entry} {v x : Nat} (hx : x ∈ t.map (·.vid)) (hne : x ≠ v) :
    x ∈ (removeEntry t v).map (·.vid) := by
  simp only [List.mem_map, removeEntry, List.mem_filter] at hx ⊢
  obtain ⟨e, he, rfl⟩ := hx
  exact ⟨e, ⟨he, by simpa using hne⟩, rfl⟩

/-- the locals dicts of the frames whose variables are collected -/
def localsOf (fs : List FrameIn) : List ObjId := (fs.filter (·.collect)).map (·.locals)

theorem collectFrames_closed {H : Heap} {L : Limits} {LO : List ObjId} (hB : Benign H) (hN : NoRef H LO)
    (fs : List FrameIn) (hLO : ∀ f ∈ fs, f.collect = true → f.locals ∈ LO) {c : Cache} {t : List Entry}
    (ha : AInv L c t) (hc : CInv LO c t) :
    (collectFrames H L fs c t).failed = none ∧
    CInv LO (collectFrames H L fs c t).cache (collectFrames H L fs c t).table ∧
    ∀ vars ∈ (collectFrames H L fs c t).frames, ∀ x ∈ vars, x.obj ∉ LO := by
  induction fs generalizing c t with
  | nil => exact ⟨rfl, hc, by simp [collectFrames]⟩
  | cons f fs ih =>
    have hLO' : ∀ g ∈ fs, g.collect = true → g.locals ∈ LO := fun g hg => hLO g (List.mem_cons_of_mem _ hg)
    simp only [collectFrames]
    split
    · obtain ⟨h1, h2, h3⟩ := ih hLO' ha hc
      refine ⟨h1, h2, ?_⟩
      intro vars hv x hx
      simp only [List.mem_cons] at hv
      rcases hv with rfl | hv
      · simp at hx
      · exact h3 vars hv x hx
    · rename_i hcoll
      have hcoll' : f.collect = true := by simpa using hcoll
      have pf := processVariable_facts H ha localsName f.locals
      have pc := processVariable_closed (L := L) hB hN c t localsName f.locals hc.refsLO
      rw [pc.nofail]
      simp only
      have hu := pf.inv.unwrap (processVariable H L c t localsName f.locals).vid
      -- closure facts of the table after the unwrap
      have hcu : CInv LO (processVariable H L c t localsName f.locals).cache
          (Collector.unwrap (processVariable H L c t localsName f.locals).table
            (processVariable H L c t localsName f.locals).vid).2 ∧
          ∀ x ∈ (Collector.unwrap (processVariable H L c t localsName f.locals).table
            (processVariable H L c t localsName f.locals).vid).1, x.obj ∉ LO := by
        have hcov0 : ∀ p ∈ (processVariable H L c t localsName f.locals).cache,
            p.2 ∈ (processVariable H L c t localsName f.locals).table.map (·.vid) ∨ p.1 ∈ LO := by
          intro p hp
          rcases pc.cov p hp with h1 | h1
          · rcases hc.cov p h1 with h2 | h2
            · exact Or.inl (pc.keep _ h2)
            · exact Or.inr h2
          · exact Or.inl h1
        unfold Collector.unwrap
        cases hv : (processVariable H L c t localsName f.locals).vid with
        | none => exact ⟨⟨pc.refsLO, hcov0⟩, by simp⟩
        | some v =>
          simp only
          cases hfe : findEntry (processVariable H L c t localsName f.locals).table v with
          | none => exact ⟨⟨pc.refsLO, hcov0⟩, by simp⟩
          | some e =>
            simp only
            refine ⟨⟨fun e' he' => pc.refsLO e' (List.mem_filter.mp he').1, ?_⟩,
              fun x hx => pc.refsLO e (findEntry_mem hfe).1 x hx⟩
            intro p hp
            by_cases hpv : p.2 = v
            · right
              have hm := pf.vid v hv
              have hp' : (p.1, v) ∈ (processVariable H L c t localsName f.locals).cache := by
                rw [← hpv]; exact hp
              have : p.1 = f.locals := pf.inv.cok.obj_inj hp' hm
              rw [this]; exact hLO f (List.mem_cons_self ..) hcoll'
            · rcases hcov0 p hp with h1 | h1
              · exact Or.inl (mem_removeEntry_vids h1 hpv)
              · exact Or.inr h1
      obtain ⟨h1, h2, h3⟩ := ih hLO' hu.1 hcu.1
      refine ⟨h1, h2, ?_⟩
      intro vars hv x hx
      simp only [List.mem_cons] at hv
      rcases hv with rfl | hv
      · exact hcu.2 x hx
      · exact h3 vars hv x hx

theorem collectWatches_closed {H : Heap} {L : Limits} {LO : List ObjId} (hB : Benign H) (hN : NoRef H LO)
    (ws : List WatchIn) {c : Cache} {t : List Entry} (hc : CInv LO c t) :
    (collectWatches H L ws c t).failed = none ∧
    CInv LO (collectWatches H L ws c t).cache (collectWatches H L ws c t).table := by
  induction ws generalizing c t with
  | nil => exact ⟨rfl, hc⟩
  | cons w ws ih =>
    have pc := processVariable_closed (L := L) hB hN c [] w.expr w.value (by simp)
    have hmerge : CInv LO (processVariable H L c [] w.expr w.value).cache
        (t ++ (processVariable H L c [] w.expr w.value).table) := by
      refine ⟨?_, ?_⟩
      · intro e he r hr
        rcases List.mem_append.mp he with he | he
        · exact hc.refsLO e he r hr
        · exact pc.refsLO e he r hr
      · intro p hp
        simp only [List.map_append, List.mem_append]
        rcases pc.cov p hp with h1 | h1
        · rcases hc.cov p h1 with h2 | h2
          · exact Or.inl (Or.inl h2)
          · exact Or.inr h2
        · exact Or.inl (Or.inr h1)
    simp only [collectWatches]
    rw [pc.nofail]
    split
    · simp only
      split
      · rename_i hvn _
        have := processVariable_vid_none (H := H) (L := L) c [] w.expr w.value hvn
        rw [this.1]
        exact ih hc
      · exact ih hmerge
    · simp only
      split
      · rename_i hvn _
        have := processVariable_vid_none (H := H) (L := L) c [] w.expr w.value hvn
        rw [this.1]
        exact ih hc
      · exact ih hmerge

end Collector
