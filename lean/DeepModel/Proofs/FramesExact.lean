/-
  Proofs/FramesExact — when the search of the paused frame's locals runs to its end (work list empty, budget not
  reached, nothing raised), its table is closed and exact: every entry lists all children of its kind, every
  reference resolves to the entry of the referenced object, entries are unique per id, and the entry of the locals
  dict is the one recorded for the root at depth 0 (C02: top_vars_exact, complete).
-/
import DeepModel.Proofs.FramesCollect
import DeepModel.Proofs.FramesEntries

namespace Frames
open Heap Collector FrameBase Extracted.Frames Extracted.Collector

theorem lookupId_append_some (c : Cache) (o : ObjId) (p : ObjId × Nat) (v : Nat) (h : lookupId c o = some v) :
    lookupId (c ++ [p]) o = some v := by
  induction c with
  | nil => simp [lookupId] at h
  | cons a c ih =>
    obtain ⟨o', id⟩ := a
    simp only [List.cons_append, lookupId] at h ⊢
    by_cases ho : o' = o
    · simpa [ho] using h
    · simp only [ho, if_false] at h ⊢
      exact ih h

theorem lookupId_append_none (c : Cache) (o o' : ObjId) (id : Nat) (h : lookupId c o = none) :
    lookupId (c ++ [(o', id)]) o = if o' = o then some id else none := by
  induction c with
  | nil => simp [lookupId]
  | cons a c ih =>
    obtain ⟨o'', id'⟩ := a
    simp only [List.cons_append, lookupId] at h ⊢
    by_cases ho : o'' = o
    · simp [ho] at h
    · simp only [ho, if_false] at h ⊢
      exact ih h

/-- identity and closure invariant of one search whose root object is `l0` -/
structure XInv (H : Heap) (L : Limits) (l0 : ObjId) (s : BState) : Prop where
  vids : ∀ e ∈ s.table, e.vid ≤ s.cache.length
  inj : ∀ a ∈ s.table, ∀ b ∈ s.table, a.vid = b.vid → a = b
  cacheTable : s.failed = none → ∀ o v, lookupId s.cache o = some v → ∃ e ∈ s.table, e.vid = v ∧ e.obj = o
  refs : ∀ e ∈ s.table, ∀ c ∈ e.children, lookupId s.cache c.obj = some c.vid
  roots : ∀ c ∈ s.rootIds, lookupId s.cache c.obj = some c.vid
  root0 : ∀ e ∈ s.table, e.obj = l0 → e.depth = 0
  rootNode : lookupId s.cache l0 = none → s.queue ≠ [] ∧ ∀ n ∈ s.queue, n.obj = l0 ∧ n.depth = 0

theorem addChild_mem_iff {p : Nat} {c : VarId} {t : List Entry} {e' : Entry} :
    e' ∈ addChild p c t ↔ ∃ e ∈ t, e' = if e.vid = p then { e with children := e.children ++ [c] } else e := by
  simp only [addChild, List.mem_map]
  constructor
  · rintro ⟨e, he, rfl⟩; exact ⟨e, he, rfl⟩
  · rintro ⟨e, he, rfl⟩; exact ⟨e, he, rfl⟩

/-- facts about the table after attaching one reference whose target is in the cache -/
theorem attach_xinv {c : Cache} (parent : Option Nat) (r : VarId) (s : BState)
    (hr : lookupId c r.obj = some r.vid)
    (hinj : ∀ a ∈ s.table, ∀ b ∈ s.table, a.vid = b.vid → a = b)
    (hrefs : ∀ e ∈ s.table, ∀ k ∈ e.children, lookupId c k.obj = some k.vid)
    (hroots : ∀ k ∈ s.rootIds, lookupId c k.obj = some k.vid) :
    (∀ a ∈ (attach parent r s).table, ∀ b ∈ (attach parent r s).table, a.vid = b.vid → a = b) ∧
    (∀ e ∈ (attach parent r s).table, ∀ k ∈ e.children, lookupId c k.obj = some k.vid) ∧
    (∀ k ∈ (attach parent r s).rootIds, lookupId c k.obj = some k.vid) ∧
    (∀ e' ∈ (attach parent r s).table, ∃ e ∈ s.table, e.vid = e'.vid ∧ e.obj = e'.obj ∧ e.depth = e'.depth) ∧
    (∀ e ∈ s.table, ∃ e' ∈ (attach parent r s).table, e.vid = e'.vid ∧ e.obj = e'.obj) := by
  cases parent with
  | none =>
    simp only [attach]
    refine ⟨hinj, hrefs, ?_, fun e' he' => ⟨e', he', rfl, rfl, rfl⟩, fun e he => ⟨e, he, rfl, rfl⟩⟩
    intro k hk
    rcases List.mem_append.mp hk with hk | hk
    · exact hroots k hk
    · simp only [List.mem_singleton] at hk; subst hk; exact hr
  | some p =>
    simp only [attach]
    refine ⟨?_, ?_, hroots, ?_, ?_⟩
    · intro a ha b hb hab
      obtain ⟨a0, ha0, rfl⟩ := addChild_mem_iff.mp ha
      obtain ⟨b0, hb0, rfl⟩ := addChild_mem_iff.mp hb
      have : a0.vid = b0.vid := by
        have h1 : (if a0.vid = p then { a0 with children := a0.children ++ [r] } else a0).vid = a0.vid := by
          split <;> rfl
        have h2 : (if b0.vid = p then { b0 with children := b0.children ++ [r] } else b0).vid = b0.vid := by
          split <;> rfl
        rw [h1, h2] at hab; exact hab
      rw [hinj a0 ha0 b0 hb0 this]
    · intro e he k hk
      obtain ⟨e0, he0, rfl⟩ := addChild_mem_iff.mp he
      by_cases hv : e0.vid = p
      · simp only [hv, if_true] at hk
        rcases List.mem_append.mp hk with hk | hk
        · exact hrefs e0 he0 k hk
        · simp only [List.mem_singleton] at hk; subst hk; exact hr
      · simp only [hv, if_false] at hk
        exact hrefs e0 he0 k hk
    · intro e' he'
      obtain ⟨e0, he0, rfl⟩ := addChild_mem_iff.mp he'
      exact ⟨e0, he0, by split <;> rfl, by split <;> rfl, by split <;> rfl⟩
    · intro e he
      exact ⟨_, addChild_mem_iff.mpr ⟨e, he, rfl⟩, by split <;> rfl, by split <;> rfl⟩

theorem step_xinv {H : Heap} {L : Limits} {l0 : ObjId} (s : BState) (h : XInv H L l0 s) :
    XInv H L l0 (step H L s) := by
  unfold step
  split
  · exact h
  · split
    · exact h
    · rename_i n rest hpop
      have hq := pop_front hpop
      have hrestq : ∀ m ∈ rest, m ∈ s.queue := fun m hm => by rw [hq]; exact List.mem_cons_of_mem _ hm
      split
      · exact ⟨h.vids, h.inj, h.cacheTable, h.refs, h.roots, h.root0, h.rootNode⟩
      · split
        · -- cache hit
          rename_i id hid
          have hf := attach_fields n.parent (mkRef n id) { s with queue := rest, popped := s.popped ++ [n] }
          obtain ⟨a1, a2, a3, a4, a5⟩ := attach_xinv (c := s.cache) n.parent (mkRef n id)
            { s with queue := rest, popped := s.popped ++ [n] } hid h.inj h.refs h.roots
          refine ⟨?_, a1, ?_, ?_, ?_, ?_, ?_⟩
          · rw [hf.2.1]; exact attach_vids _ _ _ _ h.vids
          · rw [hf.2.2.1, hf.2.1]
            intro hfail o v hov
            obtain ⟨e, he, h1, h2⟩ := h.cacheTable hfail o v hov
            obtain ⟨e', he', h3, h4⟩ := a5 e he
            exact ⟨e', he', by rw [← h3, h1], by rw [← h4, h2]⟩
          · rw [hf.2.1]; exact a2
          · rw [hf.2.1]; exact a3
          · intro e' he' ho
            obtain ⟨e, he, _, h2, h3⟩ := a4 e' he'
            rw [← h3]; exact h.root0 e he (by rw [h2, ho])
          · rw [hf.2.1, hf.1]
            intro hl
            have := ((h.rootNode hl).2 n (by rw [hq]; exact List.mem_cons_self ..)).1
            rw [this, hl] at hid
            simp at hid
        · rename_i hnone
          have hcontra : lookupId (s.cache ++ [(n.obj, newId s.cache)]) l0 = none → False := by
            intro hl
            have hl0 : lookupId s.cache l0 = none := by
              cases hh : lookupId s.cache l0 with
              | none => rfl
              | some v => rw [lookupId_append_some _ _ _ _ hh] at hl; simp at hl
            have := ((h.rootNode hl0).2 n (by rw [hq]; exact List.mem_cons_self ..)).1
            rw [lookupId_append_none _ _ _ _ hl0, this] at hl
            simp at hl
          dsimp only
          split
          · -- rendering failed
            refine ⟨?_, h.inj, ?_, ?_, ?_, h.root0, ?_⟩
            · intro e he; have := h.vids e he; simp only [List.length_append, List.length_singleton]; omega
            · intro hfail; simp at hfail
            · intro e he k hk; exact lookupId_append_some _ _ _ _ (h.refs e he k hk)
            · intro k hk; exact lookupId_append_some _ _ _ _ (h.roots k hk)
            · intro hl; exact absurd hl (fun hh => hcontra hh)
          · rename_i text htext
            have hid := newId_eq s.cache
            have hnew : lookupId (s.cache ++ [(n.obj, newId s.cache)]) n.obj = some (newId s.cache) := by
              rw [lookupId_append_none _ _ _ _ hnone]; simp
            -- state with the new entry, before attaching
            have hinj0 : ∀ a ∈ s.table ++ [mkEntry L (newId s.cache) (H.obj n.obj) text n],
                ∀ b ∈ s.table ++ [mkEntry L (newId s.cache) (H.obj n.obj) text n], a.vid = b.vid → a = b := by
              intro a ha b hb hab
              rcases List.mem_append.mp ha with ha | ha <;> rcases List.mem_append.mp hb with hb | hb
              · exact h.inj a ha b hb hab
              · simp only [List.mem_singleton] at hb; subst hb
                have := h.vids a ha; simp only [mkEntry] at hab; omega
              · simp only [List.mem_singleton] at ha; subst ha
                have := h.vids b hb; simp only [mkEntry] at hab; omega
              · simp only [List.mem_singleton] at ha hb; rw [ha, hb]
            have hrefs0 : ∀ e ∈ s.table ++ [mkEntry L (newId s.cache) (H.obj n.obj) text n], ∀ k ∈ e.children,
                lookupId (s.cache ++ [(n.obj, newId s.cache)]) k.obj = some k.vid := by
              intro e he k hk
              rcases List.mem_append.mp he with he | he
              · exact lookupId_append_some _ _ _ _ (h.refs e he k hk)
              · simp only [List.mem_singleton] at he; subst he; simp [mkEntry] at hk
            have hroots0 : ∀ k ∈ s.rootIds, lookupId (s.cache ++ [(n.obj, newId s.cache)]) k.obj = some k.vid :=
              fun k hk => lookupId_append_some _ _ _ _ (h.roots k hk)
            obtain ⟨a1, a2, a3, a4, a5⟩ := attach_xinv (c := s.cache ++ [(n.obj, newId s.cache)]) n.parent
              (mkRef n (newId s.cache))
              { s with cache := s.cache ++ [(n.obj, newId s.cache)],
                       table := s.table ++ [mkEntry L (newId s.cache) (H.obj n.obj) text n],
                       popped := s.popped ++ [n], recorded := s.recorded ++ [(n, newId s.cache)] }
              hnew hinj0 hrefs0 hroots0
            have hc := (attach_fields n.parent (mkRef n (newId s.cache))
              { s with cache := s.cache ++ [(n.obj, newId s.cache)],
                       table := s.table ++ [mkEntry L (newId s.cache) (H.obj n.obj) text n],
                       popped := s.popped ++ [n], recorded := s.recorded ++ [(n, newId s.cache)] })
            have hvids0 : ∀ e ∈ s.table ++ [mkEntry L (newId s.cache) (H.obj n.obj) text n], e.vid ≤ s.cache.length + 1 := by
              intro e he
              rcases List.mem_append.mp he with he | he
              · have := h.vids e he; omega
              · simp only [List.mem_singleton] at he; subst he; simp [mkEntry, hid]
            have hvids : ∀ e ∈ (attach n.parent (mkRef n (newId s.cache))
                { s with cache := s.cache ++ [(n.obj, newId s.cache)],
                         table := s.table ++ [mkEntry L (newId s.cache) (H.obj n.obj) text n],
                         popped := s.popped ++ [n], recorded := s.recorded ++ [(n, newId s.cache)] }).table,
                e.vid ≤ (s.cache ++ [(n.obj, newId s.cache)]).length := by
              intro e he
              have := attach_vids n.parent (mkRef n (newId s.cache)) _ (s.cache.length + 1) hvids0 e he
              simpa using this
            have hcacheTable : s.failed = none → ∀ o v, lookupId (s.cache ++ [(n.obj, newId s.cache)]) o = some v →
                ∃ e ∈ (attach n.parent (mkRef n (newId s.cache))
                  { s with cache := s.cache ++ [(n.obj, newId s.cache)],
                           table := s.table ++ [mkEntry L (newId s.cache) (H.obj n.obj) text n],
                           popped := s.popped ++ [n], recorded := s.recorded ++ [(n, newId s.cache)] }).table,
                  e.vid = v ∧ e.obj = o := by
              intro hfail o v hov
              have : ∃ e ∈ s.table ++ [mkEntry L (newId s.cache) (H.obj n.obj) text n], e.vid = v ∧ e.obj = o := by
                cases hl : lookupId s.cache o with
                | some v' =>
                  rw [lookupId_append_some _ _ _ _ hl] at hov
                  obtain ⟨e, he, h1, h2⟩ := h.cacheTable hfail o v' hl
                  exact ⟨e, List.mem_append_left _ he, by rw [h1]; exact Option.some.inj hov, h2⟩
                | none =>
                  rw [lookupId_append_none _ _ _ _ hl] at hov
                  by_cases ho : n.obj = o
                  · simp only [ho, if_true] at hov
                    exact ⟨_, List.mem_append_right _ (List.mem_singleton.mpr rfl),
                      by simpa [mkEntry] using Option.some.inj hov, by simp [mkEntry, ho]⟩
                  · simp [ho] at hov
              obtain ⟨e, he, h1, h2⟩ := this
              obtain ⟨e', he', h3, h4⟩ := a5 e he
              exact ⟨e', he', by rw [← h3, h1], by rw [← h4, h2]⟩
            have hroot0 : ∀ e ∈ (attach n.parent (mkRef n (newId s.cache))
                { s with cache := s.cache ++ [(n.obj, newId s.cache)],
                         table := s.table ++ [mkEntry L (newId s.cache) (H.obj n.obj) text n],
                         popped := s.popped ++ [n], recorded := s.recorded ++ [(n, newId s.cache)] }).table,
                e.obj = l0 → e.depth = 0 := by
              intro e' he' ho
              obtain ⟨e, he, _, h2, h3⟩ := a4 e' he'
              rw [← h3]
              rcases List.mem_append.mp he with he | he
              · exact h.root0 e he (by rw [h2, ho])
              · simp only [List.mem_singleton] at he; subst he
                simp only [mkEntry] at h2 ⊢
                have hl0 : lookupId s.cache l0 = none := by rw [← ho, ← h2]; exact hnone
                exact ((h.rootNode hl0).2 n (by rw [hq]; exact List.mem_cons_self ..)).2
            split
            · -- looking for children failed
              refine ⟨?_, a1, ?_, ?_, ?_, hroot0, ?_⟩
              · simp only [hc.2.1]; exact hvids
              · intro hfail; simp at hfail
              · simp only [hc.2.1]; exact a2
              · simp only [hc.2.1]; exact a3
              · simp only [hc.2.1]
                intro hl; exact absurd hl (fun hh => hcontra hh)
            · rename_i cs hcs
              refine ⟨?_, a1, ?_, ?_, ?_, hroot0, ?_⟩
              · simp only [hc.2.1]; exact hvids
              · simp only [hc.2.2.1, hc.2.1]; exact hcacheTable
              · simp only [hc.2.1]; exact a2
              · simp only [hc.2.1]; exact a3
              · simp only [hc.2.1]
                intro hl; exact absurd hl (fun hh => hcontra hh)

theorem run_xinv {H : Heap} {L : Limits} {l0 : ObjId} (k : Nat) (s : BState) (h : XInv H L l0 s) :
    XInv H L l0 (run H L k s) := by
  induction k generalizing s with
  | zero => exact h
  | succ k ih => exact ih _ (step_xinv s h)

theorem budgetOk_nil (L : Limits) : budgetOk L [] = true := by
  simp [budgetOk, checkVarCount]

theorem bfsInit_xinv (H : Heap) (L : Limits) (name : String) (l0 : ObjId) :
    XInv H L l0 (bfsInit L [] [] name l0) := by
  unfold bfsInit
  simp only [budgetOk_nil, if_true]
  refine ⟨by simp, by simp, ?_, by simp, by simp, by simp, ?_⟩
  · intro _ o v hov; simp [lookupId] at hov
  · intro _; simp

/-- the search of the paused frame's locals dict `l0` -/
def search0 (H : Heap) (L : Limits) (l0 : ObjId) : BState := runToEnd H L (bfsInit L [] [] localsName l0)

/-- the search ran to its end: work list empty, variable budget not reached, nothing raised -/
def NoCut0 (H : Heap) (L : Limits) (l0 : ObjId) : Prop :=
  (search0 H L l0).queue = [] ∧ (search0 H L l0).stopped = false ∧ (search0 H L l0).failed = none

instance (H : Heap) (L : Limits) (l0 : ObjId) : Decidable (NoCut0 H L l0) := by
  unfold NoCut0; exact inferInstance

theorem findEntry_some {t : List Entry} {v : Nat} {e : Entry} (h : findEntry t v = some e) : e ∈ t ∧ e.vid = v := by
  induction t with
  | nil => simp [findEntry] at h
  | cons a t ih =>
    simp only [findEntry] at h
    by_cases hv : a.vid = v
    · simp only [hv, if_true, Option.some.injEq] at h; subst h; exact ⟨List.mem_cons_self .., hv⟩
    · simp only [hv, if_false] at h
      exact ⟨List.mem_cons_of_mem _ (ih h).1, (ih h).2⟩

theorem findEntry_none {t : List Entry} {v : Nat} (h : findEntry t v = none) : ∀ e ∈ t, e.vid ≠ v := by
  induction t with
  | nil => simp
  | cons a t ih =>
    simp only [findEntry] at h
    by_cases hv : a.vid = v
    · simp [hv] at h
    · simp only [hv, if_false] at h
      intro e he
      rcases List.mem_cons.mp he with rfl | he
      · exact hv
      · exact ih h e he

/-- every entry lists exactly the children of its kind (as name / original name / object), in order -/
theorem search0_exact {H : Heap} {L : Limits} {l0 : ObjId} (h : NoCut0 H L l0) :
    ∀ e ∈ (search0 H L l0).table, e.children.map refKid = Spec.kidsAt L (H.obj e.obj) e.depth := by
  intro e he
  have hs : SInv true H L (search0 H L l0) := run_inv _ _ (bfsInit_inv _ _ (tinv_nil _ _ _ _))
  have ht := sinv_tinv hs h.2.2 (fun _ => h.1)
  obtain ⟨cs, lost, h1, h2, h3⟩ := ht.kids e he
  rw [h3 rfl] at h2
  rw [← (childNodes_spec L e.vid (H.obj e.obj) e.depth cs h1).1, ← h2]
  simp [pending]

/-- every reference resolves to the entry recorded for the referenced object -/
theorem search0_closed {H : Heap} {L : Limits} {l0 : ObjId} (h : NoCut0 H L l0) :
    ∀ e ∈ (search0 H L l0).table, ∀ c ∈ e.children,
      ∃ e' ∈ (search0 H L l0).table, e'.vid = c.vid ∧ e'.obj = c.obj := by
  intro e he c hc
  have hx : XInv H L l0 (search0 H L l0) := run_xinv _ _ (bfsInit_xinv H L localsName l0)
  exact hx.cacheTable h.2.2 c.obj c.vid (hx.refs e he c hc)

/-- ids are unique -/
theorem search0_inj {H : Heap} {L : Limits} {l0 : ObjId} :
    ∀ a ∈ (search0 H L l0).table, ∀ b ∈ (search0 H L l0).table, a.vid = b.vid → a = b :=
  (run_xinv _ _ (bfsInit_xinv H L localsName l0)).inj

/-- the locals dict got an id; the entry under that id is the one recorded for it, at depth 0 -/
theorem search0_locals {H : Heap} {L : Limits} {l0 : ObjId} (h : NoCut0 H L l0) :
    ∃ v e1, lookupId (search0 H L l0).cache l0 = some v ∧ findEntry (search0 H L l0).table v = some e1 ∧
      e1 ∈ (search0 H L l0).table ∧ e1.vid = v ∧ e1.obj = l0 ∧ e1.depth = 0 := by
  have hx : XInv H L l0 (search0 H L l0) := run_xinv _ _ (bfsInit_xinv H L localsName l0)
  cases hl : lookupId (search0 H L l0).cache l0 with
  | none => exact absurd h.1 (hx.rootNode hl).1
  | some v =>
    obtain ⟨e, he, hv, ho⟩ := hx.cacheTable h.2.2 l0 v hl
    cases hf : findEntry (search0 H L l0).table v with
    | none => exact absurd hv (findEntry_none hf e he)
    | some e1 =>
      obtain ⟨h1, h2⟩ := findEntry_some hf
      have : e1 = e := hx.inj e1 h1 e he (by rw [h2, hv])
      have ho1 : e1.obj = l0 := by rw [this]; exact ho
      exact ⟨v, e1, by first | exact hl | rfl, by first | exact hf | rfl, h1, h2, ho1, hx.root0 e1 h1 ho1⟩

end Frames
