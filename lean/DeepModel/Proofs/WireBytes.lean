/-
  Proofs/WireBytes — the wire format round trips (C08 "survives serialisation"), layer by layer:
  varint, little-endian fixed width, records, UTF-8, and every typed emitter against its reader.
-/
import DeepModel.Model.WireBytes

set_option linter.unusedSimpArgs false
set_option linter.unusedVariables false

namespace Wire

/-! ### varint -/

theorem decVarint_encF : ∀ (f n : Nat) (rest : Bytes), n ≤ f →
    decVarint (encVarintF f n ++ rest) = some (n, rest) := by
  intro f
  induction f with
  | zero =>
    intro n rest h
    have : n = 0 := by omega
    subst this
    simp [encVarintF, decVarint]
  | succ f ih =>
    intro n rest h
    simp only [encVarintF]
    split
    · rename_i h1
      simp [decVarint, h1]
    · rename_i h1
      have h2 : ¬ (n % 128 + 128 < 128) := by omega
      have h3 : n % 128 + 128 < 256 := by omega
      have := ih (n / 128) rest (by omega)
      simp only [List.cons_append, decVarint, h2, h3, if_true, if_false, this]
      congr 2
      omega

theorem decVarint_enc (n : Nat) (rest : Bytes) : decVarint (encVarint n ++ rest) = some (n, rest) :=
  decVarint_encF n n rest (Nat.le_refl n)

theorem encVarint_ne_nil (n : Nat) : encVarint n ≠ [] := by
  unfold encVarint
  cases n with
  | zero => simp [encVarintF]
  | succ k => simp only [encVarintF]; split <;> simp

/-! ### fixed width -/

theorem leBytes_length (k : Nat) : ∀ n, (leBytes k n).length = k := by
  induction k with
  | zero => intro n; rfl
  | succ k ih => intro n; simp [leBytes, ih]

theorem fromLE_leBytes (k : Nat) : ∀ n, n < 256 ^ k → fromLE (leBytes k n) = n := by
  induction k with
  | zero => intro n h; simp at h; simp [leBytes, fromLE, h]
  | succ k ih =>
    intro n h
    have : n / 256 < 256 ^ k := by
      rw [Nat.pow_succ] at h
      exact Nat.div_lt_of_lt_mul (by rw [Nat.mul_comm]; exact h)
    simp only [leBytes, fromLE, ih _ this]
    omega

theorem takeN_append (a rest : Bytes) : takeN a.length (a ++ rest) = some (a, rest) := by
  simp [takeN]

/-! ### records -/

theorem decPayload_enc (p : Payload) (h : p.ok = true) (rest : Bytes) :
    decPayload p.wt (encPayload p ++ rest) = some (p, rest) := by
  cases p with
  | varint n => simp [Payload.wt, encPayload, decPayload, decVarint_enc]
  | fixed64 n =>
    simp only [Payload.ok, decide_eq_true_eq] at h
    have hl := leBytes_length 8 n
    have := takeN_append (leBytes 8 n) rest
    rw [hl] at this
    simp [Payload.wt, encPayload, decPayload, this, fromLE_leBytes 8 n (by simpa using h)]
  | len b =>
    simp [Payload.wt, encPayload, decPayload, decVarint_enc, takeN_append]
  | fixed32 n =>
    simp only [Payload.ok, decide_eq_true_eq] at h
    have hl := leBytes_length 4 n
    have := takeN_append (leBytes 4 n) rest
    rw [hl] at this
    simp [Payload.wt, encPayload, decPayload, this, fromLE_leBytes 4 n (by simpa using h)]

theorem wt_lt (p : Payload) : p.wt < 8 := by cases p <;> simp [Payload.wt]

theorem decRec_enc (r : Rec) (h : r.ok = true) (rest : Bytes) : decRec (encRec r ++ rest) = some (r, rest) := by
  obtain ⟨k, p⟩ := r
  simp only [Rec.ok, Bool.and_eq_true, decide_eq_true_eq] at h
  have hw := wt_lt p
  have h1 : (k * 8 + p.wt) / 8 = k := by omega
  have h2 : (k * 8 + p.wt) % 8 = p.wt := by omega
  have h3 : ¬ (k = 0) := by omega
  simp [decRec, encRec, List.append_assoc, decVarint_enc, h1, h2, h3, decPayload_enc p h.2]

theorem encRec_ne_nil (r : Rec) : encRec r ≠ [] := by
  simp [encRec, encVarint_ne_nil]

theorem encRecs_length (rs : List Rec) : rs.length ≤ (encRecs rs).length := by
  induction rs with
  | nil => simp [encRecs]
  | cons r rs ih =>
    have : 0 < (encRec r).length := List.length_pos_iff.mpr (encRec_ne_nil r)
    simp only [encRecs, List.length_append, List.length_cons]
    omega

theorem decRecsF_enc : ∀ (rs : List Rec), (∀ r ∈ rs, r.ok = true) → ∀ f, rs.length ≤ f →
    decRecsF f (encRecs rs) = some rs
  | [], _, f, _ => by cases f <;> simp [encRecs, decRecsF]
  | r :: rs, h, f, hf => by
    cases f with
    | zero => simp at hf
    | succ f =>
      have hr := h r (by simp)
      have ih := decRecsF_enc rs (fun x hx => h x (by simp [hx])) f (by simpa using hf)
      have hne := encRec_ne_nil r
      simp only [encRecs]
      cases hb : encRec r ++ encRecs rs with
      | nil => simp at hb; exact absurd hb.1 hne
      | cons b bs =>
        simp only [decRecsF]
        rw [← hb, decRec_enc r hr]
        simp [ih]

/-- **layer 1**: every stream of well-formed records is read back exactly -/
theorem decRecs_enc (rs : List Rec) (h : ∀ r ∈ rs, r.ok = true) : decRecs (encRecs rs) = some rs :=
  decRecsF_enc rs h _ (encRecs_length rs)

def recsOk (rs : List Rec) : Bool := rs.all Rec.ok

theorem decRecs_enc' (rs : List Rec) (h : recsOk rs = true) : decRecs (encRecs rs) = some rs :=
  decRecs_enc rs (by simpa [recsOk] using h)

/-! ### UTF-8 -/

theorem utf8Dec_cp (c : Nat) (h : cpOk c = true) (bs : Bytes) :
    utf8Dec (encCp c ++ bs) = (utf8Dec bs).map (c :: ·) := by
  simp only [cpOk, Bool.or_eq_true, Bool.and_eq_true, decide_eq_true_eq] at h
  unfold encCp
  split
  · rename_i h1
    rw [List.cons_append, List.nil_append, utf8Dec.eq_def]
    simp [h1]
  · split
    · rename_i h1 h2
      have a1 : ¬ (0xC0 + c / 64 < 0x80) := by omega
      have a2 : ¬ (0xC0 + c / 64 < 0xC2) := by omega
      have a3 : 0xC0 + c / 64 < 0xE0 := by omega
      have a4 : isCont (0x80 + c % 64) = true := by simp [isCont]; omega
      have a5 : (0xC0 + c / 64 - 0xC0) * 64 + (0x80 + c % 64 - 0x80) = c := by omega
      simp only [List.cons_append, List.nil_append, utf8Dec, a1, a2, a3, a4, a5, if_true, if_false]
    · split
      · rename_i h1 h2 h3
        have a1 : ¬ (0xE0 + c / 4096 < 0x80) := by omega
        have a2 : ¬ (0xE0 + c / 4096 < 0xC2) := by omega
        have a3 : ¬ (0xE0 + c / 4096 < 0xE0) := by omega
        have a4 : 0xE0 + c / 4096 < 0xF0 := by omega
        have a5 : isCont (0x80 + c / 64 % 64) = true := by simp [isCont]; omega
        have a6 : isCont (0x80 + c % 64) = true := by simp [isCont]; omega
        have a7 : (0xE0 + c / 4096 - 0xE0) * 4096 + (0x80 + c / 64 % 64 - 0x80) * 64 + (0x80 + c % 64 - 0x80) = c := by
          omega
        have a8 : 0x800 ≤ c := by omega
        have a9 : ¬ (0xD800 ≤ c ∧ c ≤ 0xDFFF) := by omega
        simp only [List.cons_append, List.nil_append, utf8Dec, a1, a2, a3, a4, a5, a6, a7, if_true, if_false,
          Bool.true_and, Bool.and_true]
        simp [a8, a9]
      · rename_i h1 h2 h3
        have a1 : ¬ (0xF0 + c / 262144 < 0x80) := by omega
        have a2 : ¬ (0xF0 + c / 262144 < 0xC2) := by omega
        have a3 : ¬ (0xF0 + c / 262144 < 0xE0) := by omega
        have a4 : ¬ (0xF0 + c / 262144 < 0xF0) := by omega
        have a4' : 0xF0 + c / 262144 < 0xF5 := by omega
        have a5 : isCont (0x80 + c / 4096 % 64) = true := by simp [isCont]; omega
        have a6 : isCont (0x80 + c / 64 % 64) = true := by simp [isCont]; omega
        have a6' : isCont (0x80 + c % 64) = true := by simp [isCont]; omega
        have a7 : (0xF0 + c / 262144 - 0xF0) * 262144 + (0x80 + c / 4096 % 64 - 0x80) * 4096 +
            (0x80 + c / 64 % 64 - 0x80) * 64 + (0x80 + c % 64 - 0x80) = c := by omega
        have a8 : 0x10000 ≤ c := by omega
        have a9 : c < 0x110000 := by omega
        simp only [List.cons_append, List.nil_append, utf8Dec, a1, a2, a3, a4, a4', a5, a6, a6', a7, if_true, if_false,
          Bool.true_and, Bool.and_true]
        simp [a8, a9]

/-- **UTF-8**: every text without a surrogate code point is read back exactly -/
theorem utf8Dec_enc : ∀ t : Text, t.ok = true → utf8Dec (utf8Enc t) = some t
  | [], _ => by simp [utf8Enc, utf8Dec]
  | c :: t, h => by
    simp only [Text.ok, List.all_cons, Bool.and_eq_true] at h
    have ih := utf8Dec_enc t (by simpa [Text.ok] using h.2)
    simp [utf8Enc, utf8Dec_cp c h.1, ih]

/-! ### typed layer -/

theorem sel_append (k : Nat) (a b : List Rec) : sel k (a ++ b) = sel k a ++ sel k b := by
  simp [sel, List.filterMap_append]

theorem sel_nil (k : Nat) : sel k [] = [] := rfl

theorem sel_fld (k j : Nat) (ps : List Payload) : sel k (fld j ps) = if j = k then ps else [] := by
  induction ps with
  | nil => simp [sel, fld]
  | cons p ps ih =>
    simp only [sel, fld, List.map_cons, List.filterMap_cons] at ih ⊢
    by_cases h : j = k <;> simp_all

theorem sel_cons (k : Nat) (r : Rec) (rs : List Rec) :
    sel k (r :: rs) = if r.fno = k then r.p :: sel k rs else sel k rs := by
  simp only [sel, List.filterMap_cons]
  split <;> simp_all

theorem recsOk_append (a b : List Rec) : recsOk (a ++ b) = (recsOk a && recsOk b) := by
  simp [recsOk]

theorem recsOk_fld (k : Nat) (hk : 0 < k) (ps : List Payload) : recsOk (fld k ps) = ps.all Payload.ok := by
  induction ps with
  | nil => simp [recsOk, fld]
  | cons p ps ih =>
    simp only [recsOk, fld, List.map_cons, List.all_cons, Rec.ok] at ih ⊢
    simp [hk, ih]

-- payloads of the emitters are well formed
theorem ok_pUInt (i : Int) : (pUInt i).all Payload.ok = true := by unfold pUInt; split <;> simp [Payload.ok]
theorem ok_pOptUInt (o : Option Int) : (pOptUInt o).all Payload.ok = true := by cases o <;> simp [pOptUInt, Payload.ok]
theorem ok_pOptBool (o : Option Bool) : (pOptBool o).all Payload.ok = true := by cases o <;> simp [pOptBool, Payload.ok]
theorem ok_pEnum (o : Option Nat) : (pEnum o).all Payload.ok = true := by
  cases o with
  | none => simp [pEnum]
  | some n => simp only [pEnum]; split <;> simp [Payload.ok]
theorem ok_pFixed64 (i : Int) (h : inU64 i = true) : (pFixed64 i).all Payload.ok = true := by
  simp only [inU64, Bool.and_eq_true, decide_eq_true_eq] at h
  unfold pFixed64; split <;> simp [Payload.ok]; omega
theorem ok_pStr (t : Text) : (pStr t).all Payload.ok = true := by unfold pStr; split <;> simp [Payload.ok]
theorem ok_pOptStr (o : Option Text) : (pOptStr o).all Payload.ok = true := by cases o <;> simp [pOptStr, Payload.ok]
theorem ok_pRepStr (ts : List Text) : (pRepStr ts).all Payload.ok = true := by simp [pRepStr, Payload.ok]
theorem ok_pBytes (b : Bytes) : (pBytes b).all Payload.ok = true := by unfold pBytes; split <;> simp [Payload.ok]
theorem ok_pOptMsg (o : Option (List Rec)) : (pOptMsg o).all Payload.ok = true := by cases o <;> simp [pOptMsg, Payload.ok]
theorem ok_pRepMsg (ms : List (List Rec)) : (pRepMsg ms).all Payload.ok = true := by simp [pRepMsg, Payload.ok]

-- readers against emitters
theorem dU32_pUInt (i : Int) (h : inU32 i = true) : dU32 (pUInt i) = i := by
  simp only [inU32, Bool.and_eq_true, decide_eq_true_eq] at h
  unfold pUInt; split
  · simp [dU32, lastVarint, allVarint, *]
  · simp [dU32, lastVarint, allVarint]; omega

theorem dU64_pUInt (i : Int) (h : inU64 i = true) : dU64 (pUInt i) = i := by
  simp only [inU64, Bool.and_eq_true, decide_eq_true_eq] at h
  unfold pUInt; split
  · simp [dU64, lastVarint, allVarint, *]
  · simp [dU64, lastVarint, allVarint]; omega

theorem dOptU32_pOptUInt (o : Option Int) (h : Option.all (fun x => inU32 x) o = true) : dOptU32 (pOptUInt o) = o := by
  cases o with
  | none => simp [pOptUInt, dOptU32, lastVarint, allVarint]
  | some i =>
    simp only [Option.all_some, inU32, Bool.and_eq_true, decide_eq_true_eq] at h
    simp [pOptUInt, dOptU32, lastVarint, allVarint]; omega

theorem dOptBool_pOptBool (o : Option Bool) : dOptBool (pOptBool o) = o := by
  cases o with
  | none => simp [pOptBool, dOptBool, lastVarint, allVarint]
  | some b => cases b <;> simp [pOptBool, dOptBool, lastVarint, allVarint]

theorem dEnum_pEnum (n : Nat) (h : inEnum n = true) : dEnum (pEnum (some n)) = some n := by
  simp only [inEnum, decide_eq_true_eq] at h
  simp only [pEnum]; split <;> simp [dEnum, lastVarint, allVarint, *]
  omega

theorem lastField_append (ks : List Nat) (a b : List Rec) :
    lastField ks (a ++ b) = (match lastField ks b with
                             | some k => some k
                             | none => lastField ks a) := by
  simp only [lastField, List.filter_append]
  cases hb : List.filter (fun r => ks.contains r.fno) b with
  | nil => simp
  | cons x xs =>
    have : ∃ y, (x :: xs).getLast? = some y := by
      cases hl : (x :: xs).getLast? with
      | none => simp at hl
      | some y => exact ⟨y, rfl⟩
    obtain ⟨y, hy⟩ := this
    simp [List.getLast?_append, hb, hy]

theorem lastField_fld_notin (ks : List Nat) (j : Nat) (ps : List Payload) (h : ks.contains j = false) :
    lastField ks (fld j ps) = none := by
  have h' : j ∉ ks := by simpa using h
  have : List.filter (fun r => ks.contains r.fno) (fld j ps) = [] := by
    simp only [fld, List.filter_eq_nil_iff, List.mem_map]
    rintro r ⟨p, _, rfl⟩
    simp [h']
  rw [lastField, this]
  rfl

theorem lastField_fld_nil (ks : List Nat) (j : Nat) : lastField ks (fld j []) = none := by
  simp [lastField, fld]

theorem lastField_fld_one (ks : List Nat) (j : Nat) (p : Payload) (h : ks.contains j = true) :
    lastField ks (fld j [p]) = some j := by
  have h' : j ∈ ks := by simpa using h
  simp [lastField, fld, h']

theorem dFixed64_pFixed64 (i : Int) (h : inU64 i = true) : dFixed64 (pFixed64 i) = i := by
  simp only [inU64, Bool.and_eq_true, decide_eq_true_eq] at h
  unfold pFixed64; split
  · simp [dFixed64, lastFixed64, allFixed64, *]
  · simp [dFixed64, lastFixed64, allFixed64]; omega

theorem dStr_pStr (t : Text) (h : t.ok = true) : dStr (pStr t) = some t := by
  unfold pStr; split
  · simp [dStr, lastLen, allLen, *]
  · simp [dStr, lastLen, allLen, utf8Dec_enc t h]

theorem dOptStr_pOptStr (o : Option Text) (h : Option.all (fun x => Text.ok x) o = true) :
    dOptStr (pOptStr o) = some o := by
  cases o with
  | none => simp [pOptStr, dOptStr, lastLen, allLen]
  | some t => simp [pOptStr, dOptStr, lastLen, allLen, utf8Dec_enc t (by simpa using h)]

theorem allLen_map_len {α} (f : α → Bytes) (l : List α) : allLen (l.map (fun a => Payload.len (f a))) = l.map f := by
  induction l with
  | nil => rfl
  | cons a l ih => simp only [allLen, List.map_cons, List.filterMap_cons] at ih ⊢; simp [ih]

theorem allSome_map {α β} (g : α → Bytes) (dec : Bytes → Option β) (r : α → β) (l : List α)
    (h : ∀ a ∈ l, dec (g a) = some (r a)) : allSome dec (l.map g) = some (l.map r) := by
  induction l with
  | nil => rfl
  | cons a l ih =>
    have h1 := h a (by simp)
    have h2 := ih (fun x hx => h x (by simp [hx]))
    simp [allSome, h1, h2]

theorem dRepStr_pRepStr (ts : List Text) (h : List.all ts (fun x => Text.ok x) = true) :
    dRepStr (pRepStr ts) = some ts := by
  simp only [List.all_eq_true] at h
  have := allSome_map utf8Enc utf8Dec id ts (fun t ht => by simpa using utf8Dec_enc t (h t ht))
  simpa [dRepStr, pRepStr, allLen_map_len utf8Enc ts] using this

theorem dBytes_pBytes (b : Bytes) : dBytes (pBytes b) = b := by
  unfold pBytes; split <;> simp [dBytes, lastLen, allLen, *]

theorem dOptMsg_pOptMsg {α} (dec : Bytes → Option α) (enc : α → List Rec) (P : α → Bool)
    (hrt : ∀ a, P a = true → dec (encRecs (enc a)) = some a) (o : Option α)
    (h : Option.all (fun x => P x) o = true) : dOptMsg dec (pOptMsg (o.map enc)) = some o := by
  cases o with
  | none => simp [pOptMsg, dOptMsg, lastLen, allLen]
  | some a => simp [pOptMsg, dOptMsg, lastLen, allLen, hrt a (by simpa using h)]

theorem dRepMsg_pRepMsg {α} (dec : Bytes → Option α) (enc : α → List Rec) (P : α → Bool)
    (hrt : ∀ a, P a = true → dec (encRecs (enc a)) = some a) (l : List α)
    (h : List.all l (fun x => P x) = true) : dRepMsg dec (pRepMsg (l.map enc)) = some l := by
  simp only [List.all_eq_true] at h
  have := allSome_map (fun a => encRecs (enc a)) dec id l (fun a ha => by simpa using hrt a (h a ha))
  simp only [dRepMsg, pRepMsg, List.map_map]
  have e : ((fun rs => Payload.len (encRecs rs)) ∘ enc) = fun a => Payload.len (encRecs (enc a)) := rfl
  rw [e, allLen_map_len (fun a => encRecs (enc a)) l]
  simpa using this

/-! ### map entries -/

theorem recsOk_encStrEntry (kv : Text × Text) : recsOk (encStrEntry kv) = true := by
  simp [encStrEntry, recsOk_append, recsOk_fld, ok_pOptStr]

theorem decStrEntry_enc (kv : Text × Text) (h : (Text.ok kv.1 && Text.ok kv.2) = true) :
    decStrEntry (encRecs (encStrEntry kv)) = some kv := by
  simp only [Bool.and_eq_true] at h
  unfold decStrEntry
  rw [decRecs_enc' _ (recsOk_encStrEntry kv)]
  simp [encStrEntry, sel_append, sel_fld, pOptStr, dStr, lastLen,
    allLen, utf8Dec_enc _ h.1, utf8Dec_enc _ h.2]

theorem decMsgEntry_enc {α} (dec : Bytes → Option α) (enc : α → List Rec) (P : α → Bool)
    (hrt : ∀ a, P a = true → dec (encRecs (enc a)) = some a) (kv : Text × α)
    (h : (Text.ok kv.1 && P kv.2) = true) : decMsgEntry dec (encRecs (encMsgEntry enc kv)) = some kv := by
  simp only [Bool.and_eq_true] at h
  have hok : recsOk (encMsgEntry enc kv) = true := by
    simp [encMsgEntry, recsOk_append, recsOk_fld, ok_pOptStr, ok_pOptMsg]
  unfold decMsgEntry
  rw [decRecs_enc' _ hok]
  simp [encMsgEntry, sel_append, sel_fld, pOptStr, pOptMsg, dStr, dOptMsg, lastLen,
    allLen, utf8Dec_enc _ h.1, hrt _ h.2]

/-! ### int64 -/

theorem uToI64_i64ToU (i : Int) (h : inI64 i = true) : uToI64 (i64ToU i) = i := by
  simp only [inI64, Bool.and_eq_true, decide_eq_true_eq] at h
  unfold i64ToU
  split
  · have h0 : 0 ≤ i + 2 ^ 64 := by omega
    obtain ⟨n, hn⟩ := Int.eq_ofNat_of_zero_le h0
    have e : (i + 2 ^ 64).toNat = n := by rw [hn]; simp
    have hlt : n < 2 ^ 64 := by omega
    rw [e]; unfold uToI64
    rw [Nat.mod_eq_of_lt hlt]
    split <;> simp only [Int.ofNat_eq_natCast] <;> omega
  · rename_i hneg
    obtain ⟨n, hn⟩ := Int.eq_ofNat_of_zero_le (by omega : 0 ≤ i)
    have e : i.toNat = n := by rw [hn]; simp
    have hlt : n < 2 ^ 64 := by omega
    rw [e]; unfold uToI64
    rw [Nat.mod_eq_of_lt hlt]
    split <;> simp only [Int.ofNat_eq_natCast] <;> omega

end Wire
