/-
  Proofs/LifecyclePlan — the translated `Deep.start` / `Deep.shutdown` (statement lists of this run's source, run by
  `execPlan`) refine the specification machine of Model/Lifecycle.lean.
-/
import DeepModel.Model.LifecyclePlan
import DeepModel.Proofs.Lifecycle

namespace Lifecycle
open Extracted.TH Extracted.DeepLC

theorem runLoop_all (f : Faults) (ss : List Step) (d : Deep) :
    runLoop true f ss d = (ss.foldl (after f) d, false) := by
  induction ss generalizing d with
  | nil => rfl
  | cons s ss ih =>
    simp only [runLoop, Bool.true_or, Bool.not_true, Bool.and_false, Bool.false_eq_true, if_false, ih,
      List.foldl_cons, after]

/-- the translated `Deep.start` is the specified one, in every state -/
theorem startX_eq (d : Deep) : startX d = start d := by
  cases hs : d.started with
  | true =>
    rw [start_started d hs]
    simp [startX, startF, execPlan, startPlan, Fld.get, hs]
  | false =>
    cases he : d.everShut with
    | true =>
      rw [start_refused d hs he]
      simp [startX, startF, execPlan, startPlan, Fld.get, hs, he]
    | false =>
      rw [start_not_started d hs he]
      simp [startX, startF, execPlan, startPlan, Fld.get, Fld.put, primStep, noStartFaults, hs, he]

/-- the translated `Deep.shutdown` is the specified one, for every state and fault assignment -/
theorem shutdownX_eq (f : Faults) (d : Deep) : shutdownX f d = shutdown f d := by
  cases hs : d.started with
  | false =>
    rw [shutdown_not_started f d hs]
    simp [shutdownX, execPlan, shutdownPlan, Fld.get, hs]
  | true =>
    rw [shutdown_started f d hs]
    simp only [shutdownX, execPlan, shutdownPlan, Fld.get, hs, Fld.put, stepsOf, runLoop_all, bne_self_eq_false,
      Bool.false_eq_true, if_false, List.append_nil, List.foldl_cons, Bool.false_and, primStep]
    rw [plugin_steps]
    simp [after, runStep, flushPending_isolated]

theorem stepX_eq (d : Deep) (op : Op) : stepX d op = step d op := by
  cases op <;> simp [stepX, step, startX_eq, shutdownX_eq]

/-- every history over the translated methods is the history of the specification machine -/
theorem runX_eq (ops : List Op) (d : Deep) : runX ops d = run ops d := by
  induction ops generalizing d with
  | nil => rfl
  | cons op ops ih => simp only [runX, run, List.foldl_cons] at *; rw [stepX_eq]; exact ih _

end Lifecycle
