/-
  Proofs/LifecyclePlan — the translated `Deep.start` / `Deep.shutdown` (statement lists of this run's source, run by
  `execPlan`) refine the specification machine of Model/Lifecycle.lean.
-/
import DeepModel.Model.LifecyclePlan
import DeepModel.Proofs.Lifecycle

namespace Lifecycle
open Extracted.TH Extracted.DeepLC

theorem runLoop_all (f : Faults) (ss : List Step) (d : Deep) :
    runLoop true f ss d = (ss.foldl (after f) d, false) := by
  induction ss generalizing d with
  | nil => rfl
  | cons s ss ih =>
    simp only [runLoop, Bool.true_or, Bool.not_true, Bool.and_false, Bool.false_eq_true, if_false, ih,
      List.foldl_cons, after]

/-- the translated `Deep.start` is the specified one, in every state -/
theorem startX_eq (d : Deep) : startX d = start d := by
  cases hs : d.started with
  | true =>
    rw [start_started d hs]
    simp [startX, startF, execPlan, startPlan, Fld.get, hs]
  | false =>
    cases he : d.everShut with
    | true =>
      rw [start_refused d hs he]
      simp [startX, startF, execPlan, startPlan, Fld.get, hs, he]
    | false =>
      rw [start_not_started d hs he]
      simp [startX, startF, execPlan, startPlan, Fld.get, Fld.put, primStep, noStartFaults, hs, he]

theorem buildFails_readable (f : Faults) (d : Deep) (b : Bool) (refs : List StepRef) (hr : Readable f d) :
    buildFails f { d with everShut := b } refs = false := by
  simp only [buildFails, Readable] at *
  simp [hr]

/-- the translated `Deep.shutdown` is the specified one, for every state and every fault assignment under which the
    `shutdown` attribute of every loaded plugin can be read -/
theorem shutdownX_eq (f : Faults) (d : Deep) (hr : Readable f d) : shutdownX f d = shutdown f d := by
  cases hs : d.started with
  | false =>
    rw [shutdown_not_started f d hs]
    simp [shutdownX, execPlan, shutdownPlan, Fld.get, hs]
  | true =>
    rw [shutdown_started f d hs]
    simp only [shutdownX, execPlan, shutdownPlan, Fld.get, hs, Fld.put, stepsOf, runLoop_all, bne_self_eq_false,
      Bool.false_eq_true, if_false, List.append_nil, List.foldl_cons, Bool.false_and, primStep,
      buildFails, (show d.plugins.any f.attrUnreadable = false from hr), Bool.and_false]
    rw [plugin_steps]
    simp [after, runStep, flushPending_isolated]

/-- no operation changes the list of loaded plugins -/
theorem step_plugins (d : Deep) (op : Op) : (step d op).plugins = d.plugins := by
  cases op with
  | start =>
    simp only [step]
    cases hs : d.started with
    | true => rw [start_started d hs]
    | false =>
      cases he : d.everShut with
      | true => rw [start_refused d hs he]
      | false => rw [start_not_started d hs he]
  | shutdown f =>
    simp only [step]
    cases hs : d.started with
    | false => rw [shutdown_not_started f d hs]
    | true => rw [shutdown_started f d hs]
  | newConfig cfg => rfl
  | pollTick fl =>
    simp only [step]
    cases fl with
    | none => rfl
    | some e => cases e <;> simp only [pollTick] <;> (try split) <;> rfl
  | hostSet s t => simp only [step, hostSet]; split <;> rfl

/-- in a history, every shutdown's fault assignment leaves the `shutdown` attribute of the plugins `ps` readable -/
def OpsReadable (ps : List Nat) (ops : List Op) : Prop := ∀ f, Op.shutdown f ∈ ops → ps.any f.attrUnreadable = false

theorem stepX_eq (d : Deep) (op : Op) (hr : ∀ f, op = Op.shutdown f → Readable f d) : stepX d op = step d op := by
  cases op with
  | shutdown f => simp [stepX, step, shutdownX_eq f d (hr f rfl)]
  | start => simp [stepX, step, startX_eq]
  | newConfig cfg => rfl
  | pollTick fl => rfl
  | hostSet s t => rfl

/-- every history over the translated methods is the history of the specification machine (plugins readable) -/
theorem runX_eq (ops : List Op) (d : Deep) (hr : OpsReadable d.plugins ops) : runX ops d = run ops d := by
  induction ops generalizing d with
  | nil => rfl
  | cons op ops ih =>
    simp only [runX, run, List.foldl_cons] at *
    rw [stepX_eq d op (fun f hf => by subst hf; exact hr f (List.mem_cons_self ..))]
    exact ih _ (by rw [step_plugins]; exact fun f hf => hr f (List.mem_cons_of_mem _ hf))

/-! ### the effect trace -/

theorem loopTrace_all (f : Faults) (ss : List Step) (d : Deep) : loopTrace true f ss d = ss.map PEv.step := by
  induction ss generalizing d with
  | nil => rfl
  | cons s ss ih =>
    simp only [loopTrace, Bool.true_or, Bool.not_true, Bool.and_false, Bool.false_eq_true, if_false, ih, List.map_cons]

/-- `Deep.start` makes exactly the specified calls, in the specified order, in every state -/
theorem startTrace_eq (d : Deep) : startTrace noStartFaults d = startSpecTrace d := by
  cases hs : d.started <;> cases he : d.everShut <;>
    simp [startTrace, startSpecTrace, tracePlan, startPlan, Fld.get, Fld.put, primStep, noStartFaults, hs, he]

/-- `Deep.shutdown` attempts exactly the specified steps, in the specified order (plugins readable) -/
theorem shutdownTrace_eq (f : Faults) (d : Deep) (hr : Readable f d) : shutdownTrace f d = shutdownSpecTrace d := by
  cases hs : d.started with
  | false => simp [shutdownTrace, shutdownSpecTrace, tracePlan, shutdownPlan, Fld.get, hs]
  | true =>
    simp only [shutdownTrace, shutdownSpecTrace, tracePlan, shutdownPlan, Fld.get, hs, Fld.put, stepsOf, runLoop_all,
      loopTrace_all, bne_self_eq_false, Bool.false_eq_true, if_false, List.append_nil, Bool.false_and,
      buildFails, (show d.plugins.any f.attrUnreadable = false from hr), Bool.and_false, Bool.not_true]
    simp [Function.comp_def]

end Lifecycle
