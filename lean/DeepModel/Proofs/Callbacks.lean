/-
  Proofs/Callbacks — lemmas about the per-event handler skeleton (`Callbacks.stepWith`) and its run over
  invocation trees.

  1. what the regenerated decision functions compute (`locationFromEvent_eq`, `callbackEvent_eq`, `cbAtLocation_eq`,
     `processCallBacks_cons`) — these are the proof obligations that bind the theorems to the current source text;
  2. `stepWith_norm`: on a slot that is never "set but empty" the handler is a plain stack machine `sstep`;
  3. `chk_srun`: the open/close effects of any run replay against the handler's own stack (top-only examination
     makes every run well-bracketed by construction);
  4. the frame lemma (`inv_frame` / `items_frame`, mutual induction over invocation trees): under `NoClash` and
     `NoStack` an invocation hands back the stack it found and every close happens at one of its own events.
-/
import DeepModel.Model.Callbacks
namespace Callbacks
open Extracted.Locations

def isCbKind (k : String) : Bool := decide (k = "line" ∨ k = "return" ∨ k = "exception")

def atLoc (c : Ctx) (ev : Event) : Bool :=
  decide (fileOf ev.path = c.file ∧ ev.func = c.func ∧
    (c.event = "line" ∨ ev.kind = "exception" ∨ ev.kind = "return"))

theorem locationFromEvent_eq (k p : String) (l : Int) (f : String) :
    locationFromEvent k p l f = (k, fileOf p, l, f) := by
  simp [locationFromEvent, fileOf]

theorem callbackEvent_eq (k : String) (b : Bool) : callbackEvent k b = (isCbKind k && b) := by
  simp [callbackEvent, isCbKind]

theorem cbAtLocation_eq (c : Ctx) (ev : Event) :
    cbAtLocation c.event c.file c.func ev.kind (fileOf ev.path) ev.line ev.func = atLoc c ev := by
  unfold cbAtLocation checkAtNextLine checkAtMethodEnd atLoc
  by_cases h1 : fileOf ev.path = c.file <;> by_cases h2 : ev.func = c.func <;>
    by_cases h3 : c.event = "line" <;> by_cases h4 : ev.kind = "line" <;> simp_all

/-- the thread's slot as a plain stack: unset = empty -/
def norm : List Ctx → Option (List Ctx)
  | [] => none
  | s => some s

def newCtx (cbs : List Action) (ev : Event) : Ctx := ⟨ev.kind, fileOf ev.path, ev.line, ev.func, cbs, ev⟩

def cbsAt (ncfg : Int) (acts : Event → List Action) (ev : Event) : List Action :=
  (firedAt ncfg acts ev).filter Action.hasCallback

/-- the callback phase on a plain stack: only the top context is examined -/
def pcPhase (s : List Ctx) (ev : Event) : List Ctx × List Eff :=
  match s with
  | c :: rest => if isCbKind ev.kind && atLoc c ev then (rest, [Eff.closed c ev]) else (s, [])
  | [] => ([], [])

/-- the handler on a plain stack -/
def sstep (ncfg : Int) (acts : Event → List Action) (s : List Ctx) (ev : Event) : List Ctx × List Eff :=
  if cbsAt ncfg acts ev = [] then
    ((pcPhase s ev).1, (pcPhase s ev).2 ++ (firedAt ncfg acts ev).map (fun a => Eff.fired a ev))
  else
    (newCtx (cbsAt ncfg acts ev) ev :: (pcPhase s ev).1,
      (pcPhase s ev).2 ++ (firedAt ncfg acts ev).map (fun a => Eff.fired a ev) ++
        [Eff.opened (newCtx (cbsAt ncfg acts ev) ev)])

theorem pushCallbacks_eq (l : List Action) : pushCallbacks (l.length : Int) = !(decide (l = [])) := by
  cases l <;> simp [pushCallbacks]

/-- the trigger phase of `stepWith`, given what the callback phase left -/
theorem stepWith_tail (ncfg : Int) (acts : Event → List Action) (ev : Event) (slot1 : Option (List Ctx))
    (closes : List Eff) (s1 : List Ctx) (hs : slot1 = norm s1) :
    (if noTracepoints ncfg then (slot1, closes) else
      if noActions ((acts ev).length : Int) then (slot1, closes) else
      if pushCallbacks ((((acts ev).filter (fun a => !ev.denied.contains a)).filter Action.hasCallback).length : Int) then
        (some ((⟨ev.kind, fileOf ev.path, ev.line, ev.func,
            ((acts ev).filter (fun a => !ev.denied.contains a)).filter Action.hasCallback, ev⟩ : Ctx) :: slot1.getD []),
          (closes ++ ((acts ev).filter (fun a => !ev.denied.contains a)).map (fun a => Eff.fired a ev)) ++
            [Eff.opened ⟨ev.kind, fileOf ev.path, ev.line, ev.func,
              ((acts ev).filter (fun a => !ev.denied.contains a)).filter Action.hasCallback, ev⟩])
      else (slot1, closes ++ ((acts ev).filter (fun a => !ev.denied.contains a)).map (fun a => Eff.fired a ev)))
    = (norm (if cbsAt ncfg acts ev = [] then s1 else newCtx (cbsAt ncfg acts ev) ev :: s1),
       if cbsAt ncfg acts ev = [] then closes ++ (firedAt ncfg acts ev).map (fun a => Eff.fired a ev)
       else closes ++ (firedAt ncfg acts ev).map (fun a => Eff.fired a ev) ++
         [Eff.opened (newCtx (cbsAt ncfg acts ev) ev)]) := by
  subst hs
  by_cases h1 : noTracepoints ncfg = true
  · have hf : firedAt ncfg acts ev = [] := by simp only [firedAt, h1, if_true]
    simp only [h1, if_true, cbsAt, hf, List.filter_nil, List.map_nil, List.append_nil]
  · by_cases h2 : noActions ((acts ev).length : Int) = true
    · have hf : firedAt ncfg acts ev = [] := by simp only [firedAt, h1, h2, if_true, if_false, Bool.false_eq_true]
      simp only [h1, h2, if_true, if_false, Bool.false_eq_true, cbsAt, hf, List.filter_nil, List.map_nil,
        List.append_nil]
    · have hf : firedAt ncfg acts ev = (acts ev).filter (fun a => !ev.denied.contains a) := by
        simp only [firedAt, h1, h2, if_false, Bool.false_eq_true]
      simp only [h1, h2, if_false, Bool.false_eq_true, cbsAt, hf, pushCallbacks_eq]
      generalize ((acts ev).filter (fun a => !ev.denied.contains a)) = fired
      generalize hc : fired.filter Action.hasCallback = cbs
      cases cbs with
      | nil => simp
      | cons a l => cases s1 <;> simp [norm, newCtx]

theorem processCallBacks_cons (f : Ctx → Bool) (c : Ctx) (rest : List Ctx) :
    processCallBacks f (c :: rest) = some (norm (if f c then rest else c :: rest), if f c then [c] else []) := by
  unfold processCallBacks
  by_cases h : f c = true
  · cases rest <;> simp [h, norm] <;> omega
  · simp [h, norm]; omega

theorem sstep_eq (ncfg : Int) (acts : Event → List Action) (s : List Ctx) (ev : Event) :
    sstep ncfg acts s ev =
      (if cbsAt ncfg acts ev = [] then (pcPhase s ev).1 else newCtx (cbsAt ncfg acts ev) ev :: (pcPhase s ev).1,
       if cbsAt ncfg acts ev = [] then (pcPhase s ev).2 ++ (firedAt ncfg acts ev).map (fun a => Eff.fired a ev)
       else (pcPhase s ev).2 ++ (firedAt ncfg acts ev).map (fun a => Eff.fired a ev) ++
         [Eff.opened (newCtx (cbsAt ncfg acts ev) ev)]) := by
  unfold sstep
  by_cases h : cbsAt ncfg acts ev = [] <;> simp [h]

theorem stepWith_norm (ncfg : Int) (acts : Event → List Action) (s : List Ctx) (ev : Event) :
    stepWith ncfg acts (norm s) ev = (norm (sstep ncfg acts s ev).1, (sstep ncfg acts s ev).2) := by
  rw [sstep_eq]
  unfold stepWith
  rw [locationFromEvent_eq]
  simp only [callbackEvent_eq, cbAtLocation_eq]
  cases s with
  | nil =>
    simp only [norm, Option.isSome_none, Bool.and_false, Bool.false_eq_true, if_false, List.map_nil, pcPhase]
    exact stepWith_tail ncfg acts ev none [] [] rfl
  | cons c rest =>
    simp only [norm, Option.isSome_some, Bool.and_true, Option.getD_some, pcPhase]
    by_cases hk : isCbKind ev.kind = true
    · simp only [hk, if_true, processCallBacks_cons, Bool.true_and]
      by_cases ha : atLoc c ev = true
      · simp only [ha, if_true, List.map_cons, List.map_nil]
        exact stepWith_tail ncfg acts ev (norm rest) [Eff.closed c ev] rest rfl
      · simp only [ha, if_false, Bool.false_eq_true, List.map_nil]
        exact stepWith_tail ncfg acts ev (norm (c :: rest)) [] (c :: rest) rfl
    · simp only [hk, Bool.false_eq_true, if_false, Bool.false_and, List.map_nil]
      exact stepWith_tail ncfg acts ev (some (c :: rest)) [] (c :: rest) rfl


/-- a slot that is set but empty (left behind by an earlier failure) behaves like the unset slot: the guard at the
    top of `__process_call_backs` clears it instead of popping -/
theorem stepWith_some_nil_effects (ncfg : Int) (acts : Event → List Action) (ev : Event) :
    (stepWith ncfg acts (some []) ev).2 = (stepWith ncfg acts none ev).2 := by
  unfold stepWith
  rw [locationFromEvent_eq]
  simp only [callbackEvent_eq, Option.isSome_some, Option.isSome_none, Bool.and_true, Bool.and_false,
    Bool.false_eq_true, if_false, Option.getD_some, processCallBacks]
  by_cases hk : isCbKind ev.kind = true
  · simp only [hk, if_true, List.map_nil]
  · simp only [hk, if_false, Bool.false_eq_true, List.map_nil]
    by_cases h1 : noTracepoints ncfg = true
    · simp [h1]
    · by_cases h2 : noActions ((acts ev).length : Int) = true
      · simp [h1, h2]
      · simp only [h1, h2, if_false, Bool.false_eq_true]
        split <;> rfl

/-! ### runs on the plain stack -/

def srun (ncfg : Int) (acts : Event → List Action) : List Ctx → List Event → List Ctx × List Eff
  | s, [] => (s, [])
  | s, ev :: evs =>
    let r1 := sstep ncfg acts s ev
    let r2 := srun ncfg acts r1.1 evs
    (r2.1, r1.2 ++ r2.2)

theorem srun_append (ncfg : Int) (acts : Event → List Action) (s : List Ctx) (a b : List Event) :
    srun ncfg acts s (a ++ b) =
      ((srun ncfg acts (srun ncfg acts s a).1 b).1, (srun ncfg acts s a).2 ++ (srun ncfg acts (srun ncfg acts s a).1 b).2) := by
  induction a generalizing s with
  | nil => simp [srun]
  | cons ev evs ih => simp [srun, ih, List.append_assoc]

theorem runWith_norm (ncfg : Int) (acts : Event → List Action) (s : List Ctx) (evs : List Event) :
    runWith ncfg acts (norm s) evs = (norm (srun ncfg acts s evs).1, (srun ncfg acts s evs).2) := by
  induction evs generalizing s with
  | nil => simp [runWith, srun]
  | cons ev evs ih => simp [runWith, srun, stepWith_norm, ih]

/-! ### the effects of any run replay against the handler's own stack -/


theorem chk_append (s : List Ctx) (a b : List Eff) :
    chk s (a ++ b) = (chk s a).bind (fun s' => chk s' b) := by
  induction a generalizing s with
  | nil => simp [chk]
  | cons e w ih =>
    cases e with
    | fired x y => simp [chk, ih]
    | opened c => simp [chk, ih]
    | closed c ev =>
      cases s with
      | nil => simp [chk]
      | cons t s => by_cases h : t = c <;> simp [chk, h, ih]

theorem chk_fired (s : List Ctx) (l : List Action) (ev : Event) :
    chk s (l.map (fun a => Eff.fired a ev)) = some s := by
  induction l with
  | nil => simp [chk]
  | cons a l ih => simp [chk, ih]

theorem chk_sstep (ncfg : Int) (acts : Event → List Action) (s : List Ctx) (ev : Event) :
    chk s (sstep ncfg acts s ev).2 = some (sstep ncfg acts s ev).1 := by
  rw [sstep_eq]
  cases s with
  | nil =>
    by_cases h : cbsAt ncfg acts ev = [] <;> simp [h, chk_append, chk_fired, chk, pcPhase]
  | cons c rest =>
    by_cases hk : (isCbKind ev.kind && atLoc c ev) = true <;>
      by_cases h : cbsAt ncfg acts ev = [] <;> simp [hk, h, chk_append, chk_fired, chk, pcPhase]

theorem chk_srun (ncfg : Int) (acts : Event → List Action) (s : List Ctx) (evs : List Event) :
    chk s (srun ncfg acts s evs).2 = some (srun ncfg acts s evs).1 := by
  induction evs generalizing s with
  | nil => simp [srun, chk]
  | cons ev evs ih => simp [srun, chk_append, chk_sstep, ih]

/-- a well-bracketed sequence opens and closes every context equally often (up to what was open before/after) -/
theorem chk_counts (c : Ctx) (s s' : List Ctx) (w : List Eff) (h : chk s w = some s') :
    countOpened c w + s.count c = countClosed c w + s'.count c := by
  induction w generalizing s with
  | nil => simp [chk] at h; subst h; simp [countOpened, countClosed]
  | cons e w ih =>
    cases e with
    | fired x y => simp [chk] at h; simpa [countOpened, countClosed] using ih s h
    | opened d =>
      simp only [chk] at h
      have := ih (d :: s) h
      simp only [countOpened, countClosed, List.count_cons] at this ⊢
      by_cases hd : d = c <;> simp [hd] at this ⊢ <;> omega
    | closed d ev =>
      cases s with
      | nil => simp [chk] at h
      | cons t s =>
        by_cases ht : t = d
        · subst ht
          simp only [chk, if_true] at h
          have := ih s h
          simp only [countOpened, countClosed, List.count_cons] at this ⊢
          by_cases hd : t = c <;> simp [hd] at this ⊢ <;> omega
        · simp [chk, ht] at h


/-! ### the frame lemma -/


def ckey (c : Ctx) : Key := (c.file, c.func)
def FrameInfo.key (fi : FrameInfo) : Key := (fileOf fi.path, fi.func)

/-- the trigger phase yields actions at `line` and `call` events only (true of every real configuration:
    `Trigger.c03_kinds`) -/
def KindsOK (acts : Event → List Action) : Prop := ∀ ev, acts ev ≠ [] → ev.kind = "line" ∨ ev.kind = "call"

/-- every close happens at an event of the invocation (and frame) that opened the context -/
def Scoped (w : List Eff) : Prop :=
  ∀ c ev, Eff.closed c ev ∈ w → c.opener.inv = ev.inv ∧ c.opener.frame = ev.frame

theorem Scoped.nil : Scoped [] := by intro c ev h; simp at h
theorem Scoped.append {a b : List Eff} (ha : Scoped a) (hb : Scoped b) : Scoped (a ++ b) := by
  intro c ev h
  rcases List.mem_append.mp h with h | h
  · exact ha c ev h
  · exact hb c ev h

structure IsOwn (fi : FrameInfo) (c : Ctx) : Prop where
  file : c.file = fileOf fi.path
  func : c.func = fi.func
  inv : c.opener.inv = fi.inv
  frame : c.opener.frame = fi.frame

/-- the part of the stack that belongs to the running invocation: its call-opened context (`m`) under its
    line-opened context (`l`) -/
def OwnStack (fi : FrameInfo) : Bool → Bool → List Ctx → Prop
  | false, false, o => o = []
  | true, false, o => ∃ M, o = [M] ∧ IsOwn fi M ∧ M.event = "call"
  | false, true, o => ∃ C, o = [C] ∧ IsOwn fi C ∧ C.event = "line"
  | true, true, o => ∃ C M, o = [C, M] ∧ (IsOwn fi C ∧ C.event = "line") ∧ (IsOwn fi M ∧ M.event = "call")

@[simp] theorem ev_kind (fi : FrameInfo) (k : String) (n a : Int) (d : List Action) : (fi.ev k n a d).kind = k := rfl
@[simp] theorem ev_path (fi : FrameInfo) (k : String) (n a : Int) (d : List Action) : (fi.ev k n a d).path = fi.path := rfl
@[simp] theorem ev_func (fi : FrameInfo) (k : String) (n a : Int) (d : List Action) : (fi.ev k n a d).func = fi.func := rfl
@[simp] theorem ev_inv (fi : FrameInfo) (k : String) (n a : Int) (d : List Action) : (fi.ev k n a d).inv = fi.inv := rfl
@[simp] theorem ev_frame (fi : FrameInfo) (k : String) (n a : Int) (d : List Action) : (fi.ev k n a d).frame = fi.frame := rfl
@[simp] theorem ev_line (fi : FrameInfo) (k : String) (n a : Int) (d : List Action) : (fi.ev k n a d).line = n := rfl

theorem firedAt_nil_of (ncfg : Int) (acts : Event → List Action) (ev : Event) (h : acts ev = []) :
    firedAt ncfg acts ev = [] := by
  unfold firedAt; rw [h]; simp

theorem no_trigger (ncfg : Int) (acts : Event → List Action) (hk : KindsOK acts) (ev : Event)
    (h1 : ev.kind ≠ "line") (h2 : ev.kind ≠ "call") :
    firedAt ncfg acts ev = [] ∧ cbsAt ncfg acts ev = [] := by
  have : acts ev = [] := by
    by_cases h : acts ev = []
    · exact h
    · rcases hk ev h with h | h
      · exact absurd h h1
      · exact absurd h h2
  simp [cbsAt, firedAt_nil_of ncfg acts ev this]

theorem atLoc_foreign (c : Ctx) (ev : Event) (h : ckey c ≠ (fileOf ev.path, ev.func)) : atLoc c ev = false := by
  unfold atLoc
  simp only [decide_eq_false_iff_not]
  intro ⟨h1, h2, _⟩
  exact h (by simp [ckey, h1, h2])

/-- an own `return` / `exception` event: exactly the top own context (if any) is processed -/
theorem step_exit (ncfg : Int) (acts : Event → List Action) (hk : KindsOK acts) (fi : FrameInfo)
    (kind : String) (hkind : kind = "return" ∨ kind = "exception") (n a : Int) (d : List Action)
    (m l : Bool) (o stk : List Ctx) (ho : OwnStack fi m l o) (hf : ∀ c ∈ stk, ckey c ≠ fi.key) :
    sstep ncfg acts (o ++ stk) (fi.ev kind n a d) =
      (o.tail ++ stk, o.head?.toList.map (fun c => Eff.closed c (fi.ev kind n a d))) := by
  have hne1 : kind ≠ "line" := by rcases hkind with rfl | rfl <;> decide
  have hne2 : kind ≠ "call" := by rcases hkind with rfl | rfl <;> decide
  obtain ⟨hfire, hcbs⟩ := no_trigger ncfg acts hk (fi.ev kind n a d) (by simpa using hne1) (by simpa using hne2)
  have hcb : isCbKind kind = true := by rcases hkind with rfl | rfl <;> decide
  have hown : ∀ c, IsOwn fi c → atLoc c (fi.ev kind n a d) = true := by
    intro c hc
    unfold atLoc
    apply decide_eq_true
    refine ⟨hc.file.symm, hc.func.symm, ?_⟩
    rcases hkind with rfl | rfl <;> simp
  rw [sstep_eq]
  simp only [hcbs, hfire, if_true, List.map_nil, List.append_nil]
  match m, l, ho with
  | false, false, ho =>
    simp only [OwnStack] at ho
    subst ho
    cases stk with
    | nil => simp [pcPhase]
    | cons t r =>
      have : atLoc t (fi.ev kind n a d) = false :=
        atLoc_foreign t _ (by simpa [FrameInfo.key] using hf t (List.mem_cons_self ..))
      simp [pcPhase, this]
  | true, false, ho =>
    obtain ⟨M, rfl, hM, _⟩ := ho
    simp [pcPhase, hcb, hown M hM]
  | false, true, ho =>
    obtain ⟨C, rfl, hC, _⟩ := ho
    simp [pcPhase, hcb, hown C hC]
  | true, true, ho =>
    obtain ⟨C, M, rfl, ⟨hC, _⟩, _⟩ := ho
    simp [pcPhase, hcb, hown C hC]

theorem opensAt_eq (ncfg : Int) (acts : Event → List Action) (ev : Event) :
    opensAt ncfg acts ev = !decide (cbsAt ncfg acts ev = []) := by
  unfold opensAt cbsAt
  exact pushCallbacks_eq _

theorem Scoped.fired (l : List Action) (ev : Event) : Scoped (l.map (fun a => Eff.fired a ev)) := by
  intro c e h
  simp at h

theorem Scoped.opened (c : Ctx) : Scoped [Eff.opened c] := by
  intro d e h
  simp at h

theorem Scoped.closed (c : Ctx) (ev : Event) (h1 : c.opener.inv = ev.inv) (h2 : c.opener.frame = ev.frame) :
    Scoped [Eff.closed c ev] := by
  intro d e h
  simp at h
  obtain ⟨rfl, rfl⟩ := h
  exact ⟨h1, h2⟩

theorem newCtx_own (fi : FrameInfo) (kind : String) (n a : Int) (d : List Action) (cbs : List Action) :
    IsOwn fi (newCtx cbs (fi.ev kind n a d)) ∧ (newCtx cbs (fi.ev kind n a d)).event = kind :=
  ⟨⟨rfl, rfl, rfl, rfl⟩, rfl⟩

/-- the `call` event of an invocation: nothing pending is examined; a context is pushed iff `opensAt` -/
theorem step_call (ncfg : Int) (acts : Event → List Action) (fi : FrameInfo) (n a : Int) (d : List Action)
    (s : List Ctx) :
    ∃ o w, sstep ncfg acts s (fi.ev "call" n a d) = (o ++ s, w) ∧
      OwnStack fi (opensAt ncfg acts (fi.ev "call" n a d)) false o ∧ Scoped w ∧
      (opensAt ncfg acts (fi.ev "call" n a d) = true →
        o = [newCtx (cbsAt ncfg acts (fi.ev "call" n a d)) (fi.ev "call" n a d)]) := by
  have hcb : isCbKind "call" = false := by decide
  rw [sstep_eq, opensAt_eq]
  have hpc : pcPhase s (fi.ev "call" n a d) = (s, []) := by
    cases s <;> simp [pcPhase, hcb]
  simp only [hpc, List.nil_append]
  by_cases h : cbsAt ncfg acts (fi.ev "call" n a d) = []
  · refine ⟨[], (firedAt ncfg acts (fi.ev "call" n a d)).map (fun x => Eff.fired x (fi.ev "call" n a d)),
      by simp [h], by simp [h, OwnStack], Scoped.fired _ _, by simp [h]⟩
  · refine ⟨[newCtx (cbsAt ncfg acts (fi.ev "call" n a d)) (fi.ev "call" n a d)],
      (firedAt ncfg acts (fi.ev "call" n a d)).map (fun x => Eff.fired x (fi.ev "call" n a d)) ++
        [Eff.opened (newCtx (cbsAt ncfg acts (fi.ev "call" n a d)) (fi.ev "call" n a d))], by simp [h], ?_,
      (Scoped.fired _ _).append (Scoped.opened _), fun _ => rfl⟩
    simp only [h, decide_false, Bool.not_false, OwnStack]
    exact ⟨_, rfl, (newCtx_own fi "call" n a d _).1, (newCtx_own fi "call" n a d _).2⟩

/-- an own `line` event: a pending own line context is processed, the own call context is left alone, and a new
    line context is pushed iff `opensAt` -/
theorem step_line (ncfg : Int) (acts : Event → List Action) (fi : FrameInfo) (n a : Int) (d : List Action)
    (m l : Bool) (o stk : List Ctx) (ho : OwnStack fi m l o) (hf : ∀ c ∈ stk, ckey c ≠ fi.key) :
    ∃ o' w, sstep ncfg acts (o ++ stk) (fi.ev "line" n a d) = (o' ++ stk, w) ∧
      OwnStack fi m (opensAt ncfg acts (fi.ev "line" n a d)) o' ∧ Scoped w ∧
      (∀ M ∈ o, M.event = "call" → M ∈ o') := by
  have hcb : isCbKind "line" = true := by decide
  -- the callback phase
  have hpc : ∃ o1 w1, pcPhase (o ++ stk) (fi.ev "line" n a d) = (o1 ++ stk, w1) ∧
      OwnStack fi m false o1 ∧ Scoped w1 ∧ (∀ M ∈ o, M.event = "call" → M ∈ o1) := by
    have hline : ∀ c, IsOwn fi c → c.event = "line" → atLoc c (fi.ev "line" n a d) = true := by
      intro c hc he
      unfold atLoc
      apply decide_eq_true
      exact ⟨hc.file.symm, hc.func.symm, Or.inl he⟩
    have hcall : ∀ c, c.event = "call" → atLoc c (fi.ev "line" n a d) = false := by
      intro c he
      unfold atLoc
      apply decide_eq_false
      intro ⟨_, _, h3⟩
      simp only [ev_kind] at h3
      rcases h3 with h3 | h3 | h3
      · rw [he] at h3; exact absurd h3 (by decide)
      · exact absurd h3 (by decide)
      · exact absurd h3 (by decide)
    match m, l, ho with
    | false, false, ho =>
      simp only [OwnStack] at ho
      subst ho
      refine ⟨[], [], ?_, by simp [OwnStack], Scoped.nil, by simp⟩
      cases stk with
      | nil => simp [pcPhase]
      | cons t r =>
        have : atLoc t (fi.ev "line" n a d) = false :=
          atLoc_foreign t _ (by simpa [FrameInfo.key] using hf t (List.mem_cons_self ..))
        simp [pcPhase, this]
    | true, false, ho =>
      obtain ⟨M, rfl, hM, hMe⟩ := ho
      exact ⟨[M], [], by simp [pcPhase, hcall M hMe], ⟨M, rfl, hM, hMe⟩, Scoped.nil, fun _ h _ => h⟩
    | false, true, ho =>
      obtain ⟨C, rfl, hC, hCe⟩ := ho
      refine ⟨[], [Eff.closed C (fi.ev "line" n a d)], by simp [pcPhase, hline C hC hCe, hcb], by simp [OwnStack],
        Scoped.closed C _ hC.inv hC.frame, ?_⟩
      intro M hM hMe
      simp at hM
      subst hM
      rw [hCe] at hMe
      exact absurd hMe (by decide)
    | true, true, ho =>
      obtain ⟨C, M, rfl, ⟨hC, hCe⟩, ⟨hM, hMe⟩⟩ := ho
      refine ⟨[M], [Eff.closed C (fi.ev "line" n a d)], by simp [pcPhase, hline C hC hCe, hcb], ⟨M, rfl, hM, hMe⟩,
        Scoped.closed C _ hC.inv hC.frame, ?_⟩
      intro M' hM' hMe'
      simp at hM'
      rcases hM' with rfl | rfl
      · rw [hCe] at hMe'
        exact absurd hMe' (by decide)
      · simp
  obtain ⟨o1, w1, hpc, ho1, hw1, hkeep⟩ := hpc
  rw [sstep_eq, opensAt_eq]
  simp only [hpc]
  by_cases h : cbsAt ncfg acts (fi.ev "line" n a d) = []
  · refine ⟨o1, w1 ++ (firedAt ncfg acts (fi.ev "line" n a d)).map (fun x => Eff.fired x (fi.ev "line" n a d)),
      by simp [h], by simpa [h] using ho1, hw1.append (Scoped.fired _ _), hkeep⟩
  · refine ⟨newCtx (cbsAt ncfg acts (fi.ev "line" n a d)) (fi.ev "line" n a d) :: o1,
      w1 ++ (firedAt ncfg acts (fi.ev "line" n a d)).map (fun x => Eff.fired x (fi.ev "line" n a d)) ++
        [Eff.opened (newCtx (cbsAt ncfg acts (fi.ev "line" n a d)) (fi.ev "line" n a d))], by simp [h], ?_,
      (hw1.append (Scoped.fired _ _)).append (Scoped.opened _),
      fun M hM hMe => List.mem_cons_of_mem _ (hkeep M hM hMe)⟩
    simp only [h, decide_false, Bool.not_false]
    have hn := newCtx_own fi "line" n a d (cbsAt ncfg acts (fi.ev "line" n a d))
    cases m with
    | false =>
      simp only [OwnStack] at ho1
      subst ho1
      exact ⟨_, rfl, hn.1, hn.2⟩
    | true =>
      obtain ⟨M, rfl, hM, hMe⟩ := ho1
      exact ⟨_, M, rfl, ⟨hn.1, hn.2⟩, ⟨hM, hMe⟩⟩

def Foreign (stk : List Ctx) (ks : List Key) : Prop := ∀ c ∈ stk, ckey c ∉ ks

theorem ownstack_tail {fi : FrameInfo} {m l : Bool} {o : List Ctx} (ho : OwnStack fi m l o) :
    OwnStack fi (m && l) false o.tail := by
  match m, l, ho with
  | false, false, ho => simp only [OwnStack] at ho; subst ho; simp [OwnStack]
  | true, false, ho => obtain ⟨M, rfl, _⟩ := ho; simp [OwnStack]
  | false, true, ho => obtain ⟨C, rfl, _⟩ := ho; simp [OwnStack]
  | true, true, ho => obtain ⟨C, M, rfl, _, hM⟩ := ho; exact ⟨M, rfl, hM.1, hM.2⟩

theorem ownstack_tail_nil {fi : FrameInfo} {m l : Bool} {o : List Ctx} (ho : OwnStack fi m l o)
    (h : (m && l) = false) : o.tail = [] := by
  have := ownstack_tail ho
  rw [h] at this
  simpa [OwnStack] using this

theorem scoped_head {fi : FrameInfo} {m l : Bool} {o : List Ctx} (ho : OwnStack fi m l o)
    (kind : String) (n a : Int) (d : List Action) :
    Scoped (o.head?.toList.map (fun c => Eff.closed c (fi.ev kind n a d))) := by
  match m, l, ho with
  | false, false, ho => simp only [OwnStack] at ho; subst ho; exact Scoped.nil
  | true, false, ho => obtain ⟨M, rfl, hM, _⟩ := ho; exact Scoped.closed M _ hM.inv hM.frame
  | false, true, ho => obtain ⟨C, rfl, hC, _⟩ := ho; exact Scoped.closed C _ hC.inv hC.frame
  | true, true, ho => obtain ⟨C, M, rfl, hC, _⟩ := ho; exact Scoped.closed C _ hC.1.inv hC.1.frame

/-- with at most one own context pending, it is the head of the own stack -/
theorem own_head {fi : FrameInfo} {m l : Bool} {o : List Ctx} (ho : OwnStack fi m l o) (h : (m && l) = false)
    (M : Ctx) (hm : m = true) (hM : M ∈ o) : o.head? = some M := by
  subst hm
  have hl : l = false := by simpa using h
  subst hl
  obtain ⟨M', rfl, _⟩ := ho
  simp at hM
  simp [hM]

/-- own contexts carry the key of their frame -/
theorem own_key {fi : FrameInfo} {m l : Bool} {o : List Ctx} (ho : OwnStack fi m l o) (c : Ctx) (hc : c ∈ o) :
    ckey c = fi.key := by
  match m, l, ho with
  | false, false, ho => simp only [OwnStack] at ho; subst ho; simp at hc
  | true, false, ho =>
    obtain ⟨M, rfl, hM, _⟩ := ho
    simp at hc; subst hc; simp [ckey, FrameInfo.key, hM.file, hM.func]
  | false, true, ho =>
    obtain ⟨C, rfl, hC, _⟩ := ho
    simp at hc; subst hc; simp [ckey, FrameInfo.key, hC.file, hC.func]
  | true, true, ho =>
    obtain ⟨C, M, rfl, hC, hM⟩ := ho
    simp at hc
    rcases hc with rfl | rfl
    · simp [ckey, FrameInfo.key, hC.1.file, hC.1.func]
    · simp [ckey, FrameInfo.key, hM.1.file, hM.1.func]

theorem step_exit_none (ncfg : Int) (acts : Event → List Action) (hk : KindsOK acts) (fi : FrameInfo)
    (kind : String) (hkind : kind = "return" ∨ kind = "exception") (n a : Int) (d : List Action)
    (stk : List Ctx) (hf : ∀ c ∈ stk, ckey c ≠ fi.key) :
    sstep ncfg acts stk (fi.ev kind n a d) = (stk, []) := by
  simpa using step_exit ncfg acts hk fi kind hkind n a d false false [] stk (by simp [OwnStack]) hf

theorem srun_cons (ncfg : Int) (acts : Event → List Action) (s : List Ctx) (ev : Event) (evs : List Event) :
    srun ncfg acts s (ev :: evs) =
      ((srun ncfg acts (sstep ncfg acts s ev).1 evs).1,
       (sstep ncfg acts s ev).2 ++ (srun ncfg acts (sstep ncfg acts s ev).1 evs).2) := rfl

theorem srun_nil (ncfg : Int) (acts : Event → List Action) (s : List Ctx) : srun ncfg acts s [] = (s, []) := rfl

mutual
theorem inv_frame (ncfg : Int) (acts : Event → List Action) (hk : KindsOK acts) (i : Inv) (p : List Nat)
    (stk : List Ctx) (hn : i.NoClash) (hs : i.NoStack (opensAt ncfg acts) p) (hd : Foreign stk i.keys) :
    (srun ncfg acts stk (i.flatten p)).1 = stk ∧ Scoped (srun ncfg acts stk (i.flatten p)).2 := by
  match i with
  | .mk path func frame ln den body exit =>
    simp only [Inv.NoClash] at hn
    simp only [Inv.NoStack] at hs
    simp only [Inv.keys] at hd
    have hf : ∀ c ∈ stk, ckey c ≠ (FrameInfo.mk path func frame p).key := by
      intro c hc h
      exact hd c hc (by rw [h]; exact List.mem_cons_self ..)
    have hdb : Foreign stk body.keys := fun c hc h => hd c hc (List.mem_cons_of_mem _ h)
    obtain ⟨o, w, hstep, ho, hw, _⟩ := step_call ncfg acts ⟨path, func, frame, p⟩ ln 0 den stk
    have := items_frame ncfg acts hk body ⟨path, func, frame, p⟩ 0 exit _ false o stk hn.2 hn.1 hs ho hf hdb
    simp only [Inv.flatten, srun_cons, hstep]
    exact ⟨this.1, hw.append this.2⟩

theorem items_frame (ncfg : Int) (acts : Event → List Action) (hk : KindsOK acts) (its : Items) (fi : FrameInfo)
    (k : Nat) (x : Exit) (m l : Bool) (o stk : List Ctx) (hn : its.NoClash) (hfi : fi.key ∉ its.keys)
    (hs : its.NoStack (opensAt ncfg acts) fi k x m l) (ho : OwnStack fi m l o)
    (hf : ∀ c ∈ stk, ckey c ≠ fi.key) (hd : Foreign stk its.keys) :
    (srun ncfg acts (o ++ stk) (its.flatten fi k ++ x.events fi)).1 = stk ∧
      Scoped (srun ncfg acts (o ++ stk) (its.flatten fi k ++ x.events fi)).2 := by
  match its with
  | .nil =>
    match x with
    | .ret n a =>
      simp only [Items.NoStack] at hs
      simp only [Items.flatten, Exit.events, List.nil_append, srun_cons, srun_nil,
        step_exit ncfg acts hk fi "return" (Or.inl rfl) n a [] m l o stk ho hf, ownstack_tail_nil ho hs,
        List.append_nil]
      exact ⟨trivial, scoped_head ho _ _ _ _⟩
    | .raise n a =>
      -- the exception event processes the top own context, the return event the one below it
      have ht := ownstack_tail ho
      have htt : o.tail.tail = [] := ownstack_tail_nil ht (by simp)
      simp only [Items.flatten, Exit.events, List.nil_append, srun_cons, srun_nil,
        step_exit ncfg acts hk fi "exception" (Or.inr rfl) n a [] m l o stk ho hf,
        step_exit ncfg acts hk fi "return" (Or.inl rfl) n 0 [] (m && l) false o.tail stk ht hf, htt,
        List.append_nil]
      exact ⟨trivial, (scoped_head ho _ _ _ _).append (scoped_head ht _ _ _ _)⟩
  | .line n den rest =>
    simp only [Items.NoClash] at hn
    simp only [Items.keys] at hfi hd
    simp only [Items.NoStack] at hs
    obtain ⟨o', w, hstep, ho', hw, _⟩ := step_line ncfg acts fi n 0 den m l o stk ho hf
    have := items_frame ncfg acts hk rest fi k x m _ o' stk hn hfi hs ho' hf hd
    simp only [Items.flatten, List.cons_append, srun_cons, hstep]
    exact ⟨this.1, hw.append this.2⟩
  | .caught n a rest =>
    simp only [Items.NoClash] at hn
    simp only [Items.keys] at hfi hd
    simp only [Items.NoStack] at hs
    -- the exception event processes the top own context only
    have ht := ownstack_tail ho
    have := items_frame ncfg acts hk rest fi k x (m && l) false o.tail stk hn hfi hs ht hf hd
    simp only [Items.flatten, List.cons_append, srun_cons,
      step_exit ncfg acts hk fi "exception" (Or.inr rfl) n a [] m l o stk ho hf]
    exact ⟨this.1, (scoped_head ho _ _ _ _).append this.2⟩
  | .call i rest =>
    simp only [Items.NoClash] at hn
    simp only [Items.keys, List.mem_append, not_or] at hfi
    simp only [Items.NoStack] at hs
    have hdi : Foreign (o ++ stk) i.keys := by
      intro c hc hmem
      rcases List.mem_append.mp hc with hc | hc
      · exact hfi.1 (own_key ho c hc ▸ hmem)
      · exact hd c hc (by simp [Items.keys, hmem])
    have hdr : Foreign stk rest.keys := fun c hc hmem => hd c hc (by simp [Items.keys, hmem])
    obtain ⟨hi1, hi2⟩ := inv_frame ncfg acts hk i (fi.inv ++ [k]) (o ++ stk) hn.1 hs.1 hdi
    have := items_frame ncfg acts hk rest fi (k + 1) x m l o stk hn.2 hfi.2 hs.2 ho hf hdr
    simp only [Items.flatten, List.append_assoc]
    rw [srun_append]
    simp only [hi1]
    exact ⟨this.1, hi2.append this.2⟩
end

/-! the same induction under the stricter hypothesis, which also yields *where* the call-opened context completes -/

mutual
theorem inv_frame_strict (ncfg : Int) (acts : Event → List Action) (hk : KindsOK acts) (i : Inv) (p : List Nat)
    (stk : List Ctx) (hn : i.NoClash) (hs : i.NoStackStrict (opensAt ncfg acts) p) (hd : Foreign stk i.keys) :
    (srun ncfg acts stk (i.flatten p)).1 = stk ∧ Scoped (srun ncfg acts stk (i.flatten p)).2 ∧
    (opensAt ncfg acts (i.callEvent p) = true →
      Eff.closed (newCtx (cbsAt ncfg acts (i.callEvent p)) (i.callEvent p)) (i.firstExit p)
        ∈ (srun ncfg acts stk (i.flatten p)).2) := by
  match i with
  | .mk path func frame ln den body exit =>
    simp only [Inv.NoClash] at hn
    simp only [Inv.NoStackStrict] at hs
    simp only [Inv.keys] at hd
    have hf : ∀ c ∈ stk, ckey c ≠ (FrameInfo.mk path func frame p).key := by
      intro c hc h
      exact hd c hc (by rw [h]; exact List.mem_cons_self ..)
    have hdb : Foreign stk body.keys := fun c hc h => hd c hc (List.mem_cons_of_mem _ h)
    obtain ⟨o, w, hstep, ho, hw, hopen⟩ := step_call ncfg acts ⟨path, func, frame, p⟩ ln 0 den stk
    have := items_frame_strict ncfg acts hk body ⟨path, func, frame, p⟩ 0 exit _ false o stk hn.2 hn.1 hs ho hf hdb
    simp only [Inv.flatten, srun_cons, hstep, Inv.callEvent, Inv.firstExit]
    refine ⟨this.1, hw.append this.2.1, ?_⟩
    intro hop
    refine List.mem_append_right _ (this.2.2 _ hop ?_ ?_)
    · rw [hopen hop]; exact List.mem_singleton.mpr rfl
    · rfl

theorem items_frame_strict (ncfg : Int) (acts : Event → List Action) (hk : KindsOK acts) (its : Items) (fi : FrameInfo)
    (k : Nat) (x : Exit) (m l : Bool) (o stk : List Ctx) (hn : its.NoClash) (hfi : fi.key ∉ its.keys)
    (hs : its.NoStackStrict (opensAt ncfg acts) fi k x m l) (ho : OwnStack fi m l o)
    (hf : ∀ c ∈ stk, ckey c ≠ fi.key) (hd : Foreign stk its.keys) :
    (srun ncfg acts (o ++ stk) (its.flatten fi k ++ x.events fi)).1 = stk ∧
      Scoped (srun ncfg acts (o ++ stk) (its.flatten fi k ++ x.events fi)).2 ∧
      (∀ M, m = true → M ∈ o → M.event = "call" →
        Eff.closed M (its.firstExit fi x) ∈ (srun ncfg acts (o ++ stk) (its.flatten fi k ++ x.events fi)).2) := by
  match its with
  | .nil =>
    simp only [Items.NoStackStrict] at hs
    have hnil : o.tail = [] := ownstack_tail_nil ho hs
    have hhead : ∀ M, m = true → M ∈ o → M.event = "call" → o.head? = some M :=
      fun M hm hM _ => own_head ho hs M hm hM
    match x with
    | .ret n a =>
      simp only [Items.flatten, Exit.events, List.nil_append, srun_cons, srun_nil,
        step_exit ncfg acts hk fi "return" (Or.inl rfl) n a [] m l o stk ho hf, hnil, List.append_nil]
      refine ⟨trivial, scoped_head ho _ _ _ _, ?_⟩
      intro M hm hM hMe
      simp [hhead M hm hM hMe, Items.firstExit]
    | .raise n a =>
      simp only [Items.flatten, Exit.events, List.nil_append, srun_cons, srun_nil,
        step_exit ncfg acts hk fi "exception" (Or.inr rfl) n a [] m l o stk ho hf, hnil,
        step_exit_none ncfg acts hk fi "return" (Or.inl rfl) n 0 [] stk hf,
        List.append_nil, List.nil_append]
      refine ⟨trivial, scoped_head ho _ _ _ _, ?_⟩
      intro M hm hM hMe
      simp [hhead M hm hM hMe, Items.firstExit]
  | .line n den rest =>
    simp only [Items.NoClash] at hn
    simp only [Items.keys] at hfi hd
    simp only [Items.NoStackStrict] at hs
    obtain ⟨o', w, hstep, ho', hw, hkeep⟩ := step_line ncfg acts fi n 0 den m l o stk ho hf
    have := items_frame_strict ncfg acts hk rest fi k x m _ o' stk hn hfi hs ho' hf hd
    simp only [Items.flatten, List.cons_append, srun_cons, hstep, Items.firstExit]
    refine ⟨this.1, hw.append this.2.1, ?_⟩
    intro M hm hM hMe
    exact List.mem_append_right _ (this.2.2 M hm (hkeep M hM hMe) hMe)
  | .caught n a rest =>
    simp only [Items.NoClash] at hn
    simp only [Items.keys] at hfi hd
    simp only [Items.NoStackStrict] at hs
    have hnil : o.tail = [] := ownstack_tail_nil ho hs.1
    have hhead : ∀ M, m = true → M ∈ o → M.event = "call" → o.head? = some M :=
      fun M hm hM _ => own_head ho hs.1 M hm hM
    have := items_frame_strict ncfg acts hk rest fi k x false false [] stk hn hfi hs.2 (by simp [OwnStack]) hf hd
    simp only [Items.flatten, List.cons_append, srun_cons,
      step_exit ncfg acts hk fi "exception" (Or.inr rfl) n a [] m l o stk ho hf, hnil, Items.firstExit]
    refine ⟨this.1, (scoped_head ho _ _ _ _).append this.2.1, ?_⟩
    intro M hm hM hMe
    apply List.mem_append_left
    simp [hhead M hm hM hMe]
  | .call i rest =>
    simp only [Items.NoClash] at hn
    simp only [Items.keys, List.mem_append, not_or] at hfi
    simp only [Items.NoStackStrict] at hs
    have hdi : Foreign (o ++ stk) i.keys := by
      intro c hc hmem
      rcases List.mem_append.mp hc with hc | hc
      · -- own contexts carry the key of this frame, which does not occur below
        have hkey : ckey c = fi.key := by
          match m, l, ho with
          | false, false, ho => simp only [OwnStack] at ho; subst ho; simp at hc
          | true, false, ho =>
            obtain ⟨M, rfl, hM, _⟩ := ho
            simp at hc; subst hc; simp [ckey, FrameInfo.key, hM.file, hM.func]
          | false, true, ho =>
            obtain ⟨C, rfl, hC, _⟩ := ho
            simp at hc; subst hc; simp [ckey, FrameInfo.key, hC.file, hC.func]
          | true, true, ho =>
            obtain ⟨C, M, rfl, hC, hM⟩ := ho
            simp at hc
            rcases hc with rfl | rfl
            · simp [ckey, FrameInfo.key, hC.1.file, hC.1.func]
            · simp [ckey, FrameInfo.key, hM.1.file, hM.1.func]
        exact hfi.1 (hkey ▸ hmem)
      · exact hd c hc (by simp [Items.keys, hmem])
    have hdr : Foreign stk rest.keys := fun c hc hmem => hd c hc (by simp [Items.keys, hmem])
    obtain ⟨hi1, hi2, _⟩ := inv_frame_strict ncfg acts hk i (fi.inv ++ [k]) (o ++ stk) hn.1 hs.1 hdi
    have := items_frame_strict ncfg acts hk rest fi (k + 1) x m l o stk hn.2 hfi.2 hs.2 ho hf hdr
    simp only [Items.flatten, List.append_assoc, Items.firstExit]
    rw [srun_append]
    simp only [hi1]
    refine ⟨this.1, hi2.append this.2.1, ?_⟩
    intro M hm hM hMe
    exact List.mem_append_right _ (this.2.2 M hm hM hMe)
end

/-- a thread's whole stream (a sequence of top-level invocations) -/
theorem forest_frame (ncfg : Int) (acts : Event → List Action) (hk : KindsOK acts) (is : List Inv) (k : Nat)
    (hn : forestNoClash is) (hs : forestNoStack (opensAt ncfg acts) is k) :
    (srun ncfg acts [] (flattenForest is k)).1 = [] ∧ Scoped (srun ncfg acts [] (flattenForest is k)).2 := by
  induction is generalizing k with
  | nil => exact ⟨rfl, Scoped.nil⟩
  | cons i is ih =>
    simp only [forestNoClash] at hn
    simp only [forestNoStack] at hs
    obtain ⟨h1, h2⟩ := inv_frame ncfg acts hk i [k] [] hn.1 hs.1 (by intro c hc; simp at hc)
    have := ih (k + 1) hn.2 hs.2
    simp only [flattenForest]
    rw [srun_append]
    simp only [h1]
    exact ⟨this.1, h2.append this.2⟩

/-! ### the Boolean mirrors decide the hypotheses -/

mutual
theorem noClashB_iff (i : Inv) : i.noClashB = true ↔ i.NoClash := by
  match i with
  | .mk path func frame ln den body exit =>
    simp only [Inv.noClashB, Inv.NoClash, Bool.and_eq_true, Bool.not_eq_true', List.contains_eq_mem,
      decide_eq_false_iff_not, itemsNoClashB_iff body]
theorem itemsNoClashB_iff (its : Items) : its.noClashB = true ↔ its.NoClash := by
  match its with
  | .nil => simp [Items.noClashB, Items.NoClash]
  | .line n d rest => simp only [Items.noClashB, Items.NoClash, itemsNoClashB_iff rest]
  | .caught n a rest => simp only [Items.noClashB, Items.NoClash, itemsNoClashB_iff rest]
  | .call i rest =>
    simp only [Items.noClashB, Items.NoClash, Bool.and_eq_true, noClashB_iff i, itemsNoClashB_iff rest]
end

mutual
theorem noStackB_iff (opens : Event → Bool) (i : Inv) (p : List Nat) :
    i.noStackB opens p = true ↔ i.NoStack opens p := by
  match i with
  | .mk path func frame ln den body exit =>
    simp only [Inv.noStackB, Inv.NoStack, itemsNoStackB_iff opens body]
theorem itemsNoStackB_iff (opens : Event → Bool) (its : Items) (fi : FrameInfo) (k : Nat) (x : Exit) (m l : Bool) :
    its.noStackB opens fi k x m l = true ↔ its.NoStack opens fi k x m l := by
  match its with
  | .nil => cases x <;> cases m <;> cases l <;> simp [Items.noStackB, Items.NoStack]
  | .line n d rest => simp only [Items.noStackB, Items.NoStack, itemsNoStackB_iff opens rest]
  | .caught n a rest => simp only [Items.noStackB, Items.NoStack, itemsNoStackB_iff opens rest]
  | .call i rest =>
    simp only [Items.noStackB, Items.NoStack, Bool.and_eq_true, noStackB_iff opens i, itemsNoStackB_iff opens rest]
end

end Callbacks
