/- serialised threads behave like a sequential history (used by Props/C04) -/
import DeepModel.Proofs.Limiter

namespace Limiter
open Extracted.Limiter

/-- check…record of each listed thread runs without another thread in between -/
def serialSched : List Nat → List Nat
  | [] => []
  | i :: is => i :: i :: i :: serialSched is

theorem Conc.run_cons (c : Cfg) (s : Conc) (i : Nat) (is : List Nat) :
    Conc.run c s (i :: is) = Conc.run c (Conc.stepThr c s i) is := by
  simp [Conc.run]

/-- one thread's three regions, run back to back from `check` -/
theorem Conc.block (c : Cfg) (s : Conc) (i : Nat) (t : Int)
    (h : s.thrs[i]? = some ⟨.check, t⟩) :
    Conc.run c s [i, i, i] =
      ⟨(stepHit c s.st ⟨t, true⟩).1, s.thrs.set i ⟨.done, t⟩,
        s.collected + (if (stepHit c s.st ⟨t, true⟩).2 then 1 else 0)⟩ := by
  have hi : i < s.thrs.length := by
    rcases Nat.lt_or_ge i s.thrs.length with h' | h'
    · exact h'
    · rw [List.getElem?_eq_none_iff.mpr h'] at h; cases h
  cases ha : allowed c s.st t with
  | true =>
    simp [Conc.run, Conc.stepThr, h, ha, stepHit, List.getElem?_set_self hi]
  | false =>
    simp [Conc.run, Conc.stepThr, h, ha, stepHit, List.getElem?_set_self hi]

theorem serial_run (c : Cfg) (f : Nat → Int) :
    ∀ (order : List Nat) (s : Conc), order.Nodup →
      (∀ j ∈ order, s.thrs[j]? = some ⟨.check, f j⟩) →
      (Conc.run c s (serialSched order)).st =
          (runFrom c s.st (order.map (fun j => (⟨f j, true⟩ : Hit)))).1 ∧
      (Conc.run c s (serialSched order)).collected =
          s.collected + (runFrom c s.st (order.map (fun j => (⟨f j, true⟩ : Hit)))).2.length := by
  intro order
  induction order with
  | nil => intro s _ _; simp [serialSched, Conc.run, runFrom]
  | cons i rest ih =>
    intro s hnd hthr
    have hi := hthr i (List.mem_cons_self ..)
    have hblock := Conc.block c s i (f i) hi
    have hsplit : Conc.run c s (serialSched (i :: rest)) =
        Conc.run c (Conc.run c s [i, i, i]) (serialSched rest) := by
      simp [serialSched, Conc.run]
    rw [hsplit, hblock]
    have hnd' := (List.nodup_cons.mp hnd)
    have hrest : ∀ j ∈ rest, (s.thrs.set i ⟨.done, f i⟩)[j]? = some ⟨.check, f j⟩ := by
      intro j hj
      have hne : i ≠ j := fun e => hnd'.1 (e ▸ hj)
      rw [List.getElem?_set_ne hne]
      exact hthr j (List.mem_cons_of_mem _ hj)
    have := ih ⟨(stepHit c s.st ⟨f i, true⟩).1, s.thrs.set i ⟨.done, f i⟩,
        s.collected + (if (stepHit c s.st ⟨f i, true⟩).2 then 1 else 0)⟩ hnd'.2 hrest
    simp only [List.map_cons, runFrom]
    refine ⟨this.1, ?_⟩
    rw [this.2]
    cases (stepHit c s.st ⟨f i, true⟩).2 <;> simp <;> omega

end Limiter
