/- helper lemmas about `Model.Metric` (property theorems live in Props/C17) -/
import DeepModel.Model.Metric
import DeepModel.Proofs.ActionCtx

namespace Metric
open Extracted.Expr Extracted.Limiter

/-- with the guard the source has, the inner loop is never left early -/
theorem procLoop_not_aborted (ev : String → Outcome) (d : MDef) (k : Nat) (ps : List Proc) :
    ∀ j, (procLoop ev d k j ps).2 = false := by
  induction ps with
  | nil => intro j; rfl
  | cons p ps ih =>
    intro j
    simp only [procLoop]
    split
    · exact ih (j + 1)
    · simp only [processorCallGuard, Option.isSome_some, if_true]
      exact ih (j + 1)

theorem procLoop_cons (ev : String → Outcome) (d : MDef) (k j : Nat) (p : Proc) (ps : List Proc) :
    (procLoop ev d k j (p :: ps)).1 =
      (if validOp (convertType d.type) && !p.fails.contains k then [callOf ev d j] else [])
        ++ (procLoop ev d k (j + 1) ps).1 := by
  simp only [procLoop]
  split
  · simp
  · simp [processorCallGuard]

/-- no faults, valid type: every processor is called once, in order -/
theorem procLoop_all (ev : String → Outcome) (d : MDef) (k : Nat) (hv : validOp (convertType d.type) = true)
    (ps : List Proc) (hf : ∀ p ∈ ps, p.fails = []) :
    ∀ j, (procLoop ev d k j ps).1 = (List.range' j ps.length).map (callOf ev d) := by
  induction ps with
  | nil => intro j; rfl
  | cons p ps ih =>
    intro j
    have hp : p.fails = [] := hf p (List.mem_cons_self ..)
    rw [procLoop_cons, ih (fun q hq => hf q (List.mem_cons_of_mem _ hq)) (j + 1)]
    simp [hv, hp, List.range'_succ]

/-- an operation the processors do not have: nothing is called -/
theorem procLoop_invalid (ev : String → Outcome) (d : MDef) (k : Nat) (hv : validOp (convertType d.type) = false)
    (ps : List Proc) : ∀ j, (procLoop ev d k j ps).1 = [] := by
  induction ps with
  | nil => intro j; rfl
  | cons p ps ih => intro j; rw [procLoop_cons, ih (j + 1)]; simp [hv]

theorem metricLoop_cons (ev : String → Outcome) (procs : List Proc) (k : Nat) (d : MDef) (ds : List MDef) :
    metricLoop ev procs k (d :: ds) =
      (procLoop ev d k 0 procs).1 ++ metricLoop ev procs (if validOp (convertType d.type) then k + 1 else k) ds := by
  simp only [metricLoop, procLoop_not_aborted]
  simp

/-- calls one processor receives in the inner loop depend on that processor's own faults only -/
theorem procLoop_isolated (ev : String → Outcome) (d : MDef) (k q : Nat) (ps : List Proc) :
    ∀ (ps' : List Proc) (j : Nat), ps.length = ps'.length →
      (∀ i p p', ps[i]? = some p → ps'[i]? = some p' → j + i = q → p.fails = p'.fails) →
      callsTo q (procLoop ev d k j ps).1 = callsTo q (procLoop ev d k j ps').1 := by
  induction ps with
  | nil =>
    intro ps' j hl _
    cases ps' with
    | nil => rfl
    | cons _ _ => simp at hl
  | cons p ps ih =>
    intro ps' j hl hq
    cases ps' with
    | nil => simp at hl
    | cons p' ps' =>
      simp only [List.length_cons, Nat.add_right_cancel_iff] at hl
      rw [procLoop_cons, procLoop_cons]
      unfold callsTo
      rw [List.filter_append, List.filter_append]
      have htail := ih ps' (j + 1) hl (by
        intro i a b ha hb hji
        exact hq (i + 1) a b (by simpa using ha) (by simpa using hb) (by omega))
      unfold callsTo at htail
      rw [htail]
      congr 1
      by_cases hj : j = q
      · have := hq 0 p p' (by simp) (by simp) (by omega)
        rw [this]
      · have hne : (callOf ev d j).proc = j := rfl
        split <;> split <;> simp [callOf, hj]

theorem metricLoop_isolated (ev : String → Outcome) (q : Nat) (procs procs' : List Proc)
    (hl : procs.length = procs'.length)
    (hq : ∀ p p', procs[q]? = some p → procs'[q]? = some p' → p.fails = p'.fails) (ds : List MDef) :
    ∀ k, callsTo q (metricLoop ev procs k ds) = callsTo q (metricLoop ev procs' k ds) := by
  induction ds with
  | nil => intro k; rfl
  | cons d ds ih =>
    intro k
    rw [metricLoop_cons, metricLoop_cons]
    unfold callsTo
    rw [List.filter_append, List.filter_append]
    have h1 := procLoop_isolated ev d k q procs procs' 0 hl (by
      intro i a b ha hb hi
      have : i = q := by omega
      subst this
      exact hq a b ha hb)
    have h2 := ih (if validOp (convertType d.type) then k + 1 else k)
    unfold callsTo at h1 h2
    rw [h1, h2]

/-- no faults: every valid metric × every processor, once, metrics in order, processors in order -/
theorem metricLoop_all (ev : String → Outcome) (procs : List Proc) (hf : ∀ p ∈ procs, p.fails = [])
    (ds : List MDef) : ∀ k,
    metricLoop ev procs k ds =
      (ds.filter (fun d => validOp (convertType d.type))).flatMap
        (fun d => (List.range procs.length).map (callOf ev d)) := by
  induction ds with
  | nil => intro k; rfl
  | cons d ds ih =>
    intro k
    rw [metricLoop_cons, ih]
    cases hv : validOp (convertType d.type) with
    | true =>
      rw [procLoop_all ev d k hv procs hf 0]
      simp [hv, List.range_eq_range']
    | false =>
      rw [procLoop_invalid ev d k hv procs 0]
      simp [hv]

end Metric
