/- under immediate hand-over the delayed model is Model/LimiterInstall's (Props/C04) -/
import DeepModel.Proofs.LimiterInstall
import DeepModel.Model.LimiterHandOver

set_option linter.unusedSimpArgs false

namespace Limiter
open Extracted.Limiter

def Op.isHit : Op → Bool
  | .hit _ => true
  | _ => false

/-- a configuration operation followed by its hand-over is `stepOp` -/
theorem cfg_applied (c : Cfg) (o : Origin) (s : Option Stats) (op : Op) (hn : op.isHit = false) :
    resolve s (compose .same (effect c o (svInstalled s .same) op)) = (stepOp c o s op).1 ∧
    (stepOp c o s op).2 = none := by
  have hm : (marked == marked) = true := by decide
  have hi : (Stats.init == marked) = false := by decide
  cases op with
  | hit h => simp [Op.isHit] at hn
  | update present =>
    cases o <;> cases present <;> cases s <;> simp [stepOp, effect, compose, svInstalled, resolve, hm, hi]
  | noChange => cases o <;> cases s <;> simp [stepOp, effect, compose, svInstalled, resolve, hm, hi]
  | otherCustom => cases o <;> cases s <;> simp [stepOp, effect, compose, svInstalled, resolve, hm, hi]
  | register => cases o <;> cases s <;> simp [stepOp, effect, compose, svInstalled, resolve, hm, hi]
  | unregister => cases o <;> cases s <;> simp [stepOp, effect, compose, svInstalled, resolve, hm, hi]

theorem runOpsD_atOnce (c : Cfg) (o : Origin) : ∀ (n : Nat) (ds : List OpD), ds.length ≤ n → ∀ (s : Option Stats),
    atOnce ds = true → runOpsDFrom c o s .same ds = runOpsFrom c o s (stripD ds) := by
  intro n
  induction n with
  | zero =>
    intro ds hl s _
    have : ds = [] := List.length_eq_zero_iff.mp (by omega)
    subst this; simp [runOpsDFrom, stripD, runOpsFrom]
  | succ n ih =>
    intro ds hl s ha
    match ds, hl, ha with
    | [], _, _ => simp [runOpsDFrom, stripD, runOpsFrom]
    | .applied :: r, hl, ha =>
      have := ih r (by simp at hl; omega) s (by simpa [atOnce] using ha)
      simpa [runOpsDFrom, stepD, stripD, outOf, resolve] using this
    | .op (.hit h) :: r, hl, ha =>
      have := ih r (by simp at hl; omega) (stepOp c o s (.hit h)).1 (by simpa [atOnce] using ha)
      simp only [runOpsDFrom, stepD, stripD, List.filterMap_cons, runOpsFrom] at this ⊢
      rw [this]
    | .op (.update p) :: .applied :: r, hl, ha =>
      obtain ⟨h1, h2⟩ := cfg_applied c o s (.update p) rfl
      have := ih r (by simp at hl; omega) (stepOp c o s (.update p)).1 (by simpa [atOnce] using ha)
      simp only [runOpsDFrom, stepD, stripD, List.filterMap_cons, runOpsFrom, outOf, List.nil_append, h2] at this ⊢
      rw [h1, this]
    | .op .noChange :: .applied :: r, hl, ha =>
      obtain ⟨h1, h2⟩ := cfg_applied c o s .noChange rfl
      have := ih r (by simp at hl; omega) (stepOp c o s .noChange).1 (by simpa [atOnce] using ha)
      simp only [runOpsDFrom, stepD, stripD, List.filterMap_cons, runOpsFrom, outOf, List.nil_append, h2] at this ⊢
      rw [h1, this]
    | .op .otherCustom :: .applied :: r, hl, ha =>
      obtain ⟨h1, h2⟩ := cfg_applied c o s .otherCustom rfl
      have := ih r (by simp at hl; omega) (stepOp c o s .otherCustom).1 (by simpa [atOnce] using ha)
      simp only [runOpsDFrom, stepD, stripD, List.filterMap_cons, runOpsFrom, outOf, List.nil_append, h2] at this ⊢
      rw [h1, this]
    | .op .register :: .applied :: r, hl, ha =>
      obtain ⟨h1, h2⟩ := cfg_applied c o s .register rfl
      have := ih r (by simp at hl; omega) (stepOp c o s .register).1 (by simpa [atOnce] using ha)
      simp only [runOpsDFrom, stepD, stripD, List.filterMap_cons, runOpsFrom, outOf, List.nil_append, h2] at this ⊢
      rw [h1, this]
    | .op .unregister :: .applied :: r, hl, ha =>
      obtain ⟨h1, h2⟩ := cfg_applied c o s .unregister rfl
      have := ih r (by simp at hl; omega) (stepOp c o s .unregister).1 (by simpa [atOnce] using ha)
      simp only [runOpsDFrom, stepD, stripD, List.filterMap_cons, runOpsFrom, outOf, List.nil_append, h2] at this ⊢
      rw [h1, this]
    | [.op (.update _)], _, ha => simp [atOnce] at ha
    | [.op .noChange], _, ha => simp [atOnce] at ha
    | [.op .otherCustom], _, ha => simp [atOnce] at ha
    | [.op .register], _, ha => simp [atOnce] at ha
    | [.op .unregister], _, ha => simp [atOnce] at ha
    | .op (.update _) :: .op _ :: _, _, ha => simp [atOnce] at ha
    | .op .noChange :: .op _ :: _, _, ha => simp [atOnce] at ha
    | .op .otherCustom :: .op _ :: _, _, ha => simp [atOnce] at ha
    | .op .register :: .op _ :: _, _, ha => simp [atOnce] at ha
    | .op .unregister :: .op _ :: _, _, ha => simp [atOnce] at ha

end Limiter
