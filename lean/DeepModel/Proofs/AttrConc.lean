/-
  Proofs/AttrConc — every schedule of lock-protected writers is a serial order (the order of passing the lock).
-/
import DeepModel.Model.AttrConc
open Attr Extracted.Attributes Attributes AttrConc

namespace AttrConcProofs

theorem run_append (st : BA) (a b : List Op) :
    run st (a ++ b) = ((run (run st a).1 b).1, (run st a).2 ++ (run (run st a).1 b).2) := by
  induction a generalizing st with
  | nil => simp [run]
  | cons op a ih =>
    simp only [List.cons_append, run]
    rw [ih]

theorem final_snoc (st : BA) (log : List Op) (w : Op) : final st (log ++ [w]) = (step (final st log) w).1 := by
  simp [final, run_append, run]

/-- invariant of a concurrent run: the shared state is the serial run of the log -/
def Serial (st0 : BA) (s : Conc) : Prop := s.st = final st0 s.log

theorem stepThr_serial (ws : List Op) (st0 : BA) (s : Conc) (i : Nat) (h : Serial st0 s) :
    Serial st0 (Conc.stepThr ws s i) ∧ (∀ w ∈ (Conc.stepThr ws s i).log, w ∈ s.log ∨ w ∈ ws) := by
  unfold Conc.stepThr
  split
  · split
    · exact ⟨h, fun w hw => Or.inl hw⟩
    · exact ⟨h, fun w hw => Or.inl hw⟩
  · rename_i w _ hw _
    refine ⟨?_, ?_⟩
    · simp only [Serial]
      rw [final_snoc, ← h]
    · intro x hx
      simp only [List.mem_append, List.mem_singleton] at hx
      rcases hx with hx | hx
      · exact Or.inl hx
      · subst hx; exact Or.inr (List.mem_of_getElem? hw)
  · exact ⟨h, fun w hw => Or.inl hw⟩

theorem run_serial (ws : List Op) (st0 : BA) (sched : List Nat) : ∀ (s : Conc), Serial st0 s →
    (∀ w ∈ s.log, w ∈ ws) →
    Serial st0 (Conc.run ws s sched) ∧ (∀ w ∈ (Conc.run ws s sched).log, w ∈ ws) := by
  induction sched with
  | nil => intro s h hl; exact ⟨h, hl⟩
  | cons i sched ih =>
    intro s h hl
    have ⟨h1, h2⟩ := stepThr_serial ws st0 s i h
    simp only [Conc.run, List.foldl_cons]
    exact ih _ h1 (fun w hw => (h2 w hw).elim (hl w) id)

end AttrConcProofs
