/-
  Proofs/AttrConc — every schedule of lock-protected writers is a serial order of their item-level operations (the
  order of passing the lock), and each writer's operations appear in it in program order.
-/
import DeepModel.Model.AttrConc
open Attr Extracted.Attributes Attributes AttrConc

namespace AttrConcProofs

theorem run_append (st : BA) (a b : List Op) :
    run st (a ++ b) = ((run (run st a).1 b).1, (run st a).2 ++ (run (run st a).1 b).2) := by
  induction a generalizing st with
  | nil => simp [run]
  | cons op a ih =>
    simp only [List.cons_append, run]
    rw [ih]

theorem final_snoc (st : BA) (log : List Op) (w : Op) : final st (log ++ [w]) = (step (final st log) w).1 := by
  simp [final, run_append, run]

/-- invariant of a concurrent run started in `s0`: the shared state is the serial run of the log, and for every
    writer "what it committed, followed by what it still has to do" is its program -/
structure Inv (st0 : BA) (s0 s : Conc) : Prop where
  serial : s.st = final st0 (s.log.map (·.2))
  len : s.thrs.length = s0.thrs.length
  prog : ∀ i t t0, s.thrs[i]? = some t → s0.thrs[i]? = some t0 → s.committed i ++ t.rem = t0.rem

theorem filt_same (log : List (Nat × Op)) (i : Nat) (op : Op) :
    ((log ++ [(i, op)]).filter (fun e => e.1 == i)).map (·.2) = (log.filter (fun e => e.1 == i)).map (·.2) ++ [op] := by
  simp [List.filter_append]

theorem filt_other (log : List (Nat × Op)) (i j : Nat) (op : Op) (h : i ≠ j) :
    ((log ++ [(i, op)]).filter (fun e => e.1 == j)).map (·.2) = (log.filter (fun e => e.1 == j)).map (·.2) := by
  have : (i == j) = false := by simpa using h
  simp [List.filter_append, this]

theorem stepThr_inv (st0 : BA) (s0 s : Conc) (i : Nat) (h : Inv st0 s0 s) : Inv st0 s0 (Conc.stepThr s i) := by
  unfold Conc.stepThr
  split
  · exact h
  · rename_i t ht
    split
    · exact h
    · split
      · exact h
      · rename_i op rest hrem
        split
        · -- outside the lock: only thread i's flags change
          have key : ∀ (t' : Thr), t'.rem = t.rem →
              Inv st0 s0 { s with thrs := s.thrs.set i t' } := by
            intro t' hr
            refine ⟨h.serial, by simp [h.len], ?_⟩
            intro j tj t0 hj h0
            simp only [List.getElem?_set] at hj
            by_cases hij : i = j
            · subst hij
              have hlt : i < s.thrs.length := by
                rcases List.getElem?_eq_some_iff.mp ht with ⟨hl, _⟩; exact hl
              simp only [hlt, if_true] at hj
              cases hj
              rw [hr]
              exact h.prog i t t0 ht h0
            · simp only [hij, if_false] at hj
              exact h.prog j tj t0 hj h0
          split
          · exact key _ rfl
          · exact key _ rfl
        · -- inside the lock: the operation is applied and logged
          refine ⟨?_, by simp [h.len], ?_⟩
          · simp only [List.map_append, List.map_cons, List.map_nil]
            rw [final_snoc, ← h.serial]
          · intro j tj t0 hj h0
            simp only [List.getElem?_set] at hj
            by_cases hij : i = j
            · subst hij
              have hlt : i < s.thrs.length := by
                rcases List.getElem?_eq_some_iff.mp ht with ⟨hl, _⟩; exact hl
              simp only [hlt, if_true] at hj
              cases hj
              have hp := h.prog i t t0 ht h0
              rw [hrem] at hp
              simp only [Conc.committed] at hp ⊢
              rw [filt_same, List.append_assoc]
              exact hp
            · simp only [hij, if_false] at hj
              have hp := h.prog j tj t0 hj h0
              simp only [Conc.committed] at hp ⊢
              rw [filt_other _ _ _ _ hij]
              exact hp

theorem run_inv (st0 : BA) (s0 : Conc) (sched : List Nat) : ∀ (s : Conc), Inv st0 s0 s →
    Inv st0 s0 (Conc.run s sched) := by
  induction sched with
  | nil => intro s h; exact h
  | cons i sched ih =>
    intro s h
    simp only [Conc.run, List.foldl_cons]
    exact ih _ (stepThr_inv st0 s0 s i h)

theorem init_inv (st : BA) (ws : List Op) : Inv st (Conc.init st ws) (Conc.init st ws) := by
  refine ⟨rfl, rfl, ?_⟩
  intro i t t0 h1 h2
  rw [h1] at h2
  cases h2
  simp [Conc.committed, Conc.init]

end AttrConcProofs
