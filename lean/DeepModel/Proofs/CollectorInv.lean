/-
  Proofs/CollectorInv — the invariant of one search (`RInv`), for every heap, every limits, any starting cache and
  table:  variable count within budget + 1, identity cache injective both ways with ids 1..n, table entries unique per
  object and per id and consistent with the cache, every child reference consistent with the cache, depths within
  the depth limit.  No hypothesis on the heap (cycles, sharing, failing objects all allowed).
-/
import DeepModel.Proofs.CollectorTerm

namespace Collector
open Heap Extracted.Collector

/-- the identity cache maps distinct objects to distinct ids, ids are 1..n -/
def CacheOK (c : Cache) : Prop :=
  c.Pairwise (fun a b => a.1 ≠ b.1 ∧ a.2 ≠ b.2) ∧ ∀ p ∈ c, 1 ≤ p.2 ∧ p.2 ≤ c.length

theorem pairwise_mem {α : Type} {R : α → α → Prop} (hs : ∀ a b, R a b → R b a) {l : List α} (h : l.Pairwise R)
    {a b : α} (ha : a ∈ l) (hb : b ∈ l) : a = b ∨ R a b := by
  induction l with
  | nil => simp at ha
  | cons x l ih =>
    rw [List.pairwise_cons] at h
    rcases List.mem_cons.mp ha with rfl | ha' <;> rcases List.mem_cons.mp hb with rfl | hb'
    · left; rfl
    · right; exact h.1 b hb'
    · right; exact hs _ _ (h.1 a ha')
    · exact ih h.2 ha' hb'

theorem CacheOK.obj_inj {c : Cache} (h : CacheOK c) {o o' : ObjId} {v : Nat} (h1 : (o, v) ∈ c) (h2 : (o', v) ∈ c) :
    o = o' := by
  rcases pairwise_mem (fun a b h => ⟨fun e => h.1 e.symm, fun e => h.2 e.symm⟩) h.1 h1 h2 with e | r
  · exact (Prod.mk.inj e).1
  · exact absurd rfl r.2

theorem CacheOK.id_inj {c : Cache} (h : CacheOK c) {o : ObjId} {v v' : Nat} (h1 : (o, v) ∈ c) (h2 : (o, v') ∈ c) :
    v = v' := by
  rcases pairwise_mem (fun a b h => ⟨fun e => h.1 e.symm, fun e => h.2 e.symm⟩) h.1 h1 h2 with e | r
  · exact (Prod.mk.inj e).2
  · exact absurd rfl r.1

theorem CacheOK.lookup {c : Cache} (h : CacheOK c) {o : ObjId} {v : Nat} (hm : (o, v) ∈ c) : lookupId c o = some v := by
  cases hl : lookupId c o with
  | none => exact absurd rfl (lookupId_none_iff.mp hl _ hm)
  | some v' => rw [h.id_inj (lookupId_some_mem hl) hm]

theorem CacheOK.append {c : Cache} (h : CacheOK c) {o : ObjId} (hn : lookupId c o = none) :
    CacheOK (c ++ [(o, c.length + 1)]) := by
  refine ⟨?_, ?_⟩
  · rw [List.pairwise_append]
    refine ⟨h.1, by simp, ?_⟩
    intro a ha b hb
    simp only [List.mem_singleton] at hb
    subst hb
    exact ⟨lookupId_none_iff.mp hn a ha, by have := (h.2 a ha).2; simp only; omega⟩
  · intro p hp
    simp only [List.mem_append, List.mem_singleton] at hp
    simp only [List.length_append, List.length_cons, List.length_nil]
    rcases hp with hp | rfl
    · have := h.2 p hp; omega
    · simp

theorem CacheOK.nil : CacheOK [] := ⟨List.Pairwise.nil, by simp⟩

/-- two entries never describe the same object or carry the same id -/
def TablePair (t : List Entry) : Prop := t.Pairwise (fun a b => a.obj ≠ b.obj ∧ a.vid ≠ b.vid)

theorem tablePair_addChild {p : Nat} {c : VarId} {t : List Entry} (h : TablePair t) : TablePair (addChild p c t) := by
  unfold TablePair addChild
  rw [List.pairwise_map]
  refine h.imp ?_
  intro a b hab
  by_cases ha : a.vid = p <;> by_cases hb : b.vid = p <;> simpa [ha, hb] using hab

/-- node depths / entry depths allowed by the depth limit (`0` is always allowed: the root is always recorded) -/
def DepthOK (L : Limits) (d : Nat) : Prop := d = 0 ∨ d < L.maxDepth

/-- children found for a value recorded at depth `d`: one level deeper, attached to that entry, and only when
    `d + 1` is below the depth limit -/
theorem childNodes_meta (L : Limits) (pvid : Nat) (o : PyObj) (d : Nat) (cs : List Node)
    (h : childNodes L pvid o d = .ok cs) : ∀ c ∈ cs, c.depth = d + 1 ∧ c.parent = some pvid ∧ d + 1 < L.maxDepth := by
  rcases childNodes_ok_cases h with rfl | ⟨hd, h⟩
  · simp
  · have hlt : d + 1 < L.maxDepth := by
      have h1 : ¬ (L.maxDepth ≤ d + 1) := fun hle => by
        rw [(depthStop_iff d L.maxDepth).mpr hle] at hd; simp at hd
      omega
    have hfin : ∀ c ∈ cs, c.depth = d + 1 ∧ c.parent = some pvid := by
      have key : ∀ (bs : List Branch) (cs : List Node), branchChildren L pvid (d + 1) o bs = .ok cs →
          ∀ c ∈ cs, c.depth = d + 1 ∧ c.parent = some pvid := by
        intro bs
        have hlist : ∀ (xs : List ObjId) (t : Nat), ∀ c ∈ listChildrenFrom L.maxColl pvid (d + 1) xs t,
            c.depth = d + 1 ∧ c.parent = some pvid := by
          intro xs
          induction xs with
          | nil => intro t c hc; simp [listChildrenFrom] at hc
          | cons x xs ih =>
            intro t c hc
            unfold listChildrenFrom at hc
            split at hc
            · simp at hc
            · rcases List.mem_cons.mp hc with rfl | hc
              · simp
              · exact ih _ c hc
        have hdict : ∀ (f : String → String) (items : List (Key × ObjId)), ∀ c ∈ dictChildren f pvid (d + 1) items,
            c.depth = d + 1 ∧ c.parent = some pvid := by
          intro f items c hc
          simp only [dictChildren, List.mem_map] at hc
          obtain ⟨kv, _, rfl⟩ := hc
          simp
        induction bs with
        | nil => intro cs h; simp [branchChildren] at h; subst h; simp
        | cons b bs ih =>
          intro cs h
          cases b with
          | dictExact =>
            simp only [branchChildren] at h
            split at h
            · simp only [Except.ok.injEq] at h; subst h; exact hdict _ _
            · exact ih cs h
          | listLike =>
            simp only [branchChildren] at h
            split at h
            · cases hs : o.seq with
              | ok xs => simp only [hs, probeList, Except.ok.injEq] at h; subst h; exact hlist _ _
              | raises m => simp [hs, probeList] at h
            · exact ih cs h
          | isException =>
            simp only [branchChildren] at h
            cases he : o.isExc with
            | raises m => simp [he] at h
            | ok b =>
              cases b with
              | true =>
                simp only [he] at h
                cases hs : o.excArgs with
                | ok xs => simp only [hs, probeList, Except.ok.injEq] at h; subst h; exact hlist _ _
                | raises m => simp [hs, probeList] at h
              | false => simp only [he] at h; exact ih cs h
          | hasDict =>
            simp only [branchChildren] at h
            cases he : o.hasDict with
            | raises m => simp [he] at h
            | ok b =>
              cases b with
              | true =>
                simp only [he] at h
                cases hs : o.attrs with
                | ok xs => simp only [hs, probeList, Except.ok.injEq] at h; subst h; exact hdict _ _
                | raises m => simp [hs, probeList] at h
              | false => simp only [he] at h; exact ih cs h
      exact key childBranches cs h
    intro c hc
    exact ⟨(hfin c hc).1, (hfin c hc).2, hlt⟩

/-- invariant of a search started from cache `c0` -/
structure RInv (L : Limits) (c0 : Cache) (s : BState) : Prop where
  ext : ∃ suf, s.cache = c0 ++ suf
  count : s.cache.length ≤ L.maxVars + 1
  stop : s.stopped = true → L.maxVars < s.cache.length
  cok : CacheOK s.cache
  qdepth : ∀ n ∈ s.queue, DepthOK L n.depth
  tdepth : ∀ e ∈ s.table, DepthOK L e.depth
  tpair : TablePair s.table
  tcache : ∀ e ∈ s.table, (e.obj, e.vid) ∈ s.cache
  refs : ∀ e ∈ s.table, ∀ r ∈ e.children, (r.obj, r.vid) ∈ s.cache
  roots : ∀ r ∈ s.rootIds, (r.obj, r.vid) ∈ s.cache

theorem mem_append_left' {c : Cache} {x : ObjId × Nat} (p : ObjId × Nat) (h : x ∈ c) : x ∈ c ++ [p] :=
  List.mem_append_left _ h

/-- the state after a new object was recorded (before the work list is updated) -/
def recState (H : Heap) (L : Limits) (s : BState) (n : Node) (text : String) : BState :=
  attach n.parent (mkRef n (newId s.cache))
    { s with cache := s.cache ++ [(n.obj, newId s.cache)],
             table := s.table ++ [mkEntry L (newId s.cache) (H.obj n.obj) text n],
             popped := s.popped ++ [n], recorded := s.recorded ++ [(n, newId s.cache)] }

theorem mem_recState_table {H : Heap} {L : Limits} {s : BState} {n : Node} {text : String} {e : Entry}
    (he : e ∈ (recState H L s n text).table) :
    (∃ e0 ∈ s.table, e.vid = e0.vid ∧ e.obj = e0.obj ∧ e.depth = e0.depth ∧
        (e.children = e0.children ∨ e.children = e0.children ++ [mkRef n (newId s.cache)])) ∨
    (e.vid = newId s.cache ∧ e.obj = n.obj ∧ e.depth = n.depth ∧
        (e.children = [] ∨ e.children = [mkRef n (newId s.cache)])) := by
  obtain ⟨e0, he0, hv, ho, hd, _, _, _, hch⟩ := mem_attach_table he
  simp only [List.mem_append, List.mem_singleton] at he0
  rcases he0 with he0 | rfl
  · left; exact ⟨e0, he0, hv, ho, hd, hch⟩
  · right; exact ⟨hv, ho, hd, by simpa [mkEntry] using hch⟩

theorem record_rinv {H : Heap} {L : Limits} {c0 : Cache} {s : BState} (h : RInv L c0 s) (n : Node)
    (hn : n ∈ s.queue) (hb : budgetOk L s.cache = true) (hl : lookupId s.cache n.obj = none) (text : String)
    (q' : List Node) (hq' : ∀ x ∈ q', DepthOK L x.depth) (f' : Option String) :
    RInv L c0 { recState H L s n text with queue := q', failed := f' } := by
  have hle := (budgetOk_iff L s.cache).mp hb
  obtain ⟨suf, hsuf⟩ := h.ext
  have hid := newId_eq s.cache
  have hnew : (n.obj, newId s.cache) ∈ s.cache ++ [(n.obj, newId s.cache)] := by simp
  refine ⟨⟨suf ++ [(n.obj, newId s.cache)], by simp [recState, hsuf]⟩, by simp [recState]; omega, ?_, ?_, hq', ?_, ?_,
    ?_, ?_, ?_⟩
  · intro hs
    have : s.stopped = true := by simpa [recState] using hs
    have := h.stop this; omega
  · simp only [recState, attach_cache]; rw [hid]; exact h.cok.append hl
  · intro e he
    rcases mem_recState_table he with ⟨e0, he0, _, _, hd, _⟩ | ⟨_, _, hd, _⟩
    · rw [hd]; exact h.tdepth e0 he0
    · rw [hd]; exact h.qdepth n hn
  · have hbase : TablePair (s.table ++ [mkEntry L (newId s.cache) (H.obj n.obj) text n]) := by
      unfold TablePair
      rw [List.pairwise_append]
      refine ⟨h.tpair, by simp, ?_⟩
      intro a ha b hb'
      simp only [List.mem_singleton] at hb'
      subst hb'
      have hm := h.tcache a ha
      refine ⟨fun e => lookupId_none_iff.mp hl _ hm e, ?_⟩
      have := (h.cok.2 _ hm).2
      simp only [mkEntry]; omega
    cases hp : n.parent with
    | none => simpa [recState, attach, hp] using hbase
    | some p => simpa [recState, attach, hp] using tablePair_addChild hbase
  · intro e he
    simp only [recState, attach_cache]
    rcases mem_recState_table he with ⟨e0, he0, hv, ho, _⟩ | ⟨hv, ho, _⟩
    · rw [hv, ho]; exact List.mem_append_left _ (h.tcache e0 he0)
    · rw [hv, ho]; exact hnew
  · intro e he r hr
    simp only [recState, attach_cache]
    rcases mem_recState_table he with ⟨e0, he0, _, _, _, hch⟩ | ⟨_, _, _, hch⟩
    · rcases hch with hch | hch
      · rw [hch] at hr; exact List.mem_append_left _ (h.refs e0 he0 r hr)
      · rw [hch] at hr
        rcases List.mem_append.mp hr with hr | hr
        · exact List.mem_append_left _ (h.refs e0 he0 r hr)
        · simp only [List.mem_singleton] at hr; subst hr; exact hnew
    · rcases hch with hch | hch
      · rw [hch] at hr; simp at hr
      · rw [hch] at hr; simp only [List.mem_singleton] at hr; subst hr; exact hnew
  · intro r hr
    simp only [recState, attach_cache]
    cases hp : n.parent with
    | none =>
      simp only [recState, attach, hp, List.mem_append, List.mem_singleton] at hr
      rcases hr with hr | rfl
      · exact List.mem_append_left _ (h.roots r hr)
      · exact hnew
    | some p =>
      simp only [recState, attach, hp] at hr
      exact List.mem_append_left _ (h.roots r hr)

theorem step_rinv {H : Heap} {L : Limits} {c0 : Cache} (s : BState) (h : RInv L c0 s) : RInv L c0 (step H L s) := by
  rcases step_cases H L s with hf | ⟨n, rest, _, hq, hc⟩
  · rw [step_final hf]; exact h
  · have hqm : ∀ x ∈ rest, x ∈ s.queue := fun x hx => by rw [hq]; exact List.mem_cons_of_mem _ hx
    have hn : n ∈ s.queue := by rw [hq]; exact List.mem_cons_self ..
    generalize step H L s = s' at hc ⊢
    cases hc with
    | stop hb =>
      exact { h with stop := fun _ => (budgetOk_false_iff L s.cache).mp hb }
    | hit hb id hl =>
      have hmem := lookupId_some_mem hl
      refine ⟨by simpa using h.ext, by simpa using h.count, by simpa using h.stop, by simpa using h.cok,
        by simpa using fun x hx => h.qdepth x (hqm x hx), ?_, ?_, ?_, ?_, ?_⟩
      · intro e he
        obtain ⟨e0, he0, _, _, hd, _⟩ := mem_attach_table he
        rw [hd]; exact h.tdepth e0 he0
      · cases hp : n.parent with
        | none => simpa [attach, hp] using h.tpair
        | some p => simpa [attach, hp] using tablePair_addChild h.tpair
      · intro e he
        obtain ⟨e0, he0, hv, ho, _⟩ := mem_attach_table he
        rw [hv, ho]; simpa using h.tcache e0 he0
      · intro e he r hr
        obtain ⟨e0, he0, _, _, _, _, _, _, hch⟩ := mem_attach_table he
        simp only [attach_cache]
        rcases hch with hch | hch
        · rw [hch] at hr; exact h.refs e0 he0 r hr
        · rw [hch] at hr
          rcases List.mem_append.mp hr with hr | hr
          · exact h.refs e0 he0 r hr
          · simp only [List.mem_singleton] at hr; subst hr; exact hmem
      · intro r hr
        simp only [attach_cache]
        cases hp : n.parent with
        | none =>
          simp only [attach, hp, List.mem_append, List.mem_singleton] at hr
          rcases hr with hr | rfl
          · exact h.roots r hr
          · exact hmem
        | some p =>
          simp only [attach, hp] at hr
          exact h.roots r hr
    | renderFails hb hl m hr =>
      have hle := (budgetOk_iff L s.cache).mp hb
      obtain ⟨suf, hsuf⟩ := h.ext
      refine ⟨⟨suf ++ [(n.obj, newId s.cache)], by simp [hsuf]⟩, by simp; omega, ?_, ?_, h.qdepth, h.tdepth, h.tpair,
        fun e he => List.mem_append_left _ (h.tcache e he),
        fun e he r hr => List.mem_append_left _ (h.refs e he r hr),
        fun r hr => List.mem_append_left _ (h.roots r hr)⟩
      · intro hs; have := h.stop hs; omega
      · rw [newId_eq]; exact h.cok.append hl
    | kidsFail hb hl text m hr hk =>
      exact record_rinv h n hn hb hl text rest (fun x hx => h.qdepth x (hqm x hx)) (some m)
    | record hb hl text cs hr hk =>
      have hmeta := childNodes_meta L _ _ _ cs hk
      have := record_rinv (H := H) h n hn hb hl text (rest ++ cs) (by
        intro x hx
        rcases List.mem_append.mp hx with hx | hx
        · exact h.qdepth x (hqm x hx)
        · right; have := hmeta x hx; omega) s.failed
      simpa [recState] using this

theorem run_rinv {H : Heap} {L : Limits} {c0 : Cache} (k : Nat) (s : BState) (h : RInv L c0 s) :
    RInv L c0 (run H L k s) :=
  run_inv (RInv L c0) (fun s hs => step_rinv s hs) k s h

end Collector
