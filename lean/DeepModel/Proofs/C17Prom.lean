/- Lemmas about the Prometheus processor model (C17): association lists, the cache invariant. -/
import DeepModel.Model.C17Prom

set_option linter.unusedSectionVars false

namespace C17Prom
open Extracted.C17Prom

section assoc
variable {α β : Type} [BEq α] [LawfulBEq α] [DecidableEq α]

theorem lookup_assocSet_self (c : List (α × β)) (k : α) (v : β) : (assocSet c k v).lookup k = some v := by
  induction c with
  | nil => simp [assocSet]
  | cons x xs ih =>
    obtain ⟨k', v'⟩ := x
    simp only [assocSet]
    split
    · next h => subst h; simp [List.lookup]
    · next h =>
      have hb : (k == k') = false := by simpa using (fun e : k = k' => h e.symm)
      simp only [List.lookup, hb]; exact ih

theorem lookup_assocSet_ne (c : List (α × β)) (k k' : α) (v : β) (hne : k' ≠ k) :
    (assocSet c k v).lookup k' = c.lookup k' := by
  induction c with
  | nil =>
    have hb : (k' == k) = false := by simpa using hne
    simp [assocSet, List.lookup, hb]
  | cons x xs ih =>
    obtain ⟨k0, v0⟩ := x
    simp only [assocSet]
    split
    · next h =>
      subst h
      have hb : (k' == k0) = false := by simpa using hne
      simp [List.lookup, hb]
    · next h =>
      simp only [List.lookup]
      cases k' == k0 <;> simp [ih]

theorem keys_assocSet (c : List (α × β)) (k : α) (v : β) (hm : k ∈ c.map Prod.fst) :
    (assocSet c k v).map Prod.fst = c.map Prod.fst := by
  induction c with
  | nil => simp at hm
  | cons x xs ih =>
    obtain ⟨k0, v0⟩ := x
    simp only [assocSet]
    split
    · simp
    · next h =>
      simp only [List.map_cons, List.mem_cons] at hm
      rcases hm with rfl | hm
      · exact absurd rfl h
      · simp [ih hm]

theorem mem_assocSet (c : List (α × β)) (k : α) (v : β) (x : α × β) (hx : x ∈ assocSet c k v) :
    x ∈ c ∨ x = (k, v) := by
  induction c with
  | nil => simp [assocSet] at hx; exact Or.inr hx
  | cons y ys ih =>
    obtain ⟨k0, v0⟩ := y
    simp only [assocSet] at hx
    split at hx
    · next h =>
      subst h
      simp only [List.mem_cons] at hx
      rcases hx with rfl | hx
      · exact Or.inr rfl
      · exact Or.inl (List.mem_cons_of_mem _ hx)
    · simp only [List.mem_cons] at hx
      rcases hx with rfl | hx
      · exact Or.inl (List.mem_cons_self ..)
      · rcases ih hx with h | h
        · exact Or.inl (List.mem_cons_of_mem _ h)
        · exact Or.inr h

theorem mem_of_lookup (c : List (α × β)) (k : α) (v : β) (h : c.lookup k = some v) : (k, v) ∈ c := by
  induction c with
  | nil => simp [List.lookup] at h
  | cons y ys ih =>
    obtain ⟨k0, v0⟩ := y
    simp only [List.lookup] at h
    cases hb : k == k0 with
    | true =>
      rw [hb] at h
      have : k = k0 := by simpa using hb
      subst this
      simp only [Option.some.injEq] at h
      subst h
      exact List.mem_cons_self ..
    | false =>
      rw [hb] at h
      exact List.mem_cons_of_mem _ (ih h)

theorem key_mem_of_lookup (c : List (α × β)) (k : α) (v : β) (h : c.lookup k = some v) : k ∈ c.map Prod.fst :=
  List.mem_map.mpr ⟨(k, v), mem_of_lookup c k v h, rfl⟩

theorem not_mem_of_lookup_none (c : List (α × β)) (k : α) (h : c.lookup k = none) : k ∉ c.map Prod.fst := by
  induction c with
  | nil => simp
  | cons y ys ih =>
    obtain ⟨k0, v0⟩ := y
    simp only [List.lookup] at h
    cases hb : k == k0 with
    | true => rw [hb] at h; simp at h
    | false =>
      rw [hb] at h
      have hne : k ≠ k0 := by simpa using hb
      simp only [List.map_cons, List.mem_cons, not_or]
      exact ⟨hne, ih h⟩

theorem lookup_append_single_self (c : List (α × β)) (k : α) (v : β) (h : c.lookup k = none) :
    (c ++ [(k, v)]).lookup k = some v := by
  induction c with
  | nil => simp
  | cons y ys ih =>
    obtain ⟨k0, v0⟩ := y
    simp only [List.lookup] at h
    cases hb : k == k0 with
    | true => rw [hb] at h; simp at h
    | false =>
      rw [hb] at h
      simp only [List.cons_append, List.lookup, hb]
      exact ih h

theorem lookup_append_single_ne (c : List (α × β)) (k k' : α) (v : β) (hne : k' ≠ k) :
    (c ++ [(k, v)]).lookup k' = c.lookup k' := by
  induction c with
  | nil =>
    have hb : (k' == k) = false := by simpa using hne
    simp [List.lookup, hb]
  | cons y ys ih =>
    obtain ⟨k0, v0⟩ := y
    simp only [List.cons_append, List.lookup]
    cases k' == k0 <;> simp [ih]

end assoc

/-! ### the cache key -/

theorem cacheKey_toList (n t : String) : (cacheKey n t).toList = n.toList ++ '_' :: t.toList := by
  simp [cacheKey, String.toList_append]

/-- the type names the plugin's operations hand to the cache -/
def typeNames : List String := methods.map (·.2.typeName)

theorem cacheKey_injective (n1 n2 t1 t2 : String) (h1 : t1 ∈ typeNames) (h2 : t2 ∈ typeNames)
    (h : cacheKey n1 t1 = cacheKey n2 t2) : n1 = n2 ∧ t1 = t2 := by
  have hl := congrArg String.toList h
  rw [cacheKey_toList, cacheKey_toList] at hl
  have hlast := congrArg List.getLast? hl
  simp only [typeNames, methods, List.map_cons, List.map_nil, List.mem_cons, List.not_mem_nil, or_false] at h1 h2
  have ht : t1 = t2 := by
    rcases h1 with rfl | rfl | rfl | rfl <;> rcases h2 with rfl | rfl | rfl | rfl <;>
      first | rfl | (simp [List.getLast?_append] at hlast)
  subst ht
  refine ⟨?_, rfl⟩
  have := List.append_cancel_right hl
  exact String.toList_injective this

/-! ### the invariant of the cache -/

/-- every cached object sits under the key of some name and some operation of the plugin, and is of that
    operation's class -/
def WF (p : Plugin) : Prop :=
  ∀ k f, (k, f) ∈ p.cache → ∃ name op m, (op, m) ∈ methods ∧ k = cacheKey name m.typeName ∧ f.cls = m.cls

theorem WF_fresh (foreign : List String) : WF (Plugin.fresh foreign) := by intro k f h; simp [Plugin.fresh] at h
theorem WF_empty : WF Plugin.empty := WF_fresh []

theorem construct_cls (p : Plugin) (m : Method) (a : Args) (f : Family) (h : construct p m a = some f) :
    f.cls = m.cls := by
  unfold construct at h
  split at h
  · split at h
    · simp at h
    · split at h
      · simp at h
      · simp only [Option.some.injEq] at h; subst h; rfl
  · simp at h

theorem useFamily_WF (p : Plugin) (m : Method) (key : String) (f : Family) (a : Args)
    (hw : WF p) (hf : (key, f) ∈ p.cache) : WF (useFamily p m key f a).1 := by
  unfold useFamily
  have upd : ∀ cs, WF (p.withCache (setFamily p.cache key { f with children := cs })) := by
    intro cs k g hg
    rcases mem_assocSet _ _ _ _ hg with h | h
    · exact hw k g h
    · simp only [Prod.mk.injEq] at h
      obtain ⟨rfl, rfl⟩ := h
      obtain ⟨name, op, m', hm', hk', hc'⟩ := hw _ _ hf
      exact ⟨name, op, m', hm', hk', hc'⟩
  split
  · exact hw
  · simp only
    split
    · exact upd _
    · exact upd _

theorem call_WF (p : Plugin) (op : String) (m : Method) (a : Args) (hm : (op, m) ∈ methods) (hw : WF p) :
    WF (call p m a).1 := by
  unfold call
  simp only
  split
  · next f hl => exact useFamily_WF p m _ f a hw (mem_of_lookup _ _ _ hl)
  · next hl =>
    split
    · exact hw
    · next f hc =>
      have hw' : WF (p.withCache (p.cache ++ [(cacheKey a.name m.typeName, f)])) := by
        intro k g hg
        simp only [Plugin.withCache_cache, List.mem_append, List.mem_singleton, Prod.mk.injEq] at hg
        rcases hg with h | ⟨rfl, rfl⟩
        · exact hw k g h
        · exact ⟨a.name, op, m, hm, rfl, construct_cls p m a _ hc⟩
      exact useFamily_WF _ m _ f a hw' (by simp)

theorem run_WF (calls : List (String × Args)) : ∀ p, WF p → WF (run p calls).1 := by
  induction calls with
  | nil => intro p h; exact h
  | cons c cs ih =>
    intro p h
    obtain ⟨op, a⟩ := c
    simp only [run]
    apply ih
    unfold callNamed
    split
    · next m hm => exact call_WF p op m a (mem_of_lookup _ _ _ hm) h
    · exact h

/-! ### the value -/

theorem targetOf_error (f : Family) (a : Args) (o : Outcome) (h : targetOf f a = .error o) : o ≠ .ok := by
  unfold targetOf at h
  split at h
  · split at h
    · simp at h
    · simp only [Except.error.injEq] at h; subst h; simp
  · split at h
    · simp at h
    · simp only [Except.error.injEq] at h; subst h; simp

theorem useFamily_ok_family (p p' : Plugin) (m : Method) (key : String) (f : Family) (a : Args)
    (h : useFamily p m key f a = (p', .ok)) :
    ∃ cs, p'.cache.lookup key = some { f with children := cs } := by
  unfold useFamily at h
  split at h
  · next o ho =>
    simp only [Prod.mk.injEq] at h
    exact absurd h.2 (targetOf_error f a o ho)
  · simp only at h
    split at h
    · simp at h
    · simp only [Prod.mk.injEq, and_true] at h
      subst h
      exact ⟨_, by simp only [Plugin.withCache_cache]; exact lookup_assocSet_self _ _ _⟩

theorem targetOf_series (f : Family) (a : Args) (lv : List String) (h : targetOf f a = .ok lv) :
    lv = reportSeries f.labelNames a.labels := by
  unfold targetOf at h
  unfold reportSeries
  split at h
  · next hne =>
    have : a.labels.isEmpty = false := by simpa using hne
    simp only [this, Bool.false_eq_true, if_false]
    split at h
    · next lv0 hc =>
      simp only [Except.ok.injEq] at h
      subst h
      unfold childFor at hc
      split at hc
      · simp at hc
      · split at hc
        · simp only [Option.some.injEq] at hc; exact hc.symm
        · simp at hc
    · simp at h
  · next he =>
    have : a.labels.isEmpty = true := by simpa using he
    simp only [this, if_true]
    split at h
    · simp only [Except.ok.injEq] at h; exact h.symm
    · simp at h

/-- a successful operation on the object cached under `key`: the operation of the method, applied with the value
    to the time series of the report's label values, is what the scrape shows afterwards; the other series of the
    object and all other keys are untouched -/
theorem useFamily_ok (p p' : Plugin) (m : Method) (key : String) (f : Family) (a : Args)
    (h : useFamily p m key f a = (p', .ok)) :
    ∃ lv acc', targetOf f a = .ok lv ∧
      (numArg a m.opArg).bind (fun v => applyOp f.cls m.op v (accOf f lv)) = some acc' ∧
      sampleOf p' key lv = some acc' ∧
      (∀ lv', lv' ≠ lv → sampleOf p' key lv' = f.children.lookup lv') ∧
      (∀ k' lv', k' ≠ key → sampleOf p' k' lv' = sampleOf p k' lv') := by
  unfold useFamily at h
  split at h
  · next o ho =>
    simp only [Prod.mk.injEq] at h
    exact absurd h.2 (targetOf_error f a o ho)
  · next lv hlv =>
    simp only at h
    split at h
    · simp at h
    · next acc' hb =>
      simp only [Prod.mk.injEq, and_true] at h
      subst h
      refine ⟨lv, acc', hlv, hb, ?_, ?_, ?_⟩
      · simp only [sampleOf, Plugin.withCache_cache, setFamily, setChild, lookup_assocSet_self, Option.bind_some]
      · intro lv' hne
        simp only [sampleOf, Plugin.withCache_cache, setFamily, setChild, lookup_assocSet_self, Option.bind_some]
        exact lookup_assocSet_ne _ _ _ _ hne
      · intro k' lv' hne
        simp [sampleOf, lookup_assocSet_ne _ _ _ _ hne]

theorem table_cls (op1 op2 : String) (m1 m2 : Method) (h1 : (op1, m1) ∈ methods) (h2 : (op2, m2) ∈ methods)
    (ht : m1.typeName = m2.typeName) : m1.cls = m2.cls := by
  simp only [methods, List.mem_cons, List.not_mem_nil, or_false, Prod.mk.injEq] at h1 h2
  rcases h1 with ⟨-, rfl⟩ | ⟨-, rfl⟩ | ⟨-, rfl⟩ | ⟨-, rfl⟩ <;>
    rcases h2 with ⟨-, rfl⟩ | ⟨-, rfl⟩ | ⟨-, rfl⟩ | ⟨-, rfl⟩ <;> first | rfl | (simp at ht)

theorem table_typeName_mem (op : String) (m : Method) (h : (op, m) ∈ methods) : m.typeName ∈ typeNames :=
  List.mem_map.mpr ⟨(op, m), h, rfl⟩

/-- every operation of the plugin hands the value to an adding operation of its own class, under `except Exception` -/
theorem table_op (op : String) (m : Method) (h : (op, m) ∈ methods) :
    m.opArg = .value ∧ m.guard = some .exc ∧
    ∀ v acc acc', applyOp m.cls m.op v acc = some acc' →
      acc' = ⟨countAfter m.cls v acc.count, acc.sum.add v⟩ := by
  simp only [methods, List.mem_cons, List.not_mem_nil, or_false, Prod.mk.injEq] at h
  rcases h with ⟨-, rfl⟩ | ⟨-, rfl⟩ | ⟨-, rfl⟩ | ⟨-, rfl⟩ <;>
    refine ⟨rfl, rfl, ?_⟩ <;> intro v acc acc' ha <;> simp only [applyOp] at ha
  · split at ha
    · simp at ha
    · simpa [countAfter] using ha.symm
  · simpa [countAfter] using ha.symm
  · simp only [Option.some.injEq] at ha
    subst ha
    simp only [countAfter, true_and]
  · simpa [countAfter] using ha.symm

theorem construct_fresh (p : Plugin) (m : Method) (a : Args) (f : Family) (h : construct p m a = some f)
    (lv : List String) : accOf f lv = Acc.zero := by
  unfold construct at h
  split at h
  · split at h
    · simp at h
    · split at h
      · simp at h
      · simp only [Option.some.injEq] at h
        subst h
        simp only [accOf]
        split
        · simp only [List.lookup]
          cases lv == [] <;> simp [Acc.zero]
        · simp [List.lookup]
  · simp at h

/-- a freshly constructed object has no series but the one a report without labels addresses -/
theorem construct_children_other (p : Plugin) (m : Method) (a : Args) (f : Family) (h : construct p m a = some f)
    (lv lv' : List String) (ht : targetOf f a = .ok lv) (hne : lv' ≠ lv) : f.children.lookup lv' = none := by
  unfold construct at h
  split at h
  · next full keys hb hk =>
    split at h
    · simp at h
    · split at h
      · simp at h
      · simp only [Option.some.injEq] at h
        subst h
        cases hke : keys.isEmpty with
        | false => simp [hke]
        | true =>
          simp only [hke, if_true]
          -- no label names: the only report that is accepted has no labels, its series is []
          have hlv : lv = [] := by
            unfold targetOf at ht
            simp only [hke] at ht
            split at ht
            · unfold childFor at ht
              simp [hke] at ht
            · simp only [if_true, Except.ok.injEq] at ht
              exact ht.symm
          subst hlv
          have : (lv' == ([] : List String)) = false := by simpa using hne
          simp [List.lookup, this]
  · simp at h

/-- **the value reaches the client library** (any plugin state satisfying the cache invariant) -/
theorem call_ok_value (p p' : Plugin) (op : String) (m : Method) (a : Args) (hm : (op, m) ∈ methods) (hw : WF p)
    (h : call p m a = (p', .ok)) :
    ∃ f', p'.cache.lookup (cacheKey a.name m.typeName) = some f' ∧
      let key := cacheKey a.name m.typeName
      let lv := reportSeries f'.labelNames a.labels
      let prev := (sampleOf p key lv).getD Acc.zero
      sampleOf p' key lv = some ⟨countAfter m.cls a.value prev.count, prev.sum.add a.value⟩ ∧
      (∀ lv', lv' ≠ lv → sampleOf p' key lv' = sampleOf p key lv') ∧
      (∀ k' lv', k' ≠ key → sampleOf p' k' lv' = sampleOf p k' lv') := by
  obtain ⟨hArg, -, hOp⟩ := table_op op m hm
  unfold call at h
  simp only at h
  split at h
  · next f hl =>
    obtain ⟨cs, hfam⟩ := useFamily_ok_family p p' m _ f a h
    obtain ⟨lv, acc', hlv, hb, hs, hoth, hfr⟩ := useFamily_ok p p' m _ f a h
    obtain ⟨name', op', m', hm', hk', hc'⟩ := hw _ _ (mem_of_lookup _ _ _ hl)
    have hinj := cacheKey_injective _ _ _ _ (table_typeName_mem op m hm) (table_typeName_mem op' m' hm') hk'
    have hcls : f.cls = m.cls := by rw [hc']; exact table_cls op' op m' m hm' hm hinj.2.symm
    rw [hArg, hcls] at hb
    simp only [numArg, Option.bind_some] at hb
    have hacc := hOp _ _ _ hb
    have hser := targetOf_series f a lv hlv
    refine ⟨_, hfam, ?_⟩
    have hprev : ∀ x, sampleOf p (cacheKey a.name m.typeName) x = f.children.lookup x := by intro x; simp [sampleOf, hl]
    simp only
    rw [← hser]
    refine ⟨?_, ?_, hfr⟩
    · rw [hs, hacc, hprev]; rfl
    · intro lv' hne; rw [hoth lv' hne, hprev]
  · next hl =>
    split at h
    · simp at h
    · next f hc =>
      obtain ⟨cs, hfam⟩ := useFamily_ok_family _ p' m _ f a h
      obtain ⟨lv, acc', hlv, hb, hs, hoth, hfr⟩ := useFamily_ok _ p' m _ f a h
      rw [hArg, construct_cls p m a f hc, construct_fresh p m a f hc lv] at hb
      simp only [numArg, Option.bind_some] at hb
      have hacc := hOp _ _ _ hb
      have hser := targetOf_series f a lv hlv
      have hprev : ∀ x, sampleOf p (cacheKey a.name m.typeName) x = none := by intro x; simp [sampleOf, hl]
      refine ⟨_, hfam, ?_⟩
      simp only
      rw [← hser]
      refine ⟨?_, ?_, ?_⟩
      · rw [hs, hacc, hprev]; rfl
      · intro lv' hne
        rw [hoth lv' hne, hprev, construct_children_other p m a f hc lv lv' hlv hne]
      · intro k' lv' hne
        rw [hfr k' lv' hne]
        simp [sampleOf, lookup_append_single_ne _ _ _ _ hne]

/-! ### which object a report lands in -/

theorem table_ctor (op : String) (m : Method) (h : (op, m) ∈ methods) :
    m.ctorName = .name ∧ m.ctorNamespace = .namespace ∧ m.ctorUnit = .unit ∧ m.ctorLabelnames = .labelKeys ∧
    m.ctorDoc = .help ∧ m.docHasDefault = true ∧ m.docDefault = "" := by
  simp only [methods, List.mem_cons, List.not_mem_nil, or_false, Prod.mk.injEq] at h
  rcases h with ⟨-, rfl⟩ | ⟨-, rfl⟩ | ⟨-, rfl⟩ | ⟨-, rfl⟩ <;> exact ⟨rfl, rfl, rfl, rfl, rfl, rfl, rfl⟩

theorem construct_fields (p : Plugin) (m : Method) (a : Args) (f : Family) (h : construct p m a = some f) :
    buildFullName m.cls (strArg a m.ctorName) (strArg a m.ctorNamespace) (strArg a m.ctorUnit) = some f.fullName ∧
    keysArg a m.ctorLabelnames = some f.labelNames ∧
    f.doc = (if m.docHasDefault then (truthy (strArg a m.ctorDoc)).getD m.docDefault else (strArg a m.ctorDoc).getD "None") := by
  unfold construct at h
  split at h
  · next full keys hb hk =>
    split at h
    · simp at h
    · split at h
      · simp at h
      · simp only [Option.some.injEq] at h
        subst h
        exact ⟨hb, hk, rfl⟩
  · simp at h

/-- the first report under a key: the object it lands in carries the report's own namespace, unit, label names, help -/
theorem call_first_use (p p' : Plugin) (op : String) (m : Method) (a : Args) (hm : (op, m) ∈ methods)
    (hfirst : p.cache.lookup (cacheKey a.name m.typeName) = none) (h : call p m a = (p', .ok)) :
    ∃ f, p'.cache.lookup (cacheKey a.name m.typeName) = some f ∧
      buildFullName m.cls (some a.name) a.ns a.unit = some f.fullName ∧
      f.labelNames = a.labels.map (·.1) ∧ f.doc = (truthy a.help).getD "" ∧ f.cls = m.cls := by
  obtain ⟨h1, h2, h3, h4, h5, h6, h7⟩ := table_ctor op m hm
  unfold call at h
  simp only [hfirst] at h
  split at h
  · simp at h
  · next f hc =>
    obtain ⟨cs, hl⟩ := useFamily_ok_family _ p' m _ f a h
    obtain ⟨hb, hk, hd⟩ := construct_fields p m a f hc
    rw [h1, h2, h3] at hb
    rw [h4] at hk
    rw [h5, h6, h7] at hd
    refine ⟨_, hl, ?_, ?_, ?_, construct_cls p m a f hc⟩
    · simpa [strArg] using hb
    · simp only [keysArg, Option.some.injEq] at hk; exact hk.symm
    · simpa [strArg] using hd

/-! ### one registration per key -/

theorem useFamily_keys (p : Plugin) (m : Method) (key : String) (f : Family) (a : Args)
    (hk : key ∈ p.cache.map Prod.fst) : (useFamily p m key f a).1.cache.map Prod.fst = p.cache.map Prod.fst := by
  unfold useFamily
  split
  · rfl
  · simp only
    split
    · exact keys_assocSet _ _ _ hk
    · exact keys_assocSet _ _ _ hk

/-- the keys of the cache after an operation: unchanged when the key was there (or the constructor refused),
    else the key appended -/
theorem call_keys (p : Plugin) (m : Method) (a : Args) :
    (call p m a).1.cache.map Prod.fst = p.cache.map Prod.fst ∨
    (cacheKey a.name m.typeName ∉ p.cache.map Prod.fst ∧
     (call p m a).1.cache.map Prod.fst = p.cache.map Prod.fst ++ [cacheKey a.name m.typeName]) := by
  unfold call
  simp only
  split
  · next f hl => exact Or.inl (useFamily_keys p m _ f a (key_mem_of_lookup _ _ _ hl))
  · next hl =>
    split
    · exact Or.inl rfl
    · next f hc =>
      refine Or.inr ⟨not_mem_of_lookup_none _ _ hl, ?_⟩
      rw [useFamily_keys (p.withCache (p.cache ++ [(cacheKey a.name m.typeName, f)])) m _ f a (by simp)]
      simp

theorem run_keys_nodup (calls : List (String × Args)) :
    ∀ p : Plugin, (p.cache.map Prod.fst).Nodup → ((run p calls).1.cache.map Prod.fst).Nodup := by
  induction calls with
  | nil => intro p h; exact h
  | cons c cs ih =>
    intro p h
    obtain ⟨op, a⟩ := c
    simp only [run]
    apply ih
    unfold callNamed
    split
    · next m hm =>
      rcases call_keys p m a with e | ⟨hn, e⟩
      · simp only [e]; exact h
      · simp only [e]
        exact List.nodup_append.mpr ⟨h, by simp, by
          intro x hx y hy
          simp only [List.mem_singleton] at hy
          subst hy
          intro e; subst e; exact hn hx⟩
    · exact h

end C17Prom
