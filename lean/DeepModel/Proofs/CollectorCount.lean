/-
  Proofs/CollectorCount — the table never has more entries than the identity cache has ids (so the budget on ids
  bounds the snapshot), and a sequence-like value never yields more child nodes than the collection limit.
-/
import DeepModel.Proofs.CollectorAct

namespace Collector
open Heap Extracted.Collector

/-- entries added since the search began ≤ ids handed out since the search began -/
def LenInv (c0 : Cache) (t0 : List Entry) (s : BState) : Prop :=
  s.table.length + c0.length ≤ s.cache.length + t0.length

theorem attach_table_length (p : Option Nat) (c : VarId) (s : BState) : (attach p c s).table.length = s.table.length := by
  cases p with
  | none => rfl
  | some v => exact addChild_length v c s.table

theorem step_lenInv {H : Heap} {L : Limits} {c0 : Cache} {t0 : List Entry} (s : BState) (h : LenInv c0 t0 s) :
    LenInv c0 t0 (step H L s) := by
  rcases step_cases H L s with hf | ⟨n, rest, _, hq, hc⟩
  · rw [step_final hf]; exact h
  · generalize step H L s = s' at hc ⊢
    unfold LenInv at h ⊢
    cases hc with
    | stop hb => exact h
    | hit hb id hl => simpa [attach_table_length] using h
    | renderFails hb hl m hr => simp only [List.length_append, List.length_cons, List.length_nil]; omega
    | kidsFail hb hl text m hr hk =>
      simp only [attach_table_length, attach_cache, List.length_append, List.length_cons, List.length_nil]; omega
    | record hb hl text cs hr hk =>
      simp only [attach_table_length, attach_cache, List.length_append, List.length_cons, List.length_nil]; omega

theorem processVariable_len (H : Heap) (L : Limits) (c : Cache) (t : List Entry) (name : String) (o : ObjId) :
    (processVariable H L c t name o).table.length + c.length ≤ (processVariable H L c t name o).cache.length + t.length := by
  unfold processVariable
  cases lookupId c o with
  | some id => simp only; omega
  | none =>
    exact run_inv (LenInv c t) (fun s hs => step_lenInv s hs) _ _ (by unfold LenInv bfsInit; split <;> simp <;> omega)

theorem removeEntry_length (t : List Entry) (v : Nat) : (removeEntry t v).length ≤ t.length :=
  List.length_filter_le _ _

theorem unwrap_length (t : List Entry) (vid : Option Nat) : (unwrap t vid).2.length ≤ t.length := by
  unfold unwrap
  cases vid with
  | none => simp
  | some v =>
    simp only
    cases findEntry t v with
    | none => simp
    | some e => exact removeEntry_length t v

theorem collectFrames_len (H : Heap) (L : Limits) (fs : List FrameIn) (c : Cache) (t : List Entry)
    (h : t.length ≤ c.length) : (collectFrames H L fs c t).table.length ≤ (collectFrames H L fs c t).cache.length := by
  induction fs generalizing c t with
  | nil => simpa [collectFrames] using h
  | cons f fs ih =>
    simp only [collectFrames]
    have hp := processVariable_len H L c t localsName f.locals
    split
    · exact ih c t h
    · split
      · simp only; omega
      · apply ih
        have := unwrap_length (processVariable H L c t localsName f.locals).table
          (processVariable H L c t localsName f.locals).vid
        omega

theorem collectWatches_len (H : Heap) (L : Limits) (ws : List WatchIn) (c : Cache) (t : List Entry)
    (h : t.length ≤ c.length) : (collectWatches H L ws c t).table.length ≤ (collectWatches H L ws c t).cache.length := by
  induction ws generalizing c t with
  | nil => simpa [collectWatches] using h
  | cons w ws ih =>
    have hp := processVariable_len H L c [] w.expr w.value
    have hext := (processVariable_facts H (AInv.nil L) w.expr w.value).ext
    have hmono : c.length ≤ (processVariable H L c [] w.expr w.value).cache.length := by
      unfold processVariable
      cases lookupId c w.value with
      | some id => simp
      | none =>
        simp only
        have : ∀ s : BState, c.length ≤ s.cache.length → c.length ≤ (step H L s).cache.length := by
          intro s hs
          rcases step_cases H L s with hf | ⟨n, rest, _, hq, hc⟩
          · rw [step_final hf]; exact hs
          · generalize step H L s = s' at hc ⊢
            cases hc <;> simp <;> omega
        exact run_inv (fun s => c.length ≤ s.cache.length) this _ _ (by unfold bfsInit; split <;> simp)
    simp only [List.length_nil, Nat.add_zero] at hp
    have hmerge : (t ++ (processVariable H L c [] w.expr w.value).table).length ≤
        (processVariable H L c [] w.expr w.value).cache.length := by
      simp only [List.length_append]; omega
    have hkeep : t.length ≤ (processVariable H L c [] w.expr w.value).cache.length := by omega
    simp only [collectWatches]
    split
    · split
      · simp only; omega
      · split
        · exact ih _ _ hkeep
        · exact ih _ _ hmerge
    · split
      · exact ih _ _ hkeep
      · split
        · exact ih _ _ hkeep
        · exact ih _ _ hmerge

theorem listChildrenFrom_cap (m pvid depth : Nat) (xs : List ObjId) (t : Nat) :
    (listChildrenFrom m pvid depth xs t).length ≤ m - t := by
  induction xs generalizing t with
  | nil => simp [listChildrenFrom]
  | cons x xs ih =>
    unfold listChildrenFrom
    by_cases hs : collStop (t : Int) (m : Int) = true
    · simp [hs]
    · have hlt : t < m := by
        have : ¬ (m ≤ t) := fun hle => hs ((collStop_iff t m).mpr hle)
        omega
      simp only [hs, Bool.false_eq_true, if_false, List.length_cons]
      have := ih (t + 1)
      omega

/-- the children found for a value whose kind is "sequence" (a list-like type name, not an exact dict) or
    "exception" are at most `maxColl` -/
theorem childNodes_cap (L : Limits) (pvid : Nat) (o : PyObj) (d : Nat) (cs : List Node)
    (h : childNodes L pvid o d = .ok cs) (hd : o.isDictExact = false)
    (hk : listLikeTypes.contains o.tyName = true ∨ o.isExc = .ok true) : cs.length ≤ L.maxColl := by
  rcases childNodes_ok_cases h with rfl | ⟨_, h⟩
  · simp
  · simp only [childBranches, branchChildren, hd, Bool.false_eq_true, if_false] at h
    by_cases hl : listLikeTypes.contains o.tyName = true
    · simp only [hl, if_true] at h
      cases hs : o.seq with
      | ok xs =>
        simp only [hs, probeList, Except.ok.injEq] at h; subst h
        simpa using listChildrenFrom_cap L.maxColl pvid (d + 1) xs 0
      | raises m => simp [hs, probeList] at h
    · have he : o.isExc = .ok true := hk.resolve_left hl
      simp only [hl, Bool.false_eq_true, if_false, he] at h
      cases hs : o.excArgs with
      | ok xs =>
        simp only [hs, probeList, Except.ok.injEq] at h; subst h
        simpa using listChildrenFrom_cap L.maxColl pvid (d + 1) xs 0
      | raises m => simp [hs, probeList] at h

end Collector
