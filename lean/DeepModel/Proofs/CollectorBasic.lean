/-
  Proofs/CollectorBasic — case analysis of `Collector.step`, facts about the extracted decisions, and the generic
  "an invariant of `step` is an invariant of every `run`" lemma.  Used by all Collector* proof files (C05–C07).
-/
import DeepModel.Model.Collector

namespace Collector
open Heap Extracted.Collector

/-! ### the extracted decisions, as arithmetic -/

/-- the queue discipline of the code as it is now: `queue.pop(0)` -/
theorem queueEnd_front : queueEnd = .front := by decide

theorem budgetOk_iff (L : Limits) (c : Cache) : budgetOk L c = true ↔ c.length ≤ L.maxVars := by
  simp only [budgetOk, checkVarCount]
  split <;> simp_all <;> omega

theorem budgetOk_false_iff (L : Limits) (c : Cache) : budgetOk L c = false ↔ L.maxVars < c.length := by
  have := budgetOk_iff L c
  cases h : budgetOk L c <;> simp_all <;> omega

theorem newId_eq (c : Cache) : newId c = c.length + 1 := by
  simp [newId, newVarId]

theorem depthStop_iff (d m : Nat) : depthStop (d : Int) (m : Int) = true ↔ m ≤ d + 1 := by
  simp [depthStop]; omega

theorem collStop_iff (t m : Nat) : collStop (t : Int) (m : Int) = true ↔ m ≤ t := by
  simp [collStop]

theorem pop_front {q : List Node} {n : Node} {rest : List Node} (h : pop q = some (n, rest)) : q = n :: rest := by
  unfold pop at h
  rw [queueEnd_front] at h
  cases q with
  | nil => simp [popWith] at h
  | cons a q => simp [popWith] at h; rw [h.1, h.2]

theorem pop_none {q : List Node} (h : pop q = none) : q = [] := by
  unfold pop at h
  rw [queueEnd_front] at h
  cases q with
  | nil => rfl
  | cons a q => simp [popWith] at h

/-- when child discovery succeeds with some children, they come from the kind tests (not from a guard) -/
theorem childNodes_ok_cases {L : Limits} {pvid : Nat} {o : PyObj} {d : Nat} {cs : List Node}
    (h : childNodes L pvid o d = .ok cs) :
    cs = [] ∨ (depthStop (d : Int) (L.maxDepth : Int) = false ∧ branchChildren L pvid (d + 1) o childBranches = .ok cs) := by
  unfold childNodes at h
  split at h
  · simp only [Except.ok.injEq] at h; exact Or.inl h.symm
  · split at h
    · simp only [Except.ok.injEq] at h; exact Or.inl h.symm
    · rename_i _ hd
      cases hb : branchChildren L pvid (d + 1) o childBranches with
      | ok cs' =>
        rw [hb] at h
        simp only [Except.ok.injEq] at h
        subst h
        exact Or.inr ⟨by simpa using hd, rfl⟩
      | error m =>
        rw [hb] at h
        simp only at h
        split at h
        · simp only [Except.ok.injEq] at h; exact Or.inl h.symm
        · simp at h

/-! ### `attach` touches the table (or the root ids) only -/

@[simp] theorem attach_queue (p : Option Nat) (c : VarId) (s : BState) : (attach p c s).queue = s.queue := by
  cases p <;> rfl
@[simp] theorem attach_cache (p : Option Nat) (c : VarId) (s : BState) : (attach p c s).cache = s.cache := by
  cases p <;> rfl
@[simp] theorem attach_stopped (p : Option Nat) (c : VarId) (s : BState) : (attach p c s).stopped = s.stopped := by
  cases p <;> rfl
@[simp] theorem attach_failed (p : Option Nat) (c : VarId) (s : BState) : (attach p c s).failed = s.failed := by
  cases p <;> rfl
@[simp] theorem attach_popped (p : Option Nat) (c : VarId) (s : BState) : (attach p c s).popped = s.popped := by
  cases p <;> rfl
@[simp] theorem attach_recorded (p : Option Nat) (c : VarId) (s : BState) : (attach p c s).recorded = s.recorded := by
  cases p <;> rfl

theorem attach_table (p : Option Nat) (c : VarId) (s : BState) :
    (attach p c s).table = match p with | none => s.table | some v => addChild v c s.table := by
  cases p <;> rfl

/-- every entry after `addChild` is an old entry with possibly one more child -/
theorem mem_addChild {p : Nat} {c : VarId} {t : List Entry} {e' : Entry} (h : e' ∈ addChild p c t) :
    ∃ e ∈ t, e'.vid = e.vid ∧ e'.obj = e.obj ∧ e'.depth = e.depth ∧ e'.ty = e.ty ∧ e'.value = e.value ∧
      e'.truncated = e.truncated ∧ (e'.children = e.children ∨ e'.children = e.children ++ [c]) := by
  simp only [addChild, List.mem_map] at h
  obtain ⟨e, he, rfl⟩ := h
  refine ⟨e, he, ?_⟩
  by_cases hp : e.vid = p <;> simp [hp]

theorem mem_attach_table {p : Option Nat} {c : VarId} {s : BState} {e' : Entry} (h : e' ∈ (attach p c s).table) :
    ∃ e ∈ s.table, e'.vid = e.vid ∧ e'.obj = e.obj ∧ e'.depth = e.depth ∧ e'.ty = e.ty ∧ e'.value = e.value ∧
      e'.truncated = e.truncated ∧ (e'.children = e.children ∨ e'.children = e.children ++ [c]) := by
  cases p with
  | none => exact ⟨e', h, rfl, rfl, rfl, rfl, rfl, rfl, Or.inl rfl⟩
  | some v => exact mem_addChild h

theorem addChild_length (p : Nat) (c : VarId) (t : List Entry) : (addChild p c t).length = t.length := by
  simp [addChild]

theorem addChild_vids (p : Nat) (c : VarId) (t : List Entry) : (addChild p c t).map (·.vid) = t.map (·.vid) := by
  simp only [addChild, List.map_map]
  apply List.map_congr_left
  intro e _
  by_cases h : e.vid = p <;> simp [h]

theorem attach_vids (p : Option Nat) (c : VarId) (s : BState) :
    (attach p c s).table.map (·.vid) = s.table.map (·.vid) := by
  cases p with
  | none => rfl
  | some v => exact addChild_vids v c s.table

/-! ### the six ways a step can go -/

/-- outcome of one `step` of a state that is not final, whose work list yields `n` and leaves `rest` -/
inductive StepCase (H : Heap) (L : Limits) (s : BState) (n : Node) (rest : List Node) : BState → Prop
  | stop (hb : budgetOk L s.cache = false) : StepCase H L s n rest { s with stopped := true }
  | hit (hb : budgetOk L s.cache = true) (id : Nat) (hl : lookupId s.cache n.obj = some id) :
      StepCase H L s n rest (attach n.parent (mkRef n id) { s with queue := rest, popped := s.popped ++ [n] })
  | renderFails (hb : budgetOk L s.cache = true) (hl : lookupId s.cache n.obj = none) (m : String)
      (hr : renderText (H.obj n.obj) = .error m) :
      StepCase H L s n rest { s with cache := s.cache ++ [(n.obj, newId s.cache)], failed := some m }
  | kidsFail (hb : budgetOk L s.cache = true) (hl : lookupId s.cache n.obj = none) (text m : String)
      (hr : renderText (H.obj n.obj) = .ok text)
      (hk : childNodes L (newId s.cache) (H.obj n.obj) n.depth = .error m) :
      StepCase H L s n rest
        { attach n.parent (mkRef n (newId s.cache))
            { s with cache := s.cache ++ [(n.obj, newId s.cache)],
                     table := s.table ++ [mkEntry L (newId s.cache) (H.obj n.obj) text n],
                     popped := s.popped ++ [n], recorded := s.recorded ++ [(n, newId s.cache)] }
          with queue := rest, failed := some m }
  | record (hb : budgetOk L s.cache = true) (hl : lookupId s.cache n.obj = none) (text : String) (cs : List Node)
      (hr : renderText (H.obj n.obj) = .ok text)
      (hk : childNodes L (newId s.cache) (H.obj n.obj) n.depth = .ok cs) :
      StepCase H L s n rest
        { attach n.parent (mkRef n (newId s.cache))
            { s with cache := s.cache ++ [(n.obj, newId s.cache)],
                     table := s.table ++ [mkEntry L (newId s.cache) (H.obj n.obj) text n],
                     popped := s.popped ++ [n], recorded := s.recorded ++ [(n, newId s.cache)] }
          with queue := rest ++ cs }

theorem step_cases (H : Heap) (L : Limits) (s : BState) :
    s.final = true ∨
      ∃ n rest, s.final = false ∧ s.queue = n :: rest ∧ StepCase H L s n rest (step H L s) := by
  unfold step
  by_cases hf : s.final = true
  · left; exact hf
  · simp only [hf, Bool.false_eq_true, if_false]
    cases hp : pop s.queue with
    | none => left; exact absurd (by simp [BState.final, pop_none hp]) hf
    | some nr =>
      obtain ⟨n, rest⟩ := nr
      right
      refine ⟨n, rest, by simpa using hf, pop_front hp, ?_⟩
      simp only
      cases hb : budgetOk L s.cache with
      | false => simp only [Bool.not_false, if_true]; exact StepCase.stop hb
      | true =>
        simp only [Bool.not_true, Bool.false_eq_true, if_false]
        cases hl : lookupId s.cache n.obj with
        | some id => exact StepCase.hit hb id hl
        | none =>
          simp only
          cases hr : renderText (H.obj n.obj) with
          | error m => exact StepCase.renderFails hb hl m hr
          | ok text =>
            simp only
            cases hk : childNodes L (newId s.cache) (H.obj n.obj) n.depth with
            | error m => exact StepCase.kidsFail hb hl text m hr hk
            | ok cs => exact StepCase.record hb hl text cs hr hk

/-- a state that stopped, failed or emptied its work list does not move -/
theorem step_final {H : Heap} {L : Limits} {s : BState} (h : s.final = true) : step H L s = s := by
  unfold step; simp [h]

theorem final_of_queue_nil {s : BState} (h : s.queue = []) : s.final = true := by
  simp [BState.final, h]

/-! ### `run` -/

theorem run_inv {H : Heap} {L : Limits} (P : BState → Prop) (hstep : ∀ s, P s → P (step H L s))
    (k : Nat) (s : BState) (h : P s) : P (run H L k s) := by
  induction k generalizing s with
  | zero => exact h
  | succ k ih => exact ih _ (hstep s h)

theorem run_final {H : Heap} {L : Limits} (k : Nat) {s : BState} (h : s.final = true) : run H L k s = s := by
  induction k with
  | zero => rfl
  | succ k ih => simp only [run, step_final h, ih]

theorem run_add (H : Heap) (L : Limits) (j k : Nat) (s : BState) : run H L (j + k) s = run H L k (run H L j s) := by
  induction j generalizing s with
  | zero => simp [run]
  | succ j ih => rw [Nat.succ_add]; simp only [run]; exact ih _

/-! ### the identity cache -/

theorem lookupId_some_mem {c : Cache} {o : ObjId} {v : Nat} (h : lookupId c o = some v) : (o, v) ∈ c := by
  induction c with
  | nil => simp [lookupId] at h
  | cons a c ih =>
    obtain ⟨o', id⟩ := a
    simp only [lookupId] at h
    by_cases ho : o' = o
    · simp only [ho, if_true, Option.some.injEq] at h
      subst ho; subst h; exact List.mem_cons_self ..
    · simp only [ho, if_false] at h
      exact List.mem_cons_of_mem _ (ih h)

theorem lookupId_none_iff {c : Cache} {o : ObjId} : lookupId c o = none ↔ ∀ p ∈ c, p.1 ≠ o := by
  induction c with
  | nil => simp [lookupId]
  | cons a c ih =>
    obtain ⟨o', id⟩ := a
    simp only [lookupId]
    by_cases ho : o' = o
    · simp [ho]
    · simp only [ho, if_false, ih, List.mem_cons, forall_eq_or_imp, ne_eq, not_false_eq_true, true_and]

theorem lookupId_append_some {c : Cache} {o : ObjId} {v : Nat} (p : ObjId × Nat) (h : lookupId c o = some v) :
    lookupId (c ++ [p]) o = some v := by
  induction c with
  | nil => simp [lookupId] at h
  | cons a c ih =>
    obtain ⟨o', id⟩ := a
    simp only [List.cons_append, lookupId] at h ⊢
    by_cases ho : o' = o
    · simpa [ho] using h
    · simp only [ho, if_false] at h ⊢
      exact ih h

theorem lookupId_append_self {c : Cache} {o : ObjId} (id : Nat) (h : lookupId c o = none) :
    lookupId (c ++ [(o, id)]) o = some id := by
  induction c with
  | nil => simp [lookupId]
  | cons a c ih =>
    obtain ⟨o', id'⟩ := a
    simp only [List.cons_append, lookupId] at h ⊢
    by_cases ho : o' = o
    · simp [ho] at h
    · simp only [ho, if_false] at h ⊢
      exact ih h

theorem lookupId_isSome_append {c : Cache} {o : ObjId} (p : ObjId × Nat) (h : (lookupId c o).isSome = true) :
    (lookupId (c ++ [p]) o).isSome = true := by
  cases hl : lookupId c o with
  | none => simp [hl] at h
  | some v => simp [lookupId_append_some p hl]

end Collector
