/-
  Proofs/GuardIso — per-iteration isolation of guarded loops ("a fault in iteration i does not skip
  iteration j"), and soundness of the static fault resolution `catchAt` w.r.t. the raise-set analysis.
-/
import DeepModel.Proofs.Guard

namespace Guard
open Py (Exn)

/-- one iteration of an isolated loop body ends normally (or with `continue`), whatever faults occur -/
theorem isoBody_step (allowed : RaiseSet) (env : Env) (hf : FaultsIn allowed env) (body : Stmt)
    (hiso : IsoBody allowed body = true) (tr : Trace) :
    ∃ tr', exec env body tr = (.normal, tr') ∨ exec env body tr = (.continued, tr') := by
  cases body with
  | tryExcept b c hid h =>
    simp only [IsoBody, Bool.and_eq_true, Bool.not_eq_true', List.isEmpty_iff, beq_iff_eq] at hiso
    obtain ⟨⟨⟨⟨⟨hcov, hrb⟩, hbb⟩, hrh⟩, hreth⟩, hbh⟩ := hiso
    simp only [exec]
    generalize hx : exec env b tr = rb
    obtain ⟨ob, tb⟩ := rb
    cases ob with
    | normal => exact ⟨tb, Or.inl rfl⟩
    | continued => exact ⟨tb, Or.inr rfl⟩
    | returned v =>
      have := mayRet_sound [] env (agrees_nil env) b _ _ _ hx
      rw [hrb] at this; simp at this
    | broke =>
      have := mayBreak_sound env b _ _ hx
      rw [hbb] at this; simp at this
    | raised e =>
      have hm := exec_sound allowed env hf b _ _ _ hx
      have hcatch : c.catches e = some true := by
        simp only [Covers, Bool.and_eq_true, Bool.or_eq_true, Bool.not_eq_true', beq_iff_eq] at hcov
        cases e with
        | exc =>
          simp only [RaiseSet.mem] at hm
          rcases hcov.1 with h1 | h1
          · rw [h1] at hm; simp at hm
          · exact h1
        | base =>
          simp only [RaiseSet.mem] at hm
          rcases hcov.2 with h1 | h1
          · rw [h1] at hm; simp at hm
          · exact h1
      simp only [hcatch, Option.getD_some, if_true]
      generalize hy : exec env h (Ev.caught hid e :: tb) = rh
      obtain ⟨oh, th⟩ := rh
      cases oh with
      | normal => exact ⟨th, Or.inl rfl⟩
      | continued => exact ⟨th, Or.inr rfl⟩
      | returned v =>
        have := mayRet_sound [] env (agrees_nil env) h _ _ _ hy
        rw [hreth] at this; simp at this
      | broke =>
        have := mayBreak_sound env h _ _ hy
        rw [hbh] at this; simp at this
      | raised e' =>
        have := exec_sound RaiseSet.all env (faultsIn_all env) h _ _ _ hy
        unfold mayRaise at hrh
        rw [hrh, empty_mem] at this
        simp at this
  | _ => simp [IsoBody] at hiso

/-- **isolation**: an isolated loop of `n` iterations ends normally and every one of its iterations is
    entered, for every fault placement (of the allowed classes) — a failure in iteration i never skips j. -/
theorem iso_loopN (allowed : RaiseSet) (env : Env) (hf : FaultsIn allowed env) (id : String) (body : Stmt)
    (hiso : IsoBody allowed body = true) :
    ∀ n i tr, ∃ tr', loopN (exec env body) id n i tr = (.normal, tr') ∧
      (∀ j, i ≤ j → j < i + n → Ev.iter id j ∈ tr') ∧ (∀ ev ∈ tr, ev ∈ tr') := by
  intro n
  induction n with
  | zero =>
    intro i tr
    exact ⟨tr, rfl, fun j h1 h2 => by omega, fun _ h => h⟩
  | succ n ih =>
    intro i tr
    obtain ⟨tb, hb⟩ := isoBody_step allowed env hf body hiso (Ev.iter id i :: tr)
    obtain ⟨tr', h1, h2, h3⟩ := ih (i + 1) tb
    have hmono : ∀ ev ∈ Ev.iter id i :: tr, ev ∈ tb := by
      intro ev hev
      rcases hb with hb | hb <;> exact exec_mono env body ev _ _ _ hev hb
    refine ⟨tr', ?_, ?_, ?_⟩
    · simp only [loopN]
      rcases hb with hb | hb <;> (rw [hb]; exact h1)
    · intro j hj1 hj2
      by_cases hji : j = i
      · subst hji
        exact h3 _ (hmono _ (List.mem_cons_self ..))
      · exact h2 j (by omega) (by omega)
    · intro ev hev
      exact h3 _ (hmono _ (List.mem_cons_of_mem _ hev))

/-- the same, stated for the `loop` statement: the number of iterations is whatever `env.iters` says -/
theorem iso_loop (allowed : RaiseSet) (env : Env) (hf : FaultsIn allowed env) (id : String) (body : Stmt)
    (hiso : IsoBody allowed body = true) (tr : Trace) :
    ∃ tr', exec env (.loop id body) tr = (.normal, tr') ∧
      (∀ j, j < env.iters tr id → Ev.iter id j ∈ tr') ∧ (∀ ev ∈ tr, ev ∈ tr') := by
  obtain ⟨tr', h1, h2, h3⟩ := iso_loopN allowed env hf id body hiso (env.iters tr id) 0 tr
  exact ⟨tr', by simpa [exec] using h1, fun j hj => h2 j (Nat.zero_le _) (by omega), h3⟩

/-! ### the first thing an iteration does -/

/-- the call a statement starts with (nothing can happen before it) -/
def firstCall : Stmt → Option String
  | .call s => some s
  | .seq a _ => firstCall a
  | .tryExcept b _ _ _ => firstCall b
  | .tryFinally b _ => firstCall b
  | .scope _ b => firstCall b
  | _ => none

/-- `a` was recorded right after `b` -/
def Adjacent (a b : Ev) (t : Trace) : Prop := ∃ pre post, t = pre ++ a :: b :: post

theorem adjacent_cons {a b : Ev} {t : Trace} (ev : Ev) (h : Adjacent a b t) : Adjacent a b (ev :: t) := by
  obtain ⟨pre, post, rfl⟩ := h
  exact ⟨ev :: pre, post, rfl⟩

/-- a statement that starts with the call `s` records that call directly on top of the trace it started from -/
theorem exec_firstCall (env : Env) (s : Stmt) (site : String) (hfc : firstCall s = some site) :
    ∀ top tr o tr', exec env s (top :: tr) = (o, tr') → ∃ f, Adjacent (Ev.call site f) top tr' := by
  induction s with
  | call s0 =>
    intro top tr o tr' h
    simp only [firstCall, Option.some.injEq] at hfc
    subst hfc
    simp only [exec] at h
    split at h
    · rename_i e _
      simp only [Prod.mk.injEq] at h
      exact ⟨some e, [], tr, by rw [← h.2]; rfl⟩
    · simp only [Prod.mk.injEq] at h
      exact ⟨none, [], tr, by rw [← h.2]; rfl⟩
  | seq a b iha _ =>
    intro top tr o tr' h
    simp only [firstCall] at hfc
    simp only [exec] at h
    generalize hx : exec env a (top :: tr) = ra at h
    obtain ⟨oa, ta⟩ := ra
    obtain ⟨f, hadj⟩ := iha hfc _ _ _ _ hx
    refine ⟨f, ?_⟩
    cases oa with
    | normal =>
      exact exec_inv env (fun t => Adjacent (Ev.call site f) top t) (fun ev _ hh => adjacent_cons ev hh) b _ _ _ hadj h
    | returned v => simp only [Prod.mk.injEq] at h; exact h.2 ▸ hadj
    | raised e => simp only [Prod.mk.injEq] at h; exact h.2 ▸ hadj
    | broke => simp only [Prod.mk.injEq] at h; exact h.2 ▸ hadj
    | continued => simp only [Prod.mk.injEq] at h; exact h.2 ▸ hadj
  | tryExcept b c hid hd ihb _ =>
    intro top tr o tr' h
    simp only [firstCall] at hfc
    simp only [exec] at h
    generalize hx : exec env b (top :: tr) = rb at h
    obtain ⟨ob, tb⟩ := rb
    obtain ⟨f, hadj⟩ := ihb hfc _ _ _ _ hx
    refine ⟨f, ?_⟩
    cases ob with
    | raised e =>
      simp only at h
      split at h
      · exact exec_inv env (fun t => Adjacent (Ev.call site f) top t) (fun ev _ hh => adjacent_cons ev hh) hd _ _ _
          (adjacent_cons _ hadj) h
      · simp only [Prod.mk.injEq] at h; exact h.2 ▸ hadj
    | normal => simp only [Prod.mk.injEq] at h; exact h.2 ▸ hadj
    | returned v => simp only [Prod.mk.injEq] at h; exact h.2 ▸ hadj
    | broke => simp only [Prod.mk.injEq] at h; exact h.2 ▸ hadj
    | continued => simp only [Prod.mk.injEq] at h; exact h.2 ▸ hadj
  | tryFinally b f ihb _ =>
    intro top tr o tr' h
    simp only [firstCall] at hfc
    simp only [exec] at h
    generalize hx : exec env b (top :: tr) = rb at h
    obtain ⟨ob, tb⟩ := rb
    obtain ⟨fl, hadj⟩ := ihb hfc _ _ _ _ hx
    refine ⟨fl, ?_⟩
    simp only at h
    generalize hfn : exec env f tb = rf at h
    obtain ⟨of, tf⟩ := rf
    have := exec_inv env (fun t => Adjacent (Ev.call site fl) top t) (fun ev _ hh => adjacent_cons ev hh) f _ _ _ hadj hfn
    cases of <;> (simp only [Prod.mk.injEq] at h; exact h.2 ▸ this)
  | scope n b ih =>
    intro top tr o tr' h
    simp only [firstCall] at hfc
    simp only [exec] at h
    generalize hx : exec env b (top :: tr) = rb at h
    obtain ⟨ob, tb⟩ := rb
    obtain ⟨f, hadj⟩ := ih hfc _ _ _ _ hx
    refine ⟨f, ?_⟩
    cases ob <;> (simp only [Prod.mk.injEq] at h; exact h.2 ▸ hadj)
  | pure => simp [firstCall] at hfc
  | assign _ _ => simp [firstCall] at hfc
  | branch _ _ _ _ _ => simp [firstCall] at hfc
  | loop _ _ _ => simp [firstCall] at hfc
  | ret _ => simp [firstCall] at hfc
  | raise _ => simp [firstCall] at hfc
  | brk => simp [firstCall] at hfc
  | cont => simp [firstCall] at hfc

/-- **isolation, with the callback named**: in an isolated loop whose body starts with the call `site`
    (the plugin callback), that call is made in every iteration j < n — directly after the iteration
    starts — whatever failed in the other iterations. -/
theorem iso_loopN_calls (allowed : RaiseSet) (env : Env) (hf : FaultsIn allowed env) (id : String) (body : Stmt)
    (hiso : IsoBody allowed body = true) (site : String) (hfc : firstCall body = some site) :
    ∀ n i tr, ∃ tr', loopN (exec env body) id n i tr = (.normal, tr') ∧
      (∀ j, i ≤ j → j < i + n → ∃ f, Adjacent (Ev.call site f) (Ev.iter id j) tr') ∧
      (∀ a b, Adjacent a b tr → Adjacent a b tr') := by
  intro n
  induction n with
  | zero =>
    intro i tr
    exact ⟨tr, rfl, fun j h1 h2 => by omega, fun _ _ h => h⟩
  | succ n ih =>
    intro i tr
    obtain ⟨tb, hb⟩ := isoBody_step allowed env hf body hiso (Ev.iter id i :: tr)
    obtain ⟨tr', h1, h2, h3⟩ := ih (i + 1) tb
    have hstep : ∃ o, exec env body (Ev.iter id i :: tr) = (o, tb) := by
      rcases hb with hb | hb
      · exact ⟨_, hb⟩
      · exact ⟨_, hb⟩
    obtain ⟨o, ho⟩ := hstep
    refine ⟨tr', ?_, ?_, ?_⟩
    · simp only [loopN]
      rcases hb with hb | hb <;> (rw [hb]; exact h1)
    · intro j hj1 hj2
      by_cases hji : j = i
      · subst hji
        obtain ⟨f, hadj⟩ := exec_firstCall env body site hfc _ _ _ _ ho
        exact ⟨f, h3 _ _ hadj⟩
      · exact h2 j (by omega) (by omega)
    · intro a b hab
      apply h3
      exact exec_inv env (fun t => Adjacent a b t) (fun ev _ hh => adjacent_cons ev hh) body _ _ _
        (adjacent_cons _ hab) ho

/-! ### static resolution agrees with the raise-set analysis -/

theorem catchAt_sound (allowed : RaiseSet) (site : String) (e : Exn) (he : allowed.mem e = true) (s : Stmt) :
    ∀ e', catchAt site e s = some (.escapes e') → (mayRaiseA allowed s).mem e' = true := by
  induction s with
  | call s0 =>
    intro e' h
    simp only [catchAt] at h
    split at h
    · simp only [Option.some.injEq, Res.escapes.injEq] at h
      subst h; exact he
    · simp at h
  | seq a b iha ihb =>
    intro e' h
    simp only [catchAt] at h
    rw [mayRaiseA, union_mem]
    cases ha : catchAt site e a with
    | some r => rw [ha] at h; simp only [Option.orElse] at h; simp [iha _ (ha.trans h)]
    | none => rw [ha] at h; simp only [Option.orElse] at h; simp [ihb _ h]
  | branch c a b iha ihb =>
    intro e' h
    simp only [catchAt] at h
    rw [mayRaiseA, union_mem]
    cases ha : catchAt site e a with
    | some r => rw [ha] at h; simp only [Option.orElse] at h; simp [iha _ (ha.trans h)]
    | none => rw [ha] at h; simp only [Option.orElse] at h; simp [ihb _ h]
  | loop id b ih =>
    intro e' h
    simp only [catchAt] at h
    rw [mayRaiseA]; exact ih _ h
  | tryExcept b c hid hd ihb ihh =>
    intro e' h
    simp only [catchAt] at h
    simp only [mayRaiseA]
    rw [union_mem, union_mem]
    cases hb : catchAt site e b with
    | none =>
      rw [hb] at h
      simp [ihh _ h]
    | some r =>
      rw [hb] at h
      cases r with
      | caught hid' => simp at h
      | maybe hid' e1 => simp at h
      | escapes e1 =>
        have hm := ihb _ hb
        simp only at h
        cases hc : c.catches e1 with
        | none => rw [hc] at h; simp at h
        | some t =>
          rw [hc] at h
          cases t with
          | true => simp at h
          | false =>
            simp only [Option.some.injEq, Res.escapes.injEq] at h
            subst h
            cases e1 with
            | exc =>
              simp only [RaiseSet.mem] at hm
              simp [uncaught, hm, hc, RaiseSet.single, RaiseSet.mem]
            | base =>
              simp only [RaiseSet.mem] at hm
              simp [uncaught, hm, hc, RaiseSet.single, RaiseSet.mem]
  | tryFinally b f ihb ihf =>
    intro e' h
    simp only [catchAt] at h
    rw [mayRaiseA, union_mem]
    cases ha : catchAt site e b with
    | some r => rw [ha] at h; simp only [Option.orElse] at h; simp [ihb _ (ha.trans h)]
    | none => rw [ha] at h; simp only [Option.orElse] at h; simp [ihf _ h]
  | scope n b ih =>
    intro e' h
    simp only [catchAt] at h
    rw [mayRaiseA]; exact ih _ h
  | pure => intro e' h; simp [catchAt] at h
  | assign _ _ => intro e' h; simp [catchAt] at h
  | ret _ => intro e' h; simp [catchAt] at h
  | raise _ => intro e' h; simp [catchAt] at h
  | brk => intro e' h; simp [catchAt] at h
  | cont => intro e' h; simp [catchAt] at h

/-- in a guarded skeleton the static resolution never says "escapes" -/
theorem catchAt_guarded (s : Stmt) (hg : AllGuarded s) (site : String) (e e' : Exn) :
    catchAt site e s ≠ some (.escapes e') := by
  intro h
  have := catchAt_sound RaiseSet.all site e (all_mem e) s e' h
  unfold AllGuarded mayRaise at hg
  rw [hg, empty_mem] at this
  exact Bool.false_ne_true this

end Guard
