/-
  Proofs/ResEnv — the environment parser of `DeepResourceDetector.detect` (translated: `detectEnv`/`detectLoop`)
  against a specification written from the statement (C18, owner O7).
-/
import DeepModel.Proofs.Resource

namespace ResEnvProofs
open Attr Extracted.Attributes Attributes Resource ResProofs

/-- what one item `k=v` of DEEP_RESOURCE_ATTRIBUTES means: key and value around the FIRST "=", both stripped, the
    value url-unquoted; an item without "=" means nothing.  NOTE: written with the SAME hand-written text operations
    (`splitKV`, `asciiStrip`, `unquoteS`) as the translated loop calls — `detect_eq` is therefore a loop-to-fold
    refinement (which items, in which order, which one wins), not an independent account of split/strip/unquote. -/
def itemPair (item : String) : Option (String × String) :=
  (splitKV item).map (fun kv => (asciiStrip kv.1, unquoteS (asciiStrip kv.2)))

/-- the pairs a DEEP_RESOURCE_ATTRIBUTES text spells, in order -/
def envPairs (s : String) : List (String × String) := (splitItems s).filterMap itemPair

/-- storing pairs one after the other (a later pair with the same key replaces the value, the key keeps its place) -/
def storePairs (kvs : List (String × String)) (acc : OD) : OD :=
  kvs.foldl (fun d kv => OD.set d (Key.str kv.1) (strVal kv.2)) acc

/-- DEEP_SERVICE_NAME, when set and not empty, is stored last under `service.name` -/
def withSvc (sn : Option String) (d : OD) : OD :=
  if envTruthy sn then OD.set d (Key.str serviceNameKey) (strVal (envText sn)) else d

theorem detectLoop_eq (ra sn : Option String) (items : List String) :
    ∀ acc : OD, detectLoop ra sn items acc = withSvc sn (storePairs (items.filterMap itemPair) acc) := by
  induction items with
  | nil => intro acc; simp only [detectLoop, withSvc, storePairs, List.filterMap_nil, List.foldl_nil]
  | cons it items ih =>
    intro acc
    simp only [detectLoop]
    cases h : splitKV it with
    | none =>
      have : itemPair it = none := by simp [itemPair, h]
      simp only [List.filterMap_cons, this]
      exact ih acc
    | some kv =>
      obtain ⟨k, v⟩ := kv
      have : itemPair it = some (asciiStrip k, unquoteS (asciiStrip v)) := by simp [itemPair, h]
      simp only [List.filterMap_cons, this]
      rw [ih]
      rfl

theorem envPairs_empty : envPairs "" = [] := by decide

theorem envText_of_falsy {ra : Option String} (h : envTruthy ra = false) : envText ra = "" := by
  cases ra with
  | none => rfl
  | some s =>
    simp only [envTruthy, bne_eq_false_iff_eq, beq_iff_eq] at h
    simp [envText, h]

/-- the translated detector = the specification, for every value of the two variables -/
theorem detect_eq (ra sn : Option String) :
    detect ra sn = withSvc sn (storePairs (envPairs (envText ra)) []) := by
  unfold detect detectEnv
  simp only
  by_cases h : envTruthy ra = true
  · rw [if_pos h, detectLoop_eq]; rfl
  · have h' : envTruthy ra = false := by simpa using h
    rw [if_neg h, envText_of_falsy h', envPairs_empty]
    rfl

theorem get_storePairs (kvs : List (String × String)) : ∀ (acc : OD) (k : String),
    OD.get (storePairs kvs acc) (Key.str k) =
      match kvs.reverse.find? (fun kv => kv.1 == k) with
      | some kv => some (strVal kv.2)
      | none => OD.get acc (Key.str k) := by
  induction kvs with
  | nil => intro acc k; rfl
  | cons kv kvs ih =>
    intro acc k
    simp only [storePairs, List.foldl_cons] at ih ⊢
    rw [ih, List.reverse_cons, List.find?_append]
    cases hf : List.find? (fun kv => kv.1 == k) kvs.reverse with
    | some x => rfl
    | none =>
      simp only [Option.none_or, List.find?_cons, List.find?_nil]
      rw [get_set]
      by_cases hk : kv.1 = k
      · simp [hk]
      · have : (kv.1 == k) = false := by simpa using hk
        have hne : ¬ (Key.str k = Key.str kv.1) := by intro h; injection h with h; exact hk h.symm
        simp [this, hne]

/-! ### rendering well-formed pairs and parsing them back -/

/-- `k1=v1,k2=v2,…` -/
def renderC : List (List Char × List Char) → List Char
  | [] => []
  | [p] => p.1 ++ '=' :: p.2
  | p :: q :: rest => p.1 ++ '=' :: p.2 ++ ',' :: renderC (q :: rest)

/-- a pair that can be written as `k=v` without quoting: ASCII only (the modelled domain), no "," or "=" in the key,
    no "," or "%" in the value, no (ASCII) white space at either end of either -/
structure WFPair (p : List Char × List Char) : Prop where
  kAscii : ∀ c ∈ p.1, c.toNat < 128
  vAscii : ∀ c ∈ p.2, c.toNat < 128
  kComma : ',' ∉ p.1
  kEq : '=' ∉ p.1
  vComma : ',' ∉ p.2
  vPct : '%' ∉ p.2
  kStrip : stripS p.1 = String.ofList p.1
  vStrip : stripS p.2 = String.ofList p.2

theorem splitOn_nosep (c : Char) : ∀ l : List Char, c ∉ l → splitOn c l = [l] := by
  intro l
  induction l with
  | nil => intro _; rfl
  | cons x xs ih =>
    intro h
    have hx : (x == c) = false := by
      have : x ≠ c := fun e => h (by simp [e])
      simpa using this
    have hxs : c ∉ xs := fun e => h (List.mem_cons_of_mem _ e)
    simp only [splitOn, hx, Bool.false_eq_true, if_false, ih hxs]

theorem splitOn_sep (c : Char) (r : List Char) : ∀ l : List Char, c ∉ l →
    splitOn c (l ++ c :: r) = l :: splitOn c r := by
  intro l
  induction l with
  | nil => intro _; simp [splitOn]
  | cons x xs ih =>
    intro h
    have hx : (x == c) = false := by
      have : x ≠ c := fun e => h (by simp [e])
      simpa using this
    have hxs : c ∉ xs := fun e => h (List.mem_cons_of_mem _ e)
    simp only [List.cons_append, splitOn, hx, Bool.false_eq_true, if_false, ih hxs]

theorem splitFirst_sep (c : Char) (v : List Char) : ∀ k : List Char, c ∉ k →
    splitFirst c (k ++ c :: v) = some (k, v) := by
  intro k
  induction k with
  | nil => intro _; simp [splitFirst]
  | cons x xs ih =>
    intro h
    have hx : (x == c) = false := by
      have : x ≠ c := fun e => h (by simp [e])
      simpa using this
    have hxs : c ∉ xs := fun e => h (List.mem_cons_of_mem _ e)
    simp only [List.cons_append, splitFirst, hx, Bool.false_eq_true, if_false, ih hxs, Option.map_some]

theorem unquote_nopct : ∀ l : List Char, '%' ∉ l → unquote l = l := by
  intro l
  unfold unquote
  induction l with
  | nil => intro _; rfl
  | cons c tl ih =>
    intro h
    have hc : (c == '%') = false := by
      have : c ≠ '%' := fun e => h (by simp [e])
      simpa using this
    have hr : '%' ∉ tl := fun e => h (List.mem_cons_of_mem _ e)
    simp only [unquoteAux, hc, Bool.false_eq_true, if_false, ih hr]

theorem itemPair_wf {p : List Char × List Char} (h : WFPair p) :
    itemPair (String.ofList (p.1 ++ '=' :: p.2)) = some (String.ofList p.1, String.ofList p.2) := by
  have hk : asciiStrip (String.ofList p.1) = String.ofList p.1 := h.kStrip
  have hv : asciiStrip (String.ofList p.2) = String.ofList p.2 := h.vStrip
  simp only [itemPair, splitKV, String.toList_ofList, splitFirst_sep '=' p.2 p.1 h.kEq, Option.map_some, hk, hv,
    unquoteS, unquote_nopct p.2 h.vPct]

theorem splitOn_render : ∀ kvs : List (List Char × List Char), (∀ p ∈ kvs, WFPair p) → kvs ≠ [] →
    splitOn ',' (renderC kvs) = kvs.map (fun p => p.1 ++ '=' :: p.2) := by
  intro kvs
  induction kvs with
  | nil => intro _ h; exact absurd rfl h
  | cons p rest ih =>
    intro hw _
    have hp := hw p (by simp)
    have hitem : ',' ∉ p.1 ++ '=' :: p.2 := by
      intro e
      rcases List.mem_append.mp e with e | e
      · exact hp.kComma e
      · rcases List.mem_cons.mp e with e | e
        · exact absurd e (by decide)
        · exact hp.vComma e
    cases rest with
    | nil => simp only [renderC, List.map_cons, List.map_nil]; exact splitOn_nosep ',' _ hitem
    | cons q rest =>
      have hrest := ih (fun x hx => hw x (List.mem_cons_of_mem _ hx)) (by simp)
      simp only [renderC, List.map_cons] at hrest ⊢
      have : p.1 ++ '=' :: p.2 ++ ',' :: renderC (q :: rest) = (p.1 ++ '=' :: p.2) ++ ',' :: renderC (q :: rest) := by
        simp
      rw [this, splitOn_sep ',' _ _ hitem, hrest]

/-- **round trip at the level of pairs**: the text rendered from well-formed pairs spells exactly those pairs -/
theorem envPairs_render (kvs : List (List Char × List Char)) (hw : ∀ p ∈ kvs, WFPair p) :
    envPairs (String.ofList (renderC kvs)) = kvs.map (fun p => (String.ofList p.1, String.ofList p.2)) := by
  cases kvs with
  | nil => exact envPairs_empty
  | cons p rest =>
    simp only [envPairs, splitItems, String.toList_ofList, splitOn_render (p :: rest) hw (by simp)]
    generalize p :: rest = l at hw
    induction l with
    | nil => rfl
    | cons q l ih =>
      simp only [List.map_cons, List.filterMap_cons, itemPair_wf (hw q (by simp))]
      rw [ih (fun x hx => hw x (List.mem_cons_of_mem _ hx))]

end ResEnvProofs
