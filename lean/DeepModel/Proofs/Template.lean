/- helper lemmas about `Model.Template` (property theorems live in Props/C16) -/
import DeepModel.Model.Template

namespace Template
open Extracted.Expr

/-! ### the parser reads back what `unparse` writes -/

theorem run_append (s : St) (a b : List Char) :
    run s (a ++ b) = match run s a with | .ok s' => run s' b | .error e => .error e := by
  induction a generalizing s with
  | nil => simp [run]
  | cons c cs ih =>
    simp only [List.cons_append, run]
    cases step s c with
    | ok s' => simp [ih]
    | error e => simp

/-- literal text: `escape a` is consumed into the pending literal -/
theorem run_escape (o : List Seg) (a : List Char) : ∀ (l rest : List Char),
    run ⟨o, l, .text⟩ (escape a ++ rest) = run ⟨o, a.reverse ++ l, .text⟩ rest := by
  induction a with
  | nil => intro l rest; simp [escape]
  | cons c cs ih =>
    intro l rest
    by_cases hb : c = '{' ∨ c = '}'
    · simp only [escape, hb, if_true, List.cons_append]
      rcases hb with rfl | rfl
      · simp only [run, step]
        simp only [if_true]
        rw [ih]
        simp [List.reverse_cons, List.append_assoc]
      · simp only [run, step]
        have : ('}' : Char) ≠ '{' := by decide
        simp only [this, if_false, if_true]
        rw [ih]
        simp [List.reverse_cons, List.append_assoc]
    · simp only [escape, hb, if_false, List.cons_append]
      have h1 : c ≠ '{' := fun h => hb (Or.inl h)
      have h2 : c ≠ '}' := fun h => hb (Or.inr h)
      simp only [run, step, h1, h2, if_false]
      rw [ih]
      simp [List.reverse_cons, List.append_assoc]

/-- a field name (possibly already inside brackets) is consumed whole -/
theorem run_name (o : List Seg) (l : List Char) (nm : List Char) : ∀ (inBr : Bool) (acc rest : List Char),
    nameOk inBr nm = true →
    run ⟨o, l, if inBr then .bracket acc else .name acc⟩ (nm ++ rest) = run ⟨o, l, .name (nm.reverse ++ acc)⟩ rest := by
  induction nm with
  | nil =>
    intro inBr acc rest h
    cases inBr with
    | true => simp [nameOk] at h
    | false => simp
  | cons c cs ih =>
    intro inBr acc rest h
    cases inBr with
    | true =>
      simp only [nameOk, if_true] at h
      simp only [List.cons_append, run, step, if_true]
      by_cases hc : c = ']'
      · simp only [hc, if_true] at h ⊢
        have := ih false (']' :: acc) rest h
        simp only [Bool.false_eq_true, if_false] at this
        rw [this]
        simp [List.reverse_cons, List.append_assoc]
      · simp only [hc, if_false] at h ⊢
        have := ih true (c :: acc) rest h
        simp only [if_true] at this
        rw [this]
        simp [List.reverse_cons, List.append_assoc]
    | false =>
      simp only [nameOk, Bool.false_eq_true, if_false] at h
      by_cases hsp : c = '{' ∨ c = '}' ∨ c = ':' ∨ c = '!'
      · simp [hsp] at h
      · simp only [hsp, if_false] at h
        have h1 : c ≠ '{' := fun e => hsp (Or.inl e)
        have h2 : c ≠ '}' := fun e => hsp (Or.inr (Or.inl e))
        have h3 : c ≠ ':' := fun e => hsp (Or.inr (Or.inr (Or.inl e)))
        have h4 : c ≠ '!' := fun e => hsp (Or.inr (Or.inr (Or.inr e)))
        simp only [List.cons_append, run, step, Bool.false_eq_true, if_false, nameStep, h1, h2, h3, h4]
        by_cases hb : c = '['
        · simp only [hb, if_true] at h ⊢
          have := ih true ('[' :: acc) rest h
          simp only [if_true] at this
          rw [this]
          simp [List.reverse_cons, List.append_assoc]
        · simp only [hb, if_false] at h ⊢
          have := ih false (c :: acc) rest h
          simp only [Bool.false_eq_true, if_false] at this
          rw [this]
          simp [List.reverse_cons, List.append_assoc]

/-- a brace-free format spec is consumed whole -/
theorem run_spec (o : List Seg) (l nm : List Char) (cv : Option Char) (d : Nat) (sp : List Char) :
    ∀ (acc rest : List Char), noBrace sp = true →
    run ⟨o, l, .spec nm cv d acc⟩ (sp ++ rest) = run ⟨o, l, .spec nm cv d (sp.reverse ++ acc)⟩ rest := by
  induction sp with
  | nil => intro acc rest _; simp
  | cons c cs ih =>
    intro acc rest h
    simp only [noBrace, List.all_cons, Bool.and_eq_true, decide_eq_true_eq] at h
    obtain ⟨⟨h1, h2⟩, h3⟩ := h
    simp only [List.cons_append, run, step, h1, h2, if_false]
    rw [ih (c :: acc) rest (by simpa [noBrace] using h3)]
    simp [List.reverse_cons, List.append_assoc]

theorem run_cons_ok {s s' : St} {c : Char} (cs : List Char) (h : step s c = .ok s') :
    run s (c :: cs) = run s' cs := by
  simp [run, h]

/-- the first character after the opening brace of a written field is never `{` -/
theorem sawOpen_eq_name (o : List Seg) (l : List Char) (c : Char) (cs : List Char) (hc : c ≠ '{') :
    run ⟨o, l, .sawOpen⟩ (c :: cs) = run ⟨o, l, .name []⟩ (c :: cs) := by
  simp only [run, step, hc, if_false, nameStep, St.emit, St.flush]

theorem nameOk_head (c : Char) (cs : List Char) (h : nameOk false (c :: cs) = true) : c ≠ '{' := by
  intro e
  simp [nameOk, e] at h

/-- after the name: conversion, spec, closing brace -/
theorem run_tail (o : List Seg) (l nm : List Char) (cv : Option Char) (sp rest : List Char)
    (hs : noBrace sp = true) :
    run ⟨o, l, .name nm⟩ (convPart cv ++ (specPart sp ++ ('}' :: rest)))
      = run (St.emit ⟨o, l, .text⟩ nm cv sp.reverse) rest := by
  have close : ∀ (cv : Option Char) (acc : List Char),
      run ⟨o, l, .spec nm cv 1 acc⟩ ('}' :: rest) = run (St.emit ⟨o, l, .text⟩ nm cv acc) rest := by
    intro cv acc
    apply run_cons_ok
    simp [step, St.emit, St.flush]
  have specRun : ∀ (cv : Option Char) (x : Char) (xs : List Char), noBrace (x :: xs) = true →
      run ⟨o, l, .spec nm cv 1 []⟩ ((x :: xs) ++ ('}' :: rest))
        = run (St.emit ⟨o, l, .text⟩ nm cv (x :: xs).reverse) rest := by
    intro cv x xs h
    rw [run_spec o l nm cv 1 (x :: xs) [] ('}' :: rest) h]
    rw [List.append_nil]
    exact close cv _
  cases cv with
  | none =>
    cases sp with
    | nil =>
      simp only [convPart, specPart, List.isEmpty_nil, if_true, List.nil_append, List.reverse_nil]
      apply run_cons_ok
      simp [step, nameStep, St.emit, St.flush]
    | cons x xs =>
      simp only [convPart, specPart, List.isEmpty_cons, Bool.false_eq_true, if_false, List.nil_append]
      have h1 : run ⟨o, l, .name nm⟩ (':' :: ((x :: xs) ++ ('}' :: rest)))
          = run ⟨o, l, .spec nm none 1 []⟩ ((x :: xs) ++ ('}' :: rest)) := by
        apply run_cons_ok
        simp [step, nameStep]
      simp only [List.cons_append] at h1 ⊢
      rw [h1]
      exact specRun none x xs hs
  | some c =>
    have h0 : ∀ (t : List Char), run ⟨o, l, .name nm⟩ ('!' :: c :: t) = run ⟨o, l, .afterConv nm c⟩ t := by
      intro t
      have a : run ⟨o, l, .name nm⟩ ('!' :: c :: t) = run ⟨o, l, .convCh nm⟩ (c :: t) := by
        apply run_cons_ok
        simp [step, nameStep]
      rw [a]
      apply run_cons_ok
      simp [step]
    cases sp with
    | nil =>
      simp only [convPart, specPart, List.isEmpty_nil, if_true, List.nil_append, List.reverse_nil, List.cons_append]
      rw [h0]
      apply run_cons_ok
      simp [step, St.emit, St.flush]
    | cons x xs =>
      simp only [convPart, specPart, List.isEmpty_cons, Bool.false_eq_true, if_false, List.nil_append,
        List.cons_append]
      rw [h0]
      have h1 : run ⟨o, l, .afterConv nm c⟩ (':' :: ((x :: xs) ++ ('}' :: rest)))
          = run ⟨o, l, .spec nm (some c) 1 []⟩ ((x :: xs) ++ ('}' :: rest)) := by
        apply run_cons_ok
        simp [step]
      simp only [List.cons_append] at h1
      rw [h1]
      exact specRun (some c) x xs hs

theorem tail_head (cv : Option Char) (sp rest : List Char) :
    ∃ c cs, convPart cv ++ (specPart sp ++ ('}' :: rest)) = c :: cs ∧ c ≠ '{' := by
  cases cv with
  | some c => exact ⟨'!', _, rfl, by decide⟩
  | none =>
    cases sp with
    | nil => exact ⟨'}', _, rfl, by decide⟩
    | cons x xs => exact ⟨':', x :: (xs ++ '}' :: rest), by simp [convPart, specPart], by decide⟩

/-- a whole written field -/
theorem run_field (o : List Seg) (l nm : List Char) (cv : Option Char) (sp rest : List Char)
    (hn : nameOk false nm = true) (hs : noBrace sp = true) :
    run ⟨o, l, .text⟩ (unparseSeg (.field nm cv sp) ++ rest)
      = run (St.emit ⟨o, l, .text⟩ nm.reverse cv sp.reverse) rest := by
  have e : unparseSeg (.field nm cv sp) ++ rest = '{' :: (nm ++ (convPart cv ++ (specPart sp ++ ('}' :: rest)))) := by
    simp [unparseSeg, List.append_assoc]
  rw [e]
  have h0 : run ⟨o, l, .text⟩ ('{' :: (nm ++ (convPart cv ++ (specPart sp ++ ('}' :: rest)))))
      = run ⟨o, l, .sawOpen⟩ (nm ++ (convPart cv ++ (specPart sp ++ ('}' :: rest)))) := by
    apply run_cons_ok
    simp [step]
  rw [h0]
  have hsw : run ⟨o, l, .sawOpen⟩ (nm ++ (convPart cv ++ (specPart sp ++ ('}' :: rest))))
      = run ⟨o, l, .name []⟩ (nm ++ (convPart cv ++ (specPart sp ++ ('}' :: rest)))) := by
    cases nm with
    | cons c cs => exact sawOpen_eq_name o l c _ (nameOk_head c cs hn)
    | nil =>
      obtain ⟨c, cs, hb, hc⟩ := tail_head cv sp rest
      rw [List.nil_append, hb]
      exact sawOpen_eq_name o l c cs hc
  rw [hsw]
  have := run_name o l nm false [] (convPart cv ++ (specPart sp ++ ('}' :: rest))) hn
  simp only [Bool.false_eq_true, if_false, List.append_nil] at this
  rw [this]
  exact run_tail o l nm.reverse cv sp rest hs

def allWf (segs : List Seg) : Prop := ∀ s ∈ segs, s.wf = true

theorem flush_reverse (o : List Seg) (l : List Char) :
    (St.flush ⟨o, l, .text⟩).reverse = o.reverse ++ (if l.reverse.isEmpty then [] else [Seg.lit l.reverse]) := by
  unfold St.flush
  cases l with
  | nil => simp
  | cons x xs => simp

/-- the parser on a written segment list, from any text state -/
theorem run_unparse (segs : List Seg) (hw : allWf segs) : ∀ (o : List Seg) (l : List Char),
    (match run ⟨o, l, .text⟩ (unparse segs) with | .ok s => finish s | .error e => .error e)
      = .ok (o.reverse ++ norm l.reverse segs) := by
  induction segs with
  | nil =>
    intro o l
    simp only [unparse, run, finish, norm]
    rw [flush_reverse]
  | cons s rest ih =>
    intro o l
    have hrest : allWf rest := fun x hx => hw x (List.mem_cons_of_mem _ hx)
    have hs := hw s (List.mem_cons_self ..)
    cases s with
    | lit a =>
      simp only [unparse, unparseSeg]
      rw [run_escape]
      rw [ih hrest]
      simp [norm, List.reverse_append]
    | field nm cv sp =>
      simp only [Seg.wf, Bool.and_eq_true] at hs
      simp only [unparse]
      rw [run_field o l nm cv sp (unparse rest) hs.1 hs.2]
      simp only [St.emit]
      rw [ih hrest]
      simp only [List.reverse_cons, List.reverse_reverse, List.reverse_nil, norm]
      rw [flush_reverse]
      simp [List.append_assoc]

theorem parse_unparse (segs : List Seg) (hw : allWf segs) : parseChars (unparse segs) = .ok (normalise segs) := by
  have := run_unparse segs hw [] []
  unfold parseChars normalise St.init
  cases h : run ⟨[], [], .text⟩ (unparse segs) with
  | ok s => rw [h] at this; simpa using this
  | error e => rw [h] at this; simp at this

/-! ### rendering -/

/-- text a segment contributes -/
def piece (ev : String → Outcome) : Seg → Except Err (List Char)
  | .lit s => .ok s
  | .field nm cv sp => fieldText ev nm cv sp

/-- the message body: every piece in order; the first failing piece fails the whole message -/
def pieces (ev : String → Outcome) : List Seg → Except Err (List Char)
  | [] => .ok []
  | s :: rest =>
    match piece ev s with
    | .error e => .error e
    | .ok p => match pieces ev rest with
      | .ok ps => .ok (p ++ ps)
      | .error e => .error e

def fieldNames : List Seg → List String
  | [] => []
  | .lit _ :: rest => fieldNames rest
  | .field nm _ _ :: rest => String.ofList nm :: fieldNames rest

/-- every field has an expression (what the statement calls an `{expression}` field) -/
def namesNonEmpty (segs : List Seg) : Prop := ∀ nm cv sp, Seg.field nm cv sp ∈ segs → nm ≠ []

/-- rendering, flattened: message body and watch expressions -/
def renderFlat (ev : String → Outcome) (auto : Option Nat) (segs : List Seg) : Except Err (List Char × List String) :=
  match renderSegs ev auto segs with
  | .ok (ps, ws) => .ok (ps.flatten, ws)
  | .error e => .error e

theorem renderFlat_nil (ev : String → Outcome) (auto : Option Nat) : renderFlat ev auto [] = .ok ([], []) := by
  simp [renderFlat, renderSegs]

theorem renderFlat_lit (ev : String → Outcome) (auto : Option Nat) (a : List Char) (rest : List Seg) :
    renderFlat ev auto (.lit a :: rest) =
      match renderFlat ev auto rest with | .ok (t, ws) => .ok (a ++ t, ws) | .error e => .error e := by
  unfold renderFlat
  simp only [renderSegs]
  cases renderSegs ev auto rest with
  | ok r => simp
  | error e => simp

theorem renderFlat_field (ev : String → Outcome) (auto : Option Nat) (nm : List Char) (cv : Option Char)
    (sp : List Char) (rest : List Seg) :
    renderFlat ev auto (.field nm cv sp :: rest) =
      match fieldExpr auto nm with
      | .error e => .error e
      | .ok (expr, auto') =>
        match fieldText ev expr cv sp with
        | .error e => .error e
        | .ok t => match renderFlat ev auto' rest with
          | .ok (b, ws) => .ok (t ++ b, String.ofList expr :: ws)
          | .error e => .error e := by
  unfold renderFlat
  simp only [renderSegs]
  cases fieldExpr auto nm with
  | error e => simp
  | ok r =>
    obtain ⟨expr, auto'⟩ := r
    simp only
    cases fieldText ev expr cv sp with
    | error e => simp
    | ok t =>
      simp only
      cases renderSegs ev auto' rest with
      | ok r => simp
      | error e => simp

/-- joining literal runs does not change what is rendered -/
theorem renderFlat_norm (ev : String → Outcome) (segs : List Seg) : ∀ (acc : List Char) (auto : Option Nat),
    renderFlat ev auto (norm acc segs) =
      match renderFlat ev auto segs with | .ok (t, ws) => .ok (acc ++ t, ws) | .error e => .error e := by
  induction segs with
  | nil =>
    intro acc auto
    simp only [norm, renderFlat_nil]
    cases acc with
    | nil => simp [renderFlat_nil]
    | cons x xs => simp [renderFlat_lit, renderFlat_nil]
  | cons s rest ih =>
    intro acc auto
    cases s with
    | lit a =>
      simp only [norm, ih, renderFlat_lit]
      cases renderFlat ev auto rest with
      | ok r => simp [List.append_assoc]
      | error e => simp
    | field nm cv sp =>
      have key : renderFlat ev auto (.field nm cv sp :: norm [] rest) = renderFlat ev auto (.field nm cv sp :: rest) := by
        simp only [renderFlat_field]
        cases fieldExpr auto nm with
        | error e => simp
        | ok r =>
          obtain ⟨expr, auto'⟩ := r
          simp only
          cases fieldText ev expr cv sp with
          | error e => simp
          | ok t =>
            simp only [ih [] auto']
            cases renderFlat ev auto' rest with
            | ok r => simp
            | error e => simp
      simp only [norm]
      cases acc with
      | nil =>
        simp only [List.isEmpty_nil, if_true, List.nil_append, key]
        cases renderFlat ev auto (.field nm cv sp :: rest) with
        | ok r => simp
        | error e => simp
      | cons x xs =>
        simp only [List.isEmpty_cons, Bool.false_eq_true, if_false, List.cons_append, List.nil_append,
          renderFlat_lit, key]

/-- with every field carrying an expression, numbering never interferes: rendering = the pieces in order -/
theorem renderFlat_pieces (ev : String → Outcome) (segs : List Seg) (hn : namesNonEmpty segs) :
    ∀ (auto : Option Nat), (auto = some 0 ∨ auto = none) →
    renderFlat ev auto segs =
      match pieces ev segs with | .ok t => .ok (t, fieldNames segs) | .error e => .error e := by
  induction segs with
  | nil => intro auto _; simp [renderFlat_nil, pieces, fieldNames]
  | cons s rest ih =>
    intro auto ha
    have hrest : namesNonEmpty rest := fun nm cv sp hm => hn nm cv sp (List.mem_cons_of_mem _ hm)
    cases s with
    | lit a =>
      simp only [renderFlat_lit, ih hrest auto ha, pieces, piece, fieldNames]
      cases pieces ev rest with
      | ok t => simp
      | error e => simp
    | field nm cv sp =>
      have hne : nm ≠ [] := hn nm cv sp (List.mem_cons_self ..)
      have hfe : ∃ auto', fieldExpr auto nm = .ok (nm, auto') ∧ (auto' = some 0 ∨ auto' = none) := by
        unfold fieldExpr
        have : nm.isEmpty = false := by
          cases nm with
          | nil => exact absurd rfl hne
          | cons _ _ => rfl
        simp only [this, Bool.false_eq_true, if_false]
        by_cases hd : isDigits nm = true
        · simp only [hd, if_true]
          rcases ha with rfl | rfl
          · exact ⟨none, rfl, Or.inr rfl⟩
          · exact ⟨none, rfl, Or.inr rfl⟩
        · simp only [hd, Bool.false_eq_true, if_false]
          exact ⟨auto, rfl, ha⟩
      obtain ⟨auto', hfe, ha'⟩ := hfe
      simp only [renderFlat_field, hfe, pieces, piece, fieldNames]
      cases fieldText ev nm cv sp with
      | error e => simp
      | ok t =>
        simp only [ih hrest auto' ha']
        cases pieces ev rest with
        | ok t => simp
        | error e => simp

theorem fieldNames_norm (segs : List Seg) : ∀ acc, fieldNames (norm acc segs) = fieldNames segs := by
  induction segs with
  | nil => intro acc; cases acc <;> simp [norm, fieldNames]
  | cons s rest ih =>
    intro acc
    cases s with
    | lit a => simp [norm, fieldNames, ih]
    | field nm cv sp => cases acc <;> simp [norm, fieldNames, ih]

theorem plainSpecs_norm (segs : List Seg) (hw : allWf segs) : ∀ acc, plainSpecs (norm acc segs) = true := by
  induction segs with
  | nil => intro acc; cases acc <;> simp [norm, plainSpecs]
  | cons x rest ih =>
    have hrest : allWf rest := fun y hy => hw y (List.mem_cons_of_mem _ hy)
    intro acc
    cases x with
    | lit a => simpa [norm] using ih hrest (acc ++ a)
    | field nm cv sp =>
      have hx := hw (.field nm cv sp) (List.mem_cons_self ..)
      simp only [Seg.wf, Bool.and_eq_true] at hx
      have := ih hrest []
      unfold plainSpecs at this ⊢
      cases acc <;> simp [norm, hx.2, this]

/-- the whole pipeline on a written template -/
theorem renderChars_unparse (ev : String → Outcome) (segs : List Seg) (hw : allWf segs) (hn : namesNonEmpty segs) :
    renderChars ev (unparse segs) =
      match pieces ev segs with
      | .ok t => .ok ⟨logPrefix ++ String.ofList t ++ logSuffix, fieldNames segs⟩
      | .error e => .error e := by
  unfold renderChars
  rw [parse_unparse segs hw]
  simp only [normalise, plainSpecs_norm segs hw [], if_true]
  unfold renderParsed
  have h1 := renderFlat_norm ev segs [] (some 0)
  have h2 := renderFlat_pieces ev segs hn (some 0) (Or.inl rfl)
  unfold renderFlat at h1 h2
  cases hr : renderSegs ev (some 0) (norm [] segs) with
  | error e =>
    rw [hr] at h1
    simp only at h1
    cases hq : renderSegs ev (some 0) segs with
    | error e' =>
      rw [hq] at h1 h2
      simp only at h1 h2
      cases hp : pieces ev segs with
      | ok t => rw [hp] at h2; simp at h2
      | error e'' =>
        rw [hp] at h2
        simp only at h2 ⊢
        injection h1 with h1
        injection h2 with h2
        rw [h1, h2]
    | ok r =>
      rw [hq] at h1
      simp at h1
  | ok r =>
    obtain ⟨ps, ws⟩ := r
    rw [hr] at h1
    simp only at h1
    cases hq : renderSegs ev (some 0) segs with
    | error e' => rw [hq] at h1; simp at h1
    | ok r' =>
      obtain ⟨ps', ws'⟩ := r'
      rw [hq] at h1 h2
      simp only [List.nil_append] at h1 h2
      cases hp : pieces ev segs with
      | error e'' => rw [hp] at h2; simp at h2
      | ok t =>
        rw [hp] at h2
        simp only [Except.ok.injEq, Prod.mk.injEq] at h1 h2
        simp only [h1.1, h1.2, h2.1, h2.2]

end Template
