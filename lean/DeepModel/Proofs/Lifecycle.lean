/-
  Proofs/Lifecycle — lemmas about the translated hook handling and the shutdown step runner.
-/
import DeepModel.Model.Lifecycle
import DeepModel.Proofs.GuardProg

namespace Lifecycle
open Extracted.TH Guard

theorem facts : stepsIsolated = true ∧ flushIsolated = true ∧ timerGuarded = true ∧ startGuarded = true ∧
    shutdownGuarded = true ∧ startedSetLast = true ∧ shutdownClearsStarted = true := by decide

theorem facts2 : restartRefused = true ∧ shutdownMarksShut = true := by decide

/-! ### the translated `TriggerHandler` methods -/

theorem thStart_noTrace (w : World) : thStart true w = w := by simp [thStart]

theorem thStart_trace (w : World) :
    thStart false w = { w with oldSys := w.sysHook, oldThr := w.thrHook, sysHook := .agent, thrHook := .agent,
                               tracing := true } := by
  simp [thStart]

theorem thShutdown_tracing (w : World) (h : w.tracing = true) :
    thShutdown w = { w with stopped := true, tpConfig := [], tracing := false, sysHook := w.oldSys,
                            thrHook := w.oldThr } := by
  simp [thShutdown, h]

theorem thShutdown_not_tracing (w : World) (h : w.tracing = false) :
    thShutdown w = { w with stopped := true, tpConfig := [] } := by
  simp [thShutdown, h]

theorem thShutdown_quiet (w : World) : (thShutdown w).stopped = true ∧ (thShutdown w).tpConfig = [] := by
  cases h : w.tracing <;> simp [thShutdown, h]

theorem thNewConfig_stopped (w : World) (cfg : List Nat) (h : w.stopped = true) : thNewConfig w cfg = w := by
  simp [thNewConfig, h]

theorem thStart_keeps (nt : Bool) (w : World) :
    (thStart nt w).stopped = w.stopped ∧ (thStart nt w).tpConfig = w.tpConfig := by
  cases nt <;> simp [thStart]

theorem thInit_fields (s t : Hook) :
    (thInit s t).sysHook = s ∧ (thInit s t).thrHook = t ∧ (thInit s t).tracing = false ∧
    (thInit s t).stopped = false ∧ (thInit s t).tpConfig = [] := by
  simp [thInit]

/-! ### shutdown steps -/

theorem flushPending_isolated (f : Faults) (ts : List Nat) : flushPending f ts = ([], false) := by
  induction ts with
  | nil => rfl
  | cons t ts ih => simp [flushPending, facts.2.1, ih]

/-- state after one step (its exception, if any, swallowed) -/
def after (f : Faults) (d : Deep) (s : Step) : Deep := (runStep f d s).1

theorem runSteps_isolated (f : Faults) (ss : List Step) (d : Deep) :
    runSteps true f ss d = (ss.foldl (after f) d, false) := by
  induction ss generalizing d with
  | nil => rfl
  | cons s ss ih => simp only [runSteps, Bool.not_true, Bool.and_false, Bool.false_eq_true, if_false, ih,
      List.foldl_cons, after]

theorem plugin_steps (f : Faults) (ps : List Nat) (d : Deep) :
    (ps.map Step.plugin).foldl (after f) d = { d with shutCalls := d.shutCalls ++ ps } := by
  induction ps generalizing d with
  | nil => simp
  | cons p ps ih =>
    simp only [List.map_cons, List.foldl_cons]
    rw [show after f d (Step.plugin p) = { d with shutCalls := d.shutCalls ++ [p] } from rfl, ih]
    simp [List.append_assoc]

/-- what a shutdown of a started agent does, for every fault assignment -/
theorem shutdown_started (f : Faults) (d : Deep) (hs : d.started = true) :
    shutdown f d = ({ d with w := thShutdown d.w, tasksOpen := false, pending := [], pollAlive := false,
                             shutCalls := d.shutCalls ++ d.plugins, started := false, everShut := true }, false) := by
  simp only [shutdown, facts.2.2.2.2.1, hs, facts.1, facts.2.2.2.2.2.2, facts2.2, Bool.or_true, runSteps_isolated, steps,
    Bool.not_true, Bool.and_false, Bool.false_eq_true, if_false, if_true, List.foldl_append, List.foldl_cons,
    List.foldl_nil]
  rw [plugin_steps]
  simp [after, runStep, flushPending_isolated]

theorem shutdown_not_started (f : Faults) (d : Deep) (hs : d.started = false) : shutdown f d = (d, false) := by
  simp [shutdown, facts.2.2.2.2.1, hs]

theorem start_started (d : Deep) (hs : d.started = true) : start d = d := by
  simp [start, facts.2.2.2.1, hs]

theorem start_not_started (d : Deep) (hs : d.started = false) (he : d.everShut = false) :
    start d = { d with w := thStart d.noTrace d.w, pollAlive := true, started := true } := by
  simp [start, hs, he]

/-- an instance that was shut down is not started again -/
theorem start_refused (d : Deep) (hs : d.started = false) (he : d.everShut = true) : start d = d := by
  simp [start, hs, he, facts2.1]

/-! ### the hook invariant over arbitrary histories -/

/-- `h1 h2` are the trace functions the process had before the agent was created -/
structure Inv (h1 h2 : Hook) (nt : Bool) (d : Deep) : Prop where
  nt_const : d.noTrace = nt
  tracing_hooks : d.w.tracing = true → d.hooks = (.agent, .agent) ∧ d.w.oldSys = h1 ∧ d.w.oldThr = h2
  idle_hooks : d.w.tracing = false → d.hooks = (h1, h2)
  stopped_idle : d.started = false → d.w.tracing = false
  started_tracing : d.started = true → nt = false → d.w.tracing = true
  notrace_idle : nt = true → d.w.tracing = false

theorem inv_init (h1 h2 : Hook) (nt : Bool) (ps pend : List Nat) : Inv h1 h2 nt (init h1 h2 nt ps pend) := by
  have := thInit_fields h1 h2
  constructor <;> simp [init, Deep.hooks, this]

theorem inv_step (h1 h2 : Hook) (nt : Bool) (d : Deep) (hi : Inv h1 h2 nt d) (op : Op) :
    Inv (hostView d (h1, h2) op).1 (hostView d (h1, h2) op).2 nt (step d op) := by
  cases op with
  | hostSet s t =>
    simp only [step, hostSet, hostView]
    cases ht : d.w.tracing with
    | true => simpa using hi
    | false =>
      simp only [Bool.false_eq_true, if_false]
      constructor
      · exact hi.nt_const
      · intro h; simp at h
      · intro _; simp [Deep.hooks]
      · intro _; rfl
      · intro hs hn; have := hi.started_tracing hs hn; simp [ht] at this
      · intro _; rfl
  | start =>
    simp only [step, hostView]
    cases hs : d.started with
    | true => rw [start_started d hs]; exact hi
    | false =>
      cases he : d.everShut with
      | true => rw [start_refused d hs he]; exact hi
      | false =>
      rw [start_not_started d hs he]
      have ht := hi.stopped_idle hs
      have hh := hi.idle_hooks ht
      simp only [Deep.hooks, Prod.mk.injEq] at hh
      cases hnt : nt with
      | true =>
        have : d.noTrace = true := hi.nt_const.trans hnt
        constructor <;> simp_all [thStart_noTrace, Deep.hooks]
      | false =>
        have : d.noTrace = false := hi.nt_const.trans hnt
        constructor <;> simp_all [thStart_trace, Deep.hooks]
  | shutdown f =>
    simp only [step, hostView]
    cases hs : d.started with
    | false => rw [shutdown_not_started f d hs]; exact hi
    | true =>
      rw [shutdown_started f d hs]
      cases ht : d.w.tracing with
      | true =>
        obtain ⟨_, ho1, ho2⟩ := hi.tracing_hooks ht
        have hnt := hi.nt_const
        constructor <;> simp_all [thShutdown_tracing, Deep.hooks]
      | false =>
        have hh := hi.idle_hooks ht
        simp only [Deep.hooks, Prod.mk.injEq] at hh
        have hnt := hi.nt_const
        constructor <;> simp_all [thShutdown_not_tracing, Deep.hooks]
  | newConfig cfg =>
    simp only [step, hostView]
    have hk : (thNewConfig d.w cfg).sysHook = d.w.sysHook ∧ (thNewConfig d.w cfg).thrHook = d.w.thrHook ∧
        (thNewConfig d.w cfg).tracing = d.w.tracing ∧ (thNewConfig d.w cfg).oldSys = d.w.oldSys ∧
        (thNewConfig d.w cfg).oldThr = d.w.oldThr := by
      cases hst : d.w.stopped <;> simp [thNewConfig, hst]
    obtain ⟨k1, k2, k3, k4, k5⟩ := hk
    constructor
    · exact hi.nt_const
    · intro ht; simp only [k3] at ht; simpa [Deep.hooks, k1, k2, k4, k5] using hi.tracing_hooks ht
    · intro ht; simp only [k3] at ht; simpa [Deep.hooks, k1, k2] using hi.idle_hooks ht
    · intro hs; simp only [k3]; exact hi.stopped_idle hs
    · intro hs hn; simp only [k3]; exact hi.started_tracing hs hn
    · intro hn; simp only [k3]; exact hi.notrace_idle hn
  | pollTick fl =>
    simp only [step, hostView]
    have hk : (pollTick fl d).w = d.w ∧ (pollTick fl d).started = d.started ∧ (pollTick fl d).noTrace = d.noTrace := by
      cases fl with
      | none => simp [pollTick]
      | some e => cases e <;> simp [pollTick] <;> split <;> simp
    obtain ⟨k1, k2, k3⟩ := hk
    constructor
    · rw [k3]; exact hi.nt_const
    · intro ht; rw [k1] at ht; simpa [Deep.hooks, k1] using hi.tracing_hooks ht
    · intro ht; rw [k1] at ht; simpa [Deep.hooks, k1] using hi.idle_hooks ht
    · intro hs; rw [k2] at hs; rw [k1]; exact hi.stopped_idle hs
    · intro hs hn; rw [k2] at hs; rw [k1]; exact hi.started_tracing hs hn
    · intro hn; rw [k1]; exact hi.notrace_idle hn

theorem inv_run (nt : Bool) (ops : List Op) (d : Deep) (h : Hook × Hook) (hi : Inv h.1 h.2 nt d) :
    Inv (runH ops (d, h)).2.1 (runH ops (d, h)).2.2 nt (runH ops (d, h)).1 := by
  induction ops generalizing d h with
  | nil => exact hi
  | cons op ops ih =>
    simp only [runH]
    exact ih _ _ (inv_step h.1 h.2 nt d hi op)

/-- `runH` is `run` plus the ghost component -/
theorem runH_fst (ops : List Op) (d : Deep) (h : Hook × Hook) : (runH ops (d, h)).1 = run ops d := by
  induction ops generalizing d h with
  | nil => rfl
  | cons op ops ih => simp only [runH, run, List.foldl]; exact ih _ _

/-! ### quiet after stop -/

def Quiet (d : Deep) : Prop := d.w.stopped = true ∧ d.w.tpConfig = []

theorem quiet_step (d : Deep) (hq : Quiet d) (op : Op) : Quiet (step d op) := by
  cases op with
  | start =>
    simp only [step]
    cases hs : d.started with
    | true => rw [start_started d hs]; exact hq
    | false =>
      cases he : d.everShut with
      | true => rw [start_refused d hs he]; exact hq
      | false =>
        rw [start_not_started d hs he]
        have := thStart_keeps d.noTrace d.w
        exact ⟨this.1.trans hq.1, this.2.trans hq.2⟩
  | shutdown f =>
    simp only [step]
    cases hs : d.started with
    | false => rw [shutdown_not_started f d hs]; exact hq
    | true => rw [shutdown_started f d hs]; exact thShutdown_quiet d.w
  | newConfig cfg =>
    simp only [step, Quiet]
    rw [thNewConfig_stopped d.w cfg hq.1]; exact hq
  | pollTick fl =>
    simp only [step]
    have hk : (pollTick fl d).w = d.w := by
      cases fl with
      | none => simp [pollTick]
      | some e => cases e <;> simp [pollTick] <;> split <;> simp
    simp only [Quiet, hk]; exact hq
  | hostSet s t =>
    simp only [step, hostSet]
    split
    · exact hq
    · exact hq

theorem quiet_run (ops : List Op) (d : Deep) (hq : Quiet d) : Quiet (run ops d) := by
  induction ops generalizing d with
  | nil => exact hq
  | cons op ops ih => exact ih _ (quiet_step d hq op)

/-! ### shut down for good -/

/-- the state of an instance after its shutdown: not started, not polling, marked -/
def Dead (d : Deep) : Prop := d.everShut = true ∧ d.started = false ∧ d.pollAlive = false

theorem dead_step (d : Deep) (hd : Dead d) (op : Op) : Dead (step d op) := by
  obtain ⟨h1, h2, h3⟩ := hd
  cases op with
  | start => simp only [step]; rw [start_refused d h2 h1]; exact ⟨h1, h2, h3⟩
  | shutdown f => simp only [step]; rw [shutdown_not_started f d h2]; exact ⟨h1, h2, h3⟩
  | newConfig cfg => exact ⟨h1, h2, h3⟩
  | pollTick fl =>
    simp only [step]
    cases fl with
    | none => exact ⟨h1, h2, h3⟩
    | some e => cases e <;> simp only [pollTick] <;> (try split) <;> exact ⟨h1, h2, by simp [h3]⟩
  | hostSet s t =>
    simp only [step, hostSet]
    split <;> exact ⟨h1, h2, h3⟩

theorem dead_run (ops : List Op) (d : Deep) (hd : Dead d) : Dead (run ops d) := by
  induction ops generalizing d with
  | nil => exact hd
  | cons op ops ih => exact ih _ (dead_step d hd op)

/-! ### one thread at a time -/

/-- when every operation is called on thread `t0` (and the model's slot is that thread's), the several-thread
    model is the one-slot model -/
theorem runMT_same (t0 : Nat) (ops : List (Nat × Op)) (hsame : ∀ p ∈ ops, p.1 = t0) (m : MT)
    (hm : m.slots t0 = m.d.w.sysHook) :
    (runMT ops m).d = run (ops.map (·.2)) m.d ∧ (runMT ops m).slots t0 = (run (ops.map (·.2)) m.d).w.sysHook := by
  induction ops generalizing m with
  | nil => exact ⟨rfl, hm⟩
  | cons p ops ih =>
    obtain ⟨t, op⟩ := p
    have ht : t = t0 := hsame (t, op) (List.mem_cons_self ..)
    subst ht
    have hd1 : ({ m.d with w := { m.d.w with sysHook := m.slots t } } : Deep) = m.d := by rw [hm]
    have hstep : (stepOn t m op).d = step m.d op := by simp only [stepOn, hd1]
    have hslot : (stepOn t m op).slots t = (stepOn t m op).d.w.sysHook := by simp [stepOn]
    have := ih (fun q hq => hsame q (List.mem_cons_of_mem _ hq)) (stepOn t m op) hslot
    simp only [runMT, List.map_cons, run, List.foldl_cons]
    rw [hstep] at this
    exact this

end Lifecycle
