/-
  Proofs/FramesCollect — the children invariant of Proofs/FramesKids carried from one search to a whole
  collection: `processVariable`, `collectFrames` (with the locals "unwrap"), `collectWatches`, `collect` (C02).
-/
import DeepModel.Proofs.FramesKids

namespace Frames
open Heap Collector FrameBase Extracted.Frames Extracted.Collector

theorem run_inv {x : Bool} {H : Heap} {L : Limits} (k : Nat) (s : BState) (h : SInv x H L s) :
    SInv x H L (run H L k s) := by
  induction k generalizing s with
  | zero => exact h
  | succ k ih => exact ih _ (step_inv s h)

theorem step_cache_mono (H : Heap) (L : Limits) (s : BState) : s.cache.length ≤ (step H L s).cache.length := by
  unfold step
  split
  · exact Nat.le_refl _
  · split
    · exact Nat.le_refl _
    · split
      · exact Nat.le_refl _
      · split
        · rw [(attach_fields _ _ _).2.1]; exact Nat.le_refl _
        · dsimp only
          split
          · simp
          · split
            · simp only [(attach_fields _ _ _).2.1, List.length_append, List.length_singleton]; omega
            · simp only [(attach_fields _ _ _).2.1, List.length_append, List.length_singleton]; omega

theorem run_cache_mono (H : Heap) (L : Limits) (k : Nat) (s : BState) : s.cache.length ≤ (run H L k s).cache.length := by
  induction k generalizing s with
  | zero => exact Nat.le_refl _
  | succ k ih => exact Nat.le_trans (step_cache_mono H L s) (ih _)

theorem bfsInit_inv {x : Bool} {H : Heap} {L : Limits} {c : Cache} {t : List Entry} (name : String) (o : ObjId)
    (h : TInv x H L c t) : SInv x H L (bfsInit L c t name o) := by
  unfold bfsInit
  split
  · refine ⟨h.vids, ?_, fun _ e he => ?_⟩
    · intro n hn p hp
      simp only [List.mem_singleton] at hn
      subst hn
      simp at hp
    · have := h.kids e he
      simpa [KidsInv, pending] using this
  · exact ⟨h.vids, by intro n hn; simp at hn, fun _ e he => h.kids e he⟩

theorem bfsInit_cache (L : Limits) (c : Cache) (t : List Entry) (name : String) (o : ObjId) :
    (bfsInit L c t name o).cache = c := by
  unfold bfsInit; split <;> rfl

/-- end of a search: what is still in the work list counts as lost (exactness needs an empty work list) -/
theorem sinv_tinv {x : Bool} {H : Heap} {L : Limits} {s : BState} (h : SInv x H L s) (hf : s.failed = none)
    (hq : x = true → s.queue = []) : TInv x H L s.cache s.table := by
  refine ⟨h.vids, fun e he => ?_⟩
  obtain ⟨cs, lost, h1, h2, h3⟩ := h.kids hf e he
  refine ⟨cs, (pending s.queue e.vid).map kidOf ++ lost, h1, ?_, ?_⟩
  · simpa [pending, List.append_assoc] using h2
  · intro hx
    rw [hq hx, h3 hx]
    simp [pending]

theorem tinv_mono {x : Bool} {H : Heap} {L : Limits} {c c' : Cache} {t : List Entry} (h : TInv x H L c t)
    (hc : c.length ≤ c'.length) : TInv x H L c' t :=
  ⟨fun e he => Nat.le_trans (h.vids e he) hc, h.kids⟩

theorem processVariable_cache_mono (H : Heap) (L : Limits) (c : Cache) (t : List Entry) (name : String) (o : ObjId) :
    c.length ≤ (processVariable H L c t name o).cache.length := by
  unfold processVariable
  split
  · exact Nat.le_refl _
  · have := run_cache_mono H L (fuelBound H L (bfsInit L c t name o)) (bfsInit L c t name o)
    rw [bfsInit_cache] at this
    exact this

/-- prefix form (`x = false`): one `process_variable` call keeps the table invariant -/
theorem processVariable_inv {H : Heap} {L : Limits} {c : Cache} {t : List Entry} (name : String) (o : ObjId)
    (h : TInv false H L c t) (hf : (processVariable H L c t name o).failed = none) :
    TInv false H L (processVariable H L c t name o).cache (processVariable H L c t name o).table := by
  unfold processVariable at hf ⊢
  split
  · exact h
  · rename_i hl
    simp only [hl] at hf
    exact sinv_tinv (run_inv _ _ (bfsInit_inv name o h)) hf (by simp)

theorem removeEntry_inv {x : Bool} {H : Heap} {L : Limits} {c : Cache} {t : List Entry} (v : Nat)
    (h : TInv x H L c t) : TInv x H L c (removeEntry t v) :=
  ⟨fun e he => h.vids e (List.mem_filter.mp he).1, fun e he => h.kids e (List.mem_filter.mp he).1⟩

theorem unwrap_inv {x : Bool} {H : Heap} {L : Limits} {c : Cache} {t : List Entry} (vid : Option Nat)
    (h : TInv x H L c t) : TInv x H L c (unwrap t vid).2 := by
  unfold unwrap
  split
  · exact h
  · split
    · exact removeEntry_inv _ h
    · exact h

theorem collectFrames_inv {H : Heap} {L : Limits} (fs : List FrameIn) (c : Cache) (t : List Entry)
    (h : TInv false H L c t) (hf : (collectFrames H L fs c t).failed = none) :
    TInv false H L (collectFrames H L fs c t).cache (collectFrames H L fs c t).table := by
  induction fs generalizing c t with
  | nil => exact h
  | cons f fs ih =>
    unfold collectFrames at hf ⊢
    split
    · rename_i hc
      simp only [hc, if_true] at hf
      exact ih c t h hf
    · rename_i hc
      simp only [hc] at hf
      dsimp only at hf ⊢
      split
      · rename_i m hm
        simp [hm] at hf
      · rename_i hm
        simp only [hm] at hf
        exact ih _ _ (unwrap_inv _ (processVariable_inv _ _ h hm)) hf

theorem tinv_append {x : Bool} {H : Heap} {L : Limits} {c : Cache} {t t' : List Entry} (h : TInv x H L c t)
    (h' : TInv x H L c t') : TInv x H L c (t ++ t') :=
  ⟨fun e he => (List.mem_append.mp he).elim (h.vids e) (h'.vids e),
   fun e he => (List.mem_append.mp he).elim (h.kids e) (h'.kids e)⟩

theorem tinv_nil (x : Bool) (H : Heap) (L : Limits) (c : Cache) : TInv x H L c [] :=
  ⟨by intro e he; simp at he, by intro e he; simp at he⟩

theorem collectWatches_inv {H : Heap} {L : Limits} (ws : List WatchIn) (c : Cache) (t : List Entry)
    (h : TInv false H L c t) (hf : (collectWatches H L ws c t).failed = none) :
    TInv false H L (collectWatches H L ws c t).cache (collectWatches H L ws c t).table := by
  induction ws generalizing c t with
  | nil => exact h
  | cons w ws ih =>
    have hmono := processVariable_cache_mono H L c [] w.expr w.value
    have ht : TInv false H L (processVariable H L c [] w.expr w.value).cache t := tinv_mono h hmono
    have happ : (processVariable H L c [] w.expr w.value).failed = none →
        TInv false H L (processVariable H L c [] w.expr w.value).cache
          (t ++ (processVariable H L c [] w.expr w.value).table) :=
      fun hm => tinv_append ht (processVariable_inv _ _ (tinv_nil _ _ _ _) hm)
    unfold collectWatches at hf ⊢
    dsimp only at hf ⊢
    split
    · split
      · rename_i m hm
        simp [*] at hf
      · rename_i hm
        split
        · simp only [*] at hf
          exact ih _ _ ht hf
        · simp only [*] at hf
          exact ih _ _ (happ hm) hf
    · split
      · rename_i m hm
        simp only [*] at hf
        exact ih _ _ ht hf
      · rename_i hm
        split
        · simp only [*] at hf
          exact ih _ _ ht hf
        · simp only [*] at hf
          exact ih _ _ (happ hm) hf

/-- every entry of a finished snapshot lists, in order, a prefix of the children of its kind -/
theorem collect_kids {H : Heap} {a : ActionIn} {s : Collector.Snapshot} (h : Collector.collect H a = .ok s) :
    ∀ e ∈ s.table, KidsInv false H a.limits [] e := by
  unfold Collector.collect collectFrom at h
  simp only at h
  split at h
  · simp at h
  · rename_i hf
    split at h
    · simp at h
    · rename_i hw
      simp only [Outcome.ok.injEq] at h
      subst h
      exact (collectWatches_inv _ _ _ (collectFrames_inv _ _ _ (tinv_nil _ _ _ _) hf) hw).kids

end Frames
