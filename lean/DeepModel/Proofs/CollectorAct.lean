/-
  Proofs/CollectorAct — the search invariant lifted to a whole snapshot action: `processVariable`, the frame loop with
  the locals "unwrap", the watch / log-field / capture loop with its table merge.  `AInv` is what holds of the
  action's identity cache and table between searches; it holds at the end for every heap, limits, frames and
  watches (no hypothesis).
-/
import DeepModel.Proofs.CollectorBfs

namespace Collector
open Heap Extracted.Collector

structure AInv (L : Limits) (c : Cache) (t : List Entry) : Prop where
  count : c.length ≤ L.maxVars + 1
  cok : CacheOK c
  tdepth : ∀ e ∈ t, DepthOK L e.depth
  tpair : TablePair t
  tcache : ∀ e ∈ t, (e.obj, e.vid) ∈ c
  refs : ∀ e ∈ t, ∀ r ∈ e.children, (r.obj, r.vid) ∈ c

theorem AInv.nil (L : Limits) : AInv L [] [] :=
  ⟨by simp, CacheOK.nil, by simp, List.Pairwise.nil, by simp, by simp⟩

theorem AInv.of_rinv {L : Limits} {c0 : Cache} {s : BState} (h : RInv L c0 s) : AInv L s.cache s.table :=
  ⟨h.count, h.cok, h.tdepth, h.tpair, h.tcache, h.refs⟩

theorem AInv.rinv_init {L : Limits} {c : Cache} {t : List Entry} (h : AInv L c t) (name : String) (o : ObjId) :
    RInv L c (bfsInit L c t name o) :=
  bfsInit_rinv name o h.cok h.count h.tdepth h.tpair h.tcache h.refs

/-- new entries of a search started with an empty table are not about objects the cache already knew -/
def NewOnly (c0 : Cache) (s : BState) : Prop := ∀ e ∈ s.table, (e.obj, e.vid) ∉ c0

theorem step_newOnly {H : Heap} {L : Limits} {c0 : Cache} (s : BState) (hr : RInv L c0 s) (h : NewOnly c0 s) :
    NewOnly c0 (step H L s) := by
  rcases step_cases H L s with hf | ⟨n, rest, _, hq, hc⟩
  · rw [step_final hf]; exact h
  · generalize step H L s = s' at hc ⊢
    have hrec : ∀ text (q' : List Node) (f' : Option String), lookupId s.cache n.obj = none →
        NewOnly c0 { recState H L s n text with queue := q', failed := f' } := by
      intro text q' f' hl e he
      rcases mem_recState_table (H := H) (L := L) (text := text) he with ⟨e0, he0, hv, ho, _⟩ | ⟨hv, ho, _⟩
      · rw [hv, ho]; exact h e0 he0
      · rw [hv, ho]
        intro hm
        obtain ⟨suf, hsuf⟩ := hr.ext
        exact lookupId_none_iff.mp hl _ (by rw [hsuf]; exact List.mem_append_left _ hm) rfl
    cases hc with
    | stop hb => exact h
    | hit hb id hl =>
      intro e he
      obtain ⟨e0, he0, hv, ho, _⟩ := mem_attach_table he
      rw [hv, ho]; exact h e0 he0
    | renderFails hb hl m hr' => exact h
    | kidsFail hb hl text m hr' hk => exact hrec text rest (some m) hl
    | record hb hl text cs hr' hk => exact hrec text (rest ++ cs) s.failed hl

theorem run_newOnly {H : Heap} {L : Limits} {c0 : Cache} (k : Nat) (s : BState) (hr : RInv L c0 s)
    (h : NewOnly c0 s) : NewOnly c0 (run H L k s) := by
  induction k generalizing s with
  | zero => exact h
  | succ k ih => exact ih _ (step_rinv s hr) (step_newOnly s hr h)

/-- facts about one `process_variable` call -/
structure PVFacts (L : Limits) (c : Cache) (t : List Entry) (o : ObjId) (pv : PV) : Prop where
  inv : AInv L pv.cache pv.table
  ext : ∃ suf, pv.cache = c ++ suf
  vid : ∀ v, pv.vid = some v → (o, v) ∈ pv.cache
  fresh : t = [] → ∀ e ∈ pv.table, (e.obj, e.vid) ∉ c

theorem processVariable_facts (H : Heap) {L : Limits} {c : Cache} {t : List Entry} (h : AInv L c t) (name : String)
    (o : ObjId) : PVFacts L c t o (processVariable H L c t name o) := by
  unfold processVariable
  cases hl : lookupId c o with
  | some id =>
    exact ⟨h, ⟨[], by simp⟩, by intro v hv; simp only [Option.some.injEq] at hv; subst hv; exact lookupId_some_mem hl,
      by intro ht e he; subst ht; simp at he⟩
  | none =>
    have hr := run_rinv (H := H) (fuelBound H L (bfsInit L c t name o)) _ (h.rinv_init name o)
    refine ⟨AInv.of_rinv hr, hr.ext, ?_, ?_⟩
    · intro v hv; exact lookupId_some_mem hv
    · intro ht
      subst ht
      exact run_newOnly _ _ (h.rinv_init name o) (by unfold NewOnly bfsInit; split <;> simp)

theorem ext_mem {c c' : Cache} (h : ∃ suf, c' = c ++ suf) {x : ObjId × Nat} (hx : x ∈ c) : x ∈ c' := by
  obtain ⟨suf, rfl⟩ := h; exact List.mem_append_left _ hx

theorem ext_trans {a b c : Cache} (h1 : ∃ suf, b = a ++ suf) (h2 : ∃ suf, c = b ++ suf) : ∃ suf, c = a ++ suf := by
  obtain ⟨s1, rfl⟩ := h1; obtain ⟨s2, rfl⟩ := h2; exact ⟨s1 ++ s2, by simp⟩

theorem AInv.removeEntry {L : Limits} {c : Cache} {t : List Entry} (h : AInv L c t) (v : Nat) :
    AInv L c (removeEntry t v) := by
  have hsub : ∀ e ∈ Collector.removeEntry t v, e ∈ t := fun e he => (List.mem_filter.mp he).1
  exact ⟨h.count, h.cok, fun e he => h.tdepth e (hsub e he), h.tpair.filter _, fun e he => h.tcache e (hsub e he),
    fun e he => h.refs e (hsub e he)⟩

theorem findEntry_mem {t : List Entry} {v : Nat} {e : Entry} (h : findEntry t v = some e) : e ∈ t ∧ e.vid = v := by
  induction t with
  | nil => simp [findEntry] at h
  | cons a t ih =>
    simp only [findEntry] at h
    by_cases ha : a.vid = v
    · simp only [ha, if_true, Option.some.injEq] at h; subst h; exact ⟨List.mem_cons_self .., ha⟩
    · simp only [ha, if_false] at h; exact ⟨List.mem_cons_of_mem _ (ih h).1, (ih h).2⟩

theorem AInv.unwrap {L : Limits} {c : Cache} {t : List Entry} (h : AInv L c t) (vid : Option Nat) :
    AInv L c (Collector.unwrap t vid).2 ∧ ∀ r ∈ (Collector.unwrap t vid).1, (r.obj, r.vid) ∈ c := by
  unfold Collector.unwrap
  cases vid with
  | none => exact ⟨h, by simp⟩
  | some v =>
    simp only
    cases hf : findEntry t v with
    | none => exact ⟨h, by simp⟩
    | some e => exact ⟨h.removeEntry v, fun r hr => h.refs e (findEntry_mem hf).1 r hr⟩

theorem AInv.mono {L : Limits} {c c' : Cache} {t : List Entry} (h : AInv L c t) (h' : AInv L c' [])
    (hext : ∃ suf, c' = c ++ suf) : AInv L c' t :=
  ⟨h'.count, h'.cok, h.tdepth, h.tpair, fun e he => ext_mem hext (h.tcache e he),
    fun e he r hr => ext_mem hext (h.refs e he r hr)⟩

theorem AInv.empty {L : Limits} {c : Cache} {t : List Entry} (h : AInv L c t) : AInv L c [] :=
  ⟨h.count, h.cok, by simp, List.Pairwise.nil, by simp, by simp⟩

/-- merging the table of a watch search into the snapshot table -/
theorem AInv.merge {L : Limits} {c c' : Cache} {t t' : List Entry} (h : AInv L c t) (h' : AInv L c' t')
    (hext : ∃ suf, c' = c ++ suf) (hfresh : ∀ e ∈ t', (e.obj, e.vid) ∉ c) : AInv L c' (t ++ t') := by
  refine ⟨h'.count, h'.cok, ?_, ?_, ?_, ?_⟩
  · intro e he; rcases List.mem_append.mp he with he | he
    · exact h.tdepth e he
    · exact h'.tdepth e he
  · unfold TablePair
    rw [List.pairwise_append]
    refine ⟨h.tpair, h'.tpair, ?_⟩
    intro a ha b hb
    have ma := ext_mem hext (h.tcache a ha)
    have mb := h'.tcache b hb
    rcases pairwise_mem (fun a b h => ⟨fun e => h.1 e.symm, fun e => h.2 e.symm⟩) h'.cok.1 ma mb with e | r
    · exact absurd (e ▸ h.tcache a ha) (hfresh b hb)
    · exact r
  · intro e he; rcases List.mem_append.mp he with he | he
    · exact ext_mem hext (h.tcache e he)
    · exact h'.tcache e he
  · intro e he r hr; rcases List.mem_append.mp he with he | he
    · exact ext_mem hext (h.refs e he r hr)
    · exact h'.refs e he r hr

/-- what holds of the result of the frame loop -/
structure FramesFacts (L : Limits) (c : Cache) (r : FramesOut) : Prop where
  inv : AInv L r.cache r.table
  ext : ∃ suf, r.cache = c ++ suf
  refs : ∀ vars ∈ r.frames, ∀ x ∈ vars, (x.obj, x.vid) ∈ r.cache

theorem collectFrames_facts (H : Heap) {L : Limits} (fs : List FrameIn) {c : Cache} {t : List Entry}
    (h : AInv L c t) : FramesFacts L c (collectFrames H L fs c t) := by
  induction fs generalizing c t with
  | nil => exact ⟨h, ⟨[], by simp [collectFrames]⟩, by simp [collectFrames]⟩
  | cons f fs ih =>
    simp only [collectFrames]
    split
    · have := ih h
      refine ⟨this.inv, this.ext, ?_⟩
      intro vars hv x hx
      simp only [List.mem_cons] at hv
      rcases hv with rfl | hv
      · simp at hx
      · exact this.refs vars hv x hx
    · have pf := processVariable_facts H h localsName f.locals
      split
      · exact ⟨pf.inv, pf.ext, by simp⟩
      · have hu := pf.inv.unwrap (processVariable H L c t localsName f.locals).vid
        have := ih hu.1
        refine ⟨this.inv, ext_trans pf.ext this.ext, ?_⟩
        intro vars hv x hx
        simp only [List.mem_cons] at hv
        rcases hv with rfl | hv
        · exact ext_mem this.ext (hu.2 x hx)
        · exact this.refs vars hv x hx

structure WatchesFacts (L : Limits) (c : Cache) (r : WatchesOut) : Prop where
  inv : AInv L r.cache r.table
  ext : ∃ suf, r.cache = c ++ suf
  outs : ∀ w ∈ r.outs, ∀ v, w.vid = some v → (w.obj, v) ∈ r.cache

theorem collectWatches_facts (H : Heap) {L : Limits} (ws : List WatchIn) {c : Cache} {t : List Entry}
    (h : AInv L c t) : WatchesFacts L c (collectWatches H L ws c t) := by
  induction ws generalizing c t with
  | nil => exact ⟨h, ⟨[], by simp [collectWatches]⟩, by simp [collectWatches]⟩
  | cons w ws ih =>
    have pf := processVariable_facts H h.empty w.expr w.value
    have hkeep := h.mono pf.inv.empty pf.ext
    have hmerge := h.merge pf.inv pf.ext (pf.fresh rfl)
    have skip : ∀ (o : WatchOut), (∀ v, o.vid = some v → (o.obj, v) ∈ (processVariable H L c [] w.expr w.value).cache) →
        ∀ {t' : List Entry}, AInv L (processVariable H L c [] w.expr w.value).cache t' →
        WatchesFacts L c
          { collectWatches H L ws (processVariable H L c [] w.expr w.value).cache t' with
            outs := o :: (collectWatches H L ws (processVariable H L c [] w.expr w.value).cache t').outs } := by
      intro o ho t' ht'
      have := ih ht'
      refine ⟨this.inv, ext_trans pf.ext this.ext, ?_⟩
      intro x hx v hv
      simp only [List.mem_cons] at hx
      rcases hx with rfl | hx
      · exact ext_mem this.ext (ho v hv)
      · exact this.outs x hx v hv
    simp only [collectWatches]
    split
    · split
      · exact ⟨hkeep, pf.ext, by simp⟩
      · split
        · exact skip _ (by simp) hkeep
        · exact skip _ (fun v hv => pf.vid v hv) hmerge
    · split
      · exact skip _ (by simp) hkeep
      · split
        · exact skip _ (by simp) hkeep
        · exact skip _ (fun v hv => pf.vid v hv) hmerge

end Collector
