/- schedules that keep check…record mutually exclusive are sequential histories, time stamps included
   (used by Props/C04) -/
import DeepModel.Proofs.Limiter
import DeepModel.Model.LimiterTimed
import DeepModel.Proofs.LimiterConc

set_option linter.unusedSimpArgs false

namespace Limiter
open Extracted.Limiter

/-- the sequential run over one more hit -/
theorem runFrom_append_one (c : Cfg) (hs : List Hit) (h : Hit) (st : Stats) :
    runFrom c st (hs ++ [h]) =
      ((stepHit c (runFrom c st hs).1 h).1,
       if (stepHit c (runFrom c st hs).1 h).2 then (runFrom c st hs).2 ++ [h.ts] else (runFrom c st hs).2) := by
  induction hs generalizing st with
  | nil =>
    simp only [List.nil_append, runFrom]
    by_cases h1 : (stepHit c st h).2 = true <;> simp [h1]
  | cons x xs ih =>
    simp only [List.cons_append, runFrom, ih]
    by_cases h1 : (stepHit c st x).2 = true <;>
      by_cases h2 : (stepHit c (runFrom c (stepHit c st x).1 xs).1 h).2 = true <;> simp [h1, h2]

/-- the sequential run over a concatenation -/
theorem runFrom_append (c : Cfg) (a b : List Hit) (st : Stats) :
    runFrom c st (a ++ b) =
      ((runFrom c (runFrom c st a).1 b).1, (runFrom c st a).2 ++ (runFrom c (runFrom c st a).1 b).2) := by
  induction a generalizing st with
  | nil => simp [runFrom]
  | cons x xs ih =>
    simp only [List.cons_append, runFrom, ih]
    by_cases h1 : (stepHit c st x).2 = true <;> simp [h1]

/-- the sequential history the concurrent run has performed so far: the hits in the order their check ran -/
def ConcT.seq (c : Cfg) (s : ConcT) : Stats × List Int := runFrom c Stats.init s.checked.reverse

theorem ConcT.free_iff (s : ConcT) :
    s.free = true ↔ ∀ (j : Nat) (t : ThrT), s.thrs[j]? = some t → t.pc.inCrit = false := by
  unfold ConcT.free
  rw [List.all_eq_true]
  constructor
  · intro h j t hj
    have := h t (List.mem_of_getElem? hj)
    simpa using this
  · intro h t ht
    obtain ⟨j, hj⟩ := List.mem_iff_getElem?.mp ht
    simp [h j t hj]

/-- the simulation invariant: the concurrent state is the sequential state of the hits checked so far, with the
    one thread inside check…record (if any) counted as having completed -/
inductive ConcT.Inv (c : Cfg) (s : ConcT) : Prop
  | idle (hfree : ∀ (j : Nat) (t : ThrT), s.thrs[j]? = some t → t.pc.inCrit = false)
         (hseq : s.seq c = (s.st, s.collectedAt.reverse))
  | atProc (i : Nat) (ts : Int) (cd : Bool) (hi : s.thrs[i]? = some ⟨.proc, ts, cd⟩)
         (hq : ∀ (j : Nat) (t : ThrT), j ≠ i → s.thrs[j]? = some t → t.pc.inCrit = false)
         (hseq : s.seq c = (fire s.st ts, (ts :: s.collectedAt).reverse))
  | atRecord (i : Nat) (ts : Int) (cd : Bool) (hi : s.thrs[i]? = some ⟨.record, ts, cd⟩)
         (hq : ∀ (j : Nat) (t : ThrT), j ≠ i → s.thrs[j]? = some t → t.pc.inCrit = false)
         (hseq : s.seq c = (fire s.st ts, s.collectedAt.reverse))

private theorem lt_of_getElem? {α} {l : List α} {i : Nat} {a : α} (h : l[i]? = some a) : i < l.length := by
  rcases Nat.lt_or_ge i l.length with h' | h'
  · exact h'
  · rw [List.getElem?_eq_none_iff.mpr h'] at h; cases h

theorem ConcT.inv_init (c : Cfg) (hs : List Hit) : (ConcT.init hs).Inv c := by
  apply ConcT.Inv.idle
  · intro j t hj
    simp only [ConcT.init, List.getElem?_map] at hj
    cases hh : hs[j]? with
    | none => simp [hh] at hj
    | some h => simp [hh] at hj; subst hj; rfl
  · simp [ConcT.seq, ConcT.init, runFrom]

theorem ConcT.inv_step (c : Cfg) (s : ConcT) (i : Nat) (hinv : s.Inv c)
    (hok : ∀ t, s.thrs[i]? = some t → t.pc = .check → s.free = true) : (s.stepThr c i).Inv c := by
  unfold ConcT.stepThr
  cases hti : s.thrs[i]? with
  | none => simpa using hinv
  | some t =>
    obtain ⟨pc, ts, cd⟩ := t
    have hlt := lt_of_getElem? hti
    cases pc with
    | check =>
      have hfree := (ConcT.free_iff s).mp (hok _ hti rfl)
      have hseq : s.seq c = (s.st, s.collectedAt.reverse) := by
        cases hinv with
        | idle _ h => exact h
        | atProc i' ts' cd' hi' _ _ => have := hfree i' _ hi'; simp [Pc.inCrit] at this
        | atRecord i' ts' cd' hi' _ _ => have := hfree i' _ hi'; simp [Pc.inCrit] at this
      unfold ConcT.seq at hseq
      cases ha : (allowed c s.st ts && cd) with
      | true =>
        simp only [ha, if_true]
        apply ConcT.Inv.atProc i ts cd
        · exact List.getElem?_set_self hlt
        · intro j t hne hj
          rw [List.getElem?_set_ne (Ne.symm hne)] at hj
          exact hfree j t hj
        · simp only [ConcT.seq, List.reverse_cons, runFrom_append_one, hseq, stepHit, ha, if_true]
      | false =>
        simp only [ha, Bool.false_eq_true, if_false]
        apply ConcT.Inv.idle
        · intro j t hj
          by_cases hji : j = i
          · subst hji
            rw [List.getElem?_set_self hlt] at hj
            cases hj; rfl
          · rw [List.getElem?_set_ne (Ne.symm hji)] at hj
            exact hfree j t hj
        · simp only [ConcT.seq, List.reverse_cons, runFrom_append_one, hseq, stepHit, ha, Bool.false_eq_true,
            if_false]
    | proc =>
      cases hinv with
      | idle hf _ => have := hf i _ hti; simp [Pc.inCrit] at this
      | atProc i' ts' cd' hi' hq hseq =>
        by_cases he : i' = i
        · subst he
          rw [hti] at hi'
          cases hi'
          apply ConcT.Inv.atRecord i' ts cd
          · exact List.getElem?_set_self hlt
          · intro j t hne hj
            rw [List.getElem?_set_ne (Ne.symm hne)] at hj
            exact hq j t hne hj
          · exact hseq
        · have := hq i _ (Ne.symm he) hti; simp [Pc.inCrit] at this
      | atRecord i' ts' cd' hi' hq _ =>
        by_cases he : i' = i
        · subst he; rw [hti] at hi'; cases hi'
        · have := hq i _ (Ne.symm he) hti; simp [Pc.inCrit] at this
    | record =>
      cases hinv with
      | idle hf _ => have := hf i _ hti; simp [Pc.inCrit] at this
      | atProc i' ts' cd' hi' hq _ =>
        by_cases he : i' = i
        · subst he; rw [hti] at hi'; cases hi'
        · have := hq i _ (Ne.symm he) hti; simp [Pc.inCrit] at this
      | atRecord i' ts' cd' hi' hq hseq =>
        by_cases he : i' = i
        · subst he
          rw [hti] at hi'
          cases hi'
          apply ConcT.Inv.idle
          · intro j t hj
            by_cases hji : j = i'
            · subst hji
              rw [List.getElem?_set_self hlt] at hj
              cases hj; rfl
            · rw [List.getElem?_set_ne (Ne.symm hji)] at hj
              exact hq j t hji hj
          · exact hseq
        · have := hq i _ (Ne.symm he) hti; simp [Pc.inCrit] at this
    | done => simpa using hinv

theorem ConcT.inv_run (c : Cfg) : ∀ (sched : List Nat) (s : ConcT), s.Inv c → ConcT.mutexOk c s sched = true →
    (ConcT.run c s sched).Inv c := by
  intro sched
  induction sched with
  | nil => intro s h _; simpa [ConcT.run] using h
  | cons i is ih =>
    intro s hinv hm
    simp only [ConcT.mutexOk, Bool.and_eq_true] at hm
    have hstep := ConcT.inv_step c s i hinv (by
      intro t ht hpc
      have h1 := hm.1
      simp only [ht, hpc] at h1
      simpa using h1)
    have := ih (s.stepThr c i) hstep hm.2
    simpa [ConcT.run] using this

/-- what the invariant says about the collections made so far: they are the sequential run's, except that the one
    thread past its check may not have pushed its collection yet -/
theorem ConcT.Inv.prefix {c : Cfg} {s : ConcT} (h : s.Inv c) :
    s.collectedAt.reverse <+: (s.seq c).2 := by
  cases h with
  | idle _ hseq => rw [hseq]; exact List.prefix_refl _
  | atProc i ts cd _ _ hseq => rw [hseq]; simp [List.reverse_cons]
  | atRecord i ts cd _ _ hseq => rw [hseq]; exact List.prefix_refl _

theorem ConcT.Inv.quiescent {c : Cfg} {s : ConcT} (h : s.Inv c) (hf : s.free = true) :
    s.seq c = (s.st, s.collectedAt.reverse) := by
  have hfree := (ConcT.free_iff s).mp hf
  cases h with
  | idle _ hseq => exact hseq
  | atProc i ts cd hi _ _ => have := hfree i _ hi; simp [Pc.inCrit] at this
  | atRecord i ts cd hi _ _ => have := hfree i _ hi; simp [Pc.inCrit] at this

/-- the hits that were checked are hits of the threads (each thread keeps its clock value and condition) -/
theorem ConcT.checked_from (c : Cfg) (H : List Hit) : ∀ (sched : List Nat) (s : ConcT),
    (∀ h ∈ s.checked, h ∈ H) → (∀ (j : Nat) (t : ThrT), s.thrs[j]? = some t → (⟨t.ts, t.cond⟩ : Hit) ∈ H) →
    ∀ h ∈ (ConcT.run c s sched).checked, h ∈ H := by
  intro sched
  induction sched with
  | nil => intro s h _; simpa [ConcT.run] using h
  | cons i is ih =>
    intro s hc ht
    have key : (∀ h ∈ (s.stepThr c i).checked, h ∈ H) ∧
        (∀ (j : Nat) (t : ThrT), (s.stepThr c i).thrs[j]? = some t → (⟨t.ts, t.cond⟩ : Hit) ∈ H) := by
      unfold ConcT.stepThr
      cases hti : s.thrs[i]? with
      | none => exact ⟨hc, ht⟩
      | some t =>
        obtain ⟨pc, ts, cd⟩ := t
        have hlt := lt_of_getElem? hti
        have hmem := ht i _ hti
        have hthr : ∀ pc', ∀ (j : Nat) (t : ThrT), (s.thrs.set i ⟨pc', ts, cd⟩)[j]? = some t → (⟨t.ts, t.cond⟩ : Hit) ∈ H := by
          intro pc' j t hj
          by_cases hji : j = i
          · subst hji
            rw [List.getElem?_set_self hlt] at hj
            cases hj; exact hmem
          · rw [List.getElem?_set_ne (Ne.symm hji)] at hj
            exact ht j t hj
        cases pc with
        | check =>
          refine ⟨?_, hthr _⟩
          intro h hh
          rcases List.mem_cons.mp hh with rfl | hr
          · exact hmem
          · exact hc h hr
        | proc => exact ⟨hc, hthr _⟩
        | record => exact ⟨hc, hthr _⟩
        | done => exact ⟨hc, ht⟩
    have := ih (s.stepThr c i) key.1 key.2
    simpa [ConcT.run] using this

/-! ### the serial schedules of `Proofs/LimiterConc` are inside the discipline -/

theorem ConcT.mutexOk_cons (c : Cfg) (s : ConcT) (i : Nat) (is : List Nat) :
    ConcT.mutexOk c s (i :: is) =
      ((match s.thrs[i]? with
        | some t => t.pc != .check || s.free
        | none => true) && ConcT.mutexOk c (s.stepThr c i) is) := rfl

/-- one thread's block from a state with nobody inside check…record: allowed, and nobody inside afterwards -/
theorem ConcT.block_free (c : Cfg) (s : ConcT) (i : Nat) (hf : s.free = true) :
    (ConcT.run c s [i, i, i]).free = true ∧
    ∀ rest, ConcT.mutexOk c s (i :: i :: i :: rest) = ConcT.mutexOk c (ConcT.run c s [i, i, i]) rest := by
  have hfree := (ConcT.free_iff s).mp hf
  cases hti : s.thrs[i]? with
  | none =>
    have e : s.stepThr c i = s := by simp [ConcT.stepThr, hti]
    refine ⟨by simp [ConcT.run, e, hf], ?_⟩
    intro rest
    simp [ConcT.mutexOk_cons, ConcT.run, e, hti]
  | some t =>
    obtain ⟨pc, ts, cd⟩ := t
    have hlt := lt_of_getElem? hti
    have hpc := hfree i _ hti
    cases pc with
    | proc => simp [Pc.inCrit] at hpc
    | record => simp [Pc.inCrit] at hpc
    | done =>
      have e : s.stepThr c i = s := by simp [ConcT.stepThr, hti]
      refine ⟨by simp [ConcT.run, e, hf], ?_⟩
      intro rest
      simp [ConcT.mutexOk_cons, ConcT.run, e, hti]
    | check =>
      have quiet : ∀ (a : ThrT), a.pc.inCrit = false →
          ∀ (j : Nat) (t : ThrT), (s.thrs.set i a)[j]? = some t → t.pc.inCrit = false := by
        intro a ha j t hj
        by_cases hji : j = i
        · subst hji
          rw [List.getElem?_set_self hlt] at hj
          cases hj; exact ha
        · rw [List.getElem?_set_ne (Ne.symm hji)] at hj
          exact hfree j t hj
      cases ha : (allowed c s.st ts && cd) with
      | true =>
        constructor
        · apply (ConcT.free_iff _).mpr
          simp only [ConcT.run, List.foldl_cons, List.foldl_nil, ConcT.stepThr, hti, ha, if_true,
            List.getElem?_set_self hlt, List.set_set, List.length_set]
          exact quiet ⟨.done, ts, cd⟩ rfl
        · intro rest
          have h1 : (Pc.proc != Pc.check) = true := by decide
          have h2 : (Pc.record != Pc.check) = true := by decide
          simp [ConcT.mutexOk_cons, ConcT.run, ConcT.stepThr, hti, ha, hf, List.getElem?_set_self hlt,
            List.set_set, h1, h2]
      | false =>
        constructor
        · apply (ConcT.free_iff _).mpr
          simp only [ConcT.run, List.foldl_cons, List.foldl_nil, ConcT.stepThr, hti, ha, Bool.false_eq_true, if_false,
            List.getElem?_set_self hlt, List.set_set, List.length_set]
          exact quiet ⟨.done, ts, cd⟩ rfl
        · intro rest
          have h3 : (Pc.done != Pc.check) = true := by decide
          simp [ConcT.mutexOk_cons, ConcT.run, ConcT.stepThr, hti, ha, hf, List.getElem?_set_self hlt,
            List.set_set, h3]

theorem ConcT.serial_mutexOk (c : Cfg) : ∀ (order : List Nat) (s : ConcT), s.free = true →
    ConcT.mutexOk c s (serialSched order) = true ∧ (ConcT.run c s (serialSched order)).free = true := by
  intro order
  induction order with
  | nil => intro s hf; exact ⟨rfl, by simpa [serialSched, ConcT.run] using hf⟩
  | cons i rest ih =>
    intro s hf
    obtain ⟨h1, h2⟩ := ConcT.block_free c s i hf
    obtain ⟨h3, h4⟩ := ih _ h1
    refine ⟨by simp only [serialSched]; rw [h2]; exact h3, ?_⟩
    have : ConcT.run c s (serialSched (i :: rest)) = ConcT.run c (ConcT.run c s [i, i, i]) (serialSched rest) := by
      simp [serialSched, ConcT.run]
    rw [this]; exact h4

theorem ConcT.init_free (hs : List Hit) : (ConcT.init hs).free = true := by
  apply (ConcT.free_iff _).mpr
  intro j t hj
  simp only [ConcT.init, List.getElem?_map] at hj
  cases hh : hs[j]? with
  | none => simp [hh] at hj
  | some h => simp [hh] at hj; subst hj; rfl

end Limiter
