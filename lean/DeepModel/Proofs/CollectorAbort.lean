/-
  Proofs/CollectorAbort — when no search aborts, the model with the abort outcome IS the model the C05–C07 theorems are about.
-/
import DeepModel.Model.CollectorAbort
import DeepModel.Proofs.CollectorDeferred

namespace Collector
open Heap Extracted.Collector

theorem abortsNext_none {ab : Aborts} (hna : NoAbortedSearch ab) (L : Limits) (s : BState) : abortsNext ab L s = none := by
  unfold abortsNext
  split
  · rfl
  · split
    · rfl
    · split
      · simp [hna _]
      · rfl

theorem runA_noAbort {ab : Aborts} (hna : NoAbortedSearch ab) (H : Heap) (L : Limits) (k : Nat) (s : BState) :
    runA H L ab k s = (run H L k s, none) := by
  induction k generalizing s with
  | zero => rfl
  | succ k ih => simp only [runA, run, abortsNext_none hna, ih]

theorem processVariableA_noAbort {ab : Aborts} (hna : NoAbortedSearch ab) (H : Heap) (L : Limits) (c : Cache) (t : List Entry)
    (name : String) (o : ObjId) : processVariableA H L ab c t name o = (processVariable H L c t name o, none) := by
  unfold processVariableA processVariable runToEnd
  cases lookupId c o with
  | some id => rfl
  | none => simp only [runA_noAbort hna]

theorem collectFramesA_noAbort {ab : Aborts} (hna : NoAbortedSearch ab) (H : Heap) (L : Limits) (fs : List FrameIn)
    (c : Cache) (t : List Entry) : collectFramesA H L ab fs c t = collectFrames H L fs c t := by
  induction fs generalizing c t with
  | nil => rfl
  | cons f fs ih =>
    simp only [collectFramesA, collectFrames, processVariableA_noAbort hna, ih, processVariable_nofail (benign_all H)]

theorem collectWatchesA_noAbort {ab : Aborts} (hna : NoAbortedSearch ab) (H : Heap) (L : Limits) (ws : List WatchIn)
    (c : Cache) (t : List Entry) : collectWatchesA H L ab ws c t = collectWatches H L ws c t := by
  induction ws generalizing c t with
  | nil => rfl
  | cons w ws ih =>
    have happ := collectWatches_append (benign_all H) L [w] ws c t
    simp only [List.singleton_append] at happ
    simp only [collectWatchesA, processVariableA_noAbort hna, collectWatches_nofail (benign_all H), ih]
    rw [happ]
    simp only [collectWatches_nofail (benign_all H)]

/-- **no abort, same model** -/
theorem collectA_noAbort {ab : Aborts} (hna : NoAbortedSearch ab) (H : Heap) (a : ActionIn) :
    collectA H ab a = collect H a := by
  unfold collectA collect collectFrom
  simp only [collectFramesA_noAbort hna, collectWatchesA_noAbort hna, collectFrames_nofail (benign_all H),
    collectWatches_nofail (benign_all H)]

end Collector
