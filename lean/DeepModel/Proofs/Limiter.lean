/- helper lemmas about `Extracted.Limiter` / `Model.Limiter` (property theorems live in Props/C04, C10) -/
import DeepModel.Model.Limiter

namespace Limiter
open Extracted.Limiter

theorem fire_count (st : Stats) (ts : Int) : (fire st ts).count = st.count + 1 := by simp [fire]
theorem fire_last (st : Stats) (ts : Int) : (fire st ts).last = ts := by simp [fire]

/-- what `canTrigger = true` gives, as propositions -/
theorem canTrigger_true {fc fp : Int} {w : Window} {st : Stats} {ts : Int}
    (h : canTrigger fc fp w st ts = true) :
    (fc = -1 ∨ st.count < fc) ∧ inWindow w ts = true ∧ (st.last = 0 ∨ ts - st.last ≥ fp * 1000000) := by
  unfold canTrigger firePeriodNs at h
  split at h
  · simp at h
  · rename_i h1
    split at h
    · simp at h
    · rename_i h2
      simp only [Bool.and_eq_true, bne_iff_ne, ne_eq, decide_eq_true_eq, not_and, Int.not_le] at h1
      simp only [Bool.not_eq_eq_eq_not, Bool.not_true, Bool.not_eq_false] at h2
      refine ⟨?_, h2, ?_⟩
      · by_cases hc : fc = -1
        · exact Or.inl hc
        · exact Or.inr (h1 hc)
      · simp only at h
        split at h
        · rename_i h3
          split at h
          · simp at h
          · rename_i h4
            simp only [decide_eq_true_eq, Int.not_lt] at h4
            exact Or.inr h4
        · rename_i h3
          simp only [bne_iff_ne, ne_eq, Decidable.not_not] at h3
          exact Or.inl h3

/-- and conversely -/
theorem canTrigger_of {fc fp : Int} {w : Window} {st : Stats} {ts : Int}
    (h1 : fc = -1 ∨ st.count < fc) (h2 : inWindow w ts = true)
    (h3 : st.last = 0 ∨ ts - st.last ≥ fp * 1000000) : canTrigger fc fp w st ts = true := by
  unfold canTrigger firePeriodNs
  have e1 : ((fc != (-1 : Int)) && decide (fc ≤ st.count)) = false := by
    rcases h1 with h | h
    · simp [h]
    · have : ¬ fc ≤ st.count := by omega
      simp [this]
  simp only [e1, h2]
  simp only [Bool.false_eq_true, if_false, Bool.not_true]
  by_cases hl : st.last = 0
  · simp [hl]
  · have : ts - st.last ≥ fp * 1000000 := by
      rcases h3 with h | h
      · exact absurd h hl
      · exact h
    have hn : ¬ (ts - st.last < fp * 1000000) := by omega
    simp [hl, hn]

theorem stepHit_fired {c : Cfg} {st : Stats} {h : Hit} (hf : (stepHit c st h).2 = true) :
    allowed c st h.ts = true ∧ h.cond = true ∧ (stepHit c st h).1 = fire st h.ts := by
  unfold stepHit at *
  split at hf
  · rename_i hc
    simp only [Bool.and_eq_true] at hc
    simp [hc.1, hc.2]
  · simp at hf

theorem stepHit_not_fired {c : Cfg} {st : Stats} {h : Hit} (hf : (stepHit c st h).2 = false) :
    (stepHit c st h).1 = st := by
  unfold stepHit at *
  split at hf
  · simp at hf
  · rename_i hc; simp [hc]

/-- generic invariant lift: a predicate on (stats, collected-so-far newest first) preserved by every
    firing step holds along the whole run. -/
theorem runFrom_inv (c : Cfg) (P : Stats → List Int → Prop)
    (hstep : ∀ (st : Stats) (acc : List Int) (h : Hit), P st acc → allowed c st h.ts = true → h.cond = true → P (fire st h.ts) (h.ts :: acc))
    : ∀ (hs : List Hit) (st : Stats) (acc : List Int), P st acc →
        P (runFrom c st hs).1 ((runFrom c st hs).2.reverse ++ acc) := by
  intro hs
  induction hs with
  | nil => intro st acc h; simpa [runFrom] using h
  | cons h hs ih =>
    intro st acc hP
    simp only [runFrom]
    cases hf : (stepHit c st h).2 with
    | true =>
      obtain ⟨ha, hc, he⟩ := stepHit_fired hf
      have := ih (fire st h.ts) (h.ts :: acc) (hstep st acc h hP ha hc)
      have e : stepHit c st h = (fire st h.ts, true) := by
        rw [← he, ← hf]
      simp only [e]
      simpa [List.reverse_cons, List.append_assoc] using this
    | false =>
      have he := stepHit_not_fired hf
      have e : stepHit c st h = (st, false) := by
        rw [← hf]; exact Prod.ext he rfl
      simp only [e]
      simpa using ih st acc hP

end Limiter
