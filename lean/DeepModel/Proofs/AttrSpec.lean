/-
  Proofs/AttrSpec — invariants of the reference container `Attributes.Spec` (entries clean, keys distinct),
  carried over every operation sequence; used by Props/C18 through the simulation of Proofs/Attributes.
-/
import DeepModel.Proofs.Attributes
open Attr Extracted.Attributes Attributes

namespace AttrProofs

theorem sliceTo_len (s : String) (n : Int) (h : 0 ≤ n) : ((Py.sliceTo s n).length : Int) ≤ n := by
  simp only [Py.sliceTo, ge_iff_le, h, if_true]
  rw [String.length_ofList, List.length_take]
  omega

theorem okLen_cut (mvl : Option Int) (s : String) : okLen mvl (cut mvl s) := by
  intro n hn h0
  subst hn
  exact sliceTo_len s n h0

theorem specScalar_clean {mvl : Option Int} {x y : Scalar} (h : specScalar mvl x = some y) : CleanScalar mvl y := by
  cases x with
  | bytes d => cases d <;> simp [specScalar] at h; subst h; exact okLen_cut mvl _
  | str s => simp [specScalar] at h; subst h; exact okLen_cut mvl _
  | _ => simp [specScalar] at h <;> subst h <;> trivial

theorem specElem_clean (mvl : Option Int) (x : Scalar) : specElem mvl x = Scalar.none ∨ CleanScalar mvl (specElem mvl x) := by
  unfold specElem
  cases h : specScalar mvl x with
  | none => left; rfl
  | some y => right; exact specScalar_clean h

theorem specClean_clean {mvl : Option Int} {k : Key} {v v' : Val} (h : specClean mvl k v = some v') :
    CleanKey k ∧ CleanVal mvl v' := by
  cases k with
  | other r => simp [specClean] at h
  | str s =>
    by_cases hs : s = ""
    · simp [specClean, hs] at h
    · refine ⟨hs, ?_⟩
      cases v with
      | sc x =>
        simp only [specClean, hs, if_false, Option.map_eq_some_iff] at h
        obtain ⟨y, hy, rfl⟩ := h
        exact specScalar_clean hy
      | seq xs =>
        simp only [specClean, hs, if_false] at h
        split at h
        · simp at h
        · split at h
          · rename_i hst
            cases h
            refine ⟨?_, hst⟩
            intro y hy
            obtain ⟨x, _, rfl⟩ := List.mem_map.mp hy
            exact specElem_clean mvl x
          · simp at h

def SpecInv (s : Spec) : Prop := CleanDict s.mvl s.dict ∧ DistinctKeys s.dict

theorem cleanDict_sublist {mvl : Option Int} {d d' : OD} (h : d'.Sublist d) (hc : CleanDict mvl d) : CleanDict mvl d' :=
  fun e he => hc e (h.subset he)

theorem distinct_sublist {d d' : OD} (h : d'.Sublist d) (hc : DistinctKeys d) : DistinctKeys d' :=
  List.Nodup.sublist (h.map _) hc

theorem keepLast_sublist (cap : Option Nat) (d : OD) : (keepLast cap d).Sublist d := by
  cases cap with
  | none => exact List.Sublist.refl _
  | some c => exact List.drop_sublist _ _

theorem distinct_filter_append (d : OD) (k : Key) (v : Val) (h : DistinctKeys d) :
    DistinctKeys (d.filter (fun e => e.1 != k) ++ [(k, v)]) := by
  unfold DistinctKeys at *
  rw [List.map_append, List.nodup_append]
  refine ⟨List.Nodup.sublist (List.filter_sublist.map _) h, by simp, ?_⟩
  intro a ha b hb
  simp only [List.map_cons, List.map_nil, List.mem_singleton] at hb
  subst hb
  obtain ⟨e, he, rfl⟩ := List.mem_map.mp ha
  have := (List.mem_filter.mp he).2
  simpa using this

theorem Spec.set_inv (s : Spec) (k : Key) (v : Val) (h : SpecInv s) :
    SpecInv (s.set k v).1 ∧ (s.set k v).1.mvl = s.mvl ∧ (s.set k v).1.cap = s.cap ∧ (s.set k v).1.frozen = s.frozen := by
  unfold Spec.set
  by_cases hf : s.frozen = true
  · simp [hf, h]
  · by_cases hc : s.cap = some 0
    · simp [hf, hc]; exact h
    · cases hs : specClean s.mvl k v with
      | none => simp [hf, hc, h]
      | some v' =>
        have hf' : s.frozen = false := by simpa using hf
        simp only [hf', hc, Bool.false_eq_true, if_false]
        obtain ⟨hk, hv⟩ := specClean_clean hs
        refine ⟨⟨?_, ?_⟩, trivial, trivial, trivial⟩
        · apply cleanDict_sublist (keepLast_sublist _ _)
          intro e he
          rcases List.mem_append.mp he with he | he
          · exact h.1 e (List.mem_filter.mp he).1
          · simp only [List.mem_singleton] at he; subst he; exact ⟨hk, hv⟩
        · exact distinct_sublist (keepLast_sublist _ _) (distinct_filter_append _ _ _ h.2)

theorem Spec.del_inv (s : Spec) (k : Key) (h : SpecInv s) :
    SpecInv (s.del k).1 ∧ (s.del k).1.mvl = s.mvl ∧ (s.del k).1.cap = s.cap ∧ (s.del k).1.frozen = s.frozen := by
  unfold Spec.del
  by_cases hf : s.frozen = true
  · simp [hf, h]
  · by_cases hk : (s.dict.any fun e => e.1 == k) = true
    · have hf' : s.frozen = false := by simpa using hf
      simp only [hf', hk, Bool.false_eq_true, if_true, if_false]
      exact ⟨⟨cleanDict_sublist List.filter_sublist h.1, distinct_sublist List.filter_sublist h.2⟩, trivial,
        trivial, trivial⟩
    · simp [hf, hk, h]

theorem Spec.setAll_inv (kvs : List (Key × Val)) : ∀ (s : Spec), SpecInv s →
    SpecInv (s.setAll kvs).1 ∧ (s.setAll kvs).1.mvl = s.mvl ∧ (s.setAll kvs).1.cap = s.cap ∧
      (s.setAll kvs).1.frozen = s.frozen := by
  induction kvs with
  | nil => intro s h; exact ⟨h, rfl, rfl, rfl⟩
  | cons kv kvs ih =>
    intro s h
    obtain ⟨k, v⟩ := kv
    have ⟨h1, h2, h3, h4⟩ := Spec.set_inv s k v h
    simp only [Spec.setAll]
    cases hr : s.set k v with
    | mk s' e =>
      rw [hr] at h1 h2 h3 h4
      cases e with
      | none =>
        have ⟨i1, i2, i3, i4⟩ := ih s' h1
        exact ⟨i1, i2.trans h2, i3.trans h3, i4.trans h4⟩
      | some e => exact ⟨h1, h2, h3, h4⟩

theorem Spec.step_inv (s : Spec) (op : Op) (h : SpecInv s) :
    SpecInv (s.step op).1 ∧ (s.step op).1.mvl = s.mvl ∧ (s.step op).1.cap = s.cap ∧
      (s.step op).1.frozen = s.frozen := by
  cases op with
  | set k v => exact Spec.set_inv s k v h
  | del k => exact Spec.del_inv s k h
  | mergeIn kvs => exact Spec.setAll_inv kvs s h

theorem Spec.run_inv (ops : List Op) : ∀ (s : Spec), SpecInv s →
    SpecInv (Spec.run s ops).1 ∧ (Spec.run s ops).1.mvl = s.mvl ∧ (Spec.run s ops).1.cap = s.cap ∧
      (Spec.run s ops).1.frozen = s.frozen := by
  induction ops with
  | nil => intro s h; exact ⟨h, rfl, rfl, rfl⟩
  | cons op ops ih =>
    intro s h
    have ⟨h1, h2, h3, h4⟩ := Spec.step_inv s op h
    have ⟨i1, i2, i3, i4⟩ := ih (s.step op).1 h1
    simp only [Spec.run]
    exact ⟨i1, i2.trans h2, i3.trans h3, i4.trans h4⟩

theorem Spec.create_inv (cap : Option Nat) (mvl : Option Int) (attrs : List (Key × Val)) (imm : Bool) :
    SpecInv (Spec.create cap mvl attrs imm) ∧ (Spec.create cap mvl attrs imm).mvl = mvl ∧
      (Spec.create cap mvl attrs imm).cap = cap ∧ (Spec.create cap mvl attrs imm).frozen = imm := by
  have h0 : SpecInv ⟨cap, mvl, [], 0, false⟩ := ⟨by intro e he; simp at he, by simp [DistinctKeys]⟩
  have ⟨h1, h2, h3, _⟩ := Spec.setAll_inv attrs _ h0
  exact ⟨h1, h2, h3, rfl⟩

end AttrProofs
