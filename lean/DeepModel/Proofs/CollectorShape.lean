/-
  Proofs/CollectorShape — the *shape* of a collection (which objects get which ids, every reference, every child
  list, every frame, every watch result, every failure) does not depend on the texts `str(o)` yields or on whether
  `str(o)` raises: two heaps that agree on everything but `str` / the placeholder produce, step by step, the same
  states up to the `value` / `truncated` fields of the entries (C06: "every other variable intact").
-/
import DeepModel.Proofs.CollectorSnap

namespace Collector
open Heap Extracted.Collector

/-- an entry without its text -/
def eraseE (e : Entry) : Entry := { e with value := "", truncated := false }

def eraseT (t : List Entry) : List Entry := t.map eraseE

/-- the two heaps agree on every raw fact except the outcome of `str` and the placeholder text -/
def SameShape (H H' : Heap) : Prop := ∀ i, (H.obj i).shape = (H'.obj i).shape

theorem shape_fields {o o' : PyObj} (h : o.shape = o'.shape) :
    o.tyName = o'.tyName ∧ o.tyRepr = o'.tyRepr ∧ o.isDictExact = o'.isDictExact ∧ o.len = o'.len ∧
    o.dictItems = o'.dictItems ∧ o.seq = o'.seq ∧ o.isExc = o'.isExc ∧ o.excArgs = o'.excArgs ∧
    o.hasDict = o'.hasDict ∧ o.attrs = o'.attrs ∧ o.clsName = o'.clsName := by
  simp only [PyObj.shape, Shape.mk.injEq] at h
  exact h

theorem branchChildren_shape (L : Limits) (pvid depth : Nat) {o o' : PyObj} (h : o.shape = o'.shape) (bs : List Branch) :
    branchChildren L pvid depth o bs = branchChildren L pvid depth o' bs := by
  obtain ⟨h1, _, h3, _, h5, h6, h7, h8, h9, h10, _⟩ := shape_fields h
  induction bs with
  | nil => rfl
  | cons b bs ih =>
    cases b <;> simp only [branchChildren, h1, h3, h5, h6, h7, h8, h9, h10, ih]

theorem childNodes_shape (L : Limits) (pvid : Nat) {o o' : PyObj} (h : o.shape = o'.shape) (d : Nat) :
    childNodes L pvid o d = childNodes L pvid o' d := by
  unfold childNodes
  rw [(shape_fields h).1, branchChildren_shape L pvid (d + 1) h]

theorem renderText_shape {o o' : PyObj} (h : o.shape = o'.shape) :
    (∃ m, renderText o = .error m ∧ renderText o' = .error m) ∨
    (∃ t t', renderText o = .ok t ∧ renderText o' = .ok t') := by
  obtain ⟨h1, h2, h3, h4, _⟩ := shape_fields h
  unfold renderText
  rw [← h1, ← h3, ← h2, ← h4]
  cases renderKind o.tyName o.isDictExact with
  | typeFmt pre post => exact Or.inr ⟨_, _, rfl, rfl⟩
  | lenFmt pre post =>
    cases o.len with
    | ok n => exact Or.inr ⟨_, _, rfl, rfl⟩
    | raises m =>
      simp only
      split
      · exact Or.inr ⟨_, _, rfl, rfl⟩
      · exact Or.inl ⟨m, rfl, rfl⟩
  | safeStr => exact Or.inr ⟨_, _, rfl, rfl⟩

theorem eraseT_addChild (p : Nat) (c : VarId) (t : List Entry) : eraseT (addChild p c t) = addChild p c (eraseT t) := by
  simp only [eraseT, addChild, List.map_map]
  apply List.map_congr_left
  intro e _
  by_cases h : e.vid = p <;> simp [eraseE, h]

/-- states equal up to the texts of their entries -/
structure Sim (s s' : BState) : Prop where
  queue : s.queue = s'.queue
  cache : s.cache = s'.cache
  table : eraseT s.table = eraseT s'.table
  rootIds : s.rootIds = s'.rootIds
  stopped : s.stopped = s'.stopped
  failed : s.failed = s'.failed
  popped : s.popped = s'.popped
  recorded : s.recorded = s'.recorded

theorem Sim.final {s s' : BState} (h : Sim s s') : s.final = s'.final := by
  simp only [BState.final, h.queue, h.stopped, h.failed]

theorem eraseT_attach (p : Option Nat) (c : VarId) (s : BState) :
    eraseT (attach p c s).table = match p with | none => eraseT s.table | some v => addChild v c (eraseT s.table) := by
  cases p with
  | none => rfl
  | some v => exact eraseT_addChild v c s.table

theorem sim_attach {s s' : BState} (p : Option Nat) (c : VarId) (h : Sim s s') : Sim (attach p c s) (attach p c s') := by
  refine ⟨by simpa using h.queue, by simpa using h.cache, ?_, ?_, by simpa using h.stopped, by simpa using h.failed,
    by simpa using h.popped, by simpa using h.recorded⟩
  · rw [eraseT_attach, eraseT_attach, h.table]
  · cases p with
    | none => simp [attach, h.rootIds]
    | some v => simpa [attach] using h.rootIds

theorem step_sim {H H' : Heap} {L : Limits} (hs : SameShape H H') {s s' : BState} (h : Sim s s') :
    Sim (step H L s) (step H' L s') := by
  obtain ⟨hq, hc, ht, hr, hst, hfl, hp, hrec⟩ := h
  obtain ⟨q, c, t, r, st, fl, po, re⟩ := s
  obtain ⟨q', c', t', r', st', fl', po', re'⟩ := s'
  simp only at hq hc ht hr hst hfl hp hrec
  subst hq hc hr hst hfl hp hrec
  unfold step
  simp only [BState.final]
  split
  · exact ⟨rfl, rfl, ht, rfl, rfl, rfl, rfl, rfl⟩
  · cases pop q with
    | none => exact ⟨rfl, rfl, ht, rfl, rfl, rfl, rfl, rfl⟩
    | some nr =>
      obtain ⟨n, rest⟩ := nr
      simp only
      cases budgetOk L c with
      | false =>
        simp only [Bool.not_false, if_true]
        exact ⟨rfl, rfl, ht, rfl, rfl, rfl, rfl, rfl⟩
      | true =>
        simp only [Bool.not_true, Bool.false_eq_true, if_false]
        cases lookupId c n.obj with
        | some id =>
          simp only
          apply sim_attach
          exact ⟨rfl, rfl, ht, rfl, rfl, rfl, rfl, rfl⟩
        | none =>
          simp only
          have hsh := hs n.obj
          rcases renderText_shape hsh with ⟨m, r1, r2⟩ | ⟨tx, tx', r1, r2⟩
          · rw [r1, r2]
            exact ⟨rfl, rfl, ht, rfl, rfl, rfl, rfl, rfl⟩
          · rw [r1, r2]
            simp only
            rw [childNodes_shape L (newId c) hsh n.depth]
            have hbase : Sim
                ⟨q, c ++ [(n.obj, newId c)], t ++ [mkEntry L (newId c) (H.obj n.obj) tx n], r, st, fl,
                  po ++ [n], re ++ [(n, newId c)]⟩
                ⟨q, c ++ [(n.obj, newId c)], t' ++ [mkEntry L (newId c) (H'.obj n.obj) tx' n], r, st, fl,
                  po ++ [n], re ++ [(n, newId c)]⟩ := by
              refine ⟨rfl, rfl, ?_, rfl, rfl, rfl, rfl, rfl⟩
              simp only [eraseT, List.map_append, List.map_cons, List.map_nil] at ht ⊢
              rw [ht]
              simp [eraseE, mkEntry, (shape_fields hsh).1]
            have hatt := sim_attach n.parent (mkRef n (newId c)) hbase
            cases childNodes L (newId c) (H'.obj n.obj) n.depth with
            | error m =>
              exact ⟨rfl, hatt.cache, hatt.table, hatt.rootIds, hatt.stopped, rfl, hatt.popped, hatt.recorded⟩
            | ok cs =>
              exact ⟨rfl, hatt.cache, hatt.table, hatt.rootIds, hatt.stopped, hatt.failed, hatt.popped, hatt.recorded⟩

theorem run_sim {H H' : Heap} {L : Limits} (hs : SameShape H H') (k : Nat) {s s' : BState} (h : Sim s s') :
    Sim (run H L k s) (run H' L k s') := by
  induction k generalizing s s' with
  | zero => exact h
  | succ k ih => exact ih (step_sim hs h)

theorem run_ge_fuel (H : Heap) (L : Limits) (s : BState) (k : Nat) :
    run H L (fuelBound H L s + k) s = runToEnd H L s := by
  rw [run_add]
  exact run_final k (runToEnd_final H L s)

theorem runToEnd_sim {H H' : Heap} {L : Limits} (hs : SameShape H H') {s s' : BState} (h : Sim s s') :
    Sim (runToEnd H L s) (runToEnd H' L s') := by
  have e1 := run_ge_fuel H L s (fuelBound H' L s')
  have e2 := run_ge_fuel H' L s' (fuelBound H L s)
  rw [Nat.add_comm] at e2
  rw [← e1, ← e2]
  exact run_sim hs _ h

theorem processVariable_sim {H H' : Heap} (L : Limits) (hs : SameShape H H') (c : Cache) {t t' : List Entry}
    (ht : eraseT t = eraseT t') (name : String) (o : ObjId) :
    (processVariable H L c t name o).cache = (processVariable H' L c t' name o).cache ∧
    eraseT (processVariable H L c t name o).table = eraseT (processVariable H' L c t' name o).table ∧
    (processVariable H L c t name o).vid = (processVariable H' L c t' name o).vid ∧
    (processVariable H L c t name o).failed = (processVariable H' L c t' name o).failed := by
  unfold processVariable
  cases lookupId c o with
  | some id => exact ⟨rfl, ht, rfl, rfl⟩
  | none =>
    have h0 : Sim (bfsInit L c t name o) (bfsInit L c t' name o) := by
      unfold bfsInit
      split <;> exact ⟨rfl, rfl, ht, rfl, rfl, rfl, rfl, rfl⟩
    have h := runToEnd_sim (L := L) hs h0
    exact ⟨h.cache, h.table, by simp only [h.cache], h.failed⟩

theorem findEntry_erase (t : List Entry) (v : Nat) : findEntry (eraseT t) v = (findEntry t v).map eraseE := by
  induction t with
  | nil => rfl
  | cons e t ih =>
    simp only [eraseT, List.map_cons, findEntry] at ih ⊢
    by_cases h : e.vid = v
    · simp [eraseE, h]
    · simp only [eraseE, h, if_false]; exact ih

theorem removeEntry_erase (t : List Entry) (v : Nat) : eraseT (removeEntry t v) = removeEntry (eraseT t) v := by
  simp only [eraseT, removeEntry, List.filter_map]
  congr 1

theorem unwrap_sim {t t' : List Entry} (ht : eraseT t = eraseT t') (vid : Option Nat) :
    (unwrap t vid).1 = (unwrap t' vid).1 ∧ eraseT (unwrap t vid).2 = eraseT (unwrap t' vid).2 := by
  unfold unwrap
  cases vid with
  | none => exact ⟨rfl, ht⟩
  | some v =>
    simp only
    have h1 := findEntry_erase t v
    have h2 := findEntry_erase t' v
    rw [ht] at h1
    rw [h1] at h2
    cases hf : findEntry t v with
    | none =>
      cases hf' : findEntry t' v with
      | none => exact ⟨rfl, ht⟩
      | some e' => simp [hf, hf'] at h2
    | some e =>
      cases hf' : findEntry t' v with
      | none => simp [hf, hf'] at h2
      | some e' =>
        simp only [hf, hf', Option.map_some, Option.some.injEq] at h2
        refine ⟨?_, ?_⟩
        · have := congrArg Entry.children h2; simpa [eraseE] using this
        · simp only; rw [removeEntry_erase, removeEntry_erase, ht]

theorem collectFrames_sim {H H' : Heap} (L : Limits) (hs : SameShape H H') (fs : List FrameIn) (c : Cache)
    {t t' : List Entry} (ht : eraseT t = eraseT t') :
    (collectFrames H L fs c t).cache = (collectFrames H' L fs c t').cache ∧
    eraseT (collectFrames H L fs c t).table = eraseT (collectFrames H' L fs c t').table ∧
    (collectFrames H L fs c t).frames = (collectFrames H' L fs c t').frames ∧
    (collectFrames H L fs c t).failed = (collectFrames H' L fs c t').failed := by
  induction fs generalizing c t t' with
  | nil => exact ⟨rfl, ht, rfl, rfl⟩
  | cons f fs ih =>
    simp only [collectFrames]
    split
    · have := ih c ht
      exact ⟨this.1, this.2.1, by simp [this.2.2.1], this.2.2.2⟩
    · obtain ⟨p1, p2, p3, p4⟩ := processVariable_sim L hs c ht localsName f.locals
      rw [← p4]
      cases (processVariable H L c t localsName f.locals).failed with
      | some m => exact ⟨p1, p2, rfl, rfl⟩
      | none =>
        simp only
        rw [← p3, ← p1]
        have hu := unwrap_sim p2 (processVariable H L c t localsName f.locals).vid
        have := ih (processVariable H L c t localsName f.locals).cache hu.2
        exact ⟨this.1, this.2.1, by simp [this.2.2.1, hu.1], this.2.2.2⟩

theorem eraseT_append (a b : List Entry) : eraseT (a ++ b) = eraseT a ++ eraseT b := by simp [eraseT]

theorem collectWatches_sim {H H' : Heap} (L : Limits) (hs : SameShape H H') (ws : List WatchIn) (c : Cache)
    {t t' : List Entry} (ht : eraseT t = eraseT t') :
    (collectWatches H L ws c t).cache = (collectWatches H' L ws c t').cache ∧
    eraseT (collectWatches H L ws c t).table = eraseT (collectWatches H' L ws c t').table ∧
    (collectWatches H L ws c t).outs = (collectWatches H' L ws c t').outs ∧
    (collectWatches H L ws c t).failed = (collectWatches H' L ws c t').failed := by
  induction ws generalizing c t t' with
  | nil => exact ⟨rfl, ht, rfl, rfl⟩
  | cons w ws ih =>
    obtain ⟨p1, p2, p3, p4⟩ := processVariable_sim (t := []) (t' := []) L hs c rfl w.expr w.value
    have hmerge : eraseT (t ++ (processVariable H L c [] w.expr w.value).table) =
        eraseT (t' ++ (processVariable H' L c [] w.expr w.value).table) := by
      rw [eraseT_append, eraseT_append, ht, p2]
    simp only [collectWatches]
    rw [← p4, ← p3, ← p1]
    split
    · cases (processVariable H L c [] w.expr w.value).failed with
      | some m => exact ⟨rfl, ht, rfl, rfl⟩
      | none =>
        simp only
        split
        · have := ih (processVariable H L c [] w.expr w.value).cache ht
          exact ⟨this.1, this.2.1, by simp [this.2.2.1], this.2.2.2⟩
        · have := ih (processVariable H L c [] w.expr w.value).cache hmerge
          exact ⟨this.1, this.2.1, by simp [this.2.2.1], this.2.2.2⟩
    · cases (processVariable H L c [] w.expr w.value).failed with
      | some m =>
        have := ih (processVariable H L c [] w.expr w.value).cache ht
        exact ⟨this.1, this.2.1, by simp [this.2.2.1], this.2.2.2⟩
      | none =>
        simp only
        split
        · have := ih (processVariable H L c [] w.expr w.value).cache ht
          exact ⟨this.1, this.2.1, by simp [this.2.2.1], this.2.2.2⟩
        · have := ih (processVariable H L c [] w.expr w.value).cache hmerge
          exact ⟨this.1, this.2.1, by simp [this.2.2.1], this.2.2.2⟩

theorem selfClassFailure_shape {H H' : Heap} (hs : SameShape H H') (fs : List FrameIn) :
    selfClassFailure H fs = selfClassFailure H' fs := by
  induction fs with
  | nil => rfl
  | cons f fs ih =>
    have hso : selfOf H f.locals = selfOf H' f.locals := by
      unfold selfOf
      rw [(shape_fields (hs f.locals)).2.2.2.2.1]
      cases List.find? (fun kv => kv.1.isStr && kv.1.text == "self") (H'.obj f.locals).dictItems with
      | none => rfl
      | some kv => simp only [(shape_fields (hs kv.2)).1]
    simp only [selfClassFailure, hso]
    cases selfOf H' f.locals with
    | none => exact ih
    | some o => simp only [(shape_fields (hs o)).2.2.2.2.2.2.2.2.2.2, ih]

/-- an outcome without the texts of its entries -/
def eraseO : Outcome → Outcome
  | .failed m => .failed m
  | .ok s => .ok { s with table := eraseT s.table }

/-- **the shape of a snapshot does not depend on `str`** -/
theorem collect_shape {H H' : Heap} (hs : SameShape H H') (a : ActionIn) :
    eraseO (collect H a) = eraseO (collect H' a) := by
  unfold collect collectFrom
  simp only
  obtain ⟨f1, f2, f3, f4⟩ := collectFrames_sim a.limits hs a.frames [] (t := []) (t' := []) rfl
  rw [← f4]
  cases (collectFrames H a.limits a.frames [] []).failed with
  | some m => rfl
  | none =>
    simp only
    rw [← f1]
    obtain ⟨w1, w2, w3, w4⟩ := collectWatches_sim a.limits hs a.watches (collectFrames H a.limits a.frames [] []).cache f2
    rw [← w4]
    cases (collectWatches H a.limits a.watches (collectFrames H a.limits a.frames [] []).cache
        (collectFrames H a.limits a.frames [] []).table).failed with
    | some m => rfl
    | none =>
      simp only [eraseO, Outcome.ok.injEq, Snapshot.mk.injEq]
      exact ⟨f3, w2, w3⟩

/-- the same for the whole action, class-name reads included -/
theorem snapshotAction_shape {H H' : Heap} (hs : SameShape H H') (a : ActionIn) :
    eraseO (snapshotAction H a) = eraseO (snapshotAction H' a) := by
  unfold snapshotAction
  rw [selfClassFailure_shape hs]
  cases selfClassFailure H' a.frames with
  | some m => rfl
  | none => exact collect_shape hs a

end Collector
