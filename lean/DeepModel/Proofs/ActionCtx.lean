/- helper lemmas about `Extracted.Expr.canTrigger` / `Model.ActionCtx` (property theorems live in Props/C10) -/
import DeepModel.Model.ActionCtx
import DeepModel.Proofs.Limiter

namespace ActionCtx
open Extracted.Limiter Extracted.Expr

/-- the translated `can_trigger`, read as a formula: limits ∧ (blank ∨ the condition holds).
    This is where the *text* of `ActionContext.can_trigger` matters: it fails to prove if the failing-condition
    guard, the blank test or the truthiness test change. -/
theorem canTrigger_result (la : Bool) (cond : Option String) (ev : String → Outcome)
    (hco : Outcome.coherent (ev (cond.getD ""))) :
    (Extracted.Expr.canTrigger la cond ev).1 = (la && (blank cond || Outcome.holds (ev (cond.getD "")))) := by
  unfold Extracted.Expr.canTrigger blank Outcome.holds
  cases la with
  | false => simp
  | true =>
    cases cond with
    | none => simp
    | some s =>
      by_cases hb : (Py.strip s).isEmpty = true
      · have : Py.len (Py.strip s) = 0 := by
          unfold Py.len
          have := String.isEmpty_iff.mp hb
          simp [this]
        simp [hb, this]
      · have hl : ¬ (Py.len (Py.strip s) = 0) := by
          unfold Py.len
          intro h
          apply hb
          have h0 : (Py.strip s).length = 0 := by omega
          exact String.isEmpty_iff.mpr (String.length_eq_zero_iff.mp h0)
        simp only [Option.isNone_some, Option.getD_some, Bool.false_or, beq_iff_eq, hl]
        simp only [Bool.not_eq_true] at hb
        simp only [Bool.not_true, Bool.false_eq_true, ↓reduceIte, Nat.zero_add, hb, Bool.false_or,
          Bool.true_and]
        cases hx : (ev s).isExc with
        | true => simp
        | false =>
          have hf : (ev s).failed = false := by
            cases hff : (ev s).failed with
            | false => rfl
            | true =>
              have := hco (by simpa using hff)
              simp only [Option.getD_some] at this
              rw [hx] at this
              exact absurd this (by decide)
          simp [hf]

/-- number of oracle calls made by the translated `can_trigger` -/
theorem canTrigger_evals (la : Bool) (cond : Option String) (ev : String → Outcome) :
    (Extracted.Expr.canTrigger la cond ev).2 = (if la && !blank cond then 1 else 0) := by
  unfold Extracted.Expr.canTrigger blank
  cases la with
  | false => simp
  | true =>
    cases cond with
    | none => simp
    | some s =>
      by_cases hb : (Py.strip s).isEmpty = true
      · have : Py.len (Py.strip s) = 0 := by
          unfold Py.len
          have := String.isEmpty_iff.mp hb
          simp [this]
        simp [hb, this]
      · have hl : ¬ (Py.len (Py.strip s) = 0) := by
          unfold Py.len
          intro h
          apply hb
          have h0 : (Py.strip s).length = 0 := by omega
          exact String.isEmpty_iff.mpr (String.length_eq_zero_iff.mp h0)
        simp only [Bool.not_eq_true] at hb
        simp only [Option.isNone_some, Option.getD_some, Bool.false_or, beq_iff_eq, hl, hb]
        simp only [Bool.not_true, Bool.false_eq_true, ↓reduceIte, Nat.zero_add, Bool.not_false, Bool.and_self]
        split <;> rfl

def Hit.coherent (h : Hit) : Prop := Outcome.coherent h.cond

theorem check_result (c : Cfg) (st : Stats) (h : Hit) (hco : h.coherent) :
    (check c st h).1 = (Limiter.allowed c.lim st h.ts && condTrue c h) := by
  unfold check condTrue
  exact canTrigger_result _ _ _ hco

theorem check_evals (c : Cfg) (st : Stats) (h : Hit) :
    (check c st h).2 = (if Limiter.allowed c.lim st h.ts && !blank c.condition then 1 else 0) := by
  unfold check
  exact canTrigger_evals _ _ _

/-- the condition-aware hit seen by the plain limiter model of C04 -/
def toLim (c : Cfg) (h : Hit) : Limiter.Hit := ⟨h.ts, condTrue c h⟩

theorem stepHit_eq (c : Cfg) (st : Stats) (h : Hit) (hco : h.coherent) :
    ((stepHit c st h).1, (stepHit c st h).2.1) = Limiter.stepHit c.lim st (toLim c h) := by
  unfold stepHit Limiter.stepHit toLim
  simp only [check_result c st h hco]
  split <;> simp

theorem stepHit_rejected (c : Cfg) (st : Stats) (h : Hit) (hco : h.coherent) (hr : condTrue c h = false) :
    (stepHit c st h).1 = st ∧ (stepHit c st h).2.1 = false := by
  unfold stepHit
  simp [check_result c st h hco, hr]

theorem stepHit_fires (c : Cfg) (st : Stats) (h : Hit) (hco : h.coherent)
    (ha : Limiter.allowed c.lim st h.ts = true) (ht : condTrue c h = true) :
    (stepHit c st h).1 = fire st h.ts ∧ (stepHit c st h).2.1 = true := by
  unfold stepHit
  simp [check_result c st h hco, ha, ht]

theorem stepHit_fired_iff (c : Cfg) (st : Stats) (h : Hit) (hco : h.coherent) :
    (stepHit c st h).2.1 = (Limiter.allowed c.lim st h.ts && condTrue c h) := by
  unfold stepHit
  simp only [check_result c st h hco]
  split <;> simp_all

/-- bridge to the C04 model: same final stats, same collection time stamps -/
theorem runFrom_toLim (c : Cfg) (hs : List Hit) (hco : ∀ h ∈ hs, h.coherent) : ∀ (st : Stats),
    Limiter.runFrom c.lim st (hs.map (toLim c)) = ((runFrom c st hs).1, (runFrom c st hs).2.map (·.ts)) := by
  induction hs with
  | nil => intro st; simp [runFrom, Limiter.runFrom]
  | cons h hs ih =>
    intro st
    have hh := hco h (List.mem_cons_self ..)
    have hrest : ∀ x ∈ hs, x.coherent := fun x hx => hco x (List.mem_cons_of_mem _ hx)
    have e := stepHit_eq c st h hh
    simp only [List.map_cons, Limiter.runFrom, runFrom]
    rw [← e]
    simp only [ih hrest]
    cases (stepHit c st h).2.1 <;> simp [toLim]

end ActionCtx
