/-
  Proofs/CollectorSnap — the invariants stated on a finished snapshot (`collect H a = .ok s`): what the property
  files C05 / C06 / C07 quote.
-/
import DeepModel.Proofs.CollectorCount
import DeepModel.Proofs.CollectorClosed
import DeepModel.Proofs.CollectorBenign

namespace Collector
open Heap Extracted.Collector

/-- the facts that hold of every finished snapshot, for every heap, limits, frames and watches -/
structure SnapFacts (a : ActionIn) (s : Snapshot) (c : Cache) : Prop where
  inv : AInv a.limits c s.table
  len : s.table.length ≤ c.length
  frames : ∀ vars ∈ s.frames, ∀ x ∈ vars, (x.obj, x.vid) ∈ c
  watches : ∀ w ∈ s.watches, ∀ v, w.vid = some v → (w.obj, v) ∈ c

theorem collect_facts {H : Heap} {a : ActionIn} {s : Snapshot} (h : collect H a = .ok s) :
    SnapFacts a s (collectFrom H a [] []).cache := by
  unfold collect at h
  unfold collectFrom at h ⊢
  simp only at h ⊢
  have ff := collectFrames_facts H a.frames (AInv.nil a.limits)
  have fl := collectFrames_len H a.limits a.frames [] [] (by simp)
  split at h
  · simp at h
  · have wf := collectWatches_facts H a.watches ff.inv
    have wl := collectWatches_len H a.limits a.watches _ _ fl
    split at h
    · simp at h
    · simp only [Outcome.ok.injEq] at h
      subst h
      exact ⟨wf.inv, wl, fun vars hv x hx => ext_mem wf.ext (ff.refs vars hv x hx), wf.outs⟩

/-! ### no failure on a benign heap -/

theorem step_nofail {H : Heap} {L : Limits} (hB : Benign H) (s : BState) (h : s.failed = none) :
    (step H L s).failed = none := by
  rcases step_cases H L s with hf | ⟨n, rest, _, hq, hc⟩
  · rw [step_final hf]; exact h
  · generalize step H L s = s' at hc ⊢
    cases hc with
    | stop hb => exact h
    | hit hb id hl => simpa using h
    | renderFails hb hl m hr => obtain ⟨text, ht⟩ := (hB n.obj).1; rw [ht] at hr; simp at hr
    | kidsFail hb hl text m hr hk =>
      obtain ⟨cs, hcs⟩ := (hB n.obj).2 L (newId s.cache) n.depth; rw [hcs] at hk; simp at hk
    | record hb hl text cs hr hk => simpa using h

theorem processVariable_nofail {H : Heap} (hB : Benign H) (L : Limits) (c : Cache) (t : List Entry) (name : String)
    (o : ObjId) : (processVariable H L c t name o).failed = none := by
  unfold processVariable
  cases lookupId c o with
  | some id => rfl
  | none =>
    exact run_inv (fun s => s.failed = none) (fun s hs => step_nofail hB s hs) _ _ (by unfold bfsInit; split <;> rfl)

theorem collectFrames_nofail {H : Heap} (hB : Benign H) (L : Limits) (fs : List FrameIn) (c : Cache) (t : List Entry) :
    (collectFrames H L fs c t).failed = none := by
  induction fs generalizing c t with
  | nil => rfl
  | cons f fs ih =>
    simp only [collectFrames]
    split
    · exact ih c t
    · rw [processVariable_nofail hB]; exact ih _ _

theorem collectWatches_nofail {H : Heap} (hB : Benign H) (L : Limits) (ws : List WatchIn) (c : Cache) (t : List Entry) :
    (collectWatches H L ws c t).failed = none := by
  induction ws generalizing c t with
  | nil => rfl
  | cons w ws ih =>
    simp only [collectWatches]
    rw [processVariable_nofail hB]
    split
    · simp only
      split
      · exact ih _ _
      · exact ih _ _
    · simp only
      split
      · exact ih _ _
      · exact ih _ _

/-- on a benign heap every snapshot action produces its snapshot -/
theorem collect_total {H : Heap} (hB : Benign H) (a : ActionIn) : ∃ s, collect H a = .ok s := by
  unfold collect collectFrom
  simp only [collectFrames_nofail hB, collectWatches_nofail hB]
  exact ⟨_, rfl⟩

/-! ### referential closure -/

theorem collectWatches_outs_obj (H : Heap) (L : Limits) (ws : List WatchIn) (c : Cache) (t : List Entry) :
    ∀ w ∈ (collectWatches H L ws c t).outs, ∃ wi ∈ ws, w.obj = wi.value := by
  induction ws generalizing c t with
  | nil => simp [collectWatches]
  | cons w ws ih =>
    have key : ∀ (o : WatchOut) (r : WatchesOut), o.obj = w.value → (∀ x ∈ r.outs, ∃ wi ∈ ws, x.obj = wi.value) →
        ∀ x ∈ ({ r with outs := o :: r.outs } : WatchesOut).outs, ∃ wi ∈ w :: ws, x.obj = wi.value := by
      intro o r ho hr x hx
      simp only [List.mem_cons] at hx
      rcases hx with rfl | hx
      · exact ⟨w, List.mem_cons_self .., ho⟩
      · obtain ⟨wi, hwi, e⟩ := hr x hx
        exact ⟨wi, List.mem_cons_of_mem _ hwi, e⟩
    simp only [collectWatches]
    split
    · split
      · simp
      · split
        · exact key _ _ rfl (ih _ _)
        · exact key _ _ rfl (ih _ _)
    · split
      · exact key _ _ rfl (ih _ _)
      · split
        · exact key _ _ rfl (ih _ _)
        · exact key _ _ rfl (ih _ _)

/-- **closed**: in a finished snapshot of a benign heap in which no object refers to a collected frame's locals dict,
    every reference — on a frame, as a child, as a watch / capture result with an id — has its entry in the table -/
theorem collect_closed {H : Heap} {a : ActionIn} {s : Snapshot} (hB : Benign H)
    (hN : NoRef H (localsOf a.frames)) (hW : ∀ w ∈ a.watches, w.value ∉ localsOf a.frames)
    (h : collect H a = .ok s) :
    (∀ vars ∈ s.frames, ∀ x ∈ vars, x.vid ∈ s.table.map (·.vid)) ∧
    (∀ e ∈ s.table, ∀ r ∈ e.children, r.vid ∈ s.table.map (·.vid)) ∧
    (∀ w ∈ s.watches, ∀ v, w.vid = some v → v ∈ s.table.map (·.vid)) := by
  unfold collect collectFrom at h
  simp only at h
  have ff := collectFrames_facts H a.frames (AInv.nil a.limits)
  have hLO : ∀ f ∈ a.frames, f.collect = true → f.locals ∈ localsOf a.frames := by
    intro f hf hc
    simp only [localsOf, List.mem_map, List.mem_filter]
    exact ⟨f, ⟨hf, hc⟩, rfl⟩
  have fc := collectFrames_closed (L := a.limits) hB hN a.frames hLO (AInv.nil a.limits) ⟨by simp, by simp⟩
  split at h
  · simp at h
  · have wf := collectWatches_facts H a.watches ff.inv
    have wc := collectWatches_closed (L := a.limits) hB hN a.watches fc.2.1
    have wo := collectWatches_outs_obj H a.limits a.watches (collectFrames H a.limits a.frames [] []).cache
      (collectFrames H a.limits a.frames [] []).table
    split at h
    · simp at h
    · simp only [Outcome.ok.injEq] at h
      subst h
      simp only
      refine ⟨?_, ?_, ?_⟩
      · intro vars hv x hx
        have hm := ext_mem wf.ext (ff.refs vars hv x hx)
        rcases wc.2.cov _ hm with h1 | h1
        · exact h1
        · exact absurd h1 (fc.2.2 vars hv x hx)
      · intro e he r hr
        rcases wc.2.cov _ (wf.inv.refs e he r hr) with h1 | h1
        · exact h1
        · exact absurd h1 (wc.2.refsLO e he r hr)
      · intro w hw v hv
        rcases wc.2.cov _ (wf.outs w hw v hv) with h1 | h1
        · exact h1
        · obtain ⟨wi, hwi, e⟩ := wo w hw
          simp only at h1
          rw [e] at h1
          exact absurd h1 (hW wi hwi)

/-- the class-name read of `self` is guarded in the source: it fails no frame, whatever the object bound to `self` does -/
theorem selfClassFailure_none (H : Heap) (fs : List FrameIn) : selfClassFailure H fs = none := by
  have hg : selfClassGuarded = true := by decide
  induction fs with
  | nil => rfl
  | cons f fs ih =>
    simp only [selfClassFailure]
    cases selfOf H f.locals with
    | none => exact ih
    | some o =>
      simp only
      cases (H.obj o).clsName with
      | ok n => exact ih
      | raises m => simp only [hg, if_true]; exact ih

theorem snapshotAction_eq_collect (H : Heap) (a : ActionIn) : snapshotAction H a = collect H a := by
  unfold snapshotAction; rw [selfClassFailure_none]

/-- **total**: every snapshot action produces its snapshot, on every heap (the guards make every heap benign) -/
theorem collect_total_all (H : Heap) (a : ActionIn) : ∃ s, collect H a = .ok s := collect_total (benign_all H) a

/-- **closed**, with the one hypothesis the code still forces (no reference to a collected frame's locals dict) -/
theorem collect_closed_all {H : Heap} {a : ActionIn} {s : Snapshot}
    (hN : NoRef H (localsOf a.frames)) (hW : ∀ w ∈ a.watches, w.value ∉ localsOf a.frames)
    (h : collect H a = .ok s) :
    (∀ vars ∈ s.frames, ∀ x ∈ vars, x.vid ∈ s.table.map (·.vid)) ∧
    (∀ e ∈ s.table, ∀ r ∈ e.children, r.vid ∈ s.table.map (·.vid)) ∧
    (∀ w ∈ s.watches, ∀ v, w.vid = some v → v ∈ s.table.map (·.vid)) :=
  collect_closed (benign_all H) hN hW h

end Collector
