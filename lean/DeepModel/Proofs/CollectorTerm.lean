/-
  Proofs/CollectorTerm — every search ends: `fuelBound` iterations always reach a final state (stopped by the
  budget, failed, or work list empty), for every heap (cyclic or not) and every limits, independently of the depth
  limit.  The measure is  |work list| + (budget left) · (maxKids + 1): taking a node off the list costs 1, recording a
  new object adds at most maxKids nodes but uses one unit of budget.
-/
import DeepModel.Proofs.CollectorBasic

namespace Collector
open Heap Extracted.Collector

theorem listChildrenFrom_length (m pvid depth : Nat) (xs : List ObjId) (t : Nat) :
    (listChildrenFrom m pvid depth xs t).length ≤ xs.length := by
  induction xs generalizing t with
  | nil => simp [listChildrenFrom]
  | cons x xs ih =>
    unfold listChildrenFrom
    split
    · simp
    · simp only [List.length_cons]; have := ih (t + 1); omega

theorem branchChildren_length (L : Limits) (pvid depth : Nat) (o : PyObj) (bs : List Branch) (cs : List Node)
    (h : branchChildren L pvid depth o bs = .ok cs) : cs.length ≤ o.kids := by
  induction bs with
  | nil => simp [branchChildren] at h; subst h; simp
  | cons b bs ih =>
    cases b with
    | dictExact =>
      simp only [branchChildren] at h
      split at h
      · simp only [Except.ok.injEq] at h; subst h
        simp only [dictChildren, List.length_map, PyObj.kids]; omega
      · exact ih h
    | listLike =>
      simp only [branchChildren] at h
      split at h
      · cases hs : o.seq with
        | ok xs =>
          simp only [hs, probeList, Except.ok.injEq] at h; subst h
          have := listChildrenFrom_length L.maxColl pvid depth xs 0
          simp only [PyObj.kids, hs, Probe.size]; omega
        | raises m => simp [hs, probeList] at h
      · exact ih h
    | isException =>
      simp only [branchChildren] at h
      cases he : o.isExc with
      | raises m => simp [he] at h
      | ok b =>
        cases b with
        | true =>
          simp only [he] at h
          cases hs : o.excArgs with
          | ok xs =>
            simp only [hs, probeList, Except.ok.injEq] at h; subst h
            have := listChildrenFrom_length L.maxColl pvid depth xs 0
            simp only [PyObj.kids, hs, Probe.size]; omega
          | raises m => simp [hs, probeList] at h
        | false => simp only [he] at h; exact ih h
    | hasDict =>
      simp only [branchChildren] at h
      cases he : o.hasDict with
      | raises m => simp [he] at h
      | ok b =>
        cases b with
        | true =>
          simp only [he] at h
          cases hs : o.attrs with
          | ok xs =>
            simp only [hs, probeList, Except.ok.injEq] at h; subst h
            simp only [dictChildren, List.length_map, PyObj.kids, hs, Probe.size]; omega
          | raises m => simp [hs, probeList] at h
        | false => simp only [he] at h; exact ih h

theorem childNodes_length (L : Limits) (pvid : Nat) (o : PyObj) (d : Nat) (cs : List Node)
    (h : childNodes L pvid o d = .ok cs) : cs.length ≤ o.kids := by
  rcases childNodes_ok_cases h with rfl | ⟨_, hb⟩
  · simp
  · exact branchChildren_length L pvid (d + 1) o childBranches cs hb

/-- the termination measure -/
def potential (H : Heap) (L : Limits) (s : BState) : Nat :=
  s.queue.length + (L.maxVars + 1 - s.cache.length) * (H.maxKids + 1)

theorem run_final' {H : Heap} {L : Limits} (k : Nat) {s : BState} (h : s.final = true) :
    (run H L k s).final = true := by
  rw [run_final k h]; exact h

theorem run_potential_final (H : Heap) (L : Limits) (k : Nat) (s : BState) (h : potential H L s ≤ k) :
    (run H L k s).final = true := by
  induction k generalizing s with
  | zero =>
    have : s.queue.length = 0 := by unfold potential at h; omega
    exact final_of_queue_nil (List.length_eq_zero_iff.mp this)
  | succ k ih =>
    simp only [run]
    by_cases hf : s.final = true
    · rw [step_final hf, run_final k hf]; exact hf
    · rcases step_cases H L s with he | ⟨n, rest, _, hq, hc⟩
      · exact absurd he hf
      · generalize step H L s = s' at hc ⊢
        cases hc with
        | stop hb => exact run_final' k (by simp [BState.final])
        | hit hb id hl =>
          apply ih
          simp only [potential, attach_queue, attach_cache] at h ⊢
          rw [hq] at h
          simp only [List.length_cons] at h
          omega
        | renderFails hb hl m hr => exact run_final' k (by simp [BState.final])
        | kidsFail hb hl text m hr hk => exact run_final' k (by simp [BState.final])
        | record hb hl text cs hr hk =>
          apply ih
          have hlen := childNodes_length L _ _ _ cs hk
          have hK := H.kids_le n.obj
          have hB := (budgetOk_iff L s.cache).mp hb
          have hA : (L.maxVars + 1 - s.cache.length) * (H.maxKids + 1)
              = (L.maxVars + 1 - (s.cache.length + 1)) * (H.maxKids + 1) + (H.maxKids + 1) := by
            have e : L.maxVars + 1 - s.cache.length = (L.maxVars + 1 - (s.cache.length + 1)) + 1 := by omega
            rw [e, Nat.add_mul]; simp
          simp only [potential, hq, List.length_cons] at h
          simp only [potential, attach_cache, List.length_append, List.length_cons, List.length_nil]
          rw [hA] at h
          generalize (L.maxVars + 1 - (s.cache.length + 1)) * (H.maxKids + 1) = A at h ⊢
          omega

/-- **every search ends**: after `fuelBound` iterations the state is final -/
theorem runToEnd_final (H : Heap) (L : Limits) (s : BState) : (runToEnd H L s).final = true := by
  unfold runToEnd
  apply run_potential_final
  unfold potential fuelBound
  omega

end Collector
