/-
  Proofs/Guard — soundness of the static analyses of Model/Guard w.r.t. `exec`, for every `Env`
  (= every fault placement, loop length, branch decision and named-clause match).
-/
import DeepModel.Model.Guard

namespace Guard
open Py (Exn)

theorem union_mem (e : Exn) (a b : RaiseSet) : (a.union b).mem e = (a.mem e || b.mem e) := by
  cases e <;> simp [RaiseSet.union, RaiseSet.mem]

theorem single_mem (e e' : Exn) : (RaiseSet.single e).mem e' = true ↔ e' = e := by
  cases e <;> cases e' <;> simp [RaiseSet.single, RaiseSet.mem]

theorem empty_mem (e : Exn) : RaiseSet.empty.mem e = false := by
  cases e <;> rfl

theorem all_mem (e : Exn) : RaiseSet.all.mem e = true := by
  cases e <;> rfl

theorem faultsIn_all (env : Env) : FaultsIn RaiseSet.all env := by
  intro _ _ e _; exact all_mem e

/-! ### loops: what one iteration cannot do, the loop cannot do -/

theorem loopN_raised {step : Trace → Out × Trace} {id : String} (Q : Exn → Prop)
    (hs : ∀ tr e tr', step tr = (.raised e, tr') → Q e) :
    ∀ n i tr e tr', loopN step id n i tr = (.raised e, tr') → Q e := by
  intro n
  induction n with
  | zero => intro i tr e tr' h; simp [loopN] at h
  | succ n ih =>
    intro i tr e tr' h
    simp only [loopN] at h
    generalize hb : step (Ev.iter id i :: tr) = rb at h
    obtain ⟨ob, tb⟩ := rb
    cases ob with
    | normal => exact ih _ _ _ _ h
    | continued => exact ih _ _ _ _ h
    | broke => simp at h
    | returned v => simp at h
    | raised e' =>
      simp only [Prod.mk.injEq, Out.raised.injEq] at h
      obtain ⟨rfl, rfl⟩ := h
      exact hs _ _ _ hb

theorem loopN_returned {step : Trace → Out × Trace} {id : String} (Q : String → Prop)
    (hs : ∀ tr v tr', step tr = (.returned v, tr') → Q v) :
    ∀ n i tr v tr', loopN step id n i tr = (.returned v, tr') → Q v := by
  intro n
  induction n with
  | zero => intro i tr v tr' h; simp [loopN] at h
  | succ n ih =>
    intro i tr v tr' h
    simp only [loopN] at h
    generalize hb : step (Ev.iter id i :: tr) = rb at h
    obtain ⟨ob, tb⟩ := rb
    cases ob with
    | normal => exact ih _ _ _ _ h
    | continued => exact ih _ _ _ _ h
    | broke => simp at h
    | raised e => simp at h
    | returned v' =>
      simp only [Prod.mk.injEq, Out.returned.injEq] at h
      obtain ⟨rfl, rfl⟩ := h
      exact hs _ _ _ hb

theorem loopN_not_broke {step : Trace → Out × Trace} {id : String} :
    ∀ n i tr tr', loopN step id n i tr ≠ (.broke, tr') := by
  intro n
  induction n with
  | zero => intro i tr tr' h; simp [loopN] at h
  | succ n ih =>
    intro i tr tr' h
    simp only [loopN] at h
    generalize hb : step (Ev.iter id i :: tr) = rb at h
    obtain ⟨ob, tb⟩ := rb
    cases ob with
    | normal => exact ih _ _ _ h
    | continued => exact ih _ _ _ h
    | broke => simp at h
    | raised e => simp at h
    | returned v' => simp at h

theorem loopN_not_continued {step : Trace → Out × Trace} {id : String} :
    ∀ n i tr tr', loopN step id n i tr ≠ (.continued, tr') := by
  intro n
  induction n with
  | zero => intro i tr tr' h; simp [loopN] at h
  | succ n ih =>
    intro i tr tr' h
    simp only [loopN] at h
    generalize hb : step (Ev.iter id i :: tr) = rb at h
    obtain ⟨ob, tb⟩ := rb
    cases ob with
    | normal => exact ih _ _ _ h
    | continued => exact ih _ _ _ h
    | broke => simp at h
    | raised e => simp at h
    | returned v' => simp at h

/-- an invariant of the trace that every iteration keeps (and that holds when an `iter` event is added)
    is kept by the loop -/
theorem loopN_inv {step : Trace → Out × Trace} {id : String} (I : Trace → Prop)
    (hiter : ∀ tr i, I tr → I (Ev.iter id i :: tr))
    (hs : ∀ tr o tr', I tr → step tr = (o, tr') → I tr') :
    ∀ n i tr o tr', I tr → loopN step id n i tr = (o, tr') → I tr' := by
  intro n
  induction n with
  | zero => intro i tr o tr' hi h; simp only [loopN, Prod.mk.injEq] at h; exact h.2 ▸ hi
  | succ n ih =>
    intro i tr o tr' hi h
    simp only [loopN] at h
    generalize hb : step (Ev.iter id i :: tr) = rb at h
    obtain ⟨ob, tb⟩ := rb
    have hib : I tb := hs _ _ _ (hiter _ _ hi) hb
    cases ob with
    | normal => exact ih _ _ _ _ hib h
    | continued => exact ih _ _ _ _ hib h
    | broke => simp only [Prod.mk.injEq] at h; exact h.2 ▸ hib
    | raised e => simp only [Prod.mk.injEq] at h; exact h.2 ▸ hib
    | returned v' => simp only [Prod.mk.injEq] at h; exact h.2 ▸ hib

/-! ### raise-set soundness -/

theorem uncaught_mem (c : Catch) (e : Exn) (env : Env) (tr : Trace) (hid : String)
    (hc : (c.catches e).getD (env.catches tr hid) = false) : (uncaught c e true).mem e = true := by
  unfold uncaught
  cases hcc : c.catches e with
  | none => simp [(single_mem e e).mpr rfl]
  | some b =>
    cases b with
    | true => simp [hcc] at hc
    | false => simp [(single_mem e e).mpr rfl]

theorem exec_sound (allowed : RaiseSet) (env : Env) (hf : FaultsIn allowed env) (s : Stmt) :
    ∀ tr e tr', exec env s tr = (.raised e, tr') → (mayRaiseA allowed s).mem e = true := by
  induction s with
  | call site =>
    intro tr e tr' h
    simp only [exec] at h
    cases hfa : env.fault tr site with
    | none => simp [hfa] at h
    | some e' =>
      simp only [hfa, Prod.mk.injEq, Out.raised.injEq] at h
      rw [← h.1]
      exact hf _ _ _ hfa
  | pure => intro tr e tr' h; simp [exec] at h
  | assign f v => intro tr e tr' h; simp [exec] at h
  | seq a b iha ihb =>
    intro tr e tr' h
    simp only [exec] at h
    rw [mayRaiseA, union_mem]
    generalize ha : exec env a tr = ra at h
    obtain ⟨oa, ta⟩ := ra
    cases oa with
    | normal => simp only at h; simp [ihb _ _ _ h]
    | raised e' =>
      simp only [Prod.mk.injEq, Out.raised.injEq] at h
      obtain ⟨rfl, rfl⟩ := h
      simp [iha _ _ _ ha]
    | returned v => simp at h
    | broke => simp at h
    | continued => simp at h
  | branch c a b iha ihb =>
    intro tr e tr' h
    simp only [exec] at h
    rw [mayRaiseA, union_mem]
    split at h
    · simp [iha _ _ _ h]
    · simp [ihb _ _ _ h]
  | loop id b ih =>
    intro tr e tr' h
    simp only [exec] at h
    rw [mayRaiseA]
    exact loopN_raised (fun e => (mayRaiseA allowed b).mem e = true) (fun tr e tr' hh => ih tr e tr' hh) _ _ _ _ _ h
  | tryExcept b c hid hd ihb ihh =>
    intro tr e tr' h
    simp only [exec] at h
    generalize hb : exec env b tr = rb at h
    obtain ⟨ob, tb⟩ := rb
    simp only [mayRaiseA]
    cases ob with
    | normal => simp at h
    | returned v => simp at h
    | broke => simp at h
    | continued => simp at h
    | raised e' =>
      have hbm := ihb _ _ _ hb
      simp only at h
      cases hc : (c.catches e').getD (env.catches tb hid) with
      | true =>
        simp only [hc, if_true] at h
        have hh := ihh _ _ _ h
        rw [union_mem, hh]; simp
      | false =>
        simp only [hc, Bool.false_eq_true, if_false, Prod.mk.injEq, Out.raised.injEq] at h
        obtain ⟨rfl, rfl⟩ := h
        rw [union_mem, union_mem]
        cases e' with
        | exc =>
          simp only [RaiseSet.mem] at hbm
          rw [hbm, uncaught_mem c .exc env tb hid hc]; simp
        | base =>
          simp only [RaiseSet.mem] at hbm
          rw [hbm, uncaught_mem c .base env tb hid hc]; simp
  | tryFinally b f ihb ihf =>
    intro tr e tr' h
    simp only [exec] at h
    rw [mayRaiseA, union_mem]
    generalize hb : exec env b tr = rb at h
    obtain ⟨ob, tb⟩ := rb
    simp only at h
    generalize hfn : exec env f tb = rf at h
    obtain ⟨of, tf⟩ := rf
    cases of with
    | normal =>
      simp only [Prod.mk.injEq] at h
      obtain ⟨rfl, rfl⟩ := h
      simp [ihb _ _ _ hb]
    | raised e' =>
      simp only [Prod.mk.injEq, Out.raised.injEq] at h
      obtain ⟨rfl, rfl⟩ := h
      simp [ihf _ _ _ hfn]
    | returned v => simp at h
    | broke => simp at h
    | continued => simp at h
  | scope n b ih =>
    intro tr e tr' h
    simp only [exec] at h
    rw [mayRaiseA]
    generalize hb : exec env b tr = rb at h
    obtain ⟨ob, tb⟩ := rb
    cases ob with
    | raised e' =>
      simp only [Prod.mk.injEq, Out.raised.injEq] at h
      obtain ⟨rfl, rfl⟩ := h
      exact ih _ _ _ hb
    | normal => simp at h
    | returned v => simp at h
    | broke => simp at h
    | continued => simp at h
  | ret v => intro tr e tr' h; simp [exec] at h
  | raise e0 =>
    intro tr e tr' h
    simp only [exec, Prod.mk.injEq, Out.raised.injEq] at h
    rw [mayRaiseA]
    exact (single_mem e0 e).mpr h.1.symm
  | brk => intro tr e tr' h; simp [exec] at h
  | cont => intro tr e tr' h; simp [exec] at h

/-- **the generic containment theorem**: a guarded skeleton never lets an exception of either class escape,
    whatever fails, however often, wherever. -/
theorem guard_sound (s : Stmt) (hg : AllGuarded s) (env : Env) (tr : Trace) :
    ∀ e tr', exec env s tr ≠ (.raised e, tr') := by
  intro e tr' h
  have := exec_sound RaiseSet.all env (faultsIn_all env) s tr e tr' h
  unfold AllGuarded mayRaise at hg
  rw [hg, empty_mem] at this
  exact Bool.false_ne_true this

/-- the same for one class of faults: if only `allowed` classes are raised by calls and the analysis for
    `allowed` is empty, nothing escapes. -/
theorem guard_sound_for (allowed : RaiseSet) (s : Stmt) (hg : mayRaiseA allowed s = RaiseSet.empty)
    (env : Env) (hf : FaultsIn allowed env) (tr : Trace) :
    ∀ e tr', exec env s tr ≠ (.raised e, tr') := by
  intro e tr' h
  have := exec_sound allowed env hf s tr e tr' h
  rw [hg, empty_mem] at this
  exact Bool.false_ne_true this

/-! ### return values -/

theorem mayRet_sound (fx : Fixed) (env : Env) (ha : Agrees fx env) (s : Stmt) :
    ∀ tr v tr', exec env s tr = (.returned v, tr') → v ∈ mayRet fx s := by
  induction s with
  | call site =>
    intro tr v tr' h
    simp only [exec] at h
    split at h <;> simp at h
  | pure => intro tr v tr' h; simp [exec] at h
  | assign f v => intro tr v tr' h; simp [exec] at h
  | seq a b iha ihb =>
    intro tr v tr' h
    simp only [exec] at h
    simp only [mayRet, List.mem_append]
    generalize hx : exec env a tr = ra at h
    obtain ⟨oa, ta⟩ := ra
    cases oa with
    | normal => exact Or.inr (ihb _ _ _ h)
    | returned v' =>
      simp only [Prod.mk.injEq, Out.returned.injEq] at h
      obtain ⟨rfl, rfl⟩ := h
      exact Or.inl (iha _ _ _ hx)
    | raised e => simp at h
    | broke => simp at h
    | continued => simp at h
  | branch c a b iha ihb =>
    intro tr v tr' h
    simp only [exec] at h
    simp only [mayRet]
    cases hfx : fx.get c with
    | none =>
      simp only [List.mem_append]
      split at h
      · exact Or.inl (iha _ _ _ h)
      · exact Or.inr (ihb _ _ _ h)
    | some t =>
      have := ha c t hfx tr
      cases t with
      | true => simp only [this, if_true] at h; exact iha _ _ _ h
      | false => simp only [this, Bool.false_eq_true, if_false] at h; exact ihb _ _ _ h
  | loop id b ih =>
    intro tr v tr' h
    simp only [exec] at h
    simp only [mayRet]
    exact loopN_returned (fun v => v ∈ mayRet fx b) (fun tr v tr' hh => ih tr v tr' hh) _ _ _ _ _ h
  | tryExcept b c hid hd ihb ihh =>
    intro tr v tr' h
    simp only [exec] at h
    simp only [mayRet, List.mem_append]
    generalize hx : exec env b tr = rb at h
    obtain ⟨ob, tb⟩ := rb
    cases ob with
    | returned v' =>
      simp only [Prod.mk.injEq, Out.returned.injEq] at h
      obtain ⟨rfl, rfl⟩ := h
      exact Or.inl (ihb _ _ _ hx)
    | raised e =>
      simp only at h
      split at h
      · exact Or.inr (ihh _ _ _ h)
      · simp at h
    | normal => simp at h
    | broke => simp at h
    | continued => simp at h
  | tryFinally b f ihb ihf =>
    intro tr v tr' h
    simp only [exec] at h
    simp only [mayRet, List.mem_append]
    generalize hx : exec env b tr = rb at h
    obtain ⟨ob, tb⟩ := rb
    simp only at h
    generalize hfn : exec env f tb = rf at h
    obtain ⟨of, tf⟩ := rf
    cases of with
    | normal =>
      simp only [Prod.mk.injEq] at h
      obtain ⟨rfl, rfl⟩ := h
      exact Or.inl (ihb _ _ _ hx)
    | returned v' =>
      simp only [Prod.mk.injEq, Out.returned.injEq] at h
      obtain ⟨rfl, rfl⟩ := h
      exact Or.inr (ihf _ _ _ hfn)
    | raised e => simp at h
    | broke => simp at h
    | continued => simp at h
  | scope n b ih =>
    intro tr v tr' h
    simp only [exec] at h
    generalize hx : exec env b tr = rb at h
    obtain ⟨ob, tb⟩ := rb
    cases ob <;> simp at h
  | ret v0 =>
    intro tr v tr' h
    simp only [exec, Prod.mk.injEq, Out.returned.injEq] at h
    simp [mayRet, h.1]
  | raise e0 => intro tr v tr' h; simp [exec] at h
  | brk => intro tr v tr' h; simp [exec] at h
  | cont => intro tr v tr' h; simp [exec] at h

theorem agrees_nil (env : Env) : Agrees [] env := by
  intro c b h; simp [Fixed.get] at h

/-! ### break -/

theorem mayBreak_sound (env : Env) (s : Stmt) :
    ∀ tr tr', exec env s tr = (.broke, tr') → mayBreak s = true := by
  induction s with
  | call site =>
    intro tr tr' h
    simp only [exec] at h
    split at h <;> simp at h
  | pure => intro tr tr' h; simp [exec] at h
  | assign f v => intro tr tr' h; simp [exec] at h
  | seq a b iha ihb =>
    intro tr tr' h
    simp only [exec] at h
    simp only [mayBreak, Bool.or_eq_true]
    generalize hx : exec env a tr = ra at h
    obtain ⟨oa, ta⟩ := ra
    cases oa with
    | normal => exact Or.inr (ihb _ _ h)
    | broke =>
      simp only [Prod.mk.injEq] at h
      exact Or.inl (iha _ _ hx)
    | raised e => simp at h
    | returned v => simp at h
    | continued => simp at h
  | branch c a b iha ihb =>
    intro tr tr' h
    simp only [exec] at h
    simp only [mayBreak, Bool.or_eq_true]
    split at h
    · exact Or.inl (iha _ _ h)
    · exact Or.inr (ihb _ _ h)
  | loop id b ih =>
    intro tr tr' h
    simp only [exec] at h
    exact absurd h (loopN_not_broke _ _ _ _)
  | tryExcept b c hid hd ihb ihh =>
    intro tr tr' h
    simp only [exec] at h
    simp only [mayBreak, Bool.or_eq_true]
    generalize hx : exec env b tr = rb at h
    obtain ⟨ob, tb⟩ := rb
    cases ob with
    | broke => exact Or.inl (ihb _ _ hx)
    | raised e =>
      simp only at h
      split at h
      · exact Or.inr (ihh _ _ h)
      · simp at h
    | normal => simp at h
    | returned v => simp at h
    | continued => simp at h
  | tryFinally b f ihb ihf =>
    intro tr tr' h
    simp only [exec] at h
    simp only [mayBreak, Bool.or_eq_true]
    generalize hx : exec env b tr = rb at h
    obtain ⟨ob, tb⟩ := rb
    simp only at h
    generalize hfn : exec env f tb = rf at h
    obtain ⟨of, tf⟩ := rf
    cases of with
    | normal =>
      simp only [Prod.mk.injEq] at h
      obtain ⟨rfl, rfl⟩ := h
      exact Or.inl (ihb _ _ hx)
    | broke => exact Or.inr (ihf _ _ hfn)
    | raised e => simp at h
    | returned v => simp at h
    | continued => simp at h
  | scope n b ih =>
    intro tr tr' h
    simp only [exec] at h
    simp only [mayBreak]
    generalize hx : exec env b tr = rb at h
    obtain ⟨ob, tb⟩ := rb
    cases ob with
    | broke => exact ih _ _ hx
    | normal => simp at h
    | returned v => simp at h
    | raised e => simp at h
    | continued => simp at h
  | ret v0 => intro tr tr' h; simp [exec] at h
  | raise e0 => intro tr tr' h; simp [exec] at h
  | brk => intro tr tr' h; rfl
  | cont => intro tr tr' h; simp [exec] at h

/-! ### the trace only grows; stores -/

/-- any property of traces that is kept by adding an event is kept by execution -/
theorem exec_inv (env : Env) (I : Trace → Prop) (hadd : ∀ ev tr, I tr → I (ev :: tr)) (s : Stmt) :
    ∀ tr o tr', I tr → exec env s tr = (o, tr') → I tr' := by
  induction s with
  | call site =>
    intro tr o tr' hi h
    simp only [exec] at h
    split at h <;> (simp only [Prod.mk.injEq] at h; exact h.2 ▸ hadd _ _ hi)
  | pure => intro tr o tr' hi h; simp only [exec, Prod.mk.injEq] at h; exact h.2 ▸ hi
  | assign f v => intro tr o tr' hi h; simp only [exec, Prod.mk.injEq] at h; exact h.2 ▸ hadd _ _ hi
  | seq a b iha ihb =>
    intro tr o tr' hi h
    simp only [exec] at h
    generalize hx : exec env a tr = ra at h
    obtain ⟨oa, ta⟩ := ra
    have hia := iha _ _ _ hi hx
    cases oa with
    | normal => exact ihb _ _ _ hia h
    | returned v => simp only [Prod.mk.injEq] at h; exact h.2 ▸ hia
    | raised e => simp only [Prod.mk.injEq] at h; exact h.2 ▸ hia
    | broke => simp only [Prod.mk.injEq] at h; exact h.2 ▸ hia
    | continued => simp only [Prod.mk.injEq] at h; exact h.2 ▸ hia
  | branch c a b iha ihb =>
    intro tr o tr' hi h
    simp only [exec] at h
    split at h
    · exact iha _ _ _ (hadd _ _ hi) h
    · exact ihb _ _ _ (hadd _ _ hi) h
  | loop id b ih =>
    intro tr o tr' hi h
    simp only [exec] at h
    exact loopN_inv I (fun tr i h => hadd _ _ h) (fun tr o tr' hi hh => ih tr o tr' hi hh) _ _ _ _ _ hi h
  | tryExcept b c hid hd ihb ihh =>
    intro tr o tr' hi h
    simp only [exec] at h
    generalize hx : exec env b tr = rb at h
    obtain ⟨ob, tb⟩ := rb
    have hib := ihb _ _ _ hi hx
    cases ob with
    | raised e =>
      simp only at h
      split at h
      · exact ihh _ _ _ (hadd _ _ hib) h
      · simp only [Prod.mk.injEq] at h; exact h.2 ▸ hib
    | normal => simp only [Prod.mk.injEq] at h; exact h.2 ▸ hib
    | returned v => simp only [Prod.mk.injEq] at h; exact h.2 ▸ hib
    | broke => simp only [Prod.mk.injEq] at h; exact h.2 ▸ hib
    | continued => simp only [Prod.mk.injEq] at h; exact h.2 ▸ hib
  | tryFinally b f ihb ihf =>
    intro tr o tr' hi h
    simp only [exec] at h
    generalize hx : exec env b tr = rb at h
    obtain ⟨ob, tb⟩ := rb
    simp only at h
    generalize hfn : exec env f tb = rf at h
    obtain ⟨of, tf⟩ := rf
    have hif := ihf _ _ _ (ihb _ _ _ hi hx) hfn
    cases of <;> (simp only [Prod.mk.injEq] at h; exact h.2 ▸ hif)
  | scope n b ih =>
    intro tr o tr' hi h
    simp only [exec] at h
    generalize hx : exec env b tr = rb at h
    obtain ⟨ob, tb⟩ := rb
    have hib := ih _ _ _ hi hx
    cases ob <;> (simp only [Prod.mk.injEq] at h; exact h.2 ▸ hib)
  | ret v0 => intro tr o tr' hi h; simp only [exec, Prod.mk.injEq] at h; exact h.2 ▸ hi
  | raise e0 => intro tr o tr' hi h; simp only [exec, Prod.mk.injEq] at h; exact h.2 ▸ hi
  | brk => intro tr o tr' hi h; simp only [exec, Prod.mk.injEq] at h; exact h.2 ▸ hi
  | cont => intro tr o tr' hi h; simp only [exec, Prod.mk.injEq] at h; exact h.2 ▸ hi

/-- events are never removed -/
theorem exec_mono (env : Env) (s : Stmt) (ev : Ev) (tr : Trace) (o : Out) (tr' : Trace)
    (hm : ev ∈ tr) (h : exec env s tr = (o, tr')) : ev ∈ tr' :=
  exec_inv env (fun t => ev ∈ t) (fun _ _ h => List.mem_cons_of_mem _ h) s tr o tr' hm h

theorem loopN_mono (step : Trace → Out × Trace) (id : String) (ev : Ev)
    (hs : ∀ tr o tr', ev ∈ tr → step tr = (o, tr') → ev ∈ tr') (n i : Nat) (tr : Trace) (o : Out) (tr' : Trace)
    (hm : ev ∈ tr) (h : loopN step id n i tr = (o, tr')) : ev ∈ tr' :=
  loopN_inv (fun t => ev ∈ t) (fun _ _ h => List.mem_cons_of_mem _ h) hs n i tr o tr' hm h

/-- a statement that contains no store `self.f = v` does not add that store to the trace -/
theorem noSet_preserved (env : Env) (f v : String) (s : Stmt) (hn : maySet f v s = false) :
    ∀ tr o tr', exec env s tr = (o, tr') → Ev.set f v ∈ tr' → Ev.set f v ∈ tr := by
  induction s with
  | call site =>
    intro tr o tr' h hm
    simp only [exec] at h
    split at h <;> (simp only [Prod.mk.injEq] at h; rw [← h.2] at hm; simpa using hm)
  | pure => intro tr o tr' h hm; simp only [exec, Prod.mk.injEq] at h; exact h.2 ▸ hm
  | assign f' v' =>
    intro tr o tr' h hm
    simp only [exec, Prod.mk.injEq] at h
    rw [← h.2] at hm
    simp only [maySet, Bool.and_eq_false_iff, beq_eq_false_iff_ne, ne_eq] at hn
    simp only [List.mem_cons, Ev.set.injEq] at hm
    rcases hm with ⟨h1, h2⟩ | hm
    · rcases hn with hn | hn
      · exact absurd h1.symm hn
      · exact absurd h2.symm hn
    · exact hm
  | seq a b iha ihb =>
    intro tr o tr' h hm
    simp only [maySet, Bool.or_eq_false_iff] at hn
    simp only [exec] at h
    generalize hx : exec env a tr = ra at h
    obtain ⟨oa, ta⟩ := ra
    cases oa with
    | normal => exact iha hn.1 _ _ _ hx (ihb hn.2 _ _ _ h hm)
    | returned v => simp only [Prod.mk.injEq] at h; exact iha hn.1 _ _ _ hx (h.2 ▸ hm)
    | raised e => simp only [Prod.mk.injEq] at h; exact iha hn.1 _ _ _ hx (h.2 ▸ hm)
    | broke => simp only [Prod.mk.injEq] at h; exact iha hn.1 _ _ _ hx (h.2 ▸ hm)
    | continued => simp only [Prod.mk.injEq] at h; exact iha hn.1 _ _ _ hx (h.2 ▸ hm)
  | branch c a b iha ihb =>
    intro tr o tr' h hm
    simp only [maySet, Bool.or_eq_false_iff] at hn
    simp only [exec] at h
    split at h
    · simpa using iha hn.1 _ _ _ h hm
    · simpa using ihb hn.2 _ _ _ h hm
  | loop id b ih =>
    intro tr o tr' h hm
    simp only [maySet] at hn
    simp only [exec] at h
    -- invariant: "if the store is in the current trace it was in the initial one"
    exact loopN_inv (fun t => Ev.set f v ∈ t → Ev.set f v ∈ tr)
      (fun t i hi hmm => hi (by simpa using hmm))
      (fun t o t' hi hh hmm => hi (ih hn _ _ _ hh hmm)) _ _ _ _ _ (fun x => x) h hm
  | tryExcept b c hid hd ihb ihh =>
    intro tr o tr' h hm
    simp only [maySet, Bool.or_eq_false_iff] at hn
    simp only [exec] at h
    generalize hx : exec env b tr = rb at h
    obtain ⟨ob, tb⟩ := rb
    cases ob with
    | raised e =>
      simp only at h
      split at h
      · have := ihh hn.2 _ _ _ h hm
        exact ihb hn.1 _ _ _ hx (by simpa using this)
      · simp only [Prod.mk.injEq] at h; exact ihb hn.1 _ _ _ hx (h.2 ▸ hm)
    | normal => simp only [Prod.mk.injEq] at h; exact ihb hn.1 _ _ _ hx (h.2 ▸ hm)
    | returned v => simp only [Prod.mk.injEq] at h; exact ihb hn.1 _ _ _ hx (h.2 ▸ hm)
    | broke => simp only [Prod.mk.injEq] at h; exact ihb hn.1 _ _ _ hx (h.2 ▸ hm)
    | continued => simp only [Prod.mk.injEq] at h; exact ihb hn.1 _ _ _ hx (h.2 ▸ hm)
  | tryFinally b fin ihb ihf =>
    intro tr o tr' h hm
    simp only [maySet, Bool.or_eq_false_iff] at hn
    simp only [exec] at h
    generalize hx : exec env b tr = rb at h
    obtain ⟨ob, tb⟩ := rb
    simp only at h
    generalize hfn : exec env fin tb = rf at h
    obtain ⟨of, tf⟩ := rf
    have key : Ev.set f v ∈ tf → Ev.set f v ∈ tr := fun hh => ihb hn.1 _ _ _ hx (ihf hn.2 _ _ _ hfn hh)
    cases of <;> (simp only [Prod.mk.injEq] at h; exact key (h.2 ▸ hm))
  | scope n b ih =>
    intro tr o tr' h hm
    simp only [maySet] at hn
    simp only [exec] at h
    generalize hx : exec env b tr = rb at h
    obtain ⟨ob, tb⟩ := rb
    cases ob <;> (simp only [Prod.mk.injEq] at h; exact ih hn _ _ _ hx (h.2 ▸ hm))
  | ret v0 => intro tr o tr' h hm; simp only [exec, Prod.mk.injEq] at h; exact h.2 ▸ hm
  | raise e0 => intro tr o tr' h hm; simp only [exec, Prod.mk.injEq] at h; exact h.2 ▸ hm
  | brk => intro tr o tr' h hm; simp only [exec, Prod.mk.injEq] at h; exact h.2 ▸ hm
  | cont => intro tr o tr' h hm; simp only [exec, Prod.mk.injEq] at h; exact h.2 ▸ hm

end Guard
