/-
  Proofs/WireSent — what `convert_snapshot` produces is a message the wire codec round-trips: the converted
  snapshot satisfies `wireOk` (every watch holds one member of its oneof, every double is a 64-bit pattern).
-/
import DeepModel.Proofs.Wire
import DeepModel.Proofs.WireCodec

set_option linter.unusedSimpArgs false
set_option linter.unusedVariables false

namespace Wire
open Extracted.Wire

mutual
  theorem bitsOk_convert : ∀ v : PyVal, v.floatsOk = true → (convert_value v).bitsOk = true
    | .none, _ => by simp [convert_value, PAnyValue.bitsOk]
    | .bool _, _ => by simp [convert_value, PAnyValue.bitsOk]
    | .str _, _ => by simp [convert_value, PAnyValue.bitsOk]
    | .int _, _ => by simp [convert_value, PAnyValue.bitsOk]
    | .float b, h => by simpa [convert_value, PAnyValue.bitsOk, PyVal.floatsOk] using h
    | .bytes _, _ => by simp [convert_value, PAnyValue.bitsOk]
    | .dict kvs, h => by
      simp only [convert_value, PAnyValue.bitsOk]
      exact bitsOk_dict kvs (by simpa [PyVal.floatsOk] using h)
    | .list vs, h => by
      simp only [convert_value, PAnyValue.bitsOk]
      exact bitsOk_list vs (by simpa [PyVal.floatsOk] using h)
    | .tuple vs, h => by
      simp only [convert_value, PAnyValue.bitsOk]
      exact bitsOk_list vs (by simpa [PyVal.floatsOk] using h)
    | .other _, _ => by simp [convert_value, PAnyValue.bitsOk]
  theorem bitsOk_list : ∀ vs : PyVals, vs.floatsOk = true → (value_as_list vs).bitsOk = true
    | .nil, _ => by simp [value_as_list, PAnyList.bitsOk]
    | .cons v r, h => by
      simp only [PyVals.floatsOk, Bool.and_eq_true] at h
      have h1 := bitsOk_convert v h.1
      have h2 := bitsOk_list r h.2
      cases v <;> simp_all [value_as_list, PAnyList.bitsOk, PAnyValue.bitsOk]
  theorem bitsOk_dict : ∀ kvs : PyKVs, kvs.floatsOk = true → (value_as_dict kvs).bitsOk = true
    | .nil, _ => by simp [value_as_dict, PKVList.bitsOk]
    | .cons k v r, h => by
      simp only [PyKVs.floatsOk, Bool.and_eq_true] at h
      have h1 := bitsOk_convert v h.1
      have h2 := bitsOk_dict r h.2
      simp [value_as_dict, PKVList.bitsOk, h1, h2]
end

theorem wireOk_attrs (a : List (Text × PyVal)) (h : attrsAll PyVal.floatsOk a = true) :
    (List.map (fun (k, v) => ({ key := k, value := (convert_value v) } : PKeyValue)) a).all PKeyValue.wireOk = true := by
  simp only [attrsAll, List.all_eq_true] at h
  simp only [List.all_map, List.all_eq_true]
  intro kv hkv
  exact bitsOk_convert kv.2 (h kv hkv)

/-- the converted snapshot is a message the codec round-trips -/
theorem wireOk_snapshot {s : EventSnapshot} (hc : s.collectable = true) (hf : s.floatsOk = true) :
    (convertSnapshotRaw s).wireOk = true := by
  obtain ⟨id, tp, vl, ts, fr, wa, at_, du, re, lg⟩ := s
  simp only [EventSnapshot.collectable, Bool.and_eq_true, decide_eq_true_eq] at hc
  obtain ⟨⟨⟨_, hw⟩, _⟩, _⟩ := hc
  simp only [EventSnapshot.floatsOk, Bool.and_eq_true] at hf
  simp only [convertSnapshotRaw, PSnapshot.wireOk, Bool.and_eq_true]
  refine ⟨⟨⟨?_, ?_⟩, wireOk_attrs at_ hf.1⟩, wireOk_attrs re hf.2⟩
  · simp [convertTracepoint, PTracePointConfig.wireOk]
  · simp only [List.all_map, List.all_eq_true] at hw ⊢
    intro w hwm
    have := hw w hwm
    simp only [WatchResult.wellFormed, Bool.and_eq_true] at this
    obtain ⟨e, r, er, src⟩ := w
    cases r <;> cases er <;> simp_all [convertWatch, PWatchResult.wireOk]

end Wire
