/- Proofs/HandlerTL — the handler over the translated `ThreadLocal` methods is `Callbacks.stepWith` / `Trigger.runG`. -/
import DeepModel.Proofs.Trigger
import DeepModel.Proofs.ThreadLocal
import DeepModel.Model.HandlerTL
set_option linter.unusedSimpArgs false

namespace HandlerTL
open Callbacks Extracted.Locations TLocal Extracted.ThreadLocal

theorem pcb_nil (f : Ctx → Bool) : processCallBacks f [] = some (none, []) := rfl

theorem stepTL_refines (ncfg : Int) (acts : Event → List Action) (calls : Nat) (slot : Option (List Ctx)) (ev : Event) :
    (stepTL ncfg acts calls (embSlot slot) ev).1.1 = embSlot (stepWith ncfg acts slot ev).1 ∧
    (stepTL ncfg acts calls (embSlot slot) ev).2 = (stepWith ncfg acts slot ev).2 := by
  unfold stepTL stepWith
  simp only [locationFromEvent_eq]
  rcases slot with _ | l
  · by_cases h1 : noTracepoints ncfg = true <;> by_cases h2 : noActions ((acts ev).length : Int) = true <;>
      simp [embSlot, opStep, isSet_spec, get_spec, dq, callbackEvent_eq, h1, h2] <;>
      (split <;> simp)
  · by_cases hk : isCbKind ev.kind = true
    · rcases l with _ | ⟨c, rest⟩
      · by_cases h1 : noTracepoints ncfg = true <;> by_cases h2 : noActions ((acts ev).length : Int) = true <;>
          simp [embSlot, opStep, isSet_spec, valueGet_spec, get_spec, clear_spec, dq, callbackEvent_eq, pcb_nil, hk, h1, h2] <;>
          (split <;> simp)
      · by_cases ha : cbAtLocation c.event c.file c.func ev.kind (fileOf ev.path) ev.line ev.func = true
        · rcases rest with _ | ⟨c2, rest2⟩ <;>
          by_cases h1 : noTracepoints ncfg = true <;> by_cases h2 : noActions ((acts ev).length : Int) = true <;>
            simp [embSlot, opStep, isSet_spec, valueGet_spec, get_spec, clear_spec, dq, callbackEvent_eq,
              processCallBacks_cons, norm, hk, ha, h1, h2] <;>
            (split <;> simp)
        · by_cases h1 : noTracepoints ncfg = true <;> by_cases h2 : noActions ((acts ev).length : Int) = true <;>
            simp [embSlot, opStep, isSet_spec, valueGet_spec, get_spec, clear_spec, dq, callbackEvent_eq,
              processCallBacks_cons, norm, hk, ha, h1, h2] <;>
            (split <;> simp)
    · by_cases h1 : noTracepoints ncfg = true <;> by_cases h2 : noActions ((acts ev).length : Int) = true <;>
        simp [embSlot, opStep, isSet_spec, get_spec, dq, callbackEvent_eq, hk, h1, h2] <;>
        (split <;> simp)

theorem runGTL_refines (cfg : List Trigger.Trig) (gs : List (Thr × Event)) (S : Trigger.Store)
    (ST : St Thr (List Ctx)) (h : ∀ t, ST.store t = embSlot (S t)) :
    (runGTL cfg ST gs).2 = (Trigger.runG cfg S gs).2 ∧
    ∀ t, (runGTL cfg ST gs).1.store t = embSlot ((Trigger.runG cfg S gs).1 t) := by
  induction gs generalizing S ST with
  | nil => exact ⟨rfl, h⟩
  | cons te rest ih =>
    obtain ⟨u, ev⟩ := te
    have hr := stepTL_refines (cfg.length : Int) (Trigger.actionsFor cfg) ST.calls (S u) ev
    rw [← h u] at hr
    have hstore : ∀ t, (stepGTL cfg ST (u, ev)).1.store t = embSlot ((Trigger.stepG cfg S (u, ev)).1 t) := by
      intro t
      by_cases ht : t = u
      · subst ht
        simp only [stepGTL, Trigger.stepG, Trigger.traceCall, if_true]
        exact hr.1
      · simp only [stepGTL, Trigger.stepG, ht, if_false]
        exact h t
    have heff : (stepGTL cfg ST (u, ev)).2 = (Trigger.stepG cfg S (u, ev)).2 := by
      simp only [stepGTL, Trigger.stepG, Trigger.traceCall]
      rw [hr.2]
    obtain ⟨i1, i2⟩ := ih (Trigger.stepG cfg S (u, ev)).1 (stepGTL cfg ST (u, ev)).1 hstore
    simp only [runGTL, Trigger.runG]
    exact ⟨by rw [heff, i1], i2⟩

end HandlerTL
