/- Proofs/ThreadLocal — lemmas about the translated `ThreadLocal` methods and the machine of all threads (C15). -/
import DeepModel.Model.ThreadLocal

namespace TLocal
open Extracted.ThreadLocal

variable {α : Type}

/-! ### the translated methods against a one-cell specification -/

theorem get_spec (dp : Nat → Option (Option α)) (c : Nat) (s : Slot α) :
    tlGet dp c s = (match s with
      | some (some v) => (s, c, some (some v))
      | _ => match dp c with
        | some d => (some d, c + 1, some d)
        | none => (s, c + 1, none)) := by
  cases s with
  | none => cases h : dp c <;> simp [tlGet, h]
  | some w => cases w with
    | none => cases h : dp c <;> simp [tlGet, h]
    | some x => simp [tlGet]

theorem set_spec (dp : Nat → Option (Option α)) (v : Option α) (c : Nat) (s : Slot α) :
    tlSet dp v c s = (some v, c, some ()) := by
  simp [tlSet]

theorem clear_spec (dp : Nat → Option (Option α)) (c : Nat) (s : Slot α) :
    tlClear dp c s = (none, c, some ()) := by
  cases s <;> simp [tlClear]

theorem isSet_spec (dp : Nat → Option (Option α)) (c : Nat) (s : Slot α) :
    tlIsSet dp c s = (s, c, some s.isSome) := by
  simp [tlIsSet]

theorem valueGet_spec (dp : Nat → Option (Option α)) (c : Nat) (s : Slot α) : tlValueGet dp c s = tlGet dp c s := by
  simp [tlValueGet]

theorem valueSet_spec (dp : Nat → Option (Option α)) (v : Option α) (c : Nat) (s : Slot α) :
    tlValueSet dp v c s = (some v, c, some ()) := by
  simp [tlValueSet, tlSet]

/-- `get` hands out the object it leaves in the store -/
theorem get_returns_stored (dp : Nat → Option (Option α)) (c c' : Nat) (s s' : Slot α) (v : Option α)
    (h : tlGet dp c s = (s', c', some v)) : s' = some v := by
  rw [get_spec] at h
  cases s with
  | none => cases hd : dp c <;> simp [hd] at h; rw [← h.1, h.2.2]
  | some w =>
    cases w with
    | none => cases hd : dp c <;> simp [hd] at h; rw [← h.1, h.2.2]
    | some x => simp at h; rw [← h.1, ← h.2.2]

/-! ### `opStep` in closed form -/

variable [DecidableEq α]

theorem opStep_get (dp : Nat → Option (Option α)) (c : Nat) (s : Slot α) :
    opStep dp c s .get = (match s with
      | some (some v) => (s, c, Res.val (some v))
      | _ => match dp c with
        | some d => (some d, c + 1, Res.val d)
        | none => (s, c + 1, Res.raised)) := by
  simp only [opStep, get_spec]
  cases s with
  | none => cases h : dp c <;> rfl
  | some w => cases w with
    | none => cases h : dp c <;> rfl
    | some x => rfl

theorem opStep_update (dp : Nat → Option (Option α)) (c : Nat) (s : Slot α) (f : α → α) :
    opStep dp c s (.update f) = (match s with
      | some (some v) => (some (some (f v)), c, Res.unit)
      | _ => match dp c with
        | some (some d) => (some (some (f d)), c + 1, Res.unit)
        | some none => (some none, c + 1, Res.raised)
        | none => (s, c + 1, Res.raised)) := by
  simp only [opStep, get_spec]
  cases s with
  | none => rcases h : dp c with _ | _ | d <;> simp
  | some w =>
    cases w with
    | none => rcases h : dp c with _ | _ | d <;> simp
    | some x => simp

/-- with a provider that always returns the same value, the slot and the result of an operation do not depend on the
    provider's call counter -/
theorem opStep_const (d : Option α) (c c' : Nat) (s : Slot α) (op : Op α) :
    (opStep (fun _ => some d) c s op).1 = (opStep (fun _ => some d) c' s op).1 ∧
    (opStep (fun _ => some d) c s op).2.2 = (opStep (fun _ => some d) c' s op).2.2 := by
  cases op with
  | get => rw [opStep_get, opStep_get]; cases s with
    | none => exact ⟨rfl, rfl⟩
    | some w => cases w <;> exact ⟨rfl, rfl⟩
  | set v => simp [opStep, set_spec]
  | clear => simp [opStep, clear_spec]
  | isSet => simp [opStep, isSet_spec]
  | valueGet =>
    simp only [opStep, valueGet_spec, get_spec]
    cases s with
    | none => exact ⟨rfl, rfl⟩
    | some w => cases w <;> exact ⟨rfl, rfl⟩
  | valueSet v => simp [opStep, valueSet_spec]
  | update f =>
    rw [opStep_update, opStep_update]
    cases s with
    | none => cases d <;> exact ⟨rfl, rfl⟩
    | some w => cases w with
      | none => cases d <;> exact ⟨rfl, rfl⟩
      | some x => exact ⟨rfl, rfl⟩

theorem solo_const (d : Option α) (c c' : Nat) (s : Slot α) (ops : List (Op α)) :
    solo (fun _ => some d) c s ops = solo (fun _ => some d) c' s ops := by
  induction ops generalizing c c' s with
  | nil => rfl
  | cons op ops ih =>
    obtain ⟨h1, h2⟩ := opStep_const d c c' s op
    simp only [solo]
    rw [h1, h2, ih (opStep (fun _ => some d) c s op).2.1 (opStep (fun _ => some d) c' s op).2.1]

/-! ### the machine of all threads -/

variable {κ : Type} [DecidableEq κ]

/-- frame: an operation of thread `u` leaves every slot with another key unchanged -/
theorem stepK_frame (key : Thr → κ) (dp : Nat → Option (Option α)) (S : St κ α) (u : Thr) (op : Op α) (k : κ)
    (h : k ≠ key u) : (stepK key dp S (u, op)).1.store k = S.store k := by
  simp [stepK, h]

theorem stepK_own (key : Thr → κ) (dp : Nat → Option (Option α)) (S : St κ α) (u : Thr) (op : Op α) :
    (stepK key dp S (u, op)).1.store (key u) = (opStep dp S.calls (S.store (key u)) op).1 := by
  simp [stepK]

/-- a key that no acting thread has is never written -/
theorem runK_untouched (key : Thr → κ) (dp : Nat → Option (Option α)) (gs : List (Thr × Op α)) (S : St κ α) (k : κ)
    (h : ∀ te ∈ gs, key te.1 ≠ k) : (runK key dp S gs).1.store k = S.store k := by
  induction gs generalizing S with
  | nil => rfl
  | cons te rest ih =>
    simp only [runK]
    rw [ih _ (fun x hx => h x (List.mem_cons_of_mem _ hx))]
    have := h te (List.mem_cons_self ..)
    exact stepK_frame key dp S te.1 te.2 k (fun e => this e.symm)

/-- every interleaving projects to the solo runs (constant provider) -/
theorem run_proj (d : Option α) (gs : List (Thr × Op α)) (S : St Thr α) (t : Thr) :
    ((runT (fun _ => some d) S gs).1.store t, projRes t (runT (fun _ => some d) S gs).2) =
      solo (fun _ => some d) 0 (S.store t) (projOps t gs) := by
  induction gs generalizing S with
  | nil => rfl
  | cons te rest ih =>
    obtain ⟨u, op⟩ := te
    have ih' := ih (stepK id (fun _ => some d) S (u, op)).1
    simp only [runT] at ih' ⊢
    simp only [runK]
    by_cases h : u = t
    · subst h
      simp only [projRes, projOps, List.filterMap_cons, if_true] at ih' ⊢
      rw [Prod.mk.injEq] at ih' ⊢
      simp only [solo]
      have hs : (stepK id (fun _ => some d) S (u, op)).1.store u = (opStep (fun _ => some d) S.calls (S.store u) op).1 :=
        stepK_own id (fun _ => some d) S u op
      have hr : (stepK id (fun _ => some d) S (u, op)).2 = (opStep (fun _ => some d) S.calls (S.store u) op).2.2 := by
        simp [stepK]
      obtain ⟨k1, k2⟩ := opStep_const d S.calls 0 (S.store u) op
      rw [hs, k1] at ih'
      rw [solo_const d _ (opStep (fun _ => some d) 0 (S.store u) op).2.1] at ih'
      refine ⟨ih'.1, ?_⟩
      rw [ih'.2, hr, k2]
    · have hs : (stepK id (fun _ => some d) S (u, op)).1.store t = S.store t :=
        stepK_frame id (fun _ => some d) S u op t (fun e => h e.symm)
      simp only [projRes, projOps, List.filterMap_cons, h, if_false] at ih' ⊢
      rw [hs] at ih'
      exact ih'

/-- a store keyed by an injective key behaves as the store keyed by the thread object -/
theorem runK_injective (key : Thr → κ) (hinj : ∀ a b, key a = key b → a = b) (dp : Nat → Option (Option α))
    (gs : List (Thr × Op α)) (SK : St κ α) (S : St Thr α)
    (hS : ∀ t, SK.store (key t) = S.store t) (hc : SK.calls = S.calls) :
    (runK key dp SK gs).2 = (runT dp S gs).2 ∧
    (∀ t, (runK key dp SK gs).1.store (key t) = (runT dp S gs).1.store t) := by
  induction gs generalizing SK S with
  | nil => exact ⟨rfl, hS⟩
  | cons te rest ih =>
    have hstep : ∀ t, (stepK key dp SK te).1.store (key t) = (stepK id dp S te).1.store t := by
      intro t
      by_cases h : t = te.1
      · subst h; simp [stepK, hS, hc]
      · have h' : key t ≠ key te.1 := fun e => h (hinj _ _ e)
        simp [stepK, h, h', hS]
    have hcalls : (stepK key dp SK te).1.calls = (stepK id dp S te).1.calls := by
      simp [stepK, hS, hc]
    have hres : (stepK key dp SK te).2 = (stepK id dp S te).2 := by
      simp [stepK, hS, hc]
    obtain ⟨i1, i2⟩ := ih (stepK key dp SK te).1 (stepK id dp S te).1 hstep hcalls
    simp only [runT] at i1 i2 ⊢
    simp only [runK]
    exact ⟨by rw [i1, hres], i2⟩

end TLocal
