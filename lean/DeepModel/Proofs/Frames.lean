/-
  Proofs/Frames — lemmas for C02 about the frame walk, the app-frame rule, the frame_type decision and the
  per-frame results of the collector (`Collector.collectFrames`).
-/
import DeepModel.Model.Frames

namespace Frames
open Heap Collector FrameBase Extracted.Frames Extracted.Collector

/-! ### app frame / short path -/

theorem parseShortName_eq_spec (app : AppCfg) (file : String) :
    parseShortName app.incl app.excl app.root file = ((Spec.appFrame app file).2, (Spec.appFrame app file).1) := by
  unfold parseShortName isAppFrame Spec.appFrame
  cases h1 : List.find? (fun p => Py.startsWith file p) app.excl with
  | some p => simp [h1]
  | none =>
    simp only [List.find?_append]
    cases h2 : List.find? (fun p => Py.startsWith file p) app.incl with
    | some p => simp [h1]
    | none =>
      by_cases h3 : Py.startsWith file app.root = true
      · simp [h1, h3]
      · simp [h1, h3]

theorem classNameOf_eq (fr : RawFrame) : classNameOf (localSelf fr) = Spec.classOfSelf fr := by
  unfold classNameOf localSelf Spec.classOfSelf
  cases h : fr.classes.find? (fun e => e.1 == "self") with
  | none => simp
  | some e =>
    obtain ⟨k, v⟩ := e
    cases v <;> simp

/-! ### the walk -/

theorem visited_eq (stack : Stack) : visited stack = stack := by
  simp [visited, walkSkip]

theorem viewOf_frameRecord (H : Heap) (app : AppCfg) (fr : RawFrame) (vs : List VarId) :
    Spec.viewOf (frameRecord H app fr vs) = Spec.frameView H app fr := by
  simp [Spec.viewOf, frameRecord, processFrame, Spec.frameView, parseShortName_eq_spec, classNameOf_eq]

theorem walkFrom_views (H : Heap) (app : AppCfg) (stack : Stack) (vars : List (List VarId)) :
    (walkFrom H app stack vars).map Spec.viewOf = stack.map (Spec.frameView H app) := by
  induction stack generalizing vars with
  | nil => simp [walkFrom]
  | cons fr rest ih => simp [walkFrom, viewOf_frameRecord, ih]

theorem walkFrom_vars (H : Heap) (app : AppCfg) (stack : Stack) (vars : List (List VarId)) (i : Nat)
    (hi : i < stack.length) :
    ((walkFrom H app stack vars)[i]?).map (·.variables) = some ((vars[i]?).getD []) := by
  induction stack generalizing vars i with
  | nil => simp at hi
  | cons fr rest ih =>
    cases i with
    | zero => cases vars <;> simp [walkFrom, frameRecord, processFrame]
    | succ i =>
      have := ih vars.tail i (by simpa using hi)
      cases vars with
      | nil => simpa [walkFrom] using this
      | cons v vs => simpa [walkFrom] using this

/-! ### frame_type -/

theorem shouldCollect_spec (config : Cfg) (idx : Nat) :
    shouldCollectVars config (idx : Int) = true ↔ Spec.collects (Spec.frameTypeOf config) idx := by
  have key : ∀ x, List.find? (fun e => e.1 == "frame_type") config = x →
      (shouldCollectVars config (idx : Int) = true ↔ Spec.collects (Spec.frameTypeOf config) idx) := by
    intro x hx
    simp only [shouldCollectVars, Spec.collects, Spec.frameTypeOf, Cfg.getD, FRAME_TYPE, SINGLE_FRAME_TYPE,
      NO_FRAME_TYPE, ALL_FRAME_TYPE, hx]
    cases x with
    | none => simp
    | some e =>
      obtain ⟨k, v⟩ := e
      cases v with
      | text s =>
        by_cases h1 : s = "no_frame"
        · subst h1; simp [Spec.textOf]
        · by_cases h2 : s = "all_frame"
          · subst h2; simp [Spec.textOf]
          · simp [h1, h2, Spec.textOf]
      | null => simp [Spec.textOf]
      | num n => simp [Spec.textOf]
      | strs xs => simp [Spec.textOf]
  exact key _ rfl

theorem frameInsFrom_length (config : Cfg) (timeUp : Nat → Bool) (k : Nat) (stack : Stack) :
    (frameInsFrom config timeUp k stack).length = stack.length := by
  induction stack generalizing k with
  | nil => simp [frameInsFrom]
  | cons fr rest ih => simp [frameInsFrom, ih]

theorem frameInsFrom_get (config : Cfg) (timeUp : Nat → Bool) (k : Nat) (stack : Stack) (i : Nat) :
    ((frameInsFrom config timeUp k stack)[i]?) =
      (stack[i]?).map (fun fr => ⟨fr.locals, varsCollected config timeUp (k + i)⟩) := by
  induction stack generalizing k i with
  | nil => simp [frameInsFrom]
  | cons fr rest ih =>
    cases i with
    | zero => simp [frameInsFrom]
    | succ i =>
      simp only [frameInsFrom, List.getElem?_cons_succ]
      rw [ih (k + 1) i]
      have : k + 1 + i = k + (i + 1) := by omega
      rw [this]

/-! ### what `collectFrames` returns per frame -/

theorem collectFrames_shape (H : Heap) (L : Limits) (fs : List FrameIn) (c : Cache) (t : List Entry)
    (hok : (collectFrames H L fs c t).failed = none) :
    (collectFrames H L fs c t).frames.length = fs.length ∧
    ∀ i : Nat, (fs[i]?).map FrameIn.collect = some false → (collectFrames H L fs c t).frames[i]? = some [] := by
  induction fs generalizing c t with
  | nil => simp [collectFrames]
  | cons f fs ih =>
    unfold collectFrames at hok ⊢
    by_cases hc : f.collect = true
    · simp only [hc, Bool.not_true, Bool.false_eq_true, if_false] at hok ⊢
      cases hf : (processVariable H L c t localsName f.locals).failed with
      | some m => simp [hf] at hok
      | none =>
        simp only [hf] at hok ⊢
        have := ih _ _ hok
        refine ⟨by simp [this.1], ?_⟩
        intro i hi
        cases i with
        | zero => simp [hc] at hi
        | succ i => simpa using this.2 i (by simpa using hi)
    · have hc' : f.collect = false := by simpa using hc
      simp only [hc', Bool.not_false, if_true] at hok ⊢
      have := ih c t hok
      refine ⟨by simp [this.1], ?_⟩
      intro i hi
      cases i with
      | zero => simp
      | succ i => simpa using this.2 i (by simpa using hi)

end Frames
