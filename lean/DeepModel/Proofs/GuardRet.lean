/-
  Proofs/GuardRet — "how a function ends": soundness of `mayNormal` / `mayCont`, and the combined statement
  used for return values: a guarded skeleton that always returns, returns one of `mayRet`.
-/
import DeepModel.Proofs.Guard

namespace Guard
open Py (Exn)

theorem mayCont_sound (env : Env) (s : Stmt) :
    ∀ tr tr', exec env s tr = (.continued, tr') → mayCont s = true := by
  induction s with
  | call site =>
    intro tr tr' h
    simp only [exec] at h
    split at h <;> simp at h
  | pure => intro tr tr' h; simp [exec] at h
  | assign f v => intro tr tr' h; simp [exec] at h
  | seq a b iha ihb =>
    intro tr tr' h
    simp only [exec] at h
    simp only [mayCont, Bool.or_eq_true]
    generalize hx : exec env a tr = ra at h
    obtain ⟨oa, ta⟩ := ra
    cases oa with
    | normal => exact Or.inr (ihb _ _ h)
    | continued => exact Or.inl (iha _ _ hx)
    | raised e => simp at h
    | returned v => simp at h
    | broke => simp at h
  | branch c a b iha ihb =>
    intro tr tr' h
    simp only [exec] at h
    simp only [mayCont, Bool.or_eq_true]
    split at h
    · exact Or.inl (iha _ _ h)
    · exact Or.inr (ihb _ _ h)
  | loop id b ih =>
    intro tr tr' h
    simp only [exec] at h
    exact absurd h (loopN_not_continued _ _ _ _)
  | tryExcept b c hid hd ihb ihh =>
    intro tr tr' h
    simp only [exec] at h
    simp only [mayCont, Bool.or_eq_true]
    generalize hx : exec env b tr = rb at h
    obtain ⟨ob, tb⟩ := rb
    cases ob with
    | continued => exact Or.inl (ihb _ _ hx)
    | raised e =>
      simp only at h
      split at h
      · exact Or.inr (ihh _ _ h)
      · simp at h
    | normal => simp at h
    | returned v => simp at h
    | broke => simp at h
  | tryFinally b f ihb ihf =>
    intro tr tr' h
    simp only [exec] at h
    simp only [mayCont, Bool.or_eq_true]
    generalize hx : exec env b tr = rb at h
    obtain ⟨ob, tb⟩ := rb
    simp only at h
    generalize hfn : exec env f tb = rf at h
    obtain ⟨of, tf⟩ := rf
    cases of with
    | normal =>
      simp only [Prod.mk.injEq] at h
      obtain ⟨rfl, rfl⟩ := h
      exact Or.inl (ihb _ _ hx)
    | continued => exact Or.inr (ihf _ _ hfn)
    | raised e => simp at h
    | returned v => simp at h
    | broke => simp at h
  | scope n b ih =>
    intro tr tr' h
    simp only [exec] at h
    simp only [mayCont]
    generalize hx : exec env b tr = rb at h
    obtain ⟨ob, tb⟩ := rb
    cases ob with
    | continued => exact ih _ _ hx
    | normal => simp at h
    | returned v => simp at h
    | raised e => simp at h
    | broke => simp at h
  | ret v0 => intro tr tr' h; simp [exec] at h
  | raise e0 => intro tr tr' h; simp [exec] at h
  | brk => intro tr tr' h; simp [exec] at h
  | cont => intro tr tr' h; rfl

theorem mayNormal_sound (env : Env) (s : Stmt) :
    ∀ tr tr', exec env s tr = (.normal, tr') → mayNormal s = true := by
  induction s with
  | call site => intro tr tr' h; rfl
  | pure => intro tr tr' h; rfl
  | assign f v => intro tr tr' h; rfl
  | seq a b iha ihb =>
    intro tr tr' h
    simp only [exec] at h
    simp only [mayNormal, Bool.and_eq_true]
    generalize hx : exec env a tr = ra at h
    obtain ⟨oa, ta⟩ := ra
    cases oa with
    | normal => exact ⟨iha _ _ hx, ihb _ _ h⟩
    | continued => simp at h
    | raised e => simp at h
    | returned v => simp at h
    | broke => simp at h
  | branch c a b iha ihb =>
    intro tr tr' h
    simp only [exec] at h
    simp only [mayNormal, Bool.or_eq_true]
    split at h
    · exact Or.inl (iha _ _ h)
    · exact Or.inr (ihb _ _ h)
  | loop id b ih => intro tr tr' h; rfl
  | tryExcept b c hid hd ihb ihh =>
    intro tr tr' h
    simp only [exec] at h
    simp only [mayNormal, Bool.or_eq_true]
    generalize hx : exec env b tr = rb at h
    obtain ⟨ob, tb⟩ := rb
    cases ob with
    | normal => exact Or.inl (ihb _ _ hx)
    | raised e =>
      simp only at h
      split at h
      · exact Or.inr (ihh _ _ h)
      · simp at h
    | continued => simp at h
    | returned v => simp at h
    | broke => simp at h
  | tryFinally b f ihb ihf =>
    intro tr tr' h
    simp only [exec] at h
    simp only [mayNormal, Bool.and_eq_true]
    generalize hx : exec env b tr = rb at h
    obtain ⟨ob, tb⟩ := rb
    simp only at h
    generalize hfn : exec env f tb = rf at h
    obtain ⟨of, tf⟩ := rf
    cases of with
    | normal =>
      simp only [Prod.mk.injEq] at h
      obtain ⟨rfl, rfl⟩ := h
      exact ⟨ihb _ _ hx, ihf _ _ hfn⟩
    | continued => simp at h
    | raised e => simp at h
    | returned v => simp at h
    | broke => simp at h
  | scope n b ih => intro tr tr' h; rfl
  | ret v0 => intro tr tr' h; simp [exec] at h
  | raise e0 => intro tr tr' h; simp [exec] at h
  | brk => intro tr tr' h; simp [exec] at h
  | cont => intro tr tr' h; simp [exec] at h

/-- **how a guarded function ends**: if nothing can escape `s` and `s` cannot fall off its end, every execution
    ends in `return v` with `v` one of the statically possible values (for conditions fixed as in `fx`). -/
theorem returns_one_of (s : Stmt) (hg : AllGuarded s) (har : AlwaysReturns s = true) (fx : Fixed)
    (env : Env) (ha : Agrees fx env) (tr : Trace) (o : Out) (tr' : Trace) (h : exec env s tr = (o, tr')) :
    ∃ v, o = .returned v ∧ v ∈ mayRet fx s := by
  simp only [AlwaysReturns, Bool.and_eq_true, Bool.not_eq_true'] at har
  obtain ⟨⟨hn, hb⟩, hc⟩ := har
  cases o with
  | returned v => exact ⟨v, rfl, mayRet_sound fx env ha s _ _ _ h⟩
  | normal => have := mayNormal_sound env s _ _ h; rw [hn] at this; simp at this
  | broke => have := mayBreak_sound env s _ _ h; rw [hb] at this; simp at this
  | continued => have := mayCont_sound env s _ _ h; rw [hc] at this; simp at this
  | raised e => exact absurd h (guard_sound s hg env tr e tr')

end Guard
