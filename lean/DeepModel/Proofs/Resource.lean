/-
  Proofs/Resource — lemmas behind the resource half of Props/C18: `Resource(...)` of well-formed attributes is the
  identity, dict assignment / update look-ups, merge (compatible / incompatible schema), text-only resources.
-/
import DeepModel.Proofs.AttrSpec
import DeepModel.Model.Resource
open Attr Extracted.Attributes Attributes AttrProofs Resource

namespace ResProofs

def WFD (d : OD) : Prop := CleanDict none d ∧ DistinctKeys d

theorem cut_none (s : String) : cut none s = s := rfl

theorem specScalar_idem {x : Scalar} (h : CleanScalar none x) : specScalar none x = some x := by
  cases x <;> simp [CleanScalar] at h <;> simp [specScalar, cut]

theorem specElem_idem {y : Scalar} (h : y = Scalar.none ∨ CleanScalar none y) : specElem none y = y := by
  rcases h with h | h
  · subst h; rfl
  · simp [specElem, specScalar_idem h]

theorem not_bad {y : Scalar} (h : y = Scalar.none ∨ CleanScalar none y) : badElem y = false := by
  rcases h with h | h
  · subst h; rfl
  · cases y <;> simp [CleanScalar] at h <;> rfl

/-- cleaning a clean entry (no value limit) gives it back -/
theorem specClean_idem {k : Key} {v : Val} (hk : CleanKey k) (hv : CleanVal none v) : specClean none k v = some v := by
  cases k with
  | other r => exact absurd hk (by simp [CleanKey])
  | str s =>
    have hs : s ≠ "" := hk
    cases v with
    | sc x => simp [specClean, hs, specScalar_idem hv]
    | seq ys =>
      obtain ⟨h1, h2⟩ := hv
      have hb : ys.any badElem = false := by
        simp only [List.any_eq_false]
        intro y hy
        simp [not_bad (h1 y hy)]
      have hm : ys.map (specElem none) = ys := by
        conv => rhs; rw [← List.map_id ys]
        apply List.map_congr_left
        intro y hy
        simpa using specElem_idem (h1 y hy)
      simp [specClean, hs, hb, hm, h2]

theorem keys_contains {d : OD} {k : Key} : OD.contains d k = true ↔ k ∈ d.map (·.1) := by
  simp [OD.contains]

/-- re-inserting well-formed entries whose keys are new appends them unchanged (no limits, not frozen) -/
theorem setAll_append (d : OD) : ∀ (s : Spec), s.cap = none → s.mvl = none → s.frozen = false →
    WFD d → (∀ k ∈ d.map (·.1), OD.contains s.dict k = false) →
    (s.setAll d).1.dict = s.dict ++ d := by
  induction d with
  | nil => intro s _ _ _ _ _; simp [Spec.setAll]
  | cons e d ih =>
    intro s hc hm hf hw hdis
    obtain ⟨k, v⟩ := e
    have hk := (hw.1 (k, v) (List.mem_cons_self ..))
    have hnew : OD.contains s.dict k = false := hdis k (by simp)
    have hset : s.set k v = ({ s with dict := s.dict ++ [(k, v)] }, none) := by
      simp [Spec.set, hf, hc, hm, specClean_idem hk.1 hk.2, keepLast, filter_of_not_contains hnew]
    simp only [Spec.setAll, hset]
    have hw' : WFD d := ⟨fun e he => hw.1 e (List.mem_cons_of_mem _ he), (List.nodup_cons.mp hw.2).2⟩
    have := ih { s with dict := s.dict ++ [(k, v)] } hc hm hf hw' ?_
    · rw [this]; simp
    · intro k' hk'
      have hne : k' ≠ k := by
        intro h; subst h
        exact (List.nodup_cons.mp hw.2).1 hk'
      have h1 := hdis k' (List.mem_cons_of_mem _ hk')
      simp only [OD.contains, List.any_append, List.any_cons, List.any_nil, Bool.or_false, Bool.or_eq_false_iff]
      exact ⟨h1, by simpa using fun h => hne h.symm⟩

/-- `Resource(d)` keeps a well-formed attribute list as it is -/
theorem create_id (d : OD) (hw : WFD d) : (create none none d true).dict = d := by
  have h := (create_sim none none d true).1
  have : (abs (create none none d true)).dict = (Spec.create none none d true).dict := by rw [h]
  simp only [abs] at this
  rw [this]
  simp only [Spec.create]
  rw [setAll_append d _ rfl rfl rfl hw]
  · simp
  · intro k _; rfl

theorem new_wf (attrs : List (Key × Val)) (url : Option String) : WFD (Res.new attrs url).attrs := by
  have ⟨_, h2⟩ := create_sim none none attrs true
  have h := Spec.create_inv none none attrs true
  have ha := (create_sim none none attrs true).1
  have : (Res.new attrs url).attrs = (Spec.create none none attrs true).dict := by
    simp only [Res.new]
    rw [← ha]; rfl
  rw [this]
  have := h.1
  simp only [SpecInv, h.2.1] at this
  exact this


/-! ### dict assignment and update -/
theorem keys_set (d : OD) (k : Key) (v : Val) :
    (OD.set d k v).map (·.1) = if OD.contains d k then d.map (·.1) else d.map (·.1) ++ [k] := by
  unfold OD.set
  split
  · simp only [List.map_map]
    apply List.map_congr_left
    intro e _
    by_cases h : e.1 = k <;> simp [h]
  · simp

theorem set_distinct {d : OD} (k : Key) (v : Val) (h : DistinctKeys d) : DistinctKeys (OD.set d k v) := by
  unfold DistinctKeys
  rw [keys_set]
  split
  · exact h
  · rename_i hc
    rw [List.nodup_append]
    refine ⟨h, by simp, ?_⟩
    intro a ha b hb
    simp only [List.mem_singleton] at hb
    subst hb
    intro hab
    subst hab
    exact hc (keys_contains.mpr ha)

theorem set_clean {d : OD} {k : Key} {v : Val} (h : CleanDict none d) (hk : CleanKey k) (hv : CleanVal none v) :
    CleanDict none (OD.set d k v) := by
  unfold OD.set
  split
  · intro e he
    obtain ⟨e0, he0, rfl⟩ := List.mem_map.mp he
    by_cases hx : e0.1 = k
    · simp [hx, hk, hv]
    · simp [hx]; exact h e0 he0
  · intro e he
    rcases List.mem_append.mp he with he | he
    · exact h e he
    · simp only [List.mem_singleton] at he; subst he; exact ⟨hk, hv⟩

theorem get_cons (e : Key × Val) (d : OD) (k : Key) :
    OD.get (e :: d) k = if e.1 = k then some e.2 else OD.get d k := by
  by_cases h : e.1 = k <;> simp [OD.get, List.find?_cons, h]

theorem contains_cons (e : Key × Val) (d : OD) (k : Key) :
    OD.contains (e :: d) k = (e.1 == k || OD.contains d k) := by
  simp [OD.contains]

theorem get_map_set (d : OD) (k k' : Key) (v : Val) :
    OD.get (d.map (fun e => if e.1 == k then (k, v) else e)) k' =
      if k' = k then (if OD.contains d k then some v else none) else OD.get d k' := by
  induction d with
  | nil => simp [OD.get, OD.contains]
  | cons e d ih =>
    rw [List.map_cons, get_cons, ih, get_cons, contains_cons]
    by_cases he : e.1 = k
    · by_cases hk : k' = k
      · subst hk; simp [he]
      · have hk2 : ¬ k = k' := fun h => hk h.symm
        simp [he, hk, hk2]
    · by_cases hk : k' = k
      · subst hk
        simp [he]
      · by_cases hek : e.1 = k'
        · simp [he, hk, hek]
        · simp [he, hk, hek]

theorem get_append_single (d : OD) (k k' : Key) (v : Val) :
    OD.get (d ++ [(k, v)]) k' = match OD.get d k' with
      | some x => some x
      | none => if k' = k then some v else none := by
  induction d with
  | nil =>
    by_cases h : k = k'
    · subst h; simp [OD.get]
    · have : ¬ k' = k := fun h' => h h'.symm
      simp [OD.get, h, this]
  | cons e d ih =>
    rw [List.cons_append, get_cons, get_cons, ih]
    by_cases he : e.1 = k' <;> simp [he]

theorem get_none_of_not_contains {d : OD} {k : Key} (h : OD.contains d k = false) : OD.get d k = none := by
  simp only [OD.contains, List.any_eq_false, beq_iff_eq] at h
  simp only [OD.get, Option.map_eq_none_iff, List.find?_eq_none, beq_iff_eq]
  exact h

theorem get_set (d : OD) (k k' : Key) (v : Val) :
    OD.get (OD.set d k v) k' = if k' = k then some v else OD.get d k' := by
  unfold OD.set
  by_cases hc : OD.contains d k = true
  · simp only [hc, if_true]
    rw [get_map_set]
    simp [hc]
  · have hc' : OD.contains d k = false := by simpa using hc
    simp only [hc', Bool.false_eq_true, if_false]
    rw [get_append_single]
    by_cases hk : k' = k
    · subst hk; simp [get_none_of_not_contains hc']
    · simp only [hk, if_false]
      cases OD.get d k' <;> rfl

theorem contains_iff_get {d : OD} {k : Key} : OD.contains d k = true ↔ (OD.get d k).isSome = true := by
  simp [OD.contains, OD.get]

theorem update_wf {b : OD} : ∀ {a : OD}, WFD a → CleanDict none b → WFD (OD.update a b) := by
  induction b with
  | nil => intro a ha _; exact ha
  | cons e b ih =>
    intro a ha hb
    simp only [OD.update, List.foldl_cons]
    have he := hb e (List.mem_cons_self ..)
    exact ih ⟨set_clean ha.1 he.1 he.2, set_distinct _ _ ha.2⟩ (fun x hx => hb x (List.mem_cons_of_mem _ hx))

/-- `a.update(b)`: a key of `b` gets `b`'s value, any other key keeps `a`'s -/
theorem get_update {b : OD} : ∀ (a : OD), DistinctKeys b → ∀ (k : Key),
    OD.get (OD.update a b) k = match OD.get b k with
      | some v => some v
      | none => OD.get a k := by
  induction b with
  | nil => intro a _ k; simp [OD.update, OD.get]
  | cons e b ih =>
    intro a hb k
    have hb' : DistinctKeys b := (List.nodup_cons.mp hb).2
    have h := ih (OD.set a e.1 e.2) hb' k
    simp only [OD.update, List.foldl_cons] at h ⊢
    rw [h, get_cons, get_set]
    by_cases hk : e.1 = k
    · have hnot : OD.contains b k = false := by
        rw [← hk]
        cases hcb : OD.contains b e.1 with
        | false => rfl
        | true => exact absurd (keys_contains.mp hcb) (List.nodup_cons.mp hb).1
      simp [hk, get_none_of_not_contains hnot]
    · have hk2 : ¬ k = e.1 := fun h' => hk h'.symm
      simp [hk, hk2]


/-! ### resources -/
def WF (r : Res) : Prop := WFD r.attrs

theorem new_of_wf (d : OD) (hw : WFD d) (url : Option String) : Res.new d url = ⟨d, url.getD ""⟩ := by
  simp [Res.new, create_id d hw]

theorem merge_compatible {a b : Res} (ha : WF a) (hb : WF b) {u : String}
    (hs : mergeSchema a.schemaUrl b.schemaUrl = some u) :
    a.merge b = ⟨OD.update a.attrs b.attrs, u⟩ := by
  simp only [Res.merge, hs]
  rw [new_of_wf _ (update_wf ha hb.1)]
  rfl

theorem merge_incompatible {a b : Res} (hs : mergeSchema a.schemaUrl b.schemaUrl = none) : a.merge b = a := by
  simp [Res.merge, hs]

theorem merge_wf {a b : Res} (ha : WF a) (hb : WF b) : WF (a.merge b) := by
  cases hs : mergeSchema a.schemaUrl b.schemaUrl with
  | none => rw [merge_incompatible hs]; exact ha
  | some u => rw [merge_compatible ha hb hs]; exact update_wf ha hb.1

theorem get_merge {a b : Res} (ha : WF a) (hb : WF b) {u : String}
    (hs : mergeSchema a.schemaUrl b.schemaUrl = some u) (k : String) :
    (a.merge b).get k = match b.get k with
      | some v => some v
      | none => a.get k := by
  rw [merge_compatible ha hb hs]
  exact get_update a.attrs hb.2 (Key.str k)

theorem has_iff_get (r : Res) (k : String) : r.has k = true ↔ (r.get k).isSome = true := contains_iff_get

/-- merging never loses a key of the left operand -/
theorem has_merge_left {a b : Res} (ha : WF a) (hb : WF b) {k : String} (h : a.has k = true) :
    (a.merge b).has k = true := by
  cases hs : mergeSchema a.schemaUrl b.schemaUrl with
  | none => rw [merge_incompatible hs]; exact h
  | some u =>
    rw [has_iff_get, get_merge ha hb hs]
    rw [has_iff_get] at h
    cases b.get k with
    | some v => rfl
    | none => exact h

theorem mergeSchema_left_empty (u : String) : mergeSchema "" u = some u := by
  simp [mergeSchema]

theorem mergeSchema_same (u : String) : mergeSchema u u = some u := by
  unfold mergeSchema
  by_cases h : u = "" <;> simp [h]

theorem merge_schemaUrl {a b : Res} {u : String} (ha : WF a) (hb : WF b)
    (hs : mergeSchema a.schemaUrl b.schemaUrl = some u) : (a.merge b).schemaUrl = u := by
  rw [merge_compatible ha hb hs]


/-! ### text-only resources (what the environment and the defaults provide) -/
def StrDict (d : OD) : Prop := ∀ e ∈ d, ∃ s, e.2 = Val.sc (Scalar.str s)

theorem set_strDict {d : OD} {k : Key} {s : String} (h : StrDict d) : StrDict (OD.set d k (Val.sc (.str s))) := by
  unfold OD.set
  split
  · intro e he
    obtain ⟨e0, he0, rfl⟩ := List.mem_map.mp he
    by_cases hx : e0.1 = k
    · exact ⟨s, by simp [hx]⟩
    · simpa [hx] using h e0 he0
  · intro e he
    rcases List.mem_append.mp he with he | he
    · exact h e he
    · simp only [List.mem_singleton] at he; subst he; exact ⟨s, rfl⟩

theorem update_strDict {b : OD} : ∀ {a : OD}, StrDict a → StrDict b → StrDict (OD.update a b) := by
  induction b with
  | nil => intro a ha _; exact ha
  | cons e b ih =>
    intro a ha hb
    simp only [OD.update, List.foldl_cons]
    obtain ⟨s, hs⟩ := hb e (List.mem_cons_self ..)
    rw [hs]
    exact ih (set_strDict ha) (fun x hx => hb x (List.mem_cons_of_mem _ hx))

theorem spec_set_strDict (sp : Spec) (k : Key) (s : String) (h : StrDict sp.dict) :
    StrDict (sp.set k (Val.sc (.str s))).1.dict := by
  unfold Spec.set
  split
  · exact h
  · split
    · exact h
    · split
      · exact h
      · rename_i v' hv
        have hv' : ∃ t, v' = Val.sc (.str t) := by
          cases k with
          | other r => simp [specClean] at hv
          | str ks =>
            by_cases hks : ks = ""
            · simp [specClean, hks] at hv
            · simp [specClean, hks, specScalar] at hv
              exact ⟨_, hv.symm⟩
        intro e he
        have he' := (keepLast_sublist _ _).subset he
        rcases List.mem_append.mp he' with he' | he'
        · exact h e (List.mem_filter.mp he').1
        · simp only [List.mem_singleton] at he'; subst he'; exact hv'

theorem spec_setAll_strDict (d : OD) : ∀ (sp : Spec), StrDict sp.dict → StrDict d → StrDict (sp.setAll d).1.dict := by
  induction d with
  | nil => intro sp h _; exact h
  | cons e d ih =>
    intro sp h hd
    obtain ⟨k, v⟩ := e
    obtain ⟨s, hs⟩ := hd (k, v) (List.mem_cons_self ..)
    simp only at hs
    subst hs
    have h1 := spec_set_strDict sp k s h
    simp only [Spec.setAll]
    cases hr : sp.set k (Val.sc (.str s)) with
    | mk sp' e =>
      rw [hr] at h1
      cases e with
      | none => exact ih sp' h1 (fun x hx => hd x (List.mem_cons_of_mem _ hx))
      | some e => exact h1

theorem new_strDict (d : OD) (url : Option String) (h : StrDict d) : StrDict (Res.new d url).attrs := by
  have ha := (create_sim none none d true).1
  have : (Res.new d url).attrs = (Spec.create none none d true).dict := by
    simp only [Res.new]; rw [← ha]; rfl
  rw [this]
  exact spec_setAll_strDict d _ (by intro e he; simp at he) h

theorem merge_strDict {a b : Res} (ha : WF a) (hb : WF b) (sa : StrDict a.attrs) (sb : StrDict b.attrs) :
    StrDict (a.merge b).attrs := by
  cases hs : mergeSchema a.schemaUrl b.schemaUrl with
  | none => rw [merge_incompatible hs]; exact sa
  | some u => rw [merge_compatible ha hb hs]; exact update_strDict sa sb

theorem svc_strDict (sn : Option String) {d : OD} (h : StrDict d) :
    StrDict (if envTruthy sn then OD.set d (Key.str serviceNameKey) (strVal (envText sn)) else d) := by
  split
  · exact set_strDict h
  · exact h

theorem detectLoop_strDict (ra sn : Option String) (items : List String) :
    ∀ (acc : OD), StrDict acc → StrDict (detectLoop ra sn items acc) := by
  induction items with
  | nil => intro acc h; simp only [detectLoop]; exact svc_strDict sn h
  | cons it items ih =>
    intro acc h
    simp only [detectLoop]
    split
    · exact ih acc h
    · exact ih _ (set_strDict h)

theorem detect_strDict (ra sn : Option String) : StrDict (detect ra sn) := by
  have h0 : StrDict [] := by intro e he; simp at he
  unfold detect detectEnv
  simp only
  split
  · exact detectLoop_strDict _ _ _ _ h0
  · exact svc_strDict sn h0

end ResProofs
