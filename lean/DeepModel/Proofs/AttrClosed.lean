/-
  Proofs/AttrClosed — closed form of the reference container for histories without deletions: the stored entries
  are the newest `cap` of "every valid key at the position of its last assignment".
-/
import DeepModel.Proofs.AttrSpec
open Attr Extracted.Attributes Attributes AttrProofs

namespace AttrProofs

/-- the valid assignments of a history applied without any capacity: each key at the position of its last
    assignment, with the cleaned value -/
def lastDistinct (mvl : Option Int) : OD → List (Key × Val) → OD
  | d, [] => d
  | d, (k, v) :: r =>
    match specClean mvl k v with
    | none => lastDistinct mvl d r
    | some v' => lastDistinct mvl (d.filter (fun e => e.1 != k) ++ [(k, v')]) r

theorem keepLast_append_of_le (c : Nat) (A B : OD) (h : c ≤ B.length) :
    keepLast (some c) (A ++ B) = keepLast (some c) B := by
  simp only [keepLast, List.length_append]
  have : A.length + B.length - c = A.length + (B.length - c) := by omega
  rw [this, List.drop_append]
  have h1 : List.drop (A.length + (B.length - c)) A = [] := List.drop_eq_nil_of_le (by omega)
  have h2 : A.length + (B.length - c) - A.length = B.length - c := by omega
  rw [h1, h2]; rfl

theorem keepLast_eq_self (c : Nat) (A : OD) (h : A.length ≤ c) : keepLast (some c) A = A := by
  simp only [keepLast]
  have : A.length - c = 0 := by omega
  rw [this]; rfl

theorem length_filter_ge (d : OD) (k : Key) (hd : DistinctKeys d) :
    d.length ≤ (d.filter (fun e => e.1 != k)).length + 1 := by
  by_cases hk : OD.contains d k = true
  · have : ∀ {d : OD}, DistinctKeys d → OD.contains d k = true →
        (d.filter (fun e => e.1 != k)).length + 1 = d.length := by
      intro d hd h
      induction d with
      | nil => simp [OD.contains] at h
      | cons e d ih =>
        have hd' : DistinctKeys d := (List.nodup_cons.mp hd).2
        by_cases he : e.1 = k
        · have hnot : OD.contains d k = false := by
            have := (List.nodup_cons.mp hd).1
            simp only [OD.contains, List.any_eq_false, beq_iff_eq]
            intro x hx hxk
            apply this
            exact List.mem_map.mpr ⟨x, hx, by simp [hxk, he]⟩
          simp only [List.filter_cons, he, bne_self_eq_false, Bool.false_eq_true, if_false, List.length_cons,
            filter_of_not_contains hnot]
        · have hd2 : OD.contains d k = true := by
            simp only [OD.contains, List.any_cons, Bool.or_eq_true, beq_iff_eq] at h
            rcases h with h | h
            · exact absurd h he
            · exact h
          have := ih hd' hd2
          have hne : (e.1 != k) = true := by simpa using he
          simp only [List.filter_cons, hne, if_true, List.length_cons]
          omega
    have := this hd hk
    omega
  · have hk' : OD.contains d k = false := by simpa using hk
    rw [filter_of_not_contains hk']; omega

/-- the key step: cutting to the newest `c` entries commutes with "move key to newest" -/
theorem keepLast_step (c : Nat) (U : OD) (hU : DistinctKeys U) (k : Key) (x : Key × Val) :
    keepLast (some c) ((keepLast (some c) U).filter (fun e => e.1 != k) ++ [x]) =
    keepLast (some c) (U.filter (fun e => e.1 != k) ++ [x]) := by
  by_cases hlen : U.length ≤ c
  · rw [keepLast_eq_self c U hlen]
  · have hsplit : U = U.take (U.length - c) ++ keepLast (some c) U := by
      simp only [keepLast]; exact (List.take_append_drop _ _).symm
    have hDlen : (keepLast (some c) U).length = c := by
      simp only [keepLast, List.length_drop]; omega
    have hDd : DistinctKeys (keepLast (some c) U) := distinct_sublist (keepLast_sublist _ _) hU
    have hge := length_filter_ge (keepLast (some c) U) k hDd
    have hU' : U.filter (fun e => e.1 != k) ++ [x] =
        (U.take (U.length - c)).filter (fun e => e.1 != k) ++
          ((keepLast (some c) U).filter (fun e => e.1 != k) ++ [x]) := by
      conv => lhs; rw [hsplit]
      rw [List.filter_append, List.append_assoc]
    rw [hU']
    exact (keepLast_append_of_le c _ _ (by rw [List.length_append, List.length_cons, List.length_nil]; omega)).symm

theorem keepLast_step' (cap : Option Nat) (U : OD) (hU : DistinctKeys U) (k : Key) (x : Key × Val) :
    keepLast cap ((keepLast cap U).filter (fun e => e.1 != k) ++ [x]) =
    keepLast cap (U.filter (fun e => e.1 != k) ++ [x]) := by
  cases cap with
  | none => rfl
  | some c => exact keepLast_step c U hU k x

theorem lastDistinct_append (mvl : Option Int) (a b : List (Key × Val)) : ∀ (d : OD),
    lastDistinct mvl d (a ++ b) = lastDistinct mvl (lastDistinct mvl d a) b := by
  induction a with
  | nil => intro d; rfl
  | cons e a ih =>
    intro d
    obtain ⟨k, v⟩ := e
    simp only [List.cons_append, lastDistinct]
    cases specClean mvl k v <;> simp only [ih]

/-- the history of assignments of an operation sequence (deletions left out) -/
def assignments : List Op → List (Key × Val)
  | [] => []
  | .set k v :: r => (k, v) :: assignments r
  | .mergeIn kvs :: r => kvs ++ assignments r
  | .del _ :: r => assignments r

def noDel : List Op → Bool
  | [] => true
  | .del _ :: _ => false
  | _ :: r => noDel r

structure Closed (s : Spec) (U : OD) : Prop where
  nf : s.frozen = false
  c0 : s.cap ≠ some 0
  dk : DistinctKeys U
  eq : s.dict = keepLast s.cap U

theorem set_closed (s : Spec) (U : OD) (k : Key) (v : Val) (h : Closed s U) :
    Closed (s.set k v).1 (lastDistinct s.mvl U [(k, v)]) ∧ (s.set k v).1.mvl = s.mvl ∧ (s.set k v).1.cap = s.cap ∧
    (s.set k v).2 = none := by
  obtain ⟨nf, c0, dk, eq⟩ := h
  unfold Spec.set
  simp only [nf, Bool.false_eq_true, if_false, c0, lastDistinct]
  cases hs : specClean s.mvl k v with
  | none => exact ⟨⟨nf, c0, dk, eq⟩, rfl, rfl, rfl⟩
  | some v' =>
    refine ⟨⟨rfl, c0, distinct_filter_append _ _ _ dk, ?_⟩, rfl, rfl, rfl⟩
    simp only
    rw [eq]
    exact keepLast_step' s.cap U dk k (k, v')

theorem setAll_closed (kvs : List (Key × Val)) : ∀ (s : Spec) (U : OD), Closed s U →
    Closed (s.setAll kvs).1 (lastDistinct s.mvl U kvs) ∧ (s.setAll kvs).1.mvl = s.mvl ∧
    (s.setAll kvs).1.cap = s.cap := by
  induction kvs with
  | nil => intro s U h; exact ⟨h, rfl, rfl⟩
  | cons e kvs ih =>
    intro s U h
    obtain ⟨k, v⟩ := e
    have ⟨h1, h2, h3, h4⟩ := set_closed s U k v h
    simp only [Spec.setAll]
    cases hr : s.set k v with
    | mk s' err =>
      rw [hr] at h1 h2 h3 h4
      simp only at h4
      subst h4
      have ⟨i1, i2, i3⟩ := ih s' _ h1
      simp only
      rw [h2] at i1 i2
      have hl : lastDistinct s.mvl U ((k, v) :: kvs) = lastDistinct s.mvl (lastDistinct s.mvl U [(k, v)]) kvs :=
        lastDistinct_append s.mvl [(k, v)] kvs U
      rw [hl]
      exact ⟨i1, i2, i3.trans h3⟩

theorem run_closed (ops : List Op) (hnd : noDel ops = true) : ∀ (s : Spec) (U : OD), Closed s U →
    (Spec.run s ops).1.dict = keepLast s.cap (lastDistinct s.mvl U (assignments ops)) := by
  induction ops with
  | nil => intro s U h; exact h.eq
  | cons op ops ih =>
    intro s U h
    cases op with
    | del k => simp [noDel] at hnd
    | set k v =>
      have ⟨h1, h2, h3, _⟩ := set_closed s U k v h
      have := ih (by simpa [noDel] using hnd) _ _ h1
      simp only [Spec.run, Spec.step, assignments]
      rw [this, h2, h3]
      exact congrArg _ (lastDistinct_append s.mvl [(k, v)] (assignments ops) U).symm
    | mergeIn kvs =>
      have ⟨h1, h2, h3⟩ := setAll_closed kvs s U h
      have := ih (by simpa [noDel] using hnd) _ _ h1
      simp only [Spec.run, Spec.step, assignments]
      rw [this, h2, h3]
      exact congrArg _ (lastDistinct_append s.mvl kvs (assignments ops) U).symm

end AttrProofs
