/-
  Proofs/Plugins — the insertion sort of Model/Plugins is a stable sort (for the ascending direction the
  source has now), over the numeric order of the declared `order()` values (`Num.le`: a total preorder).
-/
import DeepModel.Model.Plugins

namespace Plugins
open Extracted.Plugins

/-! ### `Num.le` is the order of the decimals `m / 10^e` -/

theorem pow10_pos (n : Nat) : (0 : Int) < (10 : Int) ^ n := Int.pow_pos (by decide)

theorem Num.le_iff (a b : Num) : a.le b = true ↔ a.m * (10 : Int) ^ b.e ≤ b.m * (10 : Int) ^ a.e := by
  simp [Num.le]

theorem Num.le_refl (a : Num) : a.le a = true := by simp [Num.le]

theorem Num.le_total (a b : Num) : a.le b = true ∨ b.le a = true := by
  simp only [Num.le_iff]; exact Int.le_total _ _

theorem Num.le_trans {a b c : Num} (h1 : a.le b = true) (h2 : b.le c = true) : a.le c = true := by
  rw [Num.le_iff] at *
  have hP := pow10_pos a.e
  have hQ := pow10_pos b.e
  have hR := pow10_pos c.e
  have h1' := Int.mul_le_mul_of_nonneg_right h1 (Int.le_of_lt hR)
  have h2' := Int.mul_le_mul_of_nonneg_right h2 (Int.le_of_lt hP)
  rw [Int.mul_right_comm a.m, Int.mul_right_comm b.m] at h1'
  rw [Int.mul_right_comm c.m] at h2'
  exact Int.le_of_mul_le_mul_right (Int.le_trans h1' h2') hQ

/-- on whole numbers it is the order of the integers -/
theorem Num.le_ofInt (a b : Int) : (Num.ofInt a).le (Num.ofInt b) = decide (a ≤ b) := by
  simp [Num.le, Num.ofInt]

/-- writing the same number with one more decimal place does not change it: `m / 10^e = 10 m / 10^(e+1)` -/
theorem Num.eqv_scale (a : Num) : a.eqv ⟨a.m * 10, a.e + 1⟩ = true := by
  simp only [Num.eqv, Bool.and_eq_true, Num.le_iff, Int.pow_succ]
  constructor <;> rw [Int.mul_right_comm, Int.mul_assoc] <;> exact Int.le_refl _

theorem Num.eqv_symm {a b : Num} (h : a.eqv b = true) : b.eqv a = true := by
  simp only [Num.eqv, Bool.and_eq_true] at *; exact ⟨h.2, h.1⟩

/-! ### the sort -/

theorem ascending : sortReverse = false := by decide

theorem before_iff (x y : Spec) : before x y = true ↔ x.key.le y.key = true := by
  simp [before, ascending]

theorem insert_perm (x : Spec) (l : List Spec) : (insert x l).Perm (x :: l) := by
  induction l with
  | nil => exact List.Perm.refl _
  | cons y ys ih =>
    simp only [insert]
    split
    · exact List.Perm.refl _
    · exact (List.Perm.cons y ih).trans (List.Perm.swap x y ys)

theorem sort_perm (l : List Spec) : (sort l).Perm l := by
  induction l with
  | nil => exact List.Perm.refl _
  | cons x xs ih => exact (insert_perm x (sort xs)).trans (List.Perm.cons x ih)

theorem insert_sorted (x : Spec) (l : List Spec) (h : l.Pairwise (fun a b => a.key.le b.key = true)) :
    (insert x l).Pairwise (fun a b => a.key.le b.key = true) := by
  induction l with
  | nil => simp [insert]
  | cons y ys ih =>
    simp only [insert]
    have hy := List.pairwise_cons.mp h
    split
    · rename_i hb
      have hxy := (before_iff x y).mp hb
      refine List.pairwise_cons.mpr ⟨?_, h⟩
      intro z hz
      rcases List.mem_cons.mp hz with rfl | hz
      · exact hxy
      · exact Num.le_trans hxy (hy.1 z hz)
    · rename_i hb
      have hyx : y.key.le x.key = true := by
        have : ¬ x.key.le y.key = true := fun hh => hb ((before_iff x y).mpr hh)
        rcases Num.le_total x.key y.key with h' | h'
        · exact absurd h' this
        · exact h'
      refine List.pairwise_cons.mpr ⟨?_, ih hy.2⟩
      intro z hz
      have := (insert_perm x ys).mem_iff.mp hz
      rcases List.mem_cons.mp this with rfl | hz'
      · exact hyx
      · exact hy.1 z hz'

theorem sort_sorted (l : List Spec) : (sort l).Pairwise (fun a b => a.key.le b.key = true) := by
  induction l with
  | nil => simp [sort]
  | cons x xs ih => exact insert_sorted x _ ih

/-- inserting `x` in front of the first element it may stay in front of: among the elements whose key equals the
    number `k`, `x` comes first (everything it jumped over has a strictly smaller key) -/
theorem insert_filter (x : Spec) (k : Num) (l : List Spec) :
    (insert x l).filter (fun s => s.key.eqv k) = (x :: l).filter (fun s => s.key.eqv k) := by
  induction l with
  | nil => simp [insert]
  | cons y ys ih =>
    simp only [insert]
    split
    · rfl
    · rename_i hb
      have hnot : ¬ x.key.le y.key = true := fun hh => hb ((before_iff x y).mpr hh)
      simp only [List.filter_cons] at ih ⊢
      rw [ih]
      by_cases hx : x.key.eqv k = true <;> by_cases hy : y.key.eqv k = true
      · -- both equal k: then x ≤ y, which was excluded
        exfalso
        simp only [Num.eqv, Bool.and_eq_true] at hx hy
        exact hnot (Num.le_trans hx.1 hy.2)
      · simp [hx, hy]
      · simp [hx, hy]
      · simp [hx, hy]

theorem sort_stable (k : Num) (l : List Spec) :
    (sort l).filter (fun s => s.key.eqv k) = l.filter (fun s => s.key.eqv k) := by
  induction l with
  | nil => rfl
  | cons x xs ih =>
    simp only [sort]
    rw [insert_filter]
    simp only [List.filter_cons, ih]

end Plugins
