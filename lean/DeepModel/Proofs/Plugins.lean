/-
  Proofs/Plugins — the insertion sort of Model/Plugins is a stable sort (for the ascending direction the
  source has now).
-/
import DeepModel.Model.Plugins

namespace Plugins
open Extracted.Plugins

theorem ascending : sortReverse = false := by decide

theorem before_iff (x y : Spec) : before x y = true ↔ x.key ≤ y.key := by
  simp [before, ascending]

theorem insert_perm (x : Spec) (l : List Spec) : (insert x l).Perm (x :: l) := by
  induction l with
  | nil => exact List.Perm.refl _
  | cons y ys ih =>
    simp only [insert]
    split
    · exact List.Perm.refl _
    · exact (List.Perm.cons y ih).trans (List.Perm.swap x y ys)

theorem sort_perm (l : List Spec) : (sort l).Perm l := by
  induction l with
  | nil => exact List.Perm.refl _
  | cons x xs ih => exact (insert_perm x (sort xs)).trans (List.Perm.cons x ih)

theorem insert_sorted (x : Spec) (l : List Spec) (h : l.Pairwise (fun a b => a.key ≤ b.key)) :
    (insert x l).Pairwise (fun a b => a.key ≤ b.key) := by
  induction l with
  | nil => simp [insert]
  | cons y ys ih =>
    simp only [insert]
    have hy := List.pairwise_cons.mp h
    split
    · rename_i hb
      have hxy := (before_iff x y).mp hb
      refine List.pairwise_cons.mpr ⟨?_, h⟩
      intro z hz
      rcases List.mem_cons.mp hz with rfl | hz
      · exact hxy
      · exact Int.le_trans hxy (hy.1 z hz)
    · rename_i hb
      have hyx : y.key ≤ x.key := by
        have : ¬ x.key ≤ y.key := fun hh => hb ((before_iff x y).mpr hh)
        omega
      refine List.pairwise_cons.mpr ⟨?_, ih hy.2⟩
      intro z hz
      have := (insert_perm x ys).mem_iff.mp hz
      rcases List.mem_cons.mp this with rfl | hz'
      · exact hyx
      · exact hy.1 z hz'

theorem sort_sorted (l : List Spec) : (sort l).Pairwise (fun a b => a.key ≤ b.key) := by
  induction l with
  | nil => simp [sort]
  | cons x xs ih => exact insert_sorted x _ ih

/-- inserting `x` in front of the first element it may stay in front of: among the elements with key `k`, `x`
    comes first (everything it jumped over has a strictly smaller key) -/
theorem insert_filter (x : Spec) (k : Int) (l : List Spec) :
    (insert x l).filter (fun s => s.key == k) = (x :: l).filter (fun s => s.key == k) := by
  induction l with
  | nil => simp [insert]
  | cons y ys ih =>
    simp only [insert]
    split
    · rfl
    · rename_i hb
      have hlt : y.key < x.key := by
        have : ¬ x.key ≤ y.key := fun hh => hb ((before_iff x y).mpr hh)
        omega
      simp only [List.filter_cons] at ih ⊢
      rw [ih]
      by_cases hx : x.key = k <;> by_cases hy : y.key = k
      · omega
      · simp [hx, hy]
      · simp [hx, hy]
      · simp [hx, hy]

theorem sort_stable (k : Int) (l : List Spec) :
    (sort l).filter (fun s => s.key == k) = l.filter (fun s => s.key == k) := by
  induction l with
  | nil => rfl
  | cons x xs ih =>
    simp only [sort]
    rw [insert_filter]
    simp only [List.filter_cons, ih]

end Plugins
