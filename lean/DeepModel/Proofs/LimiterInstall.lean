/- the operation-level run of one tracepoint is the per-installation run of the statement's reading (Props/C04) -/
import DeepModel.Proofs.LimiterTimed
import DeepModel.Model.LimiterInstall

set_option linter.unusedSimpArgs false

namespace Limiter
open Extracted.Limiter

/-- collections the current installation has made so far -/
def preOf (c : Cfg) : Option (List Hit) → List Int
  | none => []
  | some hs => runHits c hs.reverse

/-- the statistics of the current installation's action object -/
def stOf (c : Cfg) : Option (List Hit) → Option Stats
  | none => none
  | some hs => some (runFrom c Stats.init hs.reverse).1

theorem preOf_hit (c : Cfg) (hs : List Hit) (h : Hit) :
    preOf c (some (h :: hs)) =
      preOf c (some hs) ++ (if (stepHit c (runFrom c Stats.init hs.reverse).1 h).2 then [h.ts] else []) := by
  simp only [preOf, runHits, List.reverse_cons, runFrom_append_one]
  by_cases hf : (stepHit c (runFrom c Stats.init hs.reverse).1 h).2 = true <;> simp [hf]

theorem stOf_hit (c : Cfg) (hs : List Hit) (h : Hit) :
    stOf c (some (h :: hs)) = some (stepHit c (runFrom c Stats.init hs.reverse).1 h).1 := by
  simp only [stOf, List.reverse_cons, runFrom_append_one]

private theorem closed_flat (c : Cfg) (cur : Option (List Hit)) :
    (closedOf cur).flatMap (runHits c) = preOf c cur := by
  cases cur <;> simp [preOf, closedOf]

/-- one operation: the code's state and output follow the statement's installations -/
theorem step_sim (c : Cfg) (o : Origin) (cur : Option (List Hit)) (op : Op) :
    (stepOp c o (stOf c cur) op).1 = stOf c (instStep o cur op) ∧
    preOf c cur ++ outOf (stepOp c o (stOf c cur) op).2 =
      (if closes o cur op then closedOf cur else []).flatMap (runHits c) ++ preOf c (instStep o cur op) := by
  cases op with
  | hit h =>
    cases cur with
    | none => simp [outOf, stepOp, stOf, instStep, closes, starts, ends, preOf]
    | some hs =>
      have e : instStep o (some hs) (.hit h) = some (h :: hs) := by simp [instStep, starts, ends]
      rw [e, stOf_hit, preOf_hit]
      by_cases hf : (stepHit c (runFrom c Stats.init hs.reverse).1 h).2 = true <;>
        simp [stepOp, stOf, closes, starts, ends, hf, outOf]
  | update present =>
    cases o <;> cases present <;> cases cur <;>
      simp [outOf, stepOp, stOf, instStep, closes, starts, ends, preOf, closedOf, runHits, runFrom]
  | noChange =>
    cases o <;> cases cur <;> simp [outOf, stepOp, stOf, instStep, closes, starts, ends, preOf, closedOf]
  | otherCustom =>
    cases o <;> cases cur <;> simp [outOf, stepOp, stOf, instStep, closes, starts, ends, preOf, closedOf]
  | register =>
    cases o <;> cases cur <;>
      simp [outOf, stepOp, stOf, instStep, closes, starts, ends, preOf, closedOf, runHits, runFrom]
  | unregister =>
    cases o <;> cases cur <;> simp [outOf, stepOp, stOf, instStep, closes, starts, ends, preOf, closedOf]

theorem ops_eq_installations (c : Cfg) (o : Origin) : ∀ (ops : List Op) (cur : Option (List Hit)),
    preOf c cur ++ runOpsFrom c o (stOf c cur) ops = (installationsFrom o cur ops).flatMap (runHits c) := by
  intro ops
  induction ops with
  | nil => intro cur; simp [runOpsFrom, installationsFrom, closed_flat]
  | cons op ops ih =>
    intro cur
    obtain ⟨h1, h2⟩ := step_sim c o cur op
    simp only [runOpsFrom, installationsFrom, List.flatMap_append]
    rw [h1, ← List.append_assoc, h2, List.append_assoc, ih]

/-- the hits among the operations -/
def hitsOf (ops : List Op) : List Hit := ops.filterMap (fun op => match op with | .hit h => some h | _ => none)

/-- a registered tracepoint whose registration is not removed has ONE installation, whatever else happens -/
theorem code_one_installation : ∀ (ops : List Op) (hs : List Hit), (∀ op ∈ ops, op ≠ .unregister) →
    installationsFrom .code (some hs) ops = [hs.reverse ++ hitsOf ops] := by
  intro ops
  induction ops with
  | nil => intro hs _; simp [installationsFrom, closedOf, hitsOf]
  | cons op ops ih =>
    intro hs h
    have hrest : ∀ op' ∈ ops, op' ≠ .unregister := fun op' hm => h op' (List.mem_cons_of_mem _ hm)
    have hop := h op (List.mem_cons_self ..)
    cases op with
    | hit x => simp [installationsFrom, instStep, closes, starts, ends, ih (x :: hs) hrest, hitsOf]
    | update present => simp [installationsFrom, instStep, closes, starts, ends, ih hs hrest, hitsOf]
    | noChange => simp [installationsFrom, instStep, closes, starts, ends, ih hs hrest, hitsOf]
    | otherCustom => simp [installationsFrom, instStep, closes, starts, ends, ih hs hrest, hitsOf]
    | register => simp [installationsFrom, instStep, closes, starts, ends, ih hs hrest, hitsOf]
    | unregister => exact absurd rfl hop

/-- a service tracepoint between two UPDATE responses has ONE installation, whatever else happens -/
theorem service_one_installation : ∀ (ops : List Op) (hs : List Hit), (∀ op ∈ ops, ∀ p, op ≠ .update p) →
    installationsFrom .service (some hs) ops = [hs.reverse ++ hitsOf ops] := by
  intro ops
  induction ops with
  | nil => intro hs _; simp [installationsFrom, closedOf, hitsOf]
  | cons op ops ih =>
    intro hs h
    have hrest : ∀ op' ∈ ops, ∀ p, op' ≠ .update p := fun op' hm => h op' (List.mem_cons_of_mem _ hm)
    have hop := h op (List.mem_cons_self ..)
    cases op with
    | hit x => simp [installationsFrom, instStep, closes, starts, ends, ih (x :: hs) hrest, hitsOf]
    | update present => exact absurd rfl (hop present)
    | noChange => simp [installationsFrom, instStep, closes, starts, ends, ih hs hrest, hitsOf]
    | otherCustom => simp [installationsFrom, instStep, closes, starts, ends, ih hs hrest, hitsOf]
    | register => simp [installationsFrom, instStep, closes, starts, ends, ih hs hrest, hitsOf]
    | unregister => simp [installationsFrom, instStep, closes, starts, ends, ih hs hrest, hitsOf]

/-! ### several actions: the joint run is, action by action, the single-action run -/

/-- the statistics of action `k` in the joint state -/
def projK (s : Option (List Stats)) (k : Nat) : Option Stats := s.bind (fun sts => sts[k]?)

/-- an installed joint state has one statistics object per action -/
def WFN (cs : List Cfg) (s : Option (List Stats)) : Prop := ∀ sts, s = some sts → sts.length = cs.length

theorem stepOpN_sim (cs : List Cfg) (o : Origin) (s : Option (List Stats)) (op : Op) (k : Nat) (c : Cfg)
    (hk : cs[k]? = some c) (hwf : WFN cs s) :
    WFN cs (stepOpN cs o s op).1 ∧
    projK (stepOpN cs o s op).1 k = (stepOp c o (projK s k) op).1 ∧
    ((stepOpN cs o s op).2[k]?).getD none = (stepOp c o (projK s k) op).2 := by
  have hklt : k < cs.length := by
    rcases Nat.lt_or_ge k cs.length with h | h
    · exact h
    · rw [List.getElem?_eq_none_iff.mpr h] at hk; cases hk
  have hnone : ((nones cs)[k]?).getD none = none := by simp [nones, hk]
  have hinit : (cs.map (fun _ => Stats.init))[k]? = some Stats.init := by simp [List.getElem?_map, hk]
  have wfinit : WFN cs (some (cs.map (fun _ => Stats.init))) := by intro sts h; cases h; simp
  have wfnone : WFN cs none := by intro sts h; cases h
  cases op with
  | hit h =>
    cases s with
    | none => exact ⟨wfnone, by simp [stepOpN, stepOp, projK], by simp [stepOpN, stepOp, projK, hnone]⟩
    | some sts =>
      have hl := hwf sts rfl
      have hst : ∃ st, sts[k]? = some st := ⟨sts[k]'(by omega), List.getElem?_eq_getElem (by omega)⟩
      obtain ⟨st, hst⟩ := hst
      refine ⟨?_, ?_, ?_⟩
      · intro sts' h'
        simp only [stepOpN, Option.some.injEq] at h'
        subst h'
        simp [List.length_zipWith, hl]
      · simp [stepOpN, stepOp, projK, List.getElem?_map, List.getElem?_zipWith, hk, hst]
      · simp [stepOpN, stepOp, projK, List.getElem?_map, List.getElem?_zipWith, hk, hst]
  | update present =>
    cases o <;> cases present <;>
      first
        | exact ⟨wfinit, by simp [stepOpN, stepOp, projK, hinit], by simp [stepOpN, stepOp, hnone]⟩
        | exact ⟨wfnone, by simp [stepOpN, stepOp, projK], by simp [stepOpN, stepOp, hnone]⟩
        | exact ⟨hwf, by simp [stepOpN, stepOp], by simp [stepOpN, stepOp, hnone]⟩
  | noChange => exact ⟨hwf, by simp [stepOpN, stepOp], by simp [stepOpN, stepOp, hnone]⟩
  | otherCustom => exact ⟨hwf, by simp [stepOpN, stepOp], by simp [stepOpN, stepOp, hnone]⟩
  | register =>
    cases s with
    | none =>
      cases o <;>
        first
          | exact ⟨wfinit, by simp [stepOpN, stepOp, projK, hinit], by simp [stepOpN, stepOp, projK, hnone]⟩
          | exact ⟨hwf, by simp [stepOpN, stepOp, projK], by simp [stepOpN, stepOp, projK, hnone]⟩
    | some sts =>
      have hl := hwf sts rfl
      have hst : ∃ st, sts[k]? = some st := ⟨sts[k]'(by omega), List.getElem?_eq_getElem (by omega)⟩
      obtain ⟨st, hst⟩ := hst
      cases o <;>
        exact ⟨hwf, by simp [stepOpN, stepOp, projK, hst], by simp [stepOpN, stepOp, projK, hnone, hst]⟩
  | unregister =>
    cases o <;>
      first
        | exact ⟨wfnone, by simp [stepOpN, stepOp, projK], by simp [stepOpN, stepOp, hnone]⟩
        | exact ⟨hwf, by simp [stepOpN, stepOp], by simp [stepOpN, stepOp, hnone]⟩

theorem runOpsN_column (cs : List Cfg) (o : Origin) (k : Nat) (c : Cfg) (hk : cs[k]? = some c) :
    ∀ (ops : List Op) (s : Option (List Stats)), WFN cs s →
      column k (runOpsNFrom cs o s ops) = runOpsFrom c o (projK s k) ops := by
  intro ops
  induction ops with
  | nil => intro s _; simp [column, runOpsNFrom, runOpsFrom]
  | cons op ops ih =>
    intro s hwf
    obtain ⟨h1, h2, h3⟩ := stepOpN_sim cs o s op k c hk hwf
    have := ih (stepOpN cs o s op).1 h1
    simp only [column, runOpsNFrom, List.flatMap_cons, runOpsFrom] at this ⊢
    rw [this, h2, h3]

end Limiter
