/- the operation-level run of one tracepoint is the per-installation run of the statement's reading (Props/C04) -/
import DeepModel.Proofs.LimiterTimed
import DeepModel.Model.LimiterInstall

set_option linter.unusedSimpArgs false

namespace Limiter
open Extracted.Limiter

/-- collections the current installation has made so far -/
def preOf (c : Cfg) : Option (List Hit) → List Int
  | none => []
  | some hs => runHits c hs.reverse

/-- the statistics of the current installation's action object -/
def stOf (c : Cfg) : Option (List Hit) → Option Stats
  | none => none
  | some hs => some (runFrom c Stats.init hs.reverse).1

theorem preOf_hit (c : Cfg) (hs : List Hit) (h : Hit) :
    preOf c (some (h :: hs)) =
      preOf c (some hs) ++ (if (stepHit c (runFrom c Stats.init hs.reverse).1 h).2 then [h.ts] else []) := by
  simp only [preOf, runHits, List.reverse_cons, runFrom_append_one]
  by_cases hf : (stepHit c (runFrom c Stats.init hs.reverse).1 h).2 = true <;> simp [hf]

theorem stOf_hit (c : Cfg) (hs : List Hit) (h : Hit) :
    stOf c (some (h :: hs)) = some (stepHit c (runFrom c Stats.init hs.reverse).1 h).1 := by
  simp only [stOf, List.reverse_cons, runFrom_append_one]

private theorem closed_flat (c : Cfg) (cur : Option (List Hit)) :
    (closedOf cur).flatMap (runHits c) = preOf c cur := by
  cases cur <;> simp [preOf, closedOf]

/-- one operation: the code's state and output follow the statement's installations -/
theorem step_sim (c : Cfg) (o : Origin) (cur : Option (List Hit)) (op : Op) :
    (stepOp c o (stOf c cur) op).1 = stOf c (instStep o cur op) ∧
    preOf c cur ++ outOf (stepOp c o (stOf c cur) op).2 =
      (if closes o cur op then closedOf cur else []).flatMap (runHits c) ++ preOf c (instStep o cur op) := by
  cases op with
  | hit h =>
    cases cur with
    | none => simp [outOf, stepOp, stOf, instStep, closes, starts, ends, preOf]
    | some hs =>
      have e : instStep o (some hs) (.hit h) = some (h :: hs) := by simp [instStep, starts, ends]
      rw [e, stOf_hit, preOf_hit]
      by_cases hf : (stepHit c (runFrom c Stats.init hs.reverse).1 h).2 = true <;>
        simp [stepOp, stOf, closes, starts, ends, hf, outOf]
  | update present =>
    cases o <;> cases present <;> cases cur <;>
      simp [outOf, stepOp, stOf, instStep, closes, starts, ends, preOf, closedOf, runHits, runFrom]
  | noChange =>
    cases o <;> cases cur <;> simp [outOf, stepOp, stOf, instStep, closes, starts, ends, preOf, closedOf]
  | otherCustom =>
    cases o <;> cases cur <;> simp [outOf, stepOp, stOf, instStep, closes, starts, ends, preOf, closedOf]
  | register =>
    cases o <;> cases cur <;>
      simp [outOf, stepOp, stOf, instStep, closes, starts, ends, preOf, closedOf, runHits, runFrom]
  | unregister =>
    cases o <;> cases cur <;> simp [outOf, stepOp, stOf, instStep, closes, starts, ends, preOf, closedOf]

theorem ops_eq_installations (c : Cfg) (o : Origin) : ∀ (ops : List Op) (cur : Option (List Hit)),
    preOf c cur ++ runOpsFrom c o (stOf c cur) ops = (installationsFrom o cur ops).flatMap (runHits c) := by
  intro ops
  induction ops with
  | nil => intro cur; simp [runOpsFrom, installationsFrom, closed_flat]
  | cons op ops ih =>
    intro cur
    obtain ⟨h1, h2⟩ := step_sim c o cur op
    simp only [runOpsFrom, installationsFrom, List.flatMap_append]
    rw [h1, ← List.append_assoc, h2, List.append_assoc, ih]

/-- the hits among the operations -/
def hitsOf (ops : List Op) : List Hit := ops.filterMap (fun op => match op with | .hit h => some h | _ => none)

/-- a registered tracepoint whose registration is not removed has ONE installation, whatever else happens -/
theorem code_one_installation : ∀ (ops : List Op) (hs : List Hit), (∀ op ∈ ops, op ≠ .unregister) →
    installationsFrom .code (some hs) ops = [hs.reverse ++ hitsOf ops] := by
  intro ops
  induction ops with
  | nil => intro hs _; simp [installationsFrom, closedOf, hitsOf]
  | cons op ops ih =>
    intro hs h
    have hrest : ∀ op' ∈ ops, op' ≠ .unregister := fun op' hm => h op' (List.mem_cons_of_mem _ hm)
    have hop := h op (List.mem_cons_self ..)
    cases op with
    | hit x => simp [installationsFrom, instStep, closes, starts, ends, ih (x :: hs) hrest, hitsOf]
    | update present => simp [installationsFrom, instStep, closes, starts, ends, ih hs hrest, hitsOf]
    | noChange => simp [installationsFrom, instStep, closes, starts, ends, ih hs hrest, hitsOf]
    | otherCustom => simp [installationsFrom, instStep, closes, starts, ends, ih hs hrest, hitsOf]
    | register => simp [installationsFrom, instStep, closes, starts, ends, ih hs hrest, hitsOf]
    | unregister => exact absurd rfl hop

/-- a service tracepoint between two UPDATE responses has ONE installation, whatever else happens -/
theorem service_one_installation : ∀ (ops : List Op) (hs : List Hit), (∀ op ∈ ops, ∀ p, op ≠ .update p) →
    installationsFrom .service (some hs) ops = [hs.reverse ++ hitsOf ops] := by
  intro ops
  induction ops with
  | nil => intro hs _; simp [installationsFrom, closedOf, hitsOf]
  | cons op ops ih =>
    intro hs h
    have hrest : ∀ op' ∈ ops, ∀ p, op' ≠ .update p := fun op' hm => h op' (List.mem_cons_of_mem _ hm)
    have hop := h op (List.mem_cons_self ..)
    cases op with
    | hit x => simp [installationsFrom, instStep, closes, starts, ends, ih (x :: hs) hrest, hitsOf]
    | update present => exact absurd rfl (hop present)
    | noChange => simp [installationsFrom, instStep, closes, starts, ends, ih hs hrest, hitsOf]
    | otherCustom => simp [installationsFrom, instStep, closes, starts, ends, ih hs hrest, hitsOf]
    | register => simp [installationsFrom, instStep, closes, starts, ends, ih hs hrest, hitsOf]
    | unregister => simp [installationsFrom, instStep, closes, starts, ends, ih hs hrest, hitsOf]

end Limiter
