/-
  Proofs/GuardProg — consequences of the generic theorems in the form the property files use:
  isolation of a named loop inside a skeleton, and the stack resolution ending in a guarded function.
-/
import DeepModel.Proofs.GuardIso
import DeepModel.Proofs.GuardRet

namespace Guard
open Py (Exn)

/-- what `IsoLoopIn allowed id s` (a decidable check on the extracted skeleton) means: the loop exists and,
    under every environment whose faults are of the allowed classes, from every trace, it runs all its
    iterations and ends normally. -/
theorem isoLoopIn_spec (allowed : RaiseSet) (id : String) (s : Stmt) (h : IsoLoopIn allowed id s = true) :
    ∃ body, findLoop id s = some body ∧
      ∀ env, FaultsIn allowed env → ∀ tr, ∃ tr', exec env (.loop id body) tr = (.normal, tr') ∧
        (∀ j, j < env.iters tr id → Ev.iter id j ∈ tr') ∧ (∀ ev ∈ tr, ev ∈ tr') := by
  unfold IsoLoopIn at h
  cases hf : findLoop id s with
  | none => simp [hf] at h
  | some body =>
    simp only [hf] at h
    exact ⟨body, rfl, fun env hfi tr => iso_loop allowed env hfi id body h tr⟩

/-- the loop `id` of `s` is isolated and each iteration starts with a call (the callback) -/
def IsoCallLoopIn (allowed : RaiseSet) (id : String) (s : Stmt) : Bool :=
  match findLoop id s with
  | some b => IsoBody allowed b && (firstCall b).isSome
  | none => false

/-- … and then that call is made in every iteration, whatever failed in the others. -/
theorem isoCallLoopIn_spec (allowed : RaiseSet) (id : String) (s : Stmt)
    (h : IsoCallLoopIn allowed id s = true) :
    ∃ body site, findLoop id s = some body ∧ firstCall body = some site ∧
      ∀ env, FaultsIn allowed env → ∀ tr, ∃ tr', exec env (.loop id body) tr = (.normal, tr') ∧
        (∀ j, j < env.iters tr id → ∃ f, Adjacent (Ev.call site f) (Ev.iter id j) tr') := by
  unfold IsoCallLoopIn at h
  cases hf : findLoop id s with
  | none => simp [hf] at h
  | some body =>
    simp only [hf, Bool.and_eq_true] at h
    cases hfc : firstCall body with
    | none => simp [hfc] at h
    | some site =>
      refine ⟨body, site, rfl, hfc, fun env hfi tr => ?_⟩
      obtain ⟨tr', h1, h2, _⟩ := iso_loopN_calls allowed env hfi id body h.1 site hfc (env.iters tr id) 0 tr
      exact ⟨tr', by simpa [exec] using h1, fun j hj => h2 j (Nat.zero_le _) (by omega)⟩

/-- the same for the loop named by position (`lastLoop`) -/
theorem isoLastLoop_spec (allowed : RaiseSet) (s : Stmt) (h : IsoLastLoop allowed s = true) :
    ∃ id body, lastLoop s = some (id, body) ∧
      ∀ env, FaultsIn allowed env → ∀ tr, ∃ tr', exec env (.loop id body) tr = (.normal, tr') ∧
        (∀ j, j < env.iters tr id → Ev.iter id j ∈ tr') ∧ (∀ ev ∈ tr, ev ∈ tr') := by
  unfold IsoLastLoop at h
  cases hf : lastLoop s with
  | none => simp [hf] at h
  | some p =>
    obtain ⟨id, body⟩ := p
    simp only [hf] at h
    exact ⟨id, body, rfl, fun env hfi tr => iso_loop allowed env hfi id body h tr⟩

/-- the last loop of `s` is isolated and each iteration starts with a call (the callback) -/
def IsoCallLastLoop (allowed : RaiseSet) (s : Stmt) : Bool :=
  match lastLoop s with
  | some (_, b) => IsoBody allowed b && (firstCall b).isSome
  | none => false

theorem isoCallLastLoop_spec (allowed : RaiseSet) (s : Stmt) (h : IsoCallLastLoop allowed s = true) :
    ∃ id body site, lastLoop s = some (id, body) ∧ firstCall body = some site ∧
      ∀ env, FaultsIn allowed env → ∀ tr, ∃ tr', exec env (.loop id body) tr = (.normal, tr') ∧
        (∀ j, j < env.iters tr id → ∃ f, Adjacent (Ev.call site f) (Ev.iter id j) tr') := by
  unfold IsoCallLastLoop at h
  cases hf : lastLoop s with
  | none => simp [hf] at h
  | some p =>
    obtain ⟨id, body⟩ := p
    simp only [hf, Bool.and_eq_true] at h
    cases hfc : firstCall body with
    | none => simp [hfc] at h
    | some site =>
      refine ⟨id, body, site, rfl, hfc, fun env hfi tr => ?_⟩
      obtain ⟨tr', h1, h2, _⟩ := iso_loopN_calls allowed env hfi id body h.1 site hfc (env.iters tr id) 0 tr
      exact ⟨tr', by simpa [exec] using h1, fun j hj => h2 j (Nat.zero_le _) (by omega)⟩

/-- a statement that starts with the call `site` makes that call, whatever happens afterwards -/
theorem exec_firstCall_mem (env : Env) (s : Stmt) (site : String) (hfc : firstCall s = some site)
    (tr : Trace) (o : Out) (tr' : Trace) (h : exec env s tr = (o, tr')) : ∃ f, Ev.call site f ∈ tr' := by
  induction s generalizing tr o tr' with
  | call s0 =>
    simp only [firstCall, Option.some.injEq] at hfc
    subst hfc
    simp only [exec] at h
    split at h
    · rename_i e _
      simp only [Prod.mk.injEq] at h
      exact ⟨some e, by rw [← h.2]; simp⟩
    · simp only [Prod.mk.injEq] at h
      exact ⟨none, by rw [← h.2]; simp⟩
  | seq a b iha _ =>
    simp only [firstCall] at hfc
    simp only [exec] at h
    generalize hx : exec env a tr = ra at h
    obtain ⟨oa, ta⟩ := ra
    obtain ⟨f, hm⟩ := iha hfc _ _ _ hx
    refine ⟨f, ?_⟩
    cases oa with
    | normal => exact exec_mono env b _ _ _ _ hm h
    | returned v => simp only [Prod.mk.injEq] at h; exact h.2 ▸ hm
    | raised e => simp only [Prod.mk.injEq] at h; exact h.2 ▸ hm
    | broke => simp only [Prod.mk.injEq] at h; exact h.2 ▸ hm
    | continued => simp only [Prod.mk.injEq] at h; exact h.2 ▸ hm
  | tryExcept b c hid hd ihb _ =>
    simp only [firstCall] at hfc
    simp only [exec] at h
    generalize hx : exec env b tr = rb at h
    obtain ⟨ob, tb⟩ := rb
    obtain ⟨f, hm⟩ := ihb hfc _ _ _ hx
    refine ⟨f, ?_⟩
    cases ob with
    | raised e =>
      simp only at h
      split at h
      · exact exec_mono env hd _ _ _ _ (List.mem_cons_of_mem _ hm) h
      · simp only [Prod.mk.injEq] at h; exact h.2 ▸ hm
    | normal => simp only [Prod.mk.injEq] at h; exact h.2 ▸ hm
    | returned v => simp only [Prod.mk.injEq] at h; exact h.2 ▸ hm
    | broke => simp only [Prod.mk.injEq] at h; exact h.2 ▸ hm
    | continued => simp only [Prod.mk.injEq] at h; exact h.2 ▸ hm
  | tryFinally b f ihb _ =>
    simp only [firstCall] at hfc
    simp only [exec] at h
    generalize hx : exec env b tr = rb at h
    obtain ⟨ob, tb⟩ := rb
    obtain ⟨fl, hm⟩ := ihb hfc _ _ _ hx
    refine ⟨fl, ?_⟩
    simp only at h
    generalize hfn : exec env f tb = rf at h
    obtain ⟨of, tf⟩ := rf
    have := exec_mono env f _ _ _ _ hm hfn
    cases of <;> (simp only [Prod.mk.injEq] at h; exact h.2 ▸ this)
  | scope n b ih =>
    simp only [firstCall] at hfc
    simp only [exec] at h
    generalize hx : exec env b tr = rb at h
    obtain ⟨ob, tb⟩ := rb
    obtain ⟨f, hm⟩ := ih hfc _ _ _ hx
    refine ⟨f, ?_⟩
    cases ob <;> (simp only [Prod.mk.injEq] at h; exact h.2 ▸ hm)
  | pure => simp [firstCall] at hfc
  | assign _ _ => simp [firstCall] at hfc
  | branch _ _ _ _ _ => simp [firstCall] at hfc
  | loop _ _ _ => simp [firstCall] at hfc
  | ret _ => simp [firstCall] at hfc
  | raise _ => simp [firstCall] at hfc
  | brk => simp [firstCall] at hfc
  | cont => simp [firstCall] at hfc

/-- **`finally` always runs**: whatever the body of a `try/finally` does — completes, returns, raises either
    class — the first call of the `finally` block is made. -/
theorem finally_runs (env : Env) (b f : Stmt) (site : String) (hfc : firstCall f = some site)
    (tr : Trace) (o : Out) (tr' : Trace) (h : exec env (.tryFinally b f) tr = (o, tr')) :
    ∃ fl, Ev.call site fl ∈ tr' := by
  simp only [exec] at h
  generalize hx : exec env b tr = rb at h
  obtain ⟨ob, tb⟩ := rb
  simp only at h
  generalize hfn : exec env f tb = rf at h
  obtain ⟨of, tf⟩ := rf
  obtain ⟨fl, hm⟩ := exec_firstCall_mem env f site hfc _ _ _ hfn
  refine ⟨fl, ?_⟩
  cases of <;> (simp only [Prod.mk.injEq] at h; exact h.2 ▸ hm)

/-- a dynamic stack whose outermost frame is a guarded function never resolves to "escaped" -/
theorem resolve_guarded (p : Prog) (fn : String) (s : Stmt) (hp : p.get fn = some s) (hg : AllGuarded s)
    (site : String) : ∀ (inner : List (String × String)) (e e' : Exn),
      resolve p e (inner ++ [(fn, site)]) ≠ .escaped e' := by
  intro inner
  induction inner with
  | nil =>
    intro e e' h
    simp only [List.nil_append, resolve, hp] at h
    cases hc : catchAt site e s with
    | none => simp [hc] at h
    | some r =>
      cases r with
      | caught hid => simp [hc] at h
      | maybe hid e1 => simp [hc] at h
      | escapes e1 => exact catchAt_guarded s hg site e e1 hc
  | cons fr rest ih =>
    intro e e' h
    obtain ⟨f1, s1⟩ := fr
    simp only [List.cons_append, resolve] at h
    cases hq : p.get f1 with
    | none => simp only [hq] at h; exact ih _ _ h
    | some s' =>
      simp only [hq] at h
      cases hc : catchAt s1 e s' with
      | none => simp [hc] at h
      | some r =>
        cases r with
        | caught hid => simp [hc] at h
        | maybe hid e1 => simp [hc] at h
        | escapes e1 => simp only [hc] at h; exact ih _ _ h

/-! ### a guard in front of a function body -/

/-- a sequence stops at a statement that does not run to its end -/
theorem seq_stops (env : Env) (a b : Stmt) (tr : Trace) (o1 : Out) (t1 : Trace) (ha : exec env a tr = (o1, t1))
    (hn : o1 ≠ .normal) : exec env (.seq a b) tr = (o1, t1) := by
  simp only [exec, ha]
  cases o1 <;> simp_all

/-- `x = rd(); if c: clr(); return v` with `c` true: returns `v` or fails in one of the two calls, and records
    nothing but these two calls and the branch decision -/
theorem guard_prefix (env : Env) (rd clr c v : String) (hc : ∀ tr, env.cond tr c = true)
    (tr : Trace) (o : Out) (tr' : Trace)
    (h : exec env (.seq (.call rd) (.branch c (.seq (.call clr) (.ret v)) .pure)) tr = (o, tr')) :
    (o = .returned v ∨ ∃ e, o = .raised e) ∧
    ∀ ev ∈ tr', ev ∈ tr ∨ (∃ fl, ev = .call rd fl) ∨ ev = .took c true ∨ (∃ fl, ev = .call clr fl) := by
  simp only [exec, hc, if_true] at h
  cases h1 : env.fault tr rd with
  | some e =>
    simp only [h1, Prod.mk.injEq] at h
    refine ⟨Or.inr ⟨e, h.1.symm⟩, ?_⟩
    intro ev hev
    rw [← h.2] at hev
    rcases List.mem_cons.mp hev with rfl | hev
    · exact Or.inr (Or.inl ⟨_, rfl⟩)
    · exact Or.inl hev
  | none =>
    simp only [h1] at h
    cases h2 : env.fault (Ev.took c true :: Ev.call rd none :: tr) clr with
    | some e =>
      simp only [h2, Prod.mk.injEq] at h
      refine ⟨Or.inr ⟨e, h.1.symm⟩, ?_⟩
      intro ev hev
      rw [← h.2] at hev
      simp only [List.mem_cons] at hev
      rcases hev with rfl | rfl | rfl | hev
      · exact Or.inr (Or.inr (Or.inr ⟨_, rfl⟩))
      · exact Or.inr (Or.inr (Or.inl rfl))
      · exact Or.inr (Or.inl ⟨_, rfl⟩)
      · exact Or.inl hev
    | none =>
      simp only [h2, Prod.mk.injEq] at h
      refine ⟨Or.inl h.1.symm, ?_⟩
      intro ev hev
      rw [← h.2] at hev
      simp only [List.mem_cons] at hev
      rcases hev with rfl | rfl | rfl | hev
      · exact Or.inr (Or.inr (Or.inr ⟨_, rfl⟩))
      · exact Or.inr (Or.inr (Or.inl rfl))
      · exact Or.inr (Or.inl ⟨_, rfl⟩)
      · exact Or.inl hev

/-- … so a function that begins with such a guard executes nothing of its remaining body when `c` holds -/
theorem guarded_body_skipped (env : Env) (rd clr c v : String) (rest : Stmt) (hc : ∀ tr, env.cond tr c = true)
    (tr : Trace) (o : Out) (tr' : Trace)
    (h : exec env (.seq (.seq (.call rd) (.branch c (.seq (.call clr) (.ret v)) .pure)) rest) tr = (o, tr')) :
    (o = .returned v ∨ ∃ e, o = .raised e) ∧
    ∀ s, s ≠ rd → s ≠ clr → ∀ fl, Ev.call s fl ∈ tr' → Ev.call s fl ∈ tr := by
  generalize hp : exec env (.seq (.call rd) (.branch c (.seq (.call clr) (.ret v)) .pure)) tr = rp
  obtain ⟨o1, t1⟩ := rp
  obtain ⟨ho, hev⟩ := guard_prefix env rd clr c v hc tr o1 t1 hp
  have hn : o1 ≠ .normal := by
    rcases ho with rfl | ⟨e, rfl⟩ <;> simp
  rw [seq_stops env _ rest tr o1 t1 hp hn] at h
  simp only [Prod.mk.injEq] at h
  obtain ⟨rfl, rfl⟩ := h
  refine ⟨ho, ?_⟩
  intro s h1 h2 fl hm
  rcases hev _ hm with h' | ⟨fl', h'⟩ | h' | ⟨fl', h'⟩
  · exact h'
  · simp only [Ev.call.injEq] at h'; exact absurd h'.1 h1
  · simp at h'
  · simp only [Ev.call.injEq] at h'; exact absurd h'.1 h2

/-! ### sequences that end with a store -/

/-- when a sequence whose last statement is the store `self.f = v` runs to its end, the store was made -/
theorem normal_last_assign (env : Env) (f v : String) (s : Stmt) (hl : lastOf s = .assign f v) :
    ∀ tr tr', exec env s tr = (.normal, tr') → Ev.set f v ∈ tr' := by
  induction s with
  | seq a b _ ihb =>
    intro tr tr' h
    simp only [lastOf] at hl
    simp only [exec] at h
    generalize hx : exec env a tr = ra at h
    obtain ⟨oa, ta⟩ := ra
    cases oa with
    | normal => exact ihb hl _ _ h
    | returned v => simp at h
    | raised e => simp at h
    | broke => simp at h
    | continued => simp at h
  | assign f' v' =>
    intro tr tr' h
    simp only [lastOf, Stmt.assign.injEq] at hl
    simp only [exec, Prod.mk.injEq] at h
    rw [← h.2, hl.1, hl.2]; simp
  | call _ => simp [lastOf] at hl
  | pure => simp [lastOf] at hl
  | branch _ _ _ _ _ => simp [lastOf] at hl
  | loop _ _ _ => simp [lastOf] at hl
  | tryExcept _ _ _ _ _ _ => simp [lastOf] at hl
  | tryFinally _ _ _ _ => simp [lastOf] at hl
  | scope _ _ _ => simp [lastOf] at hl
  | ret _ => simp [lastOf] at hl
  | raise _ => simp [lastOf] at hl
  | brk => simp [lastOf] at hl
  | cont => simp [lastOf] at hl

/-- when a sequence ends with the store `self.f = v`, nothing before it makes that store, and the sequence does
    not run to its end (it raises, returns early, …), then the store was not made -/
theorem abnormal_before_last_assign (env : Env) (f v : String) (s : Stmt) (hl : lastOf s = .assign f v)
    (hn : maySet f v (dropLast s) = false) :
    ∀ tr o tr', exec env s tr = (o, tr') → o ≠ .normal → Ev.set f v ∈ tr' → Ev.set f v ∈ tr := by
  induction s with
  | seq a b _ ihb =>
    intro tr o tr' h ho hm
    simp only [exec] at h
    generalize hx : exec env a tr = ra at h
    obtain ⟨oa, ta⟩ := ra
    cases b with
    | seq b1 b2 =>
      simp only [lastOf] at hl
      simp only [dropLast, maySet, Bool.or_eq_false_iff] at hn
      have hpa := noSet_preserved env f v a hn.1 _ _ _ hx
      cases oa with
      | normal => exact hpa (ihb (by simpa [lastOf] using hl) hn.2 _ _ _ h ho hm)
      | returned v => simp only [Prod.mk.injEq] at h; exact hpa (h.2 ▸ hm)
      | raised e => simp only [Prod.mk.injEq] at h; exact hpa (h.2 ▸ hm)
      | broke => simp only [Prod.mk.injEq] at h; exact hpa (h.2 ▸ hm)
      | continued => simp only [Prod.mk.injEq] at h; exact hpa (h.2 ▸ hm)
    | assign f' v' =>
      simp only [dropLast] at hn
      have hpa := noSet_preserved env f v a hn _ _ _ hx
      cases oa with
      | normal =>
        simp only [exec, Prod.mk.injEq] at h
        exact absurd h.1.symm ho
      | returned v => simp only [Prod.mk.injEq] at h; exact hpa (h.2 ▸ hm)
      | raised e => simp only [Prod.mk.injEq] at h; exact hpa (h.2 ▸ hm)
      | broke => simp only [Prod.mk.injEq] at h; exact hpa (h.2 ▸ hm)
      | continued => simp only [Prod.mk.injEq] at h; exact hpa (h.2 ▸ hm)
    | call _ => simp [lastOf] at hl
    | pure => simp [lastOf] at hl
    | branch _ _ _ => simp [lastOf] at hl
    | loop _ _ => simp [lastOf] at hl
    | tryExcept _ _ _ _ => simp [lastOf] at hl
    | tryFinally _ _ => simp [lastOf] at hl
    | scope _ _ => simp [lastOf] at hl
    | ret _ => simp [lastOf] at hl
    | raise _ => simp [lastOf] at hl
    | brk => simp [lastOf] at hl
    | cont => simp [lastOf] at hl
  | assign f' v' =>
    intro tr o tr' h ho hm
    simp only [exec, Prod.mk.injEq] at h
    exact absurd h.1.symm ho
  | call _ => simp [lastOf] at hl
  | pure => simp [lastOf] at hl
  | branch _ _ _ _ _ => simp [lastOf] at hl
  | loop _ _ _ => simp [lastOf] at hl
  | tryExcept _ _ _ _ _ _ => simp [lastOf] at hl
  | tryFinally _ _ _ _ => simp [lastOf] at hl
  | scope _ _ _ => simp [lastOf] at hl
  | ret _ => simp [lastOf] at hl
  | raise _ => simp [lastOf] at hl
  | brk => simp [lastOf] at hl
  | cont => simp [lastOf] at hl

end Guard
