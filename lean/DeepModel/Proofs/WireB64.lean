/-
  Proofs/WireB64 — base64 of the basic-auth header (C08): a decoder for `Wire.b64encode` and the round trip, so the
  credentials the provider was given are exactly what the header carries.
-/
import DeepModel.Model.Wire

set_option linter.unusedSimpArgs false
set_option linter.unusedVariables false

namespace Wire

/-- `b64encode` as characters -/
def b64Chars : List Nat → List Char
  | [] => []
  | [a] => [b64Char (a / 4), b64Char (a % 4 * 16), '=', '=']
  | [a, b] => [b64Char (a / 4), b64Char (a % 4 * 16 + b / 16), b64Char (b % 16 * 4), '=']
  | a :: b :: c :: rest =>
    [b64Char (a / 4), b64Char (a % 4 * 16 + b / 16), b64Char (b % 16 * 4 + c / 64), b64Char (c % 64)] ++ b64Chars rest

theorem b64encode_toList : ∀ bs : List Nat, (b64encode bs).toList = b64Chars bs
  | [] => by simp [b64encode, b64Chars]
  | [a] => by simp [b64encode, b64Chars]
  | [a, b] => by simp [b64encode, b64Chars]
  | a :: b :: c :: rest => by
    have ih := b64encode_toList rest
    simp [b64encode, b64Chars, ih]

/-- the value of a base64 digit (RFC 4648 alphabet) -/
def b64Val (c : Char) : Option Nat :=
  if 'A' ≤ c ∧ c ≤ 'Z' then some (c.toNat - 65)
  else if 'a' ≤ c ∧ c ≤ 'z' then some (c.toNat - 71)
  else if '0' ≤ c ∧ c ≤ '9' then some (c.toNat + 4)
  else if c = '+' then some 62
  else if c = '/' then some 63
  else none

/-- `base64.b64decode` (strict: padding only in the last group) -/
def b64decode : List Char → Option (List Nat)
  | [] => some []
  | a :: b :: c :: d :: rest =>
    match b64Val a, b64Val b with
    | some x, some y =>
      if c = '=' ∧ d = '=' ∧ rest = [] then some [x * 4 + y / 16]
      else
        match b64Val c with
        | some z =>
          if d = '=' ∧ rest = [] then some [x * 4 + y / 16, y % 16 * 16 + z / 4]
          else
            match b64Val d, b64decode rest with
            | some w, some r => some ((x * 4 + y / 16) :: (y % 16 * 16 + z / 4) :: (z % 4 * 64 + w) :: r)
            | _, _ => none
        | none => none
    | _, _ => none
  | _ => none

set_option maxRecDepth 8192 in
theorem b64Val_char : ∀ n : Fin 64, b64Val (b64Char n.val) = some n.val ∧ b64Char n.val ≠ '=' := by decide

theorem b64Val_of_lt {n : Nat} (h : n < 64) : b64Val (b64Char n) = some n := (b64Val_char ⟨n, h⟩).1
theorem b64Char_ne_pad {n : Nat} (h : n < 64) : b64Char n ≠ '=' := (b64Val_char ⟨n, h⟩).2

/-- **base64 round trip**: every byte string, of any length, is recovered from its encoding -/
theorem b64decode_chars : ∀ bs : List Nat, bytesOk bs = true → b64decode (b64Chars bs) = some bs
  | [], _ => by simp [b64Chars, b64decode]
  | [a], h => by
    simp only [bytesOk, List.all_cons, List.all_nil, Bool.and_true, decide_eq_true_eq] at h
    have h1 : a / 4 < 64 := by omega
    have h2 : a % 4 * 16 < 64 := by omega
    simp only [b64Chars, b64decode, b64Val_of_lt h1, b64Val_of_lt h2]
    simp
    omega
  | [a, b], h => by
    simp only [bytesOk, List.all_cons, List.all_nil, Bool.and_true, Bool.and_eq_true, decide_eq_true_eq] at h
    have h1 : a / 4 < 64 := by omega
    have h2 : a % 4 * 16 + b / 16 < 64 := by omega
    have h3 : b % 16 * 4 < 64 := by omega
    have n3 := b64Char_ne_pad h3
    simp only [b64Chars, b64decode, b64Val_of_lt h1, b64Val_of_lt h2, b64Val_of_lt h3]
    simp [n3]
    omega
  | a :: b :: c :: rest, h => by
    simp only [bytesOk, List.all_cons, Bool.and_eq_true, decide_eq_true_eq] at h
    have ih := b64decode_chars rest (by simpa [bytesOk] using h.2.2.2)
    have h1 : a / 4 < 64 := by omega
    have h2 : a % 4 * 16 + b / 16 < 64 := by omega
    have h3 : b % 16 * 4 + c / 64 < 64 := by omega
    have h4 : c % 64 < 64 := by omega
    have n3 := b64Char_ne_pad h3
    have n4 := b64Char_ne_pad h4
    simp only [b64Chars, List.cons_append, List.nil_append, b64decode, b64Val_of_lt h1, b64Val_of_lt h2,
      b64Val_of_lt h3, b64Val_of_lt h4, ih]
    simp [n3, n4]
    omega

theorem utf8_bytesOk (s : String) : bytesOk (utf8 s) = true := by
  simp only [bytesOk, utf8, List.all_map, List.all_eq_true, Function.comp, decide_eq_true_eq]
  intro x _
  exact UInt8.toNat_lt x

theorem b64_roundtrip (bs : List Nat) (h : bytesOk bs = true) : b64decode (b64encode bs).toList = some bs := by
  rw [b64encode_toList, b64decode_chars bs h]

end Wire
