/-
  Proofs/Wire — lemmas for C08: every translated converter is inverted by the documented reading of the message,
  and protobuf accepts what a well-formed snapshot converts to.
-/
import DeepModel.Model.Wire

set_option linter.unusedSimpArgs false

namespace Wire
open Extracted.Wire

/-! ### the 16 id bytes -/

theorem fromBytesBig_append (a : List Nat) (x : Nat) : fromBytesBig (a ++ [x]) = fromBytesBig a * 256 + x := by
  simp [fromBytesBig, List.foldl_append]

theorem fromBytes_toBytesAux (k : Nat) : ∀ n, fromBytesBig (toBytesAux k n) = n % 256 ^ k := by
  induction k with
  | zero => intro n; simp [toBytesAux, fromBytesBig, Nat.mod_one]
  | succ k ih =>
    intro n
    rw [toBytesAux, fromBytesBig_append, ih, Nat.pow_succ, Nat.mul_comm (256 ^ k) 256, Nat.mod_mul]
    omega

theorem toBytesAux_ok (k : Nat) : ∀ n, bytesOk (toBytesAux k n) = true := by
  induction k with
  | zero => intro n; simp [toBytesAux, bytesOk]
  | succ k ih =>
    intro n
    have := ih (n / 256)
    simp only [bytesOk, List.all_eq_true, decide_eq_true_eq] at this ⊢
    intro x hx
    simp only [toBytesAux, List.mem_append, List.mem_singleton] at hx
    rcases hx with h | h
    · exact this x h
    · omega

theorem id_roundtrip {n : Nat} (h : n < 256 ^ 16) :
    toBytesBig 16 n = some (toBytesAux 16 n) ∧ fromBytesBig (toBytesAux 16 n) = n := by
  refine ⟨by simp [toBytesBig, h], ?_⟩
  rw [fromBytes_toBytesAux, Nat.mod_eq_of_lt h]

/-! ### attribute values -/

theorem project_prim {v : PyVal} (h : v.isPrim = true) : projectValue (convert_value v) = v := by
  cases v <;> simp [PyVal.isPrim] at h <;> simp [convert_value, projectValue]

theorem project_list : ∀ vs : PyVals, PyVals.all (fun x => x.isPrim || x.isNone) vs = true →
    projectList (value_as_list vs) = vs
  | .nil, _ => by simp [value_as_list, projectList]
  | .cons v r, h => by
    simp only [PyVals.all, Bool.and_eq_true, Bool.or_eq_true] at h
    have hr := project_list r h.2
    rcases h.1 with hp | hn
    · have hv := project_prim hp
      cases v <;> simp [PyVal.isPrim] at hp <;> simp_all [value_as_list, projectList]
    · cases v <;> simp [PyVal.isNone] at hn
      simp [value_as_list, projectList, projectValue, hr]

/-- every value `BoundedAttributes` can hold is read back unchanged -/
theorem project_convert_value {v : PyVal} (h : v.holdable = true) : projectValue (convert_value v) = v := by
  cases v with
  | tuple vs =>
    simp only [PyVal.holdable] at h
    simp [convert_value, projectValue, project_list vs h]
  | none => simp [PyVal.holdable, PyVal.isPrim] at h
  | bool b => simp [convert_value, projectValue]
  | str t => simp [convert_value, projectValue]
  | int i => simp [convert_value, projectValue]
  | float f => simp [convert_value, projectValue]
  | bytes b => simp [PyVal.holdable, PyVal.isPrim] at h
  | dict kvs => simp [PyVal.holdable, PyVal.isPrim] at h
  | list vs => simp [PyVal.holdable, PyVal.isPrim] at h
  | other t => simp [PyVal.holdable, PyVal.isPrim] at h

theorem accepts_prim {v : PyVal} (hp : v.isPrim = true) (hi : v.intFits = true) (ht : v.strOk = true) :
    (convert_value v).accepts = true ∧ convert_value v ≠ .pyNone := by
  cases v <;> simp [PyVal.isPrim] at hp <;>
    simp_all [convert_value, PAnyValue.accepts, PyVal.intFits, PyVal.strOk]

theorem accepts_list : ∀ vs : PyVals, PyVals.all (fun x => x.isPrim || x.isNone) vs = true →
    PyVals.all PyVal.intFits vs = true → PyVals.all PyVal.strOk vs = true → (value_as_list vs).accepts = true
  | .nil, _, _, _ => by simp [value_as_list, PAnyList.accepts]
  | .cons v r, h, hi, ht => by
    simp only [PyVals.all, Bool.and_eq_true, Bool.or_eq_true] at h hi ht
    have hr := accepts_list r h.2 hi.2 ht.2
    have h1 := h.1
    have hi1 := hi.1
    have ht1 := ht.1
    cases v <;> simp [PyVal.isPrim, PyVal.isNone] at h1 <;>
      simp_all [value_as_list, convert_value, PAnyList.accepts, PAnyValue.accepts, PyVal.intFits, PyVal.strOk]

/-- …and protobuf takes it, provided ints fit an int64 and text is well formed -/
theorem accepts_convert_value {v : PyVal} (h : v.holdable = true)
    (hi : v.intsFit = true) (ht : v.textOk = true) : (convert_value v).accepts = true := by
  cases v with
  | tuple vs =>
    simp only [PyVal.holdable, PyVal.intsFit, PyVal.textOk] at h hi ht
    simp [convert_value, PAnyValue.accepts, accepts_list vs h hi ht]
  | none => simp [PyVal.holdable, PyVal.isPrim] at h
  | bool b => simp [convert_value, PAnyValue.accepts]
  | str t => simpa [convert_value, PAnyValue.accepts, PyVal.textOk, PyVal.strOk] using ht
  | int i => simpa [convert_value, PAnyValue.accepts, PyVal.intsFit, PyVal.intFits] using hi
  | float f => simp [convert_value, PAnyValue.accepts]
  | bytes b => simp [PyVal.holdable, PyVal.isPrim] at h
  | dict kvs => simp [PyVal.holdable, PyVal.isPrim] at h
  | list vs => simp [PyVal.holdable, PyVal.isPrim] at h
  | other t => simp [PyVal.holdable, PyVal.isPrim] at h

/-! ### the message structures: read back -/

theorem project_variableId (v : VariableId) : projectVariableId (convertVariableId v) = v := by
  cases v; rfl

theorem project_variableIds (vs : List VariableId) :
    (vs.map (fun c => convertVariableId c)).map projectVariableId = vs := by
  simp [List.map_map, Function.comp_def, project_variableId]

theorem project_variable (v : Variable) : projectVariable (convertVariable v) = v := by
  cases v
  simp only [convertVariable, projectVariable, project_variableIds, Option.getD_some]

theorem project_frame (f : StackFrame) : projectFrame (convertFrame f) = f := by
  cases f
  simp only [convertFrame, projectFrame, project_variableIds, Option.getD_some]

theorem source_roundtrip {t : Text} (h : watchSources.any (fun n => Text.ofString n == t) = true) :
    (watchSourceValue t).isSome = true ∧ watchSourceName (watchSourceValue t) = t ∧
      Option.any inEnum (watchSourceValue t) = true := by
  simp only [watchSources, List.any_cons, List.any_nil, Bool.or_false, Bool.or_eq_true, beq_iff_eq] at h
  rcases h with h | h | h | h <;> subst h <;> decide

theorem project_watch {w : WatchResult} (h : w.wellFormed = true) : projectWatch (convertWatch w) = w := by
  obtain ⟨e, r, er, src⟩ := w
  simp only [WatchResult.wellFormed, Bool.and_eq_true, Bool.not_eq_true', Bool.and_eq_false_iff] at h
  have hs := (source_roundtrip h.2).2.1
  simp only [convertWatch, projectWatch, convertWatchSource, hs]
  cases er with
  | some e' =>
    have : r = none := by
      rcases h.1 with h1 | h1
      · cases r <;> simp_all
      · simp at h1
    simp [this]
  | none =>
    cases r <;> simp [project_variableId]

theorem project_tracepoint (t : TracePointConfig) : projectTracepoint (convertTracepoint t) = t := by
  cases t; rfl

theorem project_attrs (a : List (Text × PyVal)) (h : attrsAll PyVal.holdable a = true) :
    (a.map (fun (k, v) => ({ key := k, value := convert_value v } : PKeyValue))).map projectKeyValue = a := by
  induction a with
  | nil => rfl
  | cons kv rest ih =>
    simp only [attrsAll, List.all_cons, Bool.and_eq_true] at h
    have := ih (by simpa [attrsAll] using h.2)
    obtain ⟨k, v⟩ := kv
    simp only [List.map_cons, projectKeyValue, project_convert_value h.1] at this ⊢
    rw [this]

theorem project_lookup (l : List (Text × Variable)) :
    (convertLookup l).map (fun kv => (kv.1, projectVariable kv.2)) = l := by
  induction l with
  | nil => rfl
  | cons kv rest ih =>
    obtain ⟨k, v⟩ := kv
    simp only [convertLookup, List.map_cons, project_variable] at ih ⊢
    rw [ih]

theorem project_watches (ws : List WatchResult) (h : ws.all WatchResult.wellFormed = true) :
    (ws.map (fun w => convertWatch w)).map projectWatch = ws := by
  induction ws with
  | nil => rfl
  | cons w rest ih =>
    simp only [List.all_cons, Bool.and_eq_true] at h
    simp only [List.map_cons, project_watch h.1, ih h.2]

theorem project_frames (fs : List StackFrame) : (fs.map (fun f => convertFrame f)).map projectFrame = fs := by
  simp [List.map_map, Function.comp_def, project_frame]

/-- reading back the translated `Snapshot(...)` expression gives the snapshot -/
theorem project_snapshot {s : EventSnapshot} (h : s.collectable = true) :
    projectSnapshot (convertSnapshotRaw s) = s := by
  obtain ⟨id, tp, vl, ts, fr, wa, at_, du, re, lg⟩ := s
  simp only [EventSnapshot.collectable, Bool.and_eq_true, decide_eq_true_eq] at h
  obtain ⟨⟨⟨⟨⟨⟨⟨hid, _⟩, _⟩, _⟩, _⟩, hw⟩, ha⟩, hr⟩ := h
  have hb := id_roundtrip hid
  simp only [convertSnapshotRaw, projectSnapshot, hb.1, Option.getD_some, hb.2, project_tracepoint,
    project_lookup, project_frames, project_watches wa hw, project_attrs at_ ha, project_attrs re hr]

/-! ### protobuf accepts the converted parts -/

theorem accepts_variableId {v : VariableId} (h : v.textOk = true) : (convertVariableId v).accepts = true := by
  cases v
  simpa [VariableId.textOk, convertVariableId, PVariableID.accepts] using h

theorem accepts_variableIds {vs : List VariableId} (h : vs.all VariableId.textOk = true) :
    (vs.map (fun c => convertVariableId c)).all (fun x => PVariableID.accepts x) = true := by
  simp only [List.all_eq_true, List.mem_map] at h ⊢
  rintro x ⟨v, hv, rfl⟩
  exact accepts_variableId (h v hv)

theorem accepts_variable {v : Variable} (h : v.textOk = true) : (convertVariable v).accepts = true := by
  cases v
  simp only [Variable.textOk, Bool.and_eq_true] at h
  simp only [convertVariable, PVariable.accepts, Bool.and_eq_true]
  exact ⟨⟨⟨h.1.1.1, h.1.1.2⟩, h.1.2⟩, accepts_variableIds h.2⟩

theorem accepts_frame {f : StackFrame} (h : f.textOk = true) (hr : f.inRange = true) :
    (convertFrame f).accepts = true := by
  cases f
  simp only [StackFrame.textOk, StackFrame.inRange, Bool.and_eq_true] at h hr
  simp only [convertFrame, PStackFrame.accepts, Bool.and_eq_true, Option.all_some]
  obtain ⟨⟨⟨⟨⟨h1, h2⟩, h3⟩, h4⟩, h5⟩, h6⟩ := h
  obtain ⟨⟨⟨r1, r2⟩, r3⟩, r4⟩ := hr
  exact ⟨⟨⟨⟨⟨⟨⟨⟨⟨h1, h3⟩, r1⟩, h4⟩, r2⟩, h5⟩, r3⟩, r4⟩, accepts_variableIds h6⟩, h2⟩

theorem accepts_watch {w : WatchResult} (h : w.textOk = true) (hw : w.wellFormed = true) :
    (convertWatch w).accepts = true := by
  obtain ⟨e, r, er, src⟩ := w
  simp only [WatchResult.textOk, WatchResult.wellFormed, Bool.and_eq_true] at h hw
  have hs := (source_roundtrip hw.2).2.2
  simp only [convertWatch, PWatchResult.accepts, Bool.and_eq_true, convertWatchSource]
  refine ⟨⟨⟨h.1.1, ?_⟩, h.2⟩, hs⟩
  cases r with
  | none => rfl
  | some v => simpa using accepts_variableId (by simpa using h.1.2)

theorem accepts_tracepoint {t : TracePointConfig} (h : t.textOk = true) (hl : inU32 t.line_no = true) :
    (convertTracepoint t).accepts = true := by
  cases t
  simp only [TracePointConfig.textOk, Bool.and_eq_true] at h
  simp only [convertTracepoint, PTracePointConfig.accepts, Bool.and_eq_true, List.all_nil]
  exact ⟨⟨⟨⟨⟨h.1.1.1, h.1.1.2⟩, hl⟩, h.1.2⟩, h.2⟩, trivial⟩

theorem accepts_attrs (a : List (Text × PyVal)) (hk : attrKeysOk a = true) (h : attrsAll PyVal.holdable a = true)
    (hi : attrsAll PyVal.intsFit a = true)
    (ht : attrsAll PyVal.textOk a = true) :
    (a.map (fun (k, v) => ({ key := k, value := convert_value v } : PKeyValue))).all
      (fun x => PKeyValue.accepts x) = true := by
  simp only [attrKeysOk, attrsAll, List.all_eq_true, List.mem_map] at *
  rintro x ⟨⟨k, v⟩, hm, rfl⟩
  simp only [PKeyValue.accepts, Bool.and_eq_true]
  exact ⟨hk _ hm, accepts_convert_value (h _ hm) (hi _ hm) (ht _ hm)⟩

/-- protobuf builds the message for a collectable snapshot with well-formed text whose attribute ints fit an int64 -/
theorem accepts_snapshot {s : EventSnapshot} (hc : s.collectable = true) (ht : s.textOk = true)
    (hi : s.intsFit = true) : (convertSnapshotRaw s).accepts = true := by
  obtain ⟨id, tp, vl, ts, fr, wa, at_, du, re, lg⟩ := s
  simp only [EventSnapshot.collectable, EventSnapshot.textOk, EventSnapshot.intsFit,
    Bool.and_eq_true, decide_eq_true_eq] at hc ht hi
  obtain ⟨⟨⟨⟨⟨⟨⟨hid, hts⟩, hdu⟩, hln⟩, hfr⟩, hw⟩, ha⟩, hr⟩ := hc
  obtain ⟨⟨⟨⟨⟨⟨⟨⟨ttp, tvl⟩, tfr⟩, twa⟩, tak⟩, tat⟩, trk⟩, tre⟩, tlg⟩ := ht
  have hb := id_roundtrip hid
  simp only [convertSnapshotRaw, PSnapshot.accepts, Bool.and_eq_true, hb.1, Option.any_some, Option.all_some,
    toBytesAux_ok]
  refine ⟨⟨⟨⟨⟨⟨⟨⟨⟨trivial, accepts_tracepoint ttp hln⟩, ?_⟩, hts⟩, ?_⟩, ?_⟩,
    accepts_attrs at_ tak ha hi.1 tat⟩, hdu⟩, accepts_attrs re trk hr hi.2 tre⟩, tlg⟩
  · simp only [convertLookup, List.all_eq_true, List.mem_map] at tvl ⊢
    rintro x ⟨⟨k, v⟩, hm, rfl⟩
    have := tvl _ hm
    simp only [Bool.and_eq_true] at this ⊢
    exact ⟨this.1, accepts_variable this.2⟩
  · simp only [List.all_eq_true, List.mem_map] at tfr hfr ⊢
    rintro x ⟨f, hm, rfl⟩
    exact accepts_frame (tfr f hm) (hfr f hm)
  · simp only [List.all_eq_true, List.mem_map] at twa hw ⊢
    rintro x ⟨w, hm, rfl⟩
    exact accepts_watch (twa w hm) (hw w hm)

/-! ### auth -/

theorem build_provided (c : AuthCfg) : buildMetadata (provided c) = expectedMetadata c := by
  obtain ⟨pn, kind, u, pw⟩ := c
  unfold provided expectedMetadata noProvider buildMetadata
  cases pn with
  | none => simp
  | some name =>
    by_cases h : name = ""
    · subst h; simp
    · cases kind with
      | custom md => simp [h]
      | unloadable => simp [h]
      | notAProvider => simp [h]
      | basic =>
        simp only [Option.isNone_some, Bool.false_or, beq_iff_eq, Option.some.injEq, h, if_false]
        cases u <;> cases pw <;> simp [basicProvide]

theorem metadata_inv (c : AuthCfg) (faults : Nat → Bool) (g : Grpc)
    (h : g.cache = none ∨ g.cache = some (expectedMetadata c)) :
    (∀ md, (g.metadata c faults).1 = some md → md = expectedMetadata c) ∧
      ((g.metadata c faults).2.cache = none ∨ (g.metadata c faults).2.cache = some (expectedMetadata c)) := by
  have hb := build_provided c
  unfold Grpc.metadata
  rcases h with h | h
  · simp only [h]
    cases hp : provided c with
    | none =>
      rw [hp] at hb
      cases metadataCached <;> simp [hb, h]
    | some p =>
      rw [hp] at hb
      by_cases hf : faults g.asked = true
      · simp [hf, h]
      · cases metadataCached <;> simp [hf, hb]
  · simp [h]

theorem step_inv (c : AuthCfg) (faults : Nat → Bool) (g : Grpc) (op : Op)
    (h : g.cache = none ∨ g.cache = some (expectedMetadata c)) :
    (∀ x, (step c faults g op).1.metadata = some x → x = some (expectedMetadata c)) ∧
      ((step c faults g op).2.cache = none ∨ (step c faults g op).2.cache = some (expectedMetadata c)) := by
  have hm := metadata_inv c faults g h
  cases op with
  | poll ts hash res =>
    simp only [step]
    split
    · exact ⟨(by intro x hx; simp [Wire.metadata] at hx), h⟩
    · split
      · simp only [pollMetadataArg]
        split
        · rename_i md g' heq
          have h1 : (g.metadata c faults).1 = some md := by rw [heq]
          have h2 : (g.metadata c faults).2 = g' := by rw [heq]
          refine ⟨?_, by rw [← h2]; exact hm.2⟩
          intro x hx
          simp only [Wire.metadata, Option.some.injEq] at hx
          rw [← hx, hm.1 md h1]
        · rename_i g' heq
          have h2 : (g.metadata c faults).2 = g' := by rw [heq]
          exact ⟨(by intro x hx; simp [Wire.metadata] at hx), by rw [← h2]; exact hm.2⟩
      · exact ⟨(by intro x hx; simp [Wire.metadata] at hx), h⟩
  | push s =>
    simp only [step]
    split
    · exact ⟨(by intro x hx; simp [Wire.metadata] at hx), h⟩
    · simp only [sendMetadataArg]
      split
      · rename_i md g' heq
        have h1 : (g.metadata c faults).1 = some md := by rw [heq]
        have h2 : (g.metadata c faults).2 = g' := by rw [heq]
        refine ⟨?_, by rw [← h2]; exact hm.2⟩
        intro x hx
        simp only [Wire.metadata, Option.some.injEq] at hx
        rw [← hx, hm.1 md h1]
      · rename_i g' heq
        have h2 : (g.metadata c faults).2 = g' := by rw [heq]
        exact ⟨(by intro x hx; simp [Wire.metadata] at hx), by rw [← h2]; exact hm.2⟩

theorem run_inv (c : AuthCfg) (faults : Nat → Bool) : ∀ (ops : List Op) (g : Grpc),
    (g.cache = none ∨ g.cache = some (expectedMetadata c)) →
    ∀ w ∈ run c faults g ops, ∀ x, w.metadata = some x → x = some (expectedMetadata c) := by
  intro ops
  induction ops with
  | nil => intro g _ w hw; cases hw
  | cons op rest ih =>
    intro g h w hw x hx
    have hs := step_inv c faults g op h
    simp only [run, List.mem_cons] at hw
    rcases hw with rfl | hw
    · exact hs.1 x hx
    · exact ih _ hs.2 w hw x hx

/-- a request is still sent once the provider has recovered: with an empty cache and a provider that answers now,
    `metadata()` returns the provider's value -/
theorem metadata_recovers (c : AuthCfg) (faults : Nat → Bool) (g : Grpc) (h : g.cache = none)
    (hok : faults g.asked = false) : (g.metadata c faults).1 = some (expectedMetadata c) := by
  have hb := build_provided c
  unfold Grpc.metadata
  simp only [h]
  cases hp : provided c with
  | none => rw [hp] at hb; simp [hb]
  | some p => rw [hp] at hb; simp [hok, hb]

/-! ### a provider class that cannot be loaded -/

theorem metadata_unloadable (c : AuthCfg) (g : Grpc) (hp : noProvider c.providerName = false)
    (hk : c.kind ≠ .notAProvider) (h : g.cache = none) :
    g.metadata c (fun _ => true) = (none, { g with asked := g.asked + 1 }) := by
  obtain ⟨pn, kind, u, pw⟩ := c
  unfold Grpc.metadata provided
  cases kind <;> simp_all

theorem step_unloadable (c : AuthCfg) (g : Grpc) (op : Op) (hp : noProvider c.providerName = false)
    (hk : c.kind ≠ .notAProvider)
    (hm : pollMetadataArg = some "self.grpc.metadata()" ∧ sendMetadataArg = some "self.grpc.metadata()")
    (h : g.cache = none) :
    (step c (fun _ => true) g op).1.metadata = none ∧ (step c (fun _ => true) g op).2.cache = none := by
  have hu := metadata_unloadable c g hp hk h
  cases op with
  | poll ts hash res =>
    simp only [step, hm.1, hu]
    split
    · exact ⟨rfl, h⟩
    · split
      · exact ⟨rfl, h⟩
      · exact ⟨rfl, h⟩
  | push s =>
    simp only [step, hm.2, hu]
    split
    · exact ⟨rfl, h⟩
    · exact ⟨rfl, h⟩

theorem run_unloadable (c : AuthCfg) (hp : noProvider c.providerName = false) (hk : c.kind ≠ .notAProvider)
    (hm : pollMetadataArg = some "self.grpc.metadata()" ∧ sendMetadataArg = some "self.grpc.metadata()") :
    ∀ (ops : List Op) (g : Grpc), g.cache = none → ∀ w ∈ run c (fun _ => true) g ops, w.metadata = none := by
  intro ops
  induction ops with
  | nil => intro g _ w hw; cases hw
  | cons op rest ih =>
    intro g h w hw
    have hs := step_unloadable c g op hp hk hm h
    simp only [run, List.mem_cons] at hw
    rcases hw with rfl | hw
    · exact hs.1
    · exact ih _ hs.2 w hw

/-! ### threads -/

theorem cstep_inv (c : AuthCfg) (s : Conc) (tid : Nat)
    (h : (s.cache = none ∨ s.cache = some (expectedMetadata c)) ∧ ∀ md ∈ s.sent, md = expectedMetadata c) :
    ((cstep c s tid).cache = none ∨ (cstep c s tid).cache = some (expectedMetadata c)) ∧
      ∀ md ∈ (cstep c s tid).sent, md = expectedMetadata c := by
  have hb := build_provided c
  unfold cstep
  split
  · split
    · rename_i md hc
      refine ⟨h.1, ?_⟩
      intro x hx
      simp only [List.mem_append, List.mem_singleton] at hx
      rcases hx with hx | hx
      · exact h.2 x hx
      · rcases h.1 with h1 | h1
        · rw [h1] at hc; cases hc
        · rw [h1] at hc; cases hc; exact hx
    · exact h
  · refine ⟨?_, ?_⟩
    · cases metadataCached <;> simp [hb, h.1]
    · intro x hx
      simp only [List.mem_append, List.mem_singleton] at hx
      rcases hx with hx | hx
      · exact h.2 x hx
      · rw [hx, hb]
  · exact h

theorem crun_inv (c : AuthCfg) (sched : List Nat) : ∀ (s : Conc),
    ((s.cache = none ∨ s.cache = some (expectedMetadata c)) ∧ ∀ md ∈ s.sent, md = expectedMetadata c) →
    ∀ md ∈ (sched.foldl (cstep c) s).sent, md = expectedMetadata c := by
  induction sched with
  | nil => intro s h; exact h.2
  | cons t rest ih => intro s h; exact ih _ (cstep_inv c s t h)

end Wire
