/-
  Proofs/FramesKids — the children an entry lists are, in order, a prefix of the children its object has by kind;
  what is missing is still in the work list or was cut by the variable budget (C02).

  Invariant of one search (`SInv`) and of the table between searches (`TInv`), carried through `Collector.step`,
  `run`, `processVariable`, `collectFrames`, `collectWatches`, `collect`.
-/
import DeepModel.Proofs.FramesSpec

namespace Frames
open Heap Collector FrameBase Extracted.Frames Extracted.Collector

def refKid (r : VarId) : Spec.Kid := ⟨r.name, r.orig, r.obj⟩

/-- the work-list nodes whose parent is entry `p`, in work-list order -/
def pending (q : List Node) (p : Nat) : List Node := q.filter (fun n => decide (n.parent = some p))

/-- listed ++ still queued ++ lost = all children of the kind -/
def KidsInv (x : Bool) (H : Heap) (L : Limits) (q : List Node) (e : Entry) : Prop :=
  ∃ cs lost, childNodes L e.vid (H.obj e.obj) e.depth = .ok cs ∧
    e.children.map refKid ++ (pending q e.vid).map kidOf ++ lost = cs.map kidOf ∧ (x = true → lost = [])

structure SInv (x : Bool) (H : Heap) (L : Limits) (s : BState) : Prop where
  vids : ∀ e ∈ s.table, e.vid ≤ s.cache.length
  parents : ∀ n ∈ s.queue, ∀ p, n.parent = some p → p ≤ s.cache.length
  kids : s.failed = none → ∀ e ∈ s.table, KidsInv x H L s.queue e

structure TInv (x : Bool) (H : Heap) (L : Limits) (c : Cache) (t : List Entry) : Prop where
  vids : ∀ e ∈ t, e.vid ≤ c.length
  kids : ∀ e ∈ t, KidsInv x H L [] e

theorem newId_eq (c : Cache) : newId c = c.length + 1 := by
  simp [newId, newVarId]

theorem pop_front {q : List Node} {n : Node} {rest : List Node} (h : pop q = some (n, rest)) : q = n :: rest := by
  unfold pop popWith at h
  simp only [queueEnd] at h
  cases q with
  | nil => simp at h
  | cons a r => simp at h; rw [h.1, h.2]

theorem pending_cons (n : Node) (q : List Node) (p : Nat) :
    pending (n :: q) p = if n.parent = some p then n :: pending q p else pending q p := by
  simp only [pending, List.filter_cons]
  by_cases h : n.parent = some p <;> simp [h]

theorem pending_append (a b : List Node) (p : Nat) : pending (a ++ b) p = pending a p ++ pending b p := by
  simp [pending]

theorem pending_other (cs : List Node) (id p : Nat) (h : ∀ n ∈ cs, n.parent = some id) (hp : p ≠ id) :
    pending cs p = [] := by
  simp only [pending, List.filter_eq_nil_iff, decide_eq_true_eq]
  intro n hn hh
  have := h n hn
  rw [this] at hh
  exact hp (Option.some.inj hh).symm

theorem pending_self (cs : List Node) (id : Nat) (h : ∀ n ∈ cs, n.parent = some id) : pending cs id = cs := by
  simp only [pending, List.filter_eq_self, decide_eq_true_eq]
  exact h

theorem pending_none (q : List Node) (p : Nat) (h : ∀ n ∈ q, ∀ p', n.parent = some p' → p' ≠ p) :
    pending q p = [] := by
  simp only [pending, List.filter_eq_nil_iff, decide_eq_true_eq]
  intro n hn hh
  exact h n hn p hh rfl

/-- taking the head node off the work list and attaching its reference to its parent keeps `KidsInv` -/
theorem kids_pop {x : Bool} {H : Heap} {L : Limits} (n : Node) (rest : List Node) (id : Nat) (e : Entry)
    (h : KidsInv x H L (n :: rest) e) :
    KidsInv x H L rest (if e.vid = (n.parent.getD (e.vid + 1)) ∧ n.parent.isSome
      then { e with children := e.children ++ [mkRef n id] } else e) := by
  obtain ⟨cs, lost, h1, h2, h3⟩ := h
  rw [pending_cons] at h2
  by_cases hp : n.parent = some e.vid
  · have : e.vid = (n.parent.getD (e.vid + 1)) ∧ n.parent.isSome := by simp [hp]
    rw [if_pos this]
    refine ⟨cs, lost, h1, ?_, h3⟩
    simp only [hp, if_true, List.map_cons] at h2
    have hk : refKid (mkRef n id) = kidOf n := rfl
    show List.map refKid (e.children ++ [mkRef n id]) ++ List.map kidOf (pending rest e.vid) ++ lost = _
    rw [← h2]
    simp only [List.map_append, List.map_cons, List.map_nil, hk, List.append_assoc, List.cons_append,
      List.nil_append]
  · have : ¬(e.vid = (n.parent.getD (e.vid + 1)) ∧ n.parent.isSome) := by
      intro ⟨a, b⟩
      cases hn : n.parent with
      | none => simp [hn] at b
      | some p => simp [hn] at a; exact hp (by rw [hn, a])
    rw [if_neg this]
    refine ⟨cs, lost, h1, ?_, h3⟩
    simpa [hp] using h2

theorem mem_addChild {p : Nat} {c : VarId} {t : List Entry} {e' : Entry} (h : e' ∈ addChild p c t) :
    ∃ e ∈ t, e' = if e.vid = p then { e with children := e.children ++ [c] } else e := by
  simp only [addChild, List.mem_map] at h
  obtain ⟨e, he, rfl⟩ := h
  exact ⟨e, he, rfl⟩

/-- an entry of the table after `attach` of the popped node comes from an entry of the table before, and inherits
    `KidsInv` from it, now w.r.t. the rest of the work list -/
theorem attach_kids {x : Bool} {H : Heap} {L : Limits} (n : Node) (rest : List Node) (id : Nat) (s : BState)
    (e' : Entry) (he' : e' ∈ (attach n.parent (mkRef n id) s).table) :
    ∃ e ∈ s.table, e.vid = e'.vid ∧ (KidsInv x H L (n :: rest) e → KidsInv x H L rest e') := by
  cases hp : n.parent with
  | none =>
    simp only [attach, hp] at he'
    refine ⟨e', he', rfl, fun h => ?_⟩
    have := kids_pop n rest id e' h
    simpa [hp] using this
  | some p =>
    simp only [attach, hp] at he'
    obtain ⟨e, he, rfl⟩ := mem_addChild he'
    refine ⟨e, he, by split <;> rfl, fun h => ?_⟩
    have := kids_pop n rest id e h
    simp only [hp, Option.getD_some, Option.isSome_some, and_true] at this
    exact this

theorem attach_vids (parent : Option Nat) (c : VarId) (s : BState) (k : Nat) (h : ∀ e ∈ s.table, e.vid ≤ k) :
    ∀ e ∈ (attach parent c s).table, e.vid ≤ k := by
  intro e' he'
  cases parent with
  | none => exact h e' (by simpa [attach] using he')
  | some p =>
    simp only [attach] at he'
    obtain ⟨e, he, rfl⟩ := mem_addChild he'
    by_cases hv : e.vid = p
    · simpa [hv] using h e he
    · simpa [hv] using h e he

theorem attach_fields (parent : Option Nat) (c : VarId) (s : BState) :
    (attach parent c s).queue = s.queue ∧ (attach parent c s).cache = s.cache ∧
    (attach parent c s).failed = s.failed ∧ (attach parent c s).stopped = s.stopped := by
  cases parent <;> simp [attach]

theorem kids_extend {x : Bool} {H : Heap} {L : Limits} (q cs : List Node) (id : Nat) (e : Entry)
    (hcs : ∀ n ∈ cs, n.parent = some id) (hne : e.vid ≠ id) (h : KidsInv x H L q e) : KidsInv x H L (q ++ cs) e := by
  obtain ⟨cs', lost, h1, h2, h3⟩ := h
  refine ⟨cs', lost, h1, ?_, h3⟩
  rw [pending_append, pending_other cs id e.vid hcs hne]
  simpa using h2

theorem step_inv {x : Bool} {H : Heap} {L : Limits} (s : BState) (h : SInv x H L s) : SInv x H L (step H L s) := by
  unfold step
  split
  · exact h
  · split
    · exact h
    · rename_i n rest hpop
      have hq := pop_front hpop
      split
      · exact ⟨h.vids, h.parents, h.kids⟩
      · split
        · -- cache hit
          rename_i id _
          have hf := attach_fields n.parent (mkRef n id) { s with queue := rest, popped := s.popped ++ [n] }
          refine ⟨?_, ?_, ?_⟩
          · rw [hf.2.1]; exact attach_vids _ _ _ _ h.vids
          · rw [hf.1, hf.2.1]
            intro m hm p hp
            exact h.parents m (by rw [hq]; exact List.mem_cons_of_mem _ hm) p hp
          · rw [hf.2.2.1, hf.1]
            intro hfail e' he'
            obtain ⟨e, he, _, hk⟩ := attach_kids (x := x) (H := H) (L := L) n rest id _ e' he'
            apply hk
            have := h.kids hfail e he
            rwa [hq] at this
        · dsimp only
          split
          · -- rendering failed
            refine ⟨?_, ?_, ?_⟩
            · intro e he
              have := h.vids e he
              simp only [List.length_append, List.length_singleton]; omega
            · intro m hm p hp
              have := h.parents m hm p hp
              simp only [List.length_append, List.length_singleton]; omega
            · intro hfail; simp at hfail
          · rename_i text htext
            have hid := newId_eq s.cache
            -- the table after recording the new entry and attaching its reference
            have hvids0 : ∀ e ∈ s.table ++ [mkEntry L (newId s.cache) (H.obj n.obj) text n], e.vid ≤ s.cache.length + 1 := by
              intro e he
              rcases List.mem_append.mp he with he | he
              · have := h.vids e he; omega
              · simp only [List.mem_singleton] at he; subst he; simp [mkEntry, hid]
            have hparent : ∀ p, n.parent = some p → p ≤ s.cache.length :=
              fun p hp => h.parents n (by rw [hq]; exact List.mem_cons_self ..) p hp
            split
            · -- looking for children failed
              rename_i m _
              refine ⟨?_, ?_, ?_⟩
              · intro e he
                have := attach_vids n.parent (mkRef n (newId s.cache)) _ (s.cache.length + 1) hvids0 e he
                have hc := (attach_fields n.parent (mkRef n (newId s.cache))
                  { s with cache := s.cache ++ [(n.obj, newId s.cache)],
                           table := s.table ++ [mkEntry L (newId s.cache) (H.obj n.obj) text n],
                           popped := s.popped ++ [n], recorded := s.recorded ++ [(n, newId s.cache)] }).2.1
                simp only [hc, List.length_append, List.length_singleton]; exact this
              · intro m' hm p hp
                have := h.parents m' (by rw [hq]; exact List.mem_cons_of_mem _ hm) p hp
                have hc := (attach_fields n.parent (mkRef n (newId s.cache))
                  { s with cache := s.cache ++ [(n.obj, newId s.cache)],
                           table := s.table ++ [mkEntry L (newId s.cache) (H.obj n.obj) text n],
                           popped := s.popped ++ [n], recorded := s.recorded ++ [(n, newId s.cache)] }).2.1
                simp only [hc, List.length_append, List.length_singleton]; omega
              · intro hfail; simp at hfail
            · rename_i cs hcs
              have hmeta := (childNodes_spec L (newId s.cache) (H.obj n.obj) n.depth cs hcs).2
              have hc := (attach_fields n.parent (mkRef n (newId s.cache))
                { s with cache := s.cache ++ [(n.obj, newId s.cache)],
                         table := s.table ++ [mkEntry L (newId s.cache) (H.obj n.obj) text n],
                         popped := s.popped ++ [n], recorded := s.recorded ++ [(n, newId s.cache)] })
              refine ⟨?_, ?_, ?_⟩
              · intro e he
                have := attach_vids n.parent (mkRef n (newId s.cache)) _ (s.cache.length + 1) hvids0 e he
                simp only [hc.2.1, List.length_append, List.length_singleton]; exact this
              · intro m' hm p hp
                simp only [hc.2.1, List.length_append, List.length_singleton]
                rcases List.mem_append.mp hm with hm | hm
                · have := h.parents m' (by rw [hq]; exact List.mem_cons_of_mem _ hm) p hp; omega
                · have := (hmeta m' hm).2
                  rw [this] at hp
                  have := Option.some.inj hp
                  omega
              · intro hfail
                simp only [hc.2.2.1] at hfail
                intro e he
                by_cases hne : e.vid = newId s.cache
                · -- the new entry itself (the only one with this id): its children are now all pending
                  have heq : e = mkEntry L (newId s.cache) (H.obj n.obj) text n := by
                    have hold : ∀ e0 ∈ s.table ++ [mkEntry L (newId s.cache) (H.obj n.obj) text n],
                        e0.vid = newId s.cache → e0 = mkEntry L (newId s.cache) (H.obj n.obj) text n := by
                      intro e0 he0 hv0
                      rcases List.mem_append.mp he0 with he0 | he0
                      · have := h.vids e0 he0; omega
                      · simpa using he0
                    cases hp : n.parent with
                    | none =>
                      simp only [attach, hp] at he
                      exact hold e he hne
                    | some p =>
                      simp only [attach, hp] at he
                      obtain ⟨e0, he0, rfl⟩ := mem_addChild he
                      have hple := hparent p hp
                      by_cases hv : e0.vid = p
                      · simp only [hv, if_true] at hne
                        omega
                      · simp only [hv, if_false] at hne ⊢
                        exact hold e0 he0 hne
                  subst heq
                  refine ⟨cs, [], by simpa [mkEntry] using hcs, ?_, fun _ => rfl⟩
                  have h0 : pending rest (newId s.cache) = [] := by
                    apply pending_none
                    intro m' hm p' hp'
                    have := h.parents m' (by rw [hq]; exact List.mem_cons_of_mem _ hm) p' hp'
                    omega
                  show List.map refKid [] ++ List.map kidOf (pending (rest ++ cs) (newId s.cache)) ++ [] = _
                  rw [pending_append, h0, pending_self cs (newId s.cache) (fun m hm => (hmeta m hm).2)]
                  simp
                · obtain ⟨e0, he0, hv0, hk⟩ := attach_kids (x := x) (H := H) (L := L) n rest (newId s.cache) _ e he
                  have he0' : e0 ∈ s.table := by
                    rcases List.mem_append.mp he0 with he0 | he0
                    · exact he0
                    · simp only [List.mem_singleton] at he0
                      subst he0
                      exact absurd hv0.symm hne
                  have h0 := h.kids hfail e0 he0'
                  rw [hq] at h0
                  exact kids_extend rest cs (newId s.cache) e (fun m hm => (hmeta m hm).2) hne (hk h0)

end Frames
