/-
  Proofs/TriggerBuild — helper lemmas for C11: the translated builders against the documented table.
-/
import DeepModel.Model.TriggerBuild

set_option linter.unusedSimpArgs false

namespace TriggerBuild
open Extracted.TriggerTable

theorem snapshot_action_eq (id : String) (args : Args) (watches : List String) :
    build_snapshot_action id args watches =
      if Spec.collects args then some (Spec.snapshotAction id args watches) else none := by
  unfold build_snapshot_action Spec.collects Spec.snapshotAction Spec.limits Spec.arg
    Args.has Args.idx Args.getD Args.get?
  simp only [SNAPSHOT, NO_COLLECT, CONDITION, WATCHES, FRAME_TYPE, SINGLE_FRAME_TYPE, STACK_TYPE, STACK,
    FIRE_COUNT, FIRE_PERIOD, LOG_MSG]
  obtain ⟨os, hos⟩ : ∃ o, List.lookup "snapshot" args = o := ⟨_, rfl⟩
  obtain ⟨oc, hoc⟩ : ∃ o, List.lookup "condition" args = o := ⟨_, rfl⟩
  simp only [hos, hoc]
  cases os <;> cases oc <;> simp
  all_goals (split <;> simp_all)

theorem log_action_eq (id : String) (args : Args) :
    build_log_action id args =
      match Spec.arg args "log_msg" with
      | some msg => if Spec.collects args then none else some (Spec.logAction id args msg)
      | none => none := by
  unfold build_log_action Spec.collects Spec.logAction Spec.limits Spec.arg
    Args.has Args.idx Args.getD
  simp only [SNAPSHOT, NO_COLLECT, CONDITION, FIRE_COUNT, FIRE_PERIOD, LOG_MSG]
  obtain ⟨os, hos⟩ : ∃ o, List.lookup "snapshot" args = o := ⟨_, rfl⟩
  obtain ⟨oc, hoc⟩ : ∃ o, List.lookup "condition" args = o := ⟨_, rfl⟩
  obtain ⟨ol, hol⟩ : ∃ o, List.lookup "log_msg" args = o := ⟨_, rfl⟩
  simp only [hos, hoc, hol]
  cases os <;> cases oc <;> cases ol <;> simp
  all_goals (split <;> simp_all)

theorem metric_action_eq (id : String) (args : Args) (metrics : List MetricDefinition) :
    build_metric_action id args metrics =
      if metrics.isEmpty then none else some (Spec.metricAction id args metrics) := by
  unfold build_metric_action Spec.metricAction Spec.limits Spec.arg Args.has Args.idx Args.getD
  simp only [CONDITION, FIRE_COUNT, FIRE_PERIOD]
  obtain ⟨oc, hoc⟩ : ∃ o, List.lookup "condition" args = o := ⟨_, rfl⟩
  simp only [hoc]
  cases metrics <;> cases oc <;> simp <;> omega

theorem span_action_eq (id : String) (args : Args) :
    build_span_action id args =
      match Spec.arg args "span" with
      | some kind => some (Spec.spanAction id args kind)
      | none => none := by
  unfold build_span_action Spec.spanAction Spec.limits Spec.arg Args.has Args.idx Args.getD
  simp only [CONDITION, FIRE_COUNT, FIRE_PERIOD, SPAN]
  obtain ⟨oc, hoc⟩ : ∃ o, List.lookup "condition" args = o := ⟨_, rfl⟩
  obtain ⟨os, hos⟩ : ∃ o, List.lookup "span" args = o := ⟨_, rfl⟩
  simp only [hoc, hos]
  cases os <;> cases oc <;> simp

/-- the four builders, filtered as `build_trigger` does, are exactly the documented action list -/
theorem actions_eq (id : String) (args : Args) (watches : List String) (metrics : List MetricDefinition) :
    List.filterMap _root_.id [build_snapshot_action id args watches, build_log_action id args,
      build_metric_action id args metrics, build_span_action id args]
      = Spec.actionsOf id args watches metrics := by
  rw [snapshot_action_eq, log_action_eq, metric_action_eq, span_action_eq]
  unfold Spec.actionsOf
  cases Spec.collects args <;> cases Spec.arg args "log_msg" <;> cases Spec.arg args "span"
    <;> cases metrics <;> simp

/-- the stage the code computes is the documented one -/
theorem build_trigger_eq (id path : String) (line : Int) (args : Args) (watches : List String)
    (metrics : List MetricDefinition) :
    build_trigger id path line args watches metrics = Spec.trigger id path line args watches metrics := by
  unfold build_trigger
  simp only [actions_eq]
  unfold Spec.trigger Spec.locationOf Spec.stageOf Spec.arg Spec.lineStages Spec.methodStages
    Args.has Args.idx Args.get?
  simp only [METHOD_NAME, SPAN, METHOD, STAGE, LINE_STAGES, METHOD_STAGES, LINE_START, LINE_END, LINE_CAPTURE,
    METHOD_START, METHOD_END, METHOD_CAPTURE]
  obtain ⟨om, hom⟩ : ∃ o, List.lookup "method_name" args = o := ⟨_, rfl⟩
  obtain ⟨os, hos⟩ : ∃ o, List.lookup "span" args = o := ⟨_, rfl⟩
  obtain ⟨ot, hot⟩ : ∃ o, List.lookup "stage" args = o := ⟨_, rfl⟩
  simp only [hom, hos, hot]
  cases ot with
  | none =>
    cases om <;> cases os <;>
      simp [from_stage, Spec.positionOf, LINE_START, LINE_END, LINE_CAPTURE, METHOD_START, METHOD_END,
        METHOD_CAPTURE]
    all_goals (split <;> simp_all)
  | some st =>
    simp only [Option.isSome_some, Option.getD_some, if_true]
    by_cases h1 : st = "line_start" <;> by_cases h2 : st = "line_end" <;> by_cases h3 : st = "line_capture"
      <;> by_cases h4 : st = "method_start" <;> by_cases h5 : st = "method_end"
      <;> by_cases h6 : st = "method_capture"
      <;> simp_all [from_stage, Spec.positionOf, LINE_START, LINE_END, LINE_CAPTURE, METHOD_START, METHOD_END,
        METHOD_CAPTURE]

/-! ### convert_response: grouping keeps every action -/

/-- trigger `id` is present in `acc` and holds action `a` -/
def Holds (acc : List Trigger) (id : String) (a : LocationAction) : Prop :=
  ∃ g ∈ acc, g.id = id ∧ a ∈ g.actions

theorem mergeActions_id (g : Trigger) (as : List LocationAction) : (g.mergeActions as).id = g.id := rfl

theorem mergeInto_mono {acc : List Trigger} {t : Trigger} {id : String} {a : LocationAction}
    (h : Holds acc id a) : Holds (mergeInto acc t) id a := by
  obtain ⟨g, hg, hid, ha⟩ := h
  unfold mergeInto
  split
  · refine ⟨if g.id == t.id then g.mergeActions t.actions else g, ?_, ?_, ?_⟩
    · exact List.mem_map.mpr ⟨g, hg, rfl⟩
    · split <;> simp [mergeActions_id, hid]
    · split
      · simp [Trigger.mergeActions, ha]
      · exact ha
  · exact ⟨g, List.mem_append_left _ hg, hid, ha⟩

theorem mergeInto_new (acc : List Trigger) (t : Trigger) {a : LocationAction} (ha : a ∈ t.actions) :
    Holds (mergeInto acc t) t.id a := by
  unfold mergeInto
  split
  · rename_i h
    obtain ⟨g, hg, hgid⟩ := List.any_eq_true.mp h
    refine ⟨if g.id == t.id then g.mergeActions t.actions else g, List.mem_map.mpr ⟨g, hg, rfl⟩, ?_, ?_⟩
    · simp only [hgid, if_true, mergeActions_id]
      exact (beq_iff_eq.mp hgid)
    · simp [hgid, Trigger.mergeActions, ha]
  · exact ⟨t, by simp, rfl, ha⟩

theorem step_mono {acc : List Trigger} {tp : TP} {id : String} {a : LocationAction}
    (h : Holds acc id a) : Holds (stepResponse acc tp) id a := by
  unfold stepResponse
  split
  · exact h
  · exact mergeInto_mono h

theorem from_mono (tps : List TP) : ∀ {acc : List Trigger} {id : String} {a : LocationAction},
    Holds acc id a → Holds (convertResponseFrom acc tps) id a := by
  induction tps with
  | nil => intro acc id a h; exact h
  | cons tp rest ih =>
    intro acc id a h
    exact ih (step_mono h)

theorem from_keeps (tps : List TP) : ∀ (acc : List Trigger) (tp : TP) (t : Trigger), tp ∈ tps →
    tp.build = some t → ∀ a ∈ t.actions, Holds (convertResponseFrom acc tps) t.id a := by
  induction tps with
  | nil => intro _ _ _ h; cases h
  | cons hd rest ih =>
    intro acc tp t hmem hb a ha
    rcases List.mem_cons.mp hmem with rfl | hr
    · apply from_mono rest
      unfold stepResponse
      rw [hb]
      exact mergeInto_new acc t ha
    · exact ih _ tp t hr hb a ha

/-- skipping: a tracepoint that does not build leaves the accumulator alone -/
theorem step_none {acc : List Trigger} {tp : TP} (h : tp.build = none) : stepResponse acc tp = acc := by
  unfold stepResponse; rw [h]

/-- ids in the accumulator stay pairwise distinct (it is a dict keyed by id) -/
theorem mergeInto_ids (acc : List Trigger) (t : Trigger) :
    (mergeInto acc t).map Trigger.id =
      if acc.any (fun g => g.id == t.id) then acc.map Trigger.id else acc.map Trigger.id ++ [t.id] := by
  unfold mergeInto
  split
  · rw [List.map_map]
    apply List.map_congr_left
    intro g _
    simp only [Function.comp]
    split <;> simp [mergeActions_id]
  · simp

/-- the location stored under an id is the location of the first tracepoint that produced this id -/
theorem mergeInto_location {acc : List Trigger} {t : Trigger} {g : Trigger} (hg : g ∈ mergeInto acc t) :
    (∃ g0 ∈ acc, g0.location = g.location ∧ g0.id = g.id) ∨ (g = t ∧ ¬ acc.any (fun g => g.id == t.id)) := by
  unfold mergeInto at hg
  split at hg
  · obtain ⟨g0, hg0, rfl⟩ := List.mem_map.mp hg
    left
    refine ⟨g0, hg0, ?_, ?_⟩ <;> split <;> simp [Trigger.mergeActions, Trigger.id]
  · rename_i hn
    rcases List.mem_append.mp hg with h | h
    · exact Or.inl ⟨g, h, rfl, rfl⟩
    · right
      simp at h
      exact ⟨h, by simpa using hn⟩

/-! ### nothing is invented: every action of the result comes from a tracepoint with that location id -/

def Sourced (tps : List TP) (acc : List Trigger) : Prop :=
  ∀ g ∈ acc, ∀ a ∈ g.actions, ∃ tp ∈ tps, ∃ t, tp.build = some t ∧ t.id = g.id ∧ a ∈ t.actions

theorem mergeInto_sourced {tps : List TP} {acc : List Trigger} {tp : TP} {t : Trigger}
    (hs : Sourced tps acc) (hm : tp ∈ tps) (hb : tp.build = some t) : Sourced tps (mergeInto acc t) := by
  intro g hg a ha
  unfold mergeInto at hg
  split at hg
  · obtain ⟨g0, hg0, rfl⟩ := List.mem_map.mp hg
    split at ha
    · rename_i hid
      simp only [Trigger.mergeActions, List.mem_append] at ha
      rcases ha with ha | ha
      · simpa [hid, mergeActions_id] using hs g0 hg0 a ha
      · exact ⟨tp, hm, t, hb, by simp [hid, mergeActions_id, (beq_iff_eq.mp hid)], ha⟩
    · rename_i hid
      simpa [hid] using hs g0 hg0 a ha
  · rcases List.mem_append.mp hg with h | h
    · exact hs g h a ha
    · simp at h
      subst h
      exact ⟨tp, hm, g, hb, rfl, ha⟩

theorem from_sourced (all : List TP) (tps : List TP) : ∀ (acc : List Trigger), (∀ tp ∈ tps, tp ∈ all) →
    Sourced all acc → Sourced all (convertResponseFrom acc tps) := by
  induction tps with
  | nil => intro acc _ h; exact h
  | cons hd rest ih =>
    intro acc hsub hs
    apply ih _ (fun tp h => hsub tp (List.mem_cons_of_mem _ h))
    unfold stepResponse
    split
    · exact hs
    · rename_i t hb
      exact mergeInto_sourced hs (hsub hd (List.mem_cons_self ..)) hb

/-! ### the loop with its guards: the response is never lost -/

theorem stepRaw_eq (acc : List Trigger) (tp : TP) : stepRaw acc tp = some (stepResponse acc tp) := by
  unfold stepRaw stepResponse TP.build
  cases tp.outcome <;> simp [convertResponseGuardsBuild, convertResponseSkipsNone]

theorem raw_eq (tps : List TP) : ∀ acc, convertResponseRaw acc tps = some (convertResponseFrom acc tps) := by
  induction tps with
  | nil => intro acc; rfl
  | cons tp rest ih =>
    intro acc
    simp only [convertResponseRaw, stepRaw_eq, Option.bind_some, ih]
    rfl

theorem mapM_none_of_mem {α β : Type} (f : α → Option β) : ∀ (l : List α) (a : α), a ∈ l → f a = none →
    l.mapM f = none := by
  intro l
  induction l with
  | nil => intro a h; cases h
  | cons x xs ih =>
    intro a hm hf
    rcases List.mem_cons.mp hm with rfl | h
    · simp [List.mapM_cons, hf]
    · simp only [List.mapM_cons]
      cases f x with
      | none => rfl
      | some y => simp [ih a h hf]

end TriggerBuild
