/-
  Proofs/C12Timer — lemmas about the poll thread machine (Model/C12Timer.lean).
-/
import DeepModel.Proofs.ConfigSvc
import DeepModel.Proofs.Tasks
import DeepModel.Model.C12Timer

namespace C12Timer
open Extracted.ConfigSvc ConfigSvc

/-! ### facts read off the regenerated sources -/

theorem fact_catchesExc : timerCatchesSk .exc = true := by decide
theorem fact_catchesBase : timerCatchesSk .base = false := by decide
theorem fact_stop : (pollShutdownStopsTimer && timerStopSetsEvent) = true := by decide

theorem refusal_open (th : Extracted.Tasks.TH) (h : th.isOpen = true) : refusal th = none := by
  simp [refusal, Extracted.Tasks.submitTask, Extracted.Tasks.submitAccept, h, Tasks.fact_accepts]

theorem refusal_closed (th : Extracted.Tasks.TH) (h : th.isOpen = false) : refusal th = some .base := by
  simp [refusal, Extracted.Tasks.submitTask, Extracted.Tasks.submitAccept, h, Tasks.fact_refuses,
    Extracted.Tasks.refusalClass]

/-- model lemma: the translated `update_new_config` is its store followed by the submission -/
theorem updateNewConfig_split (st : Svc) (ts : Int) (h : String) (cfg : List Trig) :
    updateNewConfig st ts h cfg = triggerUpdate (updateNewConfigStore st ts h cfg) := rfl

/-- how one call of `LongPoll.poll` ends, for every behaviour of the stub (handler open or closed) -/
theorem pollOnce_raises (st : Svc) (refused : Option Py.Exn) (out : StubOut) (cfg : Option (List Trig)) (e : Py.Exn)
    (h : (pollOnce st refused out cfg).2 = some e) :
    out = .raises e ∨ out = .beforeSend e ∨ (e = .exc ∧ out = .garbage) ∨ (e = .exc ∧ ∃ ts hh, out = .answer .update ts hh ∧ cfg = none) ∨
    (refused = some e ∧ ∃ ts hh, out = .answer .update ts hh ∧ cfg ≠ none) := by
  cases out with
  | raises e' => simp only [pollOnce, Option.some.injEq] at h; exact Or.inl (by rw [h])
  | beforeSend e' => simp only [pollOnce, Option.some.injEq] at h; exact Or.inr (Or.inl (by rw [h]))
  | garbage => simp only [pollOnce, Option.some.injEq] at h; exact Or.inr (Or.inr (Or.inl ⟨h.symm, rfl⟩))
  | answer rt ts hh =>
    cases rt with
    | noChange => simp [pollOnce, updateNoChange] at h
    | other => simp [pollOnce] at h
    | update =>
      cases cfg with
      | none =>
        have : (pollOnce st refused (.answer .update ts hh) none).2 = some .exc := rfl
        rw [this] at h
        exact Or.inr (Or.inr (Or.inr (Or.inl ⟨(Option.some.inj h).symm, ts, hh, rfl, rfl⟩)))
      | some c =>
        cases refused with
        | none => simp [pollOnce, updateNewConfigE, triggerUpdateE] at h
        | some e' =>
          have : (pollOnce st (some e') (.answer .update ts hh) (some c)).2 = some e' := rfl
          rw [this] at h
          exact Or.inr (Or.inr (Or.inr (Or.inr ⟨h, ts, hh, rfl, by simp⟩)))

/-- one tick of a live thread -/
theorem tick_live (s : PT) (ha : s.alive = true) (hs : s.stopped = false) (out : StubOut) (tps : List RawTp) :
    (stepPT s (.tick out tps)).issued = s.issued + (if out.sendsRequest then 1 else 0) ∧
    (stepPT s (.tick out tps)).sent = s.sent ++ (if out.sendsRequest then [requestHash s.svc] else []) ∧
    (stepPT s (.tick out tps)).stopped = false ∧
    (stepPT s (.tick out tps)).th = s.th ∧
    (stepPT s (.tick out tps)).svc = (pollOnce s.svc (refusal s.th) out (convertResponse tps)).1 := by
  simp only [stepPT, ha, hs, Bool.not_false, Bool.and_self, if_true]
  cases hq : out.sendsRequest <;>
    cases (pollOnce s.svc (refusal s.th) out (convertResponse tps)).2 with
    | none => simp [hs]
    | some e => dsimp only; split <;> simp [hs]

theorem tick_alive (s : PT) (ha : s.alive = true) (hs : s.stopped = false) (out : StubOut) (tps : List RawTp) :
    (stepPT s (.tick out tps)).alive =
      match (pollOnce s.svc (refusal s.th) out (convertResponse tps)).2 with
      | none => true
      | some e => timerCatchesSk e := by
  simp only [stepPT, ha, hs, Bool.not_false, Bool.and_self, if_true]
  cases hq : out.sendsRequest <;>
    cases (pollOnce s.svc (refusal s.th) out (convertResponse tps)).2 with
    | none => simp [ha]
    | some e =>
      dsimp only
      cases hc : timerCatchesSk e <;> simp [ha]

theorem tick_died (s : PT) (ha : s.alive = true) (hs : s.stopped = false) (out : StubOut) (tps : List RawTp) :
    (stepPT s (.tick out tps)).died =
      match (pollOnce s.svc (refusal s.th) out (convertResponse tps)).2 with
      | none => s.died
      | some e => if timerCatchesSk e then s.died else some e := by
  simp only [stepPT, ha, hs, Bool.not_false, Bool.and_self, if_true]
  cases hq : out.sendsRequest <;>
    cases (pollOnce s.svc (refusal s.th) out (convertResponse tps)).2 with
    | none => simp
    | some e => dsimp only; split <;> simp

theorem fact_testUnguarded : timerTestUnguarded = true := by decide

theorem testFails_live (s : PT) (ha : s.alive = true) (hs : s.stopped = false) :
    stepPT s .testFails = { s with alive := false, died := some .exc } := by
  simp [stepPT, ha, hs, fact_testUnguarded]

theorem testFails_idle (s : PT) (h : s.alive = false ∨ s.stopped = true) : stepPT s .testFails = s := by
  rcases h with h | h <;> simp [stepPT, h]

/-- a thread that is not running (dead or stopped) issues no poll and touches nothing, whatever happens -/
theorem tick_idle (s : PT) (h : s.alive = false ∨ s.stopped = true) (out : StubOut) (tps : List RawTp) :
    stepPT s (.tick out tps) = s := by
  rcases h with h | h <;> simp [stepPT, h]

theorem step_stop (s : PT) : stepPT s .stop = { s with stopped := true, alive := false } := by
  have := fact_stop
  simp only [stepPT, this, if_true]

theorem alive_false_stays (evs : List Ev) (s : PT) (h : s.alive = false) :
    (runPTFrom s evs).alive = false ∧ (runPTFrom s evs).issued = s.issued ∧ (runPTFrom s evs).sent = s.sent ∧
    (runPTFrom s evs).svc.hash = s.svc.hash ∧ (runPTFrom s evs).svc.polled = s.svc.polled := by
  induction evs generalizing s with
  | nil => exact ⟨h, rfl, rfl, rfl, rfl⟩
  | cons ev rest ih =>
    simp only [runPTFrom, List.foldl_cons]
    cases ev with
    | tick out tps => rw [tick_idle s (Or.inl h)]; exact ih s h
    | stop => rw [step_stop]; exact ih _ rfl
    | testFails => rw [testFails_idle s (Or.inl h)]; exact ih s h
    | flush => exact ih (stepPT s .flush) h

end C12Timer
