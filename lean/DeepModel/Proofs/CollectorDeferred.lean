/-
  Proofs/CollectorDeferred — a deferred snapshot completed at a return / exception event is the SAME snapshot as one
  collection whose last value is the captured one: the two phases share one cache, one table, one set of limits.
-/
import DeepModel.Model.CollectorDeferred
import DeepModel.Proofs.CollectorSnap
import DeepModel.Proofs.CollectorDangling

namespace Collector
open Heap Extracted.Collector Extracted.CollectorDeferred

theorem collectWatches_append {H : Heap} (hB : Benign H) (L : Limits) (ws vs : List WatchIn) (c : Cache) (t : List Entry) :
    collectWatches H L (ws ++ vs) c t =
      ⟨(collectWatches H L vs (collectWatches H L ws c t).cache (collectWatches H L ws c t).table).cache,
       (collectWatches H L vs (collectWatches H L ws c t).cache (collectWatches H L ws c t).table).table,
       (collectWatches H L ws c t).outs ++
         (collectWatches H L vs (collectWatches H L ws c t).cache (collectWatches H L ws c t).table).outs,
       (collectWatches H L vs (collectWatches H L ws c t).cache (collectWatches H L ws c t).table).failed⟩ := by
  induction ws generalizing c t with
  | nil => simp [collectWatches]
  | cons w ws ih =>
    have hnf := processVariable_nofail hB L c [] w.expr w.value
    simp only [List.cons_append, collectWatches, hnf]
    split
    · split
      · simp [ih]
      · simp [ih]
    · split
      · simp [ih]
      · simp [ih]

theorem cacheAtCallback_eq (c : Cache) : cacheAtCallback c = c := by
  simp [cacheAtCallback, exitKeepsCache, cacheOnlyGrows, cacheRebinds]

/-- **one collection** — a deferred snapshot whose callback runs at a capturing event equals the snapshot of ONE collection
    over the frames, the watches / log fields and, last, the captured value -/
theorem deferred_eq_collect (H : Heap) (a : ActionIn) (event : String) (value : ObjId)
    (he : callbackCaptureEvents.contains event = true) :
    deferredSnapshot H a event value =
      collect H ⟨a.limits, a.frames, a.watches ++ [⟨.capture, event, value⟩]⟩ := by
  have hB := benign_all H
  unfold deferredSnapshot deferredSnapshot2 collect collectFrom
  simp only [collectFrames_nofail hB, collectWatches_nofail hB, he, if_true, cacheAtCallback_eq]
  rw [collectWatches_append hB]

/-- … and when the callback runs at another event (the next line) the snapshot is the one phase 1 made -/
theorem deferred_other_event (H : Heap) (a : ActionIn) (event : String) (value : ObjId)
    (he : callbackCaptureEvents.contains event = false) : deferredSnapshot H a event value = collect H a := by
  have hB := benign_all H
  unfold deferredSnapshot deferredSnapshot2 collect collectFrom
  simp only [collectFrames_nofail hB, collectWatches_nofail hB, he]
  simp

/-- a deferred snapshot, whatever the event and value its callback is run with, is the snapshot of ONE collection with the
    action's limits over the action's frames and some list of watch / log / capture values -/
theorem deferred_is_collect (H : Heap) (a : ActionIn) (event : String) (value : ObjId) :
    ∃ ws, deferredSnapshot H a event value = collect H ⟨a.limits, a.frames, ws⟩ := by
  cases he : callbackCaptureEvents.contains event with
  | true => exact ⟨_, deferred_eq_collect H a event value he⟩
  | false => exact ⟨a.watches, deferred_other_event H a event value he⟩

/-- **two heaps** — what survives when the host changes recorded objects between the tracepoint's line (`H`) and the
    completing event (`H'`): every heap-independent invariant of the action (`SnapFacts`: count, recording depth, one entry per
    object and id, cache injective, every reference in the cache) and the covering of the cache by the table up to the locals
    dicts of collected frames. -/
theorem deferred2_facts {H H' : Heap} {a : ActionIn} {event : String} {value : ObjId} {s : Snapshot}
    (h : deferredSnapshot2 H H' a event value = .ok s) :
    ∃ c, SnapFacts a s c ∧ Cov (localsOf a.frames) c s.table := by
  have hB := benign_all H
  have hB' := benign_all H'
  have hLO : ∀ f ∈ a.frames, f.collect = true → f.locals ∈ localsOf a.frames := by
    intro f hf hc
    simp only [localsOf, List.mem_map, List.mem_filter]
    exact ⟨f, ⟨hf, hc⟩, rfl⟩
  have ff := collectFrames_facts H a.frames (AInv.nil a.limits)
  have fl := collectFrames_len H a.limits a.frames [] [] (by simp)
  have fc := collectFrames_cov (H := H) (L := a.limits) a.frames hLO (AInv.nil a.limits) (fun p hp => by simp at hp)
  have wf := collectWatches_facts H a.watches ff.inv
  have wl := collectWatches_len H a.limits a.watches _ _ fl
  have wc := collectWatches_cov (H := H) (L := a.limits) a.watches fc
  unfold deferredSnapshot2 collectFrom at h
  simp only [collectFrames_nofail hB, collectWatches_nofail hB, collectWatches_nofail hB', cacheAtCallback_eq] at h
  split at h
  · simp only [Outcome.ok.injEq] at h
    subst h
    have wf2 := collectWatches_facts H' [⟨.capture, event, value⟩] wf.inv
    have wl2 := collectWatches_len H' a.limits [⟨.capture, event, value⟩] _ _ wl
    have wc2 := collectWatches_cov (H := H') (L := a.limits) [⟨.capture, event, value⟩] wc
    refine ⟨_, ⟨wf2.inv, wl2, ?_, ?_⟩, wc2⟩
    · intro vars hv x hx
      exact ext_mem wf2.ext (ext_mem wf.ext (ff.refs vars hv x hx))
    · intro w hw v hv
      rcases List.mem_append.mp hw with hw | hw
      · exact ext_mem wf2.ext (wf.outs w hw v hv)
      · exact wf2.outs w hw v hv
  · simp only [Outcome.ok.injEq] at h
    subst h
    exact ⟨_, ⟨wf.inv, wl, fun vars hv x hx => ext_mem wf.ext (ff.refs vars hv x hx), wf.outs⟩, wc⟩

end Collector
