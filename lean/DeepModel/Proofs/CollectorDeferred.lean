/-
  Proofs/CollectorDeferred — a deferred snapshot completed at a return / exception event is the SAME snapshot as one
  collection whose last value is the captured one: the two phases share one cache, one table, one set of limits.
-/
import DeepModel.Model.CollectorDeferred
import DeepModel.Proofs.CollectorSnap

namespace Collector
open Heap Extracted.Collector Extracted.CollectorDeferred

theorem collectWatches_append {H : Heap} (hB : Benign H) (L : Limits) (ws vs : List WatchIn) (c : Cache) (t : List Entry) :
    collectWatches H L (ws ++ vs) c t =
      ⟨(collectWatches H L vs (collectWatches H L ws c t).cache (collectWatches H L ws c t).table).cache,
       (collectWatches H L vs (collectWatches H L ws c t).cache (collectWatches H L ws c t).table).table,
       (collectWatches H L ws c t).outs ++
         (collectWatches H L vs (collectWatches H L ws c t).cache (collectWatches H L ws c t).table).outs,
       (collectWatches H L vs (collectWatches H L ws c t).cache (collectWatches H L ws c t).table).failed⟩ := by
  induction ws generalizing c t with
  | nil => simp [collectWatches]
  | cons w ws ih =>
    have hnf := processVariable_nofail hB L c [] w.expr w.value
    simp only [List.cons_append, collectWatches, hnf]
    split
    · split
      · simp [ih]
      · simp [ih]
    · split
      · simp [ih]
      · simp [ih]

theorem cacheAtCallback_eq (c : Cache) : cacheAtCallback c = c := by
  simp [cacheAtCallback, exitKeepsCache, cacheOnlyGrows]

/-- **one collection** — a deferred snapshot whose callback runs at a capturing event equals the snapshot of ONE collection
    over the frames, the watches / log fields and, last, the captured value -/
theorem deferred_eq_collect (H : Heap) (a : ActionIn) (event : String) (value : ObjId)
    (he : callbackCaptureEvents.contains event = true) :
    deferredSnapshot H a event value =
      collect H ⟨a.limits, a.frames, a.watches ++ [⟨.capture, event, value⟩]⟩ := by
  have hB := benign_all H
  unfold deferredSnapshot collect collectFrom
  simp only [collectFrames_nofail hB, collectWatches_nofail hB, he, if_true, cacheAtCallback_eq]
  rw [collectWatches_append hB]

/-- … and when the callback runs at another event (the next line) the snapshot is the one phase 1 made -/
theorem deferred_other_event (H : Heap) (a : ActionIn) (event : String) (value : ObjId)
    (he : callbackCaptureEvents.contains event = false) : deferredSnapshot H a event value = collect H a := by
  have hB := benign_all H
  unfold deferredSnapshot collect collectFrom
  simp only [collectFrames_nofail hB, collectWatches_nofail hB, he]
  simp

/-- a deferred snapshot, whatever the event and value its callback is run with, is the snapshot of ONE collection with the
    action's limits over the action's frames and some list of watch / log / capture values -/
theorem deferred_is_collect (H : Heap) (a : ActionIn) (event : String) (value : ObjId) :
    ∃ ws, deferredSnapshot H a event value = collect H ⟨a.limits, a.frames, ws⟩ := by
  cases he : callbackCaptureEvents.contains event with
  | true => exact ⟨_, deferred_eq_collect H a event value he⟩
  | false => exact ⟨a.watches, deferred_other_event H a event value he⟩

end Collector
