/-
  Proofs/CollectorBfs — the order in which a search spends its budget (C05), for the queue discipline the code has
  now (`queueEnd = front`, re-checked on every run by `queueEnd_front`):

  * all nodes ever queued, in the order they were taken / are waiting, have non-decreasing depth, and the waiting
    ones span at most two levels;
  * every node taken has an id (it was recorded or it was a reference to a recorded object);
  * the children of every recorded object are all either taken or still waiting (none is skipped).
-/
import DeepModel.Proofs.CollectorInv

namespace Collector
open Heap Extracted.Collector

structure BInv (H : Heap) (L : Limits) (s : BState) : Prop where
  sorted : (s.popped ++ s.queue).Pairwise (fun a b => a.depth ≤ b.depth)
  span : ∀ a ∈ s.queue, ∀ b ∈ s.queue, b.depth ≤ a.depth + 1
  recSub : (s.recorded.map (·.1)).Sublist s.popped
  seen : ∀ n ∈ s.popped, (lookupId s.cache n.obj).isSome = true
  kids : ∀ p ∈ s.recorded, ∀ cs, childNodes L p.2 (H.obj p.1.obj) p.1.depth = .ok cs →
    ∀ c ∈ cs, c ∈ s.popped ++ s.queue

theorem step_binv {H : Heap} {L : Limits} (s : BState) (h : BInv H L s) : BInv H L (step H L s) := by
  rcases step_cases H L s with hf | ⟨n, rest, _, hq, hc⟩
  · rw [step_final hf]; exact h
  · have hsorted : (s.popped ++ n :: rest).Pairwise (fun a b => a.depth ≤ b.depth) := by rw [← hq]; exact h.sorted
    have hshift : ∀ x, x ∈ s.popped ++ s.queue → x ∈ (s.popped ++ [n]) ++ rest := by
      intro x hx; rw [hq] at hx; simpa using hx
    have hspan : ∀ a ∈ rest, ∀ b ∈ rest, b.depth ≤ a.depth + 1 := fun a ha b hb =>
      h.span a (by rw [hq]; exact List.mem_cons_of_mem _ ha) b (by rw [hq]; exact List.mem_cons_of_mem _ hb)
    generalize step H L s = s' at hc ⊢
    cases hc with
    | stop hb => exact ⟨h.sorted, h.span, h.recSub, h.seen, h.kids⟩
    | hit hb id hl =>
      refine ⟨by simpa using hsorted, by simpa using hspan, ?_, ?_, ?_⟩
      · simpa using h.recSub.trans (List.sublist_append_left _ _)
      · intro x hx
        simp only [attach_popped, List.mem_append, List.mem_singleton] at hx
        simp only [attach_cache]
        rcases hx with hx | rfl
        · exact h.seen x hx
        · simp [hl]
      · intro p hp cs hcs c hc
        simp only [attach_recorded] at hp
        simpa using hshift c (h.kids p hp cs hcs c hc)
    | renderFails hb hl m hr =>
      exact ⟨h.sorted, h.span, h.recSub, fun x hx => lookupId_isSome_append _ (h.seen x hx), h.kids⟩
    | kidsFail hb hl text m hr hk =>
      refine ⟨by simpa using hsorted, by simpa using hspan, ?_, ?_, ?_⟩
      · simpa using List.Sublist.append h.recSub (List.Sublist.refl [n])
      · intro x hx
        simp only [attach_popped, List.mem_append, List.mem_singleton] at hx
        simp only [attach_cache]
        rcases hx with hx | rfl
        · exact lookupId_isSome_append _ (h.seen x hx)
        · simp [lookupId_append_self _ hl]
      · intro p hp cs hcs c hc
        simp only [attach_recorded, List.mem_append, List.mem_singleton] at hp
        rcases hp with hp | rfl
        · simpa using hshift c (h.kids p hp cs hcs c hc)
        · simp only at hcs; rw [hk] at hcs; simp at hcs
    | record hb hl text cs hr hk =>
      have hmeta := childNodes_meta L _ _ _ cs hk
      have hpw := List.pairwise_append.mp hsorted
      have hn_rest : ∀ a ∈ rest, n.depth ≤ a.depth := (List.pairwise_cons.mp hpw.2.1).1
      have hpop_n : ∀ a ∈ s.popped, a.depth ≤ n.depth := fun a ha => hpw.2.2 a ha n (List.mem_cons_self ..)
      have hrest_n : ∀ a ∈ rest, a.depth ≤ n.depth + 1 := fun a ha =>
        h.span n (by rw [hq]; exact List.mem_cons_self ..) a (by rw [hq]; exact List.mem_cons_of_mem _ ha)
      refine ⟨?_, ?_, ?_, ?_, ?_⟩
      · have e : (s.popped ++ [n]) ++ (rest ++ cs) = (s.popped ++ n :: rest) ++ cs := by simp
        simp only [attach_popped]
        rw [e, List.pairwise_append]
        refine ⟨hsorted, ?_, ?_⟩
        · apply List.pairwise_of_forall_mem_list
          intro a ha b hb
          rw [(hmeta a ha).1, (hmeta b hb).1]; exact Nat.le_refl _
        · intro a ha c hc
          rw [(hmeta c hc).1]
          simp only [List.mem_append, List.mem_cons] at ha
          rcases ha with ha | rfl | ha
          · have := hpop_n a ha; omega
          · omega
          · exact hrest_n a ha
      · intro a ha b hb
        simp only [List.mem_append] at ha hb
        rcases ha with ha | ha <;> rcases hb with hb | hb
        · exact hspan a ha b hb
        · rw [(hmeta b hb).1]; have := hn_rest a ha; omega
        · rw [(hmeta a ha).1]; have := hrest_n b hb; omega
        · rw [(hmeta a ha).1, (hmeta b hb).1]; omega
      · simpa using List.Sublist.append h.recSub (List.Sublist.refl [n])
      · intro x hx
        simp only [attach_popped, List.mem_append, List.mem_singleton] at hx
        simp only [attach_cache]
        rcases hx with hx | rfl
        · exact lookupId_isSome_append _ (h.seen x hx)
        · simp [lookupId_append_self _ hl]
      · intro p hp cs' hcs c hc
        simp only [attach_recorded, List.mem_append, List.mem_singleton] at hp
        simp only [attach_popped]
        rcases hp with hp | rfl
        · have := hshift c (h.kids p hp cs' hcs c hc)
          simp only [List.mem_append, List.mem_singleton] at this ⊢
          rcases this with (h1 | h1) | h1
          · exact Or.inl (Or.inl h1)
          · exact Or.inl (Or.inr h1)
          · exact Or.inr (Or.inl h1)
        · simp only at hcs
          rw [hk] at hcs
          simp only [Except.ok.injEq] at hcs
          subst hcs
          simp only [List.mem_append]
          exact Or.inr (Or.inr hc)

theorem run_binv {H : Heap} {L : Limits} (k : Nat) (s : BState) (h : BInv H L s) : BInv H L (run H L k s) :=
  run_inv (BInv H L) (fun s hs => step_binv s hs) k s h

theorem bfsInit_binv (H : Heap) (L : Limits) (c : Cache) (t : List Entry) (name : String) (o : ObjId) :
    BInv H L (bfsInit L c t name o) := by
  unfold bfsInit
  split <;> exact ⟨by simp, by simp, by simp, by simp, by simp⟩

theorem bfsInit_rinv {L : Limits} {c : Cache} {t : List Entry} (name : String) (o : ObjId)
    (hc : CacheOK c) (hcount : c.length ≤ L.maxVars + 1) (htd : ∀ e ∈ t, DepthOK L e.depth) (htp : TablePair t)
    (htc : ∀ e ∈ t, (e.obj, e.vid) ∈ c) (hrefs : ∀ e ∈ t, ∀ r ∈ e.children, (r.obj, r.vid) ∈ c) :
    RInv L c (bfsInit L c t name o) := by
  unfold bfsInit
  split
  · exact ⟨⟨[], by simp⟩, hcount, by simp, hc, by simp [DepthOK], htd, htp, htc, hrefs, by simp⟩
  · rename_i hb
    have := (budgetOk_false_iff L c).mp (by simpa using hb)
    exact ⟨⟨[], by simp⟩, hcount, fun _ => this, hc, by simp, htd, htp, htc, hrefs, by simp⟩

end Collector
