/- Proofs/CallbacksW — the frame lemma under the weaker recursion hypothesis `NoClashW` (see Model/CallbacksW). -/
import DeepModel.Proofs.Callbacks
import DeepModel.Model.CallbacksW

namespace Callbacks
open Extracted.Locations

/-- every pending context below belongs to an enclosing invocation recorded in `pend` -/
def Within (stk : List Ctx) (pend : List Key) : Prop := ∀ c ∈ stk, ckey c ∈ pend

theorem ownstack_nil {fi : FrameInfo} {m l : Bool} {o : List Ctx} (ho : OwnStack fi m l o) (h : (m || l) = false) :
    o = [] := by
  have hm : m = false := by cases m <;> simp_all
  have hl : l = false := by cases l <;> simp_all
  subst hm; subst hl
  simpa [OwnStack] using ho

mutual
theorem inv_frameW (ncfg : Int) (acts : Event → List Action) (hk : KindsOK acts) (i : Inv) (p : List Nat)
    (stk : List Ctx) (pend : List Key) (hn : i.NoClashW (opensAt ncfg acts) p pend)
    (hs : i.NoStack (opensAt ncfg acts) p) (hd : Within stk pend) :
    (srun ncfg acts stk (i.flatten p)).1 = stk ∧ Scoped (srun ncfg acts stk (i.flatten p)).2 := by
  match i with
  | .mk path func frame ln den body exit =>
    simp only [Inv.NoClashW] at hn
    simp only [Inv.NoStack] at hs
    have hf : ∀ c ∈ stk, ckey c ≠ (FrameInfo.mk path func frame p).key := by
      intro c hc h
      exact hn.1 (by have := hd c hc; rw [h] at this; exact this)
    obtain ⟨o, w, hstep, ho, hw, _⟩ := step_call ncfg acts ⟨path, func, frame, p⟩ ln 0 den stk
    have := items_frameW ncfg acts hk body ⟨path, func, frame, p⟩ 0 exit _ false o stk pend hn.2 hs ho hf hd
    simp only [Inv.flatten, srun_cons, hstep]
    exact ⟨this.1, hw.append this.2⟩

theorem items_frameW (ncfg : Int) (acts : Event → List Action) (hk : KindsOK acts) (its : Items) (fi : FrameInfo)
    (k : Nat) (x : Exit) (m l : Bool) (o stk : List Ctx) (pend : List Key)
    (hn : its.NoClashW (opensAt ncfg acts) fi k m l pend)
    (hs : its.NoStack (opensAt ncfg acts) fi k x m l) (ho : OwnStack fi m l o)
    (hf : ∀ c ∈ stk, ckey c ≠ fi.key) (hd : Within stk pend) :
    (srun ncfg acts (o ++ stk) (its.flatten fi k ++ x.events fi)).1 = stk ∧
      Scoped (srun ncfg acts (o ++ stk) (its.flatten fi k ++ x.events fi)).2 := by
  match its with
  | .nil =>
    match x with
    | .ret n a =>
      simp only [Items.NoStack] at hs
      simp only [Items.flatten, Exit.events, List.nil_append, srun_cons, srun_nil,
        step_exit ncfg acts hk fi "return" (Or.inl rfl) n a [] m l o stk ho hf, ownstack_tail_nil ho hs,
        List.append_nil]
      exact ⟨trivial, scoped_head ho _ _ _ _⟩
    | .raise n a =>
      have ht := ownstack_tail ho
      have htt : o.tail.tail = [] := ownstack_tail_nil ht (by simp)
      simp only [Items.flatten, Exit.events, List.nil_append, srun_cons, srun_nil,
        step_exit ncfg acts hk fi "exception" (Or.inr rfl) n a [] m l o stk ho hf,
        step_exit ncfg acts hk fi "return" (Or.inl rfl) n 0 [] (m && l) false o.tail stk ht hf, htt,
        List.append_nil]
      exact ⟨trivial, (scoped_head ho _ _ _ _).append (scoped_head ht _ _ _ _)⟩
  | .line n den rest =>
    simp only [Items.NoClashW] at hn
    simp only [Items.NoStack] at hs
    obtain ⟨o', w, hstep, ho', hw, _⟩ := step_line ncfg acts fi n 0 den m l o stk ho hf
    have := items_frameW ncfg acts hk rest fi k x m _ o' stk pend hn hs ho' hf hd
    simp only [Items.flatten, List.cons_append, srun_cons, hstep]
    exact ⟨this.1, hw.append this.2⟩
  | .caught n a rest =>
    simp only [Items.NoClashW] at hn
    simp only [Items.NoStack] at hs
    have ht := ownstack_tail ho
    have := items_frameW ncfg acts hk rest fi k x (m && l) false o.tail stk pend hn hs ht hf hd
    simp only [Items.flatten, List.cons_append, srun_cons,
      step_exit ncfg acts hk fi "exception" (Or.inr rfl) n a [] m l o stk ho hf]
    exact ⟨this.1, (scoped_head ho _ _ _ _).append this.2⟩
  | .call i rest =>
    simp only [Items.NoClashW] at hn
    simp only [Items.NoStack] at hs
    have hdi : Within (o ++ stk) (if m || l then (fileOf fi.path, fi.func) :: pend else pend) := by
      intro c hc
      rcases List.mem_append.mp hc with hc | hc
      · by_cases hml : (m || l) = true
        · rw [if_pos hml]
          have := own_key ho c hc
          rw [this]
          exact List.mem_cons_self ..
        · have : o = [] := ownstack_nil ho (by simpa using hml)
          rw [this] at hc
          simp at hc
      · by_cases hml : (m || l) = true
        · rw [if_pos hml]; exact List.mem_cons_of_mem _ (hd c hc)
        · rw [if_neg hml]; exact hd c hc
    obtain ⟨hi1, hi2⟩ := inv_frameW ncfg acts hk i (fi.inv ++ [k]) (o ++ stk) _ hn.1 hs.1 hdi
    have := items_frameW ncfg acts hk rest fi (k + 1) x m l o stk pend hn.2 hs.2 ho hf hd
    simp only [Items.flatten, List.append_assoc]
    rw [srun_append]
    simp only [hi1]
    exact ⟨this.1, hi2.append this.2⟩
end

theorem forest_frameW (ncfg : Int) (acts : Event → List Action) (hk : KindsOK acts) (is : List Inv) (k : Nat)
    (hn : forestNoClashW (opensAt ncfg acts) is k) (hs : forestNoStack (opensAt ncfg acts) is k) :
    (srun ncfg acts [] (flattenForest is k)).1 = [] ∧ Scoped (srun ncfg acts [] (flattenForest is k)).2 := by
  induction is generalizing k with
  | nil => exact ⟨rfl, Scoped.nil⟩
  | cons i is ih =>
    simp only [forestNoClashW] at hn
    simp only [forestNoStack] at hs
    obtain ⟨h1, h2⟩ := inv_frameW ncfg acts hk i [k] [] [] hn.1 hs.1 (by intro c hc; simp at hc)
    have := ih (k + 1) hn.2 hs.2
    simp only [flattenForest]
    rw [srun_append]
    simp only [h1]
    exact ⟨this.1, h2.append this.2⟩

/-! the same induction under the stricter stacking hypothesis, which also yields *where* the call-opened context
    completes (cf. `inv_frame_strict`) -/

mutual
theorem inv_frame_strictW (ncfg : Int) (acts : Event → List Action) (hk : KindsOK acts) (i : Inv) (p : List Nat)
    (stk : List Ctx) (pend : List Key) (hn : i.NoClashW (opensAt ncfg acts) p pend)
    (hs : i.NoStackStrict (opensAt ncfg acts) p) (hd : Within stk pend) :
    (srun ncfg acts stk (i.flatten p)).1 = stk ∧ Scoped (srun ncfg acts stk (i.flatten p)).2 ∧
    (opensAt ncfg acts (i.callEvent p) = true →
      Eff.closed (newCtx (cbsAt ncfg acts (i.callEvent p)) (i.callEvent p)) (i.firstExit p)
        ∈ (srun ncfg acts stk (i.flatten p)).2) := by
  match i with
  | .mk path func frame ln den body exit =>
    simp only [Inv.NoClashW] at hn
    simp only [Inv.NoStackStrict] at hs
    have hf : ∀ c ∈ stk, ckey c ≠ (FrameInfo.mk path func frame p).key := by
      intro c hc h
      exact hn.1 (by have := hd c hc; rw [h] at this; exact this)
    obtain ⟨o, w, hstep, ho, hw, hopen⟩ := step_call ncfg acts ⟨path, func, frame, p⟩ ln 0 den stk
    have := items_frame_strictW ncfg acts hk body ⟨path, func, frame, p⟩ 0 exit _ false o stk pend hn.2 hs ho hf hd
    simp only [Inv.flatten, srun_cons, hstep, Inv.callEvent, Inv.firstExit]
    refine ⟨this.1, hw.append this.2.1, ?_⟩
    intro hop
    refine List.mem_append_right _ (this.2.2 _ hop ?_ ?_)
    · rw [hopen hop]; exact List.mem_singleton.mpr rfl
    · rfl

theorem items_frame_strictW (ncfg : Int) (acts : Event → List Action) (hk : KindsOK acts) (its : Items)
    (fi : FrameInfo) (k : Nat) (x : Exit) (m l : Bool) (o stk : List Ctx) (pend : List Key)
    (hn : its.NoClashW (opensAt ncfg acts) fi k m l pend)
    (hs : its.NoStackStrict (opensAt ncfg acts) fi k x m l) (ho : OwnStack fi m l o)
    (hf : ∀ c ∈ stk, ckey c ≠ fi.key) (hd : Within stk pend) :
    (srun ncfg acts (o ++ stk) (its.flatten fi k ++ x.events fi)).1 = stk ∧
      Scoped (srun ncfg acts (o ++ stk) (its.flatten fi k ++ x.events fi)).2 ∧
      (∀ M, m = true → M ∈ o → M.event = "call" →
        Eff.closed M (its.firstExit fi x) ∈ (srun ncfg acts (o ++ stk) (its.flatten fi k ++ x.events fi)).2) := by
  match its with
  | .nil =>
    simp only [Items.NoStackStrict] at hs
    have hnil : o.tail = [] := ownstack_tail_nil ho hs
    have hhead : ∀ M, m = true → M ∈ o → M.event = "call" → o.head? = some M :=
      fun M hm hM _ => own_head ho hs M hm hM
    match x with
    | .ret n a =>
      simp only [Items.flatten, Exit.events, List.nil_append, srun_cons, srun_nil,
        step_exit ncfg acts hk fi "return" (Or.inl rfl) n a [] m l o stk ho hf, hnil, List.append_nil]
      refine ⟨trivial, scoped_head ho _ _ _ _, ?_⟩
      intro M hm hM hMe
      simp [hhead M hm hM hMe, Items.firstExit]
    | .raise n a =>
      simp only [Items.flatten, Exit.events, List.nil_append, srun_cons, srun_nil,
        step_exit ncfg acts hk fi "exception" (Or.inr rfl) n a [] m l o stk ho hf, hnil,
        step_exit_none ncfg acts hk fi "return" (Or.inl rfl) n 0 [] stk hf,
        List.append_nil, List.nil_append]
      refine ⟨trivial, scoped_head ho _ _ _ _, ?_⟩
      intro M hm hM hMe
      simp [hhead M hm hM hMe, Items.firstExit]
  | .line n den rest =>
    simp only [Items.NoClashW] at hn
    simp only [Items.NoStackStrict] at hs
    obtain ⟨o', w, hstep, ho', hw, hkeep⟩ := step_line ncfg acts fi n 0 den m l o stk ho hf
    have := items_frame_strictW ncfg acts hk rest fi k x m _ o' stk pend hn hs ho' hf hd
    simp only [Items.flatten, List.cons_append, srun_cons, hstep, Items.firstExit]
    refine ⟨this.1, hw.append this.2.1, ?_⟩
    intro M hm hM hMe
    exact List.mem_append_right _ (this.2.2 M hm (hkeep M hM hMe) hMe)
  | .caught n a rest =>
    simp only [Items.NoClashW] at hn
    simp only [Items.NoStackStrict] at hs
    rw [hs.1] at hn
    have hnil : o.tail = [] := ownstack_tail_nil ho hs.1
    have hhead : ∀ M, m = true → M ∈ o → M.event = "call" → o.head? = some M :=
      fun M hm hM _ => own_head ho hs.1 M hm hM
    have := items_frame_strictW ncfg acts hk rest fi k x false false [] stk pend hn hs.2 (by simp [OwnStack]) hf hd
    simp only [Items.flatten, List.cons_append, srun_cons,
      step_exit ncfg acts hk fi "exception" (Or.inr rfl) n a [] m l o stk ho hf, hnil, Items.firstExit]
    refine ⟨this.1, (scoped_head ho _ _ _ _).append this.2.1, ?_⟩
    intro M hm hM hMe
    apply List.mem_append_left
    simp [hhead M hm hM hMe]
  | .call i rest =>
    simp only [Items.NoClashW] at hn
    simp only [Items.NoStackStrict] at hs
    have hdi : Within (o ++ stk) (if m || l then (fileOf fi.path, fi.func) :: pend else pend) := by
      intro c hc
      rcases List.mem_append.mp hc with hc | hc
      · by_cases hml : (m || l) = true
        · rw [if_pos hml]
          have := own_key ho c hc
          rw [this]
          exact List.mem_cons_self ..
        · have : o = [] := ownstack_nil ho (by simpa using hml)
          rw [this] at hc
          simp at hc
      · by_cases hml : (m || l) = true
        · rw [if_pos hml]; exact List.mem_cons_of_mem _ (hd c hc)
        · rw [if_neg hml]; exact hd c hc
    obtain ⟨hi1, hi2, _⟩ := inv_frame_strictW ncfg acts hk i (fi.inv ++ [k]) (o ++ stk) _ hn.1 hs.1 hdi
    have := items_frame_strictW ncfg acts hk rest fi (k + 1) x m l o stk pend hn.2 hs.2 ho hf hd
    simp only [Items.flatten, List.append_assoc, Items.firstExit]
    rw [srun_append]
    simp only [hi1]
    refine ⟨this.1, hi2.append this.2.1, ?_⟩
    intro M hm hM hMe
    exact List.mem_append_right _ (this.2.2 M hm hM hMe)
end

/-! `NoClash` implies `NoClashW` (for every `opens`): the new hypothesis is weaker -/
mutual
theorem noClash_imp_W (opens : Event → Bool) (i : Inv) (p : List Nat) (pend : List Key) (hn : i.NoClash)
    (hp : ∀ q ∈ pend, q ∉ i.keys) : i.NoClashW opens p pend := by
  match i with
  | .mk path func frame ln den body exit =>
    simp only [Inv.NoClash] at hn
    simp only [Inv.keys] at hp
    simp only [Inv.NoClashW]
    refine ⟨fun h => hp _ h (List.mem_cons_self ..), ?_⟩
    exact itemsNoClash_imp_W opens body ⟨path, func, frame, p⟩ 0 _ false pend hn.2 hn.1
      (fun q hq h => hp q hq (List.mem_cons_of_mem _ h))
theorem itemsNoClash_imp_W (opens : Event → Bool) (its : Items) (fi : FrameInfo) (k : Nat) (m l : Bool)
    (pend : List Key) (hn : its.NoClash) (hfi : (fileOf fi.path, fi.func) ∉ its.keys)
    (hp : ∀ q ∈ pend, q ∉ its.keys) : its.NoClashW opens fi k m l pend := by
  match its with
  | .nil => simp [Items.NoClashW]
  | .line n den rest =>
    simp only [Items.NoClash] at hn
    simp only [Items.keys] at hfi hp
    simp only [Items.NoClashW]
    exact itemsNoClash_imp_W opens rest fi k m _ pend hn hfi hp
  | .caught n a rest =>
    simp only [Items.NoClash] at hn
    simp only [Items.keys] at hfi hp
    simp only [Items.NoClashW]
    exact itemsNoClash_imp_W opens rest fi k _ false pend hn hfi hp
  | .call i rest =>
    simp only [Items.NoClash] at hn
    simp only [Items.keys, List.mem_append, not_or] at hfi hp
    simp only [Items.NoClashW]
    refine ⟨noClash_imp_W opens i _ _ hn.1 ?_, itemsNoClash_imp_W opens rest fi (k + 1) m l pend hn.2 hfi.2
      (fun q hq => (hp q hq).2)⟩
    intro q hq
    by_cases hml : (m || l) = true
    · rw [if_pos hml] at hq
      rcases List.mem_cons.mp hq with rfl | hq
      · exact hfi.1
      · exact (hp q hq).1
    · rw [if_neg hml] at hq
      exact (hp q hq).1
end

theorem forestNoClash_imp_W (opens : Event → Bool) (is : List Inv) (k : Nat) (hn : forestNoClash is) :
    forestNoClashW opens is k := by
  induction is generalizing k with
  | nil => trivial
  | cons i is ih =>
    simp only [forestNoClash] at hn
    exact ⟨noClash_imp_W opens i [k] [] hn.1 (by intro q hq; simp at hq), ih (k + 1) hn.2⟩

/-! the Boolean mirror decides the hypothesis -/
mutual
theorem noClashWB_iff (opens : Event → Bool) (i : Inv) (p : List Nat) (pend : List Key) :
    i.noClashWB opens p pend = true ↔ i.NoClashW opens p pend := by
  match i with
  | .mk path func frame ln den body exit =>
    simp only [Inv.noClashWB, Inv.NoClashW, Bool.and_eq_true, Bool.not_eq_true', List.contains_eq_mem,
      decide_eq_false_iff_not, itemsNoClashWB_iff opens body]
theorem itemsNoClashWB_iff (opens : Event → Bool) (its : Items) (fi : FrameInfo) (k : Nat) (m l : Bool)
    (pend : List Key) : its.noClashWB opens fi k m l pend = true ↔ its.NoClashW opens fi k m l pend := by
  match its with
  | .nil => simp [Items.noClashWB, Items.NoClashW]
  | .line n den rest => simp only [Items.noClashWB, Items.NoClashW, itemsNoClashWB_iff opens rest]
  | .caught n a rest => simp only [Items.noClashWB, Items.NoClashW, itemsNoClashWB_iff opens rest]
  | .call i rest =>
    simp only [Items.noClashWB, Items.NoClashW, Bool.and_eq_true, noClashWB_iff opens i, itemsNoClashWB_iff opens rest]
end

end Callbacks
