/-
  Proofs/Trigger — lemmas about the translated trigger-placement code: what `at_location` decides, that
  `__actions_for_location` is filter-then-concatenate, that `convert_response` neither loses nor duplicates nor
  misplaces an action (permutation invariant of its loop), and how a run's `fired` effects relate to the
  per-event trigger phase.
-/
import DeepModel.Model.Trigger
import DeepModel.Proofs.Callbacks

namespace Trigger
open Callbacks Extracted.Locations

theorem fileOf_basename (p : String) : fileOf p = PyX.basename p := by
  simp [fileOf, locationFromEvent]

theorem matches_line (p : String) (n : Int) (ev : Event) :
    (Loc.line p n).matches ev = true ↔ ev.kind = "line" ∧ fileOf ev.path = p ∧ ev.line = n := by
  unfold Loc.matches Loc.check
  rw [locationFromEvent_eq]
  simp only [Loc.atLocation, lineAtLocation]
  by_cases h1 : ev.kind = "line" <;> by_cases h2 : fileOf ev.path = p <;> by_cases h3 : ev.line = n <;>
    simp [h1, h2, h3]

theorem matches_func (p f : String) (ev : Event) :
    (Loc.func p f).matches ev = true ↔ ev.kind = "call" ∧ fileOf ev.path = p ∧ ev.func = f := by
  unfold Loc.matches Loc.check
  rw [locationFromEvent_eq]
  simp only [Loc.atLocation, funcAtLocation]
  by_cases h1 : ev.kind = "call" <;> by_cases h2 : fileOf ev.path = p <;> by_cases h3 : ev.func = f <;>
    simp [h1, h2, h3]

/-- a location that cannot be matched is never "here" -/
theorem matches_nosource (p : String) (ev : Event) : (Loc.nosource p).matches ev = false := by
  unfold Loc.matches Loc.check
  rw [locationFromEvent_eq]
  simp only [Loc.atLocation, funcAtLocationNoSource]
  by_cases h : fileOf ev.path = p <;> simp [h]

/-- ... and it raises exactly on the events of its file -/
theorem check_nosource (p : String) (ev : Event) :
    (Loc.nosource p).check ev = none ↔ fileOf ev.path = p := by
  unfold Loc.check
  rw [locationFromEvent_eq]
  simp only [Loc.atLocation, funcAtLocationNoSource]
  by_cases h : fileOf ev.path = p <;> simp [h]

/-- a nameless method location on a file with source says "here" at ANY event of the file whose line is not before
    the end of the source block of the event's frame — whatever the kind of the event -/
theorem matches_nameless (p : String) (bl : List (String × Int × Int)) (ev : Event) :
    (Loc.nameless p bl).matches ev = true ↔
      fileOf ev.path = p ∧ ∃ b ∈ bl.find? (fun b => b.1 == ev.func), b.2.1 ≤ ev.line ∧ ev.line ≥ b.2.1 + b.2.2 := by
  unfold Loc.matches Loc.check
  rw [locationFromEvent_eq]
  simp only [Loc.atLocation, funcAtLocationNameless]
  by_cases h : fileOf ev.path = p
  · cases hf : bl.find? (fun b => b.1 == ev.func) with
    | none => simp [h]
    | some b => obtain ⟨n, s0, k⟩ := b; simp [h]
  · simp [h]

theorem matches_kind (l : Loc) (hn : l.named = true) (ev : Event) (h : l.matches ev = true) :
    ev.kind = "line" ∨ ev.kind = "call" := by
  cases l with
  | line p n => exact Or.inl ((matches_line p n ev).mp h).1
  | func p f => exact Or.inr ((matches_func p f ev).mp h).1
  | nosource p => rw [matches_nosource] at h; cases h
  | nameless p bl => simp [Loc.named] at hn

/-! ### `__actions_for_location` -/

theorem foldl_actions {τ α : Type} (at_ : τ → Option Bool) (acts : τ → List α)
    (F : Option (List α) → τ → Option (List α))
    (h1 : ∀ acc t, at_ t = none → F (some acc) t = some acc)
    (h2 : ∀ acc t, at_ t = some true → F (some acc) t = some (acc ++ acts t))
    (h3 : ∀ acc t, at_ t = some false → F (some acc) t = some acc) :
    ∀ (cfg : List τ) (acc : List α),
      cfg.foldl F (some acc) = some (acc ++ (cfg.filter (fun t => at_ t == some true)).flatMap acts) := by
  intro cfg
  induction cfg with
  | nil => intro acc; simp
  | cons t ts ih =>
    intro acc
    rw [List.foldl_cons]
    cases h : at_ t with
    | none => rw [h1 acc t h, ih]; simp [h]
    | some b =>
      cases b with
      | true => rw [h2 acc t h, ih]; simp [h, List.flatMap_cons, List.append_assoc]
      | false => rw [h3 acc t h, ih]; simp [h]

/-- every trigger is checked on its own: one whose check raises (`none`) contributes nothing and stops nothing -/
theorem actionsForLocation_eq {τ α : Type} (at_ : τ → Option Bool) (acts : τ → List α) (cfg : List τ) :
    actionsForLocation at_ acts cfg = some ((cfg.filter (fun t => at_ t == some true)).flatMap acts) := by
  unfold actionsForLocation
  refine (foldl_actions at_ acts _ ?_ ?_ ?_ cfg []).trans (by simp)
  · intro acc t h; simp only [h]
  · intro acc t h; simp only [h, if_true]
  · intro acc t h; simp only [h]; rfl

/-- the actions of the triggers at the location, in trigger order -/
def sel (m : Loc → Bool) (ts : List Trig) : List Action := (ts.filter (fun t => m t.loc)).flatMap (fun t => t.actions)
def selTp (m : Loc → Bool) (tps : List Tp) : List Action :=
  (tps.filter (fun t => m t.loc)).flatMap (fun t => t.actions)

theorem actionsFor_eq (cfg : List Trig) (ev : Event) :
    actionsFor cfg ev = sel (fun l => l.matches ev) cfg := by
  simp [actionsFor, actionsForLocation_eq, sel, Loc.matches]

theorem sel_append (m : Loc → Bool) (a b : List Trig) : sel m (a ++ b) = sel m a ++ sel m b := by
  simp [sel, List.filter_append, List.flatMap_append]

theorem selTp_append (m : Loc → Bool) (a b : List Tp) : selTp m (a ++ b) = selTp m a ++ selTp m b := by
  simp [selTp, List.filter_append, List.flatMap_append]

theorem sel_build (m : Loc → Bool) (tps : List Tp) : sel m (tps.map Tp.build) = selTp m tps := by
  induction tps with
  | nil => rfl
  | cons t ts ih =>
    simp only [List.map_cons, sel, selTp, List.filter_cons, Tp.build] at ih ⊢
    by_cases h : m t.loc = true
    · simp [h, List.flatMap_cons, ih]
    · simp [h, ih]

/-! ### `convert_response` -/

abbrev Dict := List (Loc × Trig)

def keys (d : Dict) : List Loc := d.map (fun e => e.1)

structure DictInv (m : Loc → Bool) (d : Dict) (pre : List Tp) : Prop where
  loc : ∀ e ∈ d, e.2.loc = e.1
  nodup : (keys d).Nodup
  perm : (sel m (PyX.dictValues d)).Perm (selTp m pre)

theorem dictHas_iff (d : Dict) (k : Loc) : PyX.dictHas d k = true ↔ k ∈ keys d := by
  unfold PyX.dictHas keys
  rw [List.any_eq_true]
  constructor
  · rintro ⟨e, he, hb⟩
    exact List.mem_map.mpr ⟨e, he, by simpa using hb⟩
  · intro h
    obtain ⟨e, he, rfl⟩ := List.mem_map.mp h
    exact ⟨e, he, by simp⟩

theorem dictUpdate_absent (d : Dict) (k : Loc) (f : Trig → Trig) (h : k ∉ keys d) : PyX.dictUpdate d k f = d := by
  induction d with
  | nil => rfl
  | cons e d ih =>
    simp only [keys, List.map_cons, List.mem_cons, not_or] at h
    have : (e.1 == k) = false := by simpa using fun hh => h.1 hh.symm
    simp only [PyX.dictUpdate, List.map_cons, this, Bool.false_eq_true, if_false]
    exact congrArg _ (ih h.2)

theorem keys_dictUpdate (d : Dict) (k : Loc) (f : Trig → Trig) : keys (PyX.dictUpdate d k f) = keys d := by
  unfold PyX.dictUpdate keys
  rw [List.map_map]
  apply List.map_congr_left
  intro e _
  by_cases h : e.1 = k <;> simp [h]

theorem sel_update (m : Loc → Bool) (d : Dict) (k : Loc) (u : Trig) (hloc : ∀ e ∈ d, e.2.loc = e.1)
    (hnd : (keys d).Nodup) (hk : k ∈ keys d) :
    (sel m (PyX.dictValues (PyX.dictUpdate d k (fun t => t.merge u)))).Perm
      (sel m (PyX.dictValues d) ++ (if m k then u.actions else [])) := by
  induction d with
  | nil => simp [keys] at hk
  | cons e d ih =>
    have hloce : e.2.loc = e.1 := hloc e (List.mem_cons_self ..)
    have hlocd : ∀ x ∈ d, x.2.loc = x.1 := fun x hx => hloc x (List.mem_cons_of_mem _ hx)
    simp only [keys, List.map_cons, List.nodup_cons] at hnd
    by_cases he : e.1 = k
    · -- this entry is updated; the key does not occur in the tail
      have hnot : k ∉ keys d := by rw [← he]; exact hnd.1
      have htail : PyX.dictUpdate d k (fun t => t.merge u) = d := dictUpdate_absent d k _ hnot
      have hupd : PyX.dictUpdate (e :: d) k (fun t => t.merge u) = (e.1, e.2.merge u) :: d := by
        simp only [PyX.dictUpdate, List.map_cons, he, beq_self_eq_true, if_true] at htail ⊢
        rw [htail]
      rw [hupd]
      simp only [PyX.dictValues, List.map_cons, sel, List.filter_cons, Trig.merge, hloce, he]
      by_cases hm : m k = true
      · simp only [hm, if_true, List.flatMap_cons, List.append_assoc]
        exact List.Perm.append_left _ List.perm_append_comm
      · simp [hm]
    · have hk' : k ∈ keys d := by
        simp only [keys, List.map_cons, List.mem_cons] at hk
        rcases hk with hk | hk
        · exact absurd hk.symm he
        · exact hk
      have hbeq : (e.1 == k) = false := by simpa using he
      have hupd : PyX.dictUpdate (e :: d) k (fun t => t.merge u) = e :: PyX.dictUpdate d k (fun t => t.merge u) := by
        simp [PyX.dictUpdate, he]
      rw [hupd]
      have := ih hlocd hnd.2 hk'
      simp only [PyX.dictValues, List.map_cons, sel, List.filter_cons] at this ⊢
      by_cases hm : m e.2.loc = true
      · simp only [hm, if_true, List.flatMap_cons, List.append_assoc]
        exact List.Perm.append_left _ this
      · simpa [hm] using this

/-- one iteration of the loop of `convert_response` keeps the invariant -/
theorem dictInv_step (m : Loc → Bool) (d : Dict) (pre : List Tp) (tp : Tp) (h : DictInv m d pre) :
    DictInv m
      (if PyX.dictHas d tp.build.loc then PyX.dictUpdate d tp.build.loc (fun t => t.merge tp.build)
       else PyX.dictSet d tp.build.loc tp.build) (pre ++ [tp]) := by
  have hpre : selTp m (pre ++ [tp]) = selTp m pre ++ (if m tp.loc then tp.actions else []) := by
    rw [selTp_append]
    by_cases hm : m tp.loc = true <;> simp [selTp, hm]
  by_cases hh : PyX.dictHas d tp.build.loc = true
  · simp only [hh, if_true]
    have hk := (dictHas_iff d _).mp hh
    refine ⟨?_, ?_, ?_⟩
    · intro e he
      simp only [PyX.dictUpdate, List.mem_map] at he
      obtain ⟨x, hx, rfl⟩ := he
      by_cases hb : (x.1 == tp.build.loc) = true
      · simp [hb, Trig.merge, h.loc x hx]
      · simp [hb, h.loc x hx]
    · rw [keys_dictUpdate]; exact h.nodup
    · rw [hpre]
      exact (sel_update m d _ tp.build h.loc h.nodup hk).trans (List.Perm.append_right _ h.perm)
  · simp only [hh, Bool.false_eq_true, if_false, PyX.dictSet]
    have hk : tp.build.loc ∉ keys d := fun hk => hh ((dictHas_iff d _).mpr hk)
    refine ⟨?_, ?_, ?_⟩
    · intro e he
      rcases List.mem_append.mp he with he | he
      · exact h.loc e he
      · simp at he; subst he; rfl
    · simp only [keys, List.map_append, List.map_cons, List.map_nil]
      refine List.nodup_append.mpr ⟨h.nodup, by simp, ?_⟩
      intro a ha b hb
      simp at hb
      subst hb
      intro hab
      exact hk (hab ▸ ha)
    · rw [hpre]
      simp only [PyX.dictValues, List.map_append, List.map_cons, List.map_nil]
      rw [sel_append]
      refine List.Perm.append h.perm ?_
      by_cases hm : m tp.loc = true <;> simp [sel, Tp.build, hm]

theorem foldl_dictInv (m : Loc → Bool) (F : Dict → Option Trig → Dict)
    (hF : ∀ (d : Dict) (tp : Tp), F d (some tp.build) =
      (if PyX.dictHas d tp.build.loc then PyX.dictUpdate d tp.build.loc (fun t => t.merge tp.build)
       else PyX.dictSet d tp.build.loc tp.build)) :
    ∀ (rest : List Tp) (d : Dict) (pre : List Tp), DictInv m d pre →
      DictInv m ((rest.map (fun tp => some tp.build)).foldl F d) (pre ++ rest) := by
  intro rest
  induction rest with
  | nil => intro d pre h; simpa using h
  | cons tp rest ih =>
    intro d pre h
    have h1 := dictInv_step m d pre tp h
    rw [← hF] at h1
    have := ih _ (pre ++ [tp]) h1
    simpa [List.append_assoc] using this

theorem convert_perm (m : Loc → Bool) (resp : List Tp) :
    (sel m (convertResponse (fun t => t.loc) Trig.merge (resp.map (fun tp => some tp.build)))).Perm (selTp m resp) := by
  unfold convertResponse
  have h0 : DictInv m [] [] := ⟨by simp, by simp [keys], by simp [sel, selTp, PyX.dictValues]⟩
  have key : ∀ F : Dict → Option Trig → Dict, (∀ (d : Dict) (tp : Tp), F d (some tp.build) =
      (if PyX.dictHas d tp.build.loc then PyX.dictUpdate d tp.build.loc (fun t => t.merge tp.build)
       else PyX.dictSet d tp.build.loc tp.build)) →
      (sel m (PyX.dictValues ((resp.map (fun tp => some tp.build)).foldl F []))).Perm (selTp m resp) := by
    intro F hF
    have := (foldl_dictInv m F hF resp [] [] h0).perm
    rwa [List.nil_append] at this
  exact key _ (by intro d tp; rfl)

theorem install_perm (m : Loc → Bool) (resp custom : List Tp) :
    (sel m (install resp custom)).Perm (selTp m (resp ++ custom)) := by
  unfold install
  rw [sel_append, selTp_append, sel_build]
  exact List.Perm.append_right _ (convert_perm m resp)

/-! ### the trigger phase of a configuration -/

theorem mem_sel (m : Loc → Bool) (ts : List Trig) (a : Action) :
    a ∈ sel m ts ↔ ∃ t ∈ ts, m t.loc = true ∧ a ∈ t.actions := by
  simp only [sel, List.mem_flatMap, List.mem_filter]
  constructor
  · rintro ⟨t, ⟨h1, h2⟩, h3⟩; exact ⟨t, h1, h2, h3⟩
  · rintro ⟨t, h1, h2, h3⟩; exact ⟨t, ⟨h1, h2⟩, h3⟩

theorem mem_selTp (m : Loc → Bool) (ts : List Tp) (a : Action) :
    a ∈ selTp m ts ↔ ∃ t ∈ ts, m t.loc = true ∧ a ∈ t.actions := by
  simp only [selTp, List.mem_flatMap, List.mem_filter]
  constructor
  · rintro ⟨t, ⟨h1, h2⟩, h3⟩; exact ⟨t, h1, h2, h3⟩
  · rintro ⟨t, h1, h2, h3⟩; exact ⟨t, ⟨h1, h2⟩, h3⟩

theorem kindsOK_actionsFor (cfg : List Trig) (hn : AllNamed cfg) : KindsOK (actionsFor cfg) := by
  intro ev h
  rw [actionsFor_eq] at h
  obtain ⟨a, ha⟩ := List.exists_mem_of_ne_nil _ h
  obtain ⟨t, ht, hm, _⟩ := (mem_sel _ cfg a).mp ha
  exact matches_kind t.loc (hn t ht) ev hm

theorem settle_named (l : Loc) (ev : Event) (h : l.named = true) : l.settle ev = l := by
  cases l <;> simp [Loc.settle, Loc.named] at h ⊢

theorem settleCfg_named (cfg : List Trig) (ev : Event) (h : AllNamed cfg) : settleCfg cfg ev = cfg := by
  unfold settleCfg
  have : ∀ t ∈ cfg, ({ t with loc := t.loc.settle ev } : Trig) = t := by
    intro t ht
    rw [settle_named t.loc ev (h t ht)]
  rw [List.map_congr_left this, List.map_id']

theorem runS_named (cfg : List Trig) (slot : Option (List Ctx)) (evs : List Event) (h : AllNamed cfg) :
    runS cfg slot evs = (run cfg slot evs, cfg) := by
  induction evs generalizing slot with
  | nil => rfl
  | cons ev evs ih =>
    simp only [runS, settleCfg_named cfg ev h, ih, run, runWith, traceCall]

/-- the early returns of `__trace_call` (no tracepoints / no action at the location) lose nothing -/
theorem firedAt_cfg (cfg : List Trig) (ev : Event) :
    firedAt (cfg.length : Int) (actionsFor cfg) ev = (actionsFor cfg ev).filter (fun a => !ev.denied.contains a) := by
  unfold firedAt noTracepoints noActions
  cases cfg with
  | nil => simp [actionsFor, actionsForLocation]
  | cons t ts =>
    have h1 : ¬ (((t :: ts).length : Int) == 0) = true := by simp; omega
    simp only [h1, if_false, Bool.false_eq_true]
    by_cases h2 : actionsFor (t :: ts) ev = []
    · simp [h2]
    · have : ¬ (((actionsFor (t :: ts) ev).length : Int) == 0) = true := by
        simp only [beq_iff_eq]
        intro h
        exact h2 (List.length_eq_zero_iff.mp (by omega))
      simp only [this, if_false, Bool.false_eq_true]

/-! ### the `fired` effects of a run are the per-event trigger phase, event by event -/

def firedOf : List Eff → List (Action × Event)
  | [] => []
  | .fired a ev :: w => (a, ev) :: firedOf w
  | _ :: w => firedOf w

theorem firedOf_append (a b : List Eff) : firedOf (a ++ b) = firedOf a ++ firedOf b := by
  induction a with
  | nil => rfl
  | cons e w ih => cases e <;> simp [firedOf, ih]

theorem firedOf_map (l : List Action) (ev : Event) :
    firedOf (l.map (fun a => Eff.fired a ev)) = l.map (fun a => (a, ev)) := by
  induction l with
  | nil => rfl
  | cons a l ih => simp [firedOf, ih]

theorem firedOf_pcPhase (s : List Ctx) (ev : Event) : firedOf (pcPhase s ev).2 = [] := by
  unfold pcPhase
  cases s with
  | nil => rfl
  | cons c rest => by_cases h : (isCbKind ev.kind && atLoc c ev) = true <;> simp [h, firedOf]

theorem firedOf_sstep (ncfg : Int) (acts : Event → List Action) (s : List Ctx) (ev : Event) :
    firedOf (sstep ncfg acts s ev).2 = (firedAt ncfg acts ev).map (fun a => (a, ev)) := by
  rw [sstep_eq]
  by_cases h : cbsAt ncfg acts ev = [] <;>
    simp [h, firedOf_append, firedOf_pcPhase, firedOf_map, firedOf]

theorem firedOf_srun (ncfg : Int) (acts : Event → List Action) (s : List Ctx) (evs : List Event) :
    firedOf (srun ncfg acts s evs).2 = evs.flatMap (fun ev => (firedAt ncfg acts ev).map (fun a => (a, ev))) := by
  induction evs generalizing s with
  | nil => rfl
  | cons ev evs ih => simp [srun, firedOf_append, firedOf_sstep, ih, List.flatMap_cons]

/-- a slot that is not "set but empty" is a plain stack -/
theorem norm_getD (slot : Option (List Ctx)) (h : slot ≠ some []) : slot = norm (slot.getD []) := by
  cases slot with
  | none => rfl
  | some s => cases s with
    | nil => exact absurd rfl h
    | cons c r => rfl

/-! ### threads -/

theorem runG_proj (cfg : List Trig) (gs : List (Tid × Event)) (S : Store) (t : Tid) :
    (runG cfg S gs).1 t = (run cfg (S t) (proj t gs)).1 ∧
      projEff t (runG cfg S gs).2 = (run cfg (S t) (proj t gs)).2 := by
  induction gs generalizing S with
  | nil => simp [runG, proj, projEff, run, runWith]
  | cons te rest ih =>
    obtain ⟨u, ev⟩ := te
    have hpe : ∀ (l : List Eff) (es : List (Tid × Eff)),
        projEff t (l.map (fun e => (u, e)) ++ es) = (if u = t then l else []) ++ projEff t es := by
      intro l es
      unfold projEff
      rw [List.filterMap_append]
      congr 1
      by_cases h : u = t
      · subst h; induction l <;> simp_all
      · induction l <;> simp_all
    by_cases h : u = t
    · subst h
      have := ih (stepG cfg S (u, ev)).1
      simp only [runG, stepG, traceCall, if_true, proj, List.filterMap_cons, run, runWith] at this ⊢
      rw [hpe]
      simp only [if_true]
      exact ⟨this.1, by rw [this.2]⟩
    · have := ih (stepG cfg S (u, ev)).1
      have hne : ¬ t = u := fun hh => h hh.symm
      simp only [runG, stepG, h, hne, if_false, proj, List.filterMap_cons] at this ⊢
      rw [hpe]
      simp only [h, if_false, List.nil_append]
      exact this

/-! ### `PyX.basename`: the text after the last `/` -/

theorem mem_takeWhile_pos {α : Type} (p : α → Bool) (l : List α) (x : α) (h : x ∈ l.takeWhile p) : p x = true := by
  induction l with
  | nil => simp at h
  | cons a l ih =>
    by_cases ha : p a = true
    · simp only [List.takeWhile_cons, ha, if_true, List.mem_cons] at h
      rcases h with rfl | h
      · exact ha
      · exact ih h
    · simp [ha] at h

theorem dropWhile_head_neg {α : Type} (p : α → Bool) (l : List α) (c : α) (r : List α)
    (h : l.dropWhile p = c :: r) : p c = false := by
  induction l with
  | nil => simp at h
  | cons a l ih =>
    by_cases ha : p a = true
    · simp only [List.dropWhile_cons, ha, if_true] at h
      exact ih h
    · simp only [List.dropWhile_cons, ha] at h
      simp at h
      rw [← h.1]
      simpa using ha

theorem basename_toList (s : String) :
    (PyX.basename s).toList = (s.toList.reverse.takeWhile (fun c => c != '/')).reverse := by
  simp [PyX.basename]

theorem basename_no_slash (s : String) : '/' ∉ (PyX.basename s).toList := by
  rw [basename_toList]
  intro h
  rw [List.mem_reverse] at h
  have := mem_takeWhile_pos _ _ _ h
  simp at this

theorem basename_suffix (s : String) :
    ∃ d : List Char, s.toList = d ++ (PyX.basename s).toList ∧ (d = [] ∨ d.getLast? = some '/') := by
  rw [basename_toList]
  refine ⟨(s.toList.reverse.dropWhile (fun c => c != '/')).reverse, ?_, ?_⟩
  · rw [← List.reverse_append, List.takeWhile_append_dropWhile, List.reverse_reverse]
  · cases h : s.toList.reverse.dropWhile (fun c => c != '/') with
    | nil => left; rfl
    | cons c r =>
      right
      have := dropWhile_head_neg _ _ _ _ h
      simp at this
      simp [this]

end Trigger
