/-
  Proofs/CollectorBenign — with the two guards the code has now (`lenGuarded`: `variable_to_string` catches `Exception`
  around `len(value)` and falls back to `safe_str`; `childrenGuarded`: `process_child_nodes` catches `Exception` around
  `find_children_for_parent` and collects the value without children) EVERY heap is benign: rendering and child
  discovery raise for no object, whatever its `len`, `tuple`, `isinstance`, `.args`, `hasattr`, `.__dict__` do.
  Both guards are extracted facts, re-checked against the source on every run.
-/
import DeepModel.Proofs.CollectorClosed

namespace Collector
open Heap Extracted.Collector

theorem guards_present : lenGuarded = true ∧ childrenGuarded = true := by decide

theorem renderText_total (o : PyObj) : ∃ text, renderText o = .ok text := by
  unfold renderText
  cases renderKind o.tyName o.isDictExact with
  | typeFmt pre post => exact ⟨_, rfl⟩
  | lenFmt pre post =>
    cases o.len with
    | ok n => exact ⟨_, rfl⟩
    | raises m => exact ⟨safeStr o, by simp [guards_present.1]⟩
  | safeStr => exact ⟨_, rfl⟩

theorem childNodes_total (L : Limits) (pvid : Nat) (o : PyObj) (d : Nat) : ∃ cs, childNodes L pvid o d = .ok cs := by
  unfold childNodes
  split
  · exact ⟨_, rfl⟩
  · split
    · exact ⟨_, rfl⟩
    · cases branchChildren L pvid (d + 1) o childBranches with
      | ok cs => exact ⟨cs, rfl⟩
      | error m => exact ⟨[], by simp [guards_present.2]⟩

/-- **every heap is benign** -/
theorem benign_all (H : Heap) : Benign H := fun i => ⟨renderText_total _, fun L pvid d => childNodes_total L pvid _ d⟩

/-- a probe that raises costs the value its children, nothing else: `childNodes` yields no children -/
theorem childNodes_of_raise (L : Limits) (pvid : Nat) (o : PyObj) (d : Nat) (m : String)
    (h : branchChildren L pvid (d + 1) o childBranches = .error m) : childNodes L pvid o d = .ok [] := by
  unfold childNodes
  split
  · rfl
  · split
    · rfl
    · rw [h]; simp [guards_present.2]

end Collector
