/-
  Proofs/CollectorBenign — a decidable sufficient condition on raw object facts for `Benign`: the probes the code
  performs WITHOUT a guard (`len` of dicts and list-named types, `tuple` of list-named types, `isinstance(·, Exception)`,
  `.args`, `hasattr(·, '__dict__')`, `.__dict__`) do not raise where the code, by its own classification, performs them.
  `str` is not among them: it may raise for any object.
-/
import DeepModel.Proofs.CollectorClosed

namespace Collector
open Heap Extracted.Collector

def _root_.Heap.Probe.isOk {α : Type} : Probe α → Bool
  | .ok _ => true
  | .raises _ => false

/-- the unguarded probes of `variable_to_string` and `find_children_for_parent` succeed on this object -/
def benignObj (o : PyObj) : Bool :=
  (match renderKind o.tyName o.isDictExact with
    | .lenFmt _ _ => o.len.isOk
    | _ => true) &&
  (o.isDictExact ||
    (if listLikeTypes.contains o.tyName then o.seq.isOk
     else match o.isExc with
       | .raises _ => false
       | .ok true => o.excArgs.isOk
       | .ok false =>
         match o.hasDict with
         | .raises _ => false
         | .ok true => o.attrs.isOk
         | .ok false => true))

theorem benign_inert : benignObj PyObj.inert = true := by decide

theorem benign_of_obj (o : PyObj) (h : benignObj o = true) :
    (∃ text, renderText o = .ok text) ∧ ∀ L pvid d, ∃ cs, childNodes L pvid o d = .ok cs := by
  unfold benignObj at h
  simp only [Bool.and_eq_true] at h
  obtain ⟨h1, h2⟩ := h
  constructor
  · unfold renderText
    cases hr : renderKind o.tyName o.isDictExact with
    | typeFmt pre post => exact ⟨_, rfl⟩
    | lenFmt pre post =>
      simp only [hr] at h1
      cases hl : o.len with
      | ok n => exact ⟨_, rfl⟩
      | raises m => simp [hl, Probe.isOk] at h1
    | safeStr => exact ⟨_, rfl⟩
  · intro L pvid d
    unfold childNodes
    split
    · exact ⟨_, rfl⟩
    · split
      · exact ⟨_, rfl⟩
      · simp only [childBranches, branchChildren]
        by_cases hd : o.isDictExact = true
        · simp only [hd, if_true]; exact ⟨_, rfl⟩
        · simp only [hd, Bool.false_eq_true, if_false, Bool.false_or] at h2 ⊢
          by_cases hl : listLikeTypes.contains o.tyName = true
          · simp only [hl, if_true] at h2 ⊢
            cases hs : o.seq with
            | ok xs => exact ⟨_, rfl⟩
            | raises m => simp [hs, Probe.isOk] at h2
          · simp only [hl, Bool.false_eq_true, if_false] at h2 ⊢
            cases he : o.isExc with
            | raises m => simp [he] at h2
            | ok b =>
              cases b with
              | true =>
                simp only [he] at h2 ⊢
                cases hs : o.excArgs with
                | ok xs => exact ⟨_, rfl⟩
                | raises m => simp [hs, Probe.isOk] at h2
              | false =>
                simp only [he] at h2 ⊢
                cases hh : o.hasDict with
                | raises m => simp [hh] at h2
                | ok b =>
                  cases b with
                  | true =>
                    simp only [hh] at h2 ⊢
                    cases hs : o.attrs with
                    | ok xs => exact ⟨_, rfl⟩
                    | raises m => simp [hs, Probe.isOk] at h2
                  | false => exact ⟨_, rfl⟩

/-- a heap all of whose objects pass the check is benign -/
theorem benign_of_check (H : Heap) (h : H.objs.all benignObj = true) : Benign H := by
  intro i
  apply benign_of_obj
  unfold Heap.obj
  cases hi : H.objs[i]? with
  | none => exact benign_inert
  | some o =>
    simp only [Option.getD_some]
    exact List.all_eq_true.mp h o (List.mem_of_getElem? hi)

end Collector
