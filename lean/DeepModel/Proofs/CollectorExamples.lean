/-
  Proofs/CollectorExamples — small concrete heaps used by the non-vacuity examples and the witness theorems of
  C05 / C06 / C07 (all evaluated by `decide`, i.e. by the kernel running the model).
-/
import DeepModel.Model.Collector

namespace Collector.Ex
open Heap Collector

def scalar (ty s : String) : PyObj :=
  { PyObj.inert with
    tyName := ty
    tyRepr := ty
    str := some s
    placeholder := "ph" }

def dictOf (items : List (String × ObjId)) : PyObj :=
  { PyObj.inert with
    tyName := "dict"
    tyRepr := "dict"
    isDictExact := true
    str := none
    len := .ok items.length
    dictItems := items.map (fun kv => (⟨kv.1, true⟩, kv.2)) }

def listOf (xs : List ObjId) : PyObj :=
  { PyObj.inert with
    tyName := "list"
    tyRepr := "list"
    str := none
    len := .ok xs.length
    seq := .ok xs }

/-- a user object with a `__dict__`; `str` may raise -/
def objOf (cls : String) (str : Option String) (attrs : List (String × ObjId)) : PyObj :=
  { PyObj.inert with
    tyName := cls
    tyRepr := cls
    str := str
    placeholder := "<" ++ cls ++ ">@1"
    hasDict := .ok true
    attrs := .ok (attrs.map (fun kv => (⟨kv.1, true⟩, kv.2))) }

/-- a slotted object whose `__getattr__` raises RuntimeError: `hasattr(o, '__dict__')` raises -/
def getattrRaises : PyObj :=
  { PyObj.inert with
    tyName := "Hostile"
    tyRepr := "Hostile"
    str := some "<Hostile>"
    hasDict := .raises "getattr __dict__" }

/-- a user class *named* list that has no `__len__` -/
def imposterList : PyObj :=
  { PyObj.inert with
    tyName := "list"
    tyRepr := "list"
    str := some "<list object>"
    len := .raises "object of type 'list' has no len()" }

/-- `z = [[1,2,3],[4,5,6],[7,8,9]]; y = 7` — the example of D4 -/
def nested : Heap :=
  ⟨[dictOf [("z", 1), ("y", 5)], listOf [2, 3, 4], listOf [6, 7, 8], listOf [9, 10, 11], listOf [12, 13, 14],
    scalar "int" "7", scalar "int" "1", scalar "int" "2", scalar "int" "3", scalar "int" "4", scalar "int" "5",
    scalar "int" "6", scalar "int" "7", scalar "int" "8", scalar "int" "9"]⟩

/-- `a = []; a.append(a); b = "hello world"` — a list that contains itself -/
def selfList : Heap := ⟨[dictOf [("a", 1), ("b", 2)], listOf [1], scalar "str" "hello world"]⟩

/-- `x = 1; l = locals()` — the frame's locals dict contains itself (D31) -/
def localsSelf : Heap := ⟨[dictOf [("x", 1), ("l", 0)], scalar "int" "1"]⟩

/-- `p = Broken(); q = 5` where `str(p)` raises -/
def strRaises : Heap := ⟨[dictOf [("p", 1), ("q", 2)], objOf "Broken" none [("k", 2)], scalar "int" "5"]⟩

/-- the same frame with a well-behaved `p` -/
def strFine : Heap := ⟨[dictOf [("p", 1), ("q", 2)], objOf "Broken" (some "fine") [("k", 2)], scalar "int" "5"]⟩

/-- `h = Hostile(); q = 5` -/
def hostile : Heap := ⟨[dictOf [("h", 1), ("q", 2)], getattrRaises, scalar "int" "5"]⟩

/-- `h = <imposter list>; q = 5` -/
def imposter : Heap := ⟨[dictOf [("h", 1), ("q", 2)], imposterList, scalar "int" "5"]⟩

/-- an object whose `__getattribute__` raises: its class cannot be read, `isinstance` on it raises -/
def noClass : PyObj :=
  { PyObj.inert with
    tyName := "Shy"
    tyRepr := "Shy"
    str := some "<Shy>"
    isExc := .raises "getattribute __class__"
    hasDict := .raises "getattribute __dict__"
    clsName := .raises "getattribute __class__" }

/-- `self = Shy(); q = 5` -/
def selfHostile : Heap := ⟨[dictOf [("self", 1), ("q", 2)], noClass, scalar "int" "5"]⟩

def frame0 : List FrameIn := [⟨0, true⟩]

end Collector.Ex
