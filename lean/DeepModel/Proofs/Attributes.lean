/-
  Proofs/Attributes — lemmas behind Props/C18 (bounded attribute store).

  1. the translated cleaning code (`cleanAttributeValue`, the element loop, `cleanAttribute`) computes the
     reference cleaning rule `Attributes.specClean`;
  2. the translated `setItem`/`delItem`/`mergeIn` simulate the reference container `Attributes.Spec` step by
     step, under the capacity invariant, which they preserve.
-/
import DeepModel.Model.Attributes
open Attr Extracted.Attributes Attributes

namespace AttrProofs

theorem other_ne (t : String) (s : String) (h : s.toList.head? ≠ some 'o') : ("obj:" ++ t == s) = false := by
  apply beq_false_of_ne
  intro e
  apply h
  rw [← e]
  simp [String.toList_append]

theorem not_contains_other (l : List String) (h : ∀ s ∈ l, s.toList.head? ≠ some 'o') (t : String) :
    l.contains ("obj:" ++ t) = false := by
  induction l with
  | nil => rfl
  | cons a l ih =>
    rw [List.contains_cons, other_ne t a (h a (List.mem_cons_self ..)), ih (fun s hs => h s (List.mem_cons_of_mem _ hs))]
    rfl

theorem other_not_valid (t : String) : validAttrValueTypes.contains ("obj:" ++ t) = false :=
  not_contains_other _ (by decide) t

theorem other_not_mem (t : String) : "obj:" ++ t ∉ validAttrValueTypes := by
  have := other_not_valid t
  simpa using this

theorem mro_other (t : String) : mro ("obj:" ++ t) = ["obj:" ++ t] := by
  simp [mro, other_ne t "bool" (by decide)]

/-- what `_clean_attribute_value` does to each kind of object -/
theorem cleanAttributeValue_eq (x : Scalar) (mvl : Option Int) :
    cleanAttributeValue x mvl = match x with
      | .other t => .other t
      | x => specElem mvl x := by
  cases x with
  | bytes d =>
    cases d <;> cases mvl <;>
      simp [cleanAttributeValue, Scalar.isNone, isInstance, PyObj.tyName, Scalar.tyName, mro, Scalar.decode,
        Scalar.sliceTo, specElem, specScalar, cut]
  | _ =>
    cases mvl <;>
      simp [cleanAttributeValue, Scalar.isNone, isInstance, PyObj.tyName, Scalar.tyName, mro, Scalar.decode,
        Scalar.sliceTo, specElem, specScalar, cut]

def homog (t : Option String) (ys : List Scalar) : Bool :=
  match t with
  | some t => ys.all (fun y => y.tyName == t)
  | none => sameType ys

def nonNone (ys : List Scalar) : List Scalar := ys.filter (fun y => !y.isNone)

theorem loop_cons (key : Key) (value : Val) (mvl : Option Int) (x : Scalar) (xs : List Scalar)
    (t : Option String) (acc : List Scalar) :
    cleanAttributeLoop key value mvl (x :: xs) t acc =
      if (cleanAttributeValue x mvl).isNone then
        cleanAttributeLoop key value mvl xs t (acc ++ [cleanAttributeValue x mvl])
      else if !(validAttrValueTypes.contains (cleanAttributeValue x mvl).tyName) then Val.none
      else match t with
        | some t0 =>
          if (cleanAttributeValue x mvl).tyName != t0 then Val.none
          else cleanAttributeLoop key value mvl xs (some t0) (acc ++ [cleanAttributeValue x mvl])
        | none =>
          cleanAttributeLoop key value mvl xs (some (cleanAttributeValue x mvl).tyName)
            (acc ++ [cleanAttributeValue x mvl]) := by
  cases t <;> simp [cleanAttributeLoop, PyObj.tyName]

/-- every object is, for the element loop, a `None` (after cleaning), an invalid element, or a valid scalar -/
theorem elem_class (x : Scalar) (mvl : Option Int) :
    (badElem x = true ∧ (cleanAttributeValue x mvl).isNone = false ∧
      (cleanAttributeValue x mvl).tyName ∉ validAttrValueTypes) ∨
    (badElem x = false ∧ cleanAttributeValue x mvl = specElem mvl x ∧
      ((specElem mvl x).isNone = true ∨
       ((specElem mvl x).isNone = false ∧ (specElem mvl x).tyName ∈ validAttrValueTypes))) := by
  rw [cleanAttributeValue_eq]
  cases x with
  | other ty => left; simp [badElem, Scalar.isNone, Scalar.tyName, other_not_mem]
  | bytes d =>
    right; cases d <;> simp [badElem, specElem, specScalar, Scalar.isNone, Scalar.tyName, validAttrValueTypes]
  | _ => right; simp [badElem, specElem, specScalar, Scalar.isNone, Scalar.tyName, validAttrValueTypes]

theorem loop_eq (key : Key) (value : Val) (mvl : Option Int) (xs : List Scalar) :
    ∀ (t : Option String) (acc : List Scalar),
    cleanAttributeLoop key value mvl xs t acc =
      if xs.any badElem then Val.none
      else if homog t (nonNone (xs.map (specElem mvl))) then Val.seq (acc ++ xs.map (specElem mvl))
      else Val.none := by
  induction xs with
  | nil => intro t acc; cases t <;> simp [cleanAttributeLoop, homog, nonNone, sameType]
  | cons x xs ih =>
    intro t acc
    rw [loop_cons]
    rcases elem_class x mvl with ⟨hb, hn, hv⟩ | ⟨hb, he, hn | ⟨hn, hv⟩⟩
    · simp [hn, hv, hb]
    · rw [he]
      simp [hn, hb, ih, nonNone]
    · rw [he]
      cases t with
      | none =>
        simp [hn, hv, hb, ih, nonNone, homog, sameType]
      | some t0 =>
        by_cases htt : (specElem mvl x).tyName = t0
        · subst htt
          simp [hn, hv, hb, ih, nonNone, homog]
        · simp [hn, hv, hb, nonNone, homog, htt]

theorem isInstance_other (t : String) (tys : List String) :
    isInstance (Scalar.other t) tys = tys.contains ("obj:" ++ t) := by
  simp [isInstance, PyObj.tyName, Scalar.tyName, mro_other]

theorem isInstance_other_val (t : String) (tys : List String) :
    isInstance (Val.sc (Scalar.other t)) tys = tys.contains ("obj:" ++ t) := by
  simp [isInstance, PyObj.tyName, Val.tyName, Scalar.tyName, mro_other]

theorem clean_eq_spec (k : Key) (v : Val) (mvl : Option Int) :
    cleanAttribute k v mvl = (specClean mvl k v).getD Val.none := by
  cases k with
  | other r => simp [cleanAttribute, specClean, isInstance, PyObj.tyName, Key.tyName, mro]
  | str s =>
    by_cases hs : s = ""
    · simp [cleanAttribute, specClean, Key.truthy, hs]
    · cases v with
      | seq xs =>
        have hkey : (!(Key.truthy (Key.str s) && isInstance (Key.str s) ["str"])) = false := by
          simp [Key.truthy, hs, isInstance, PyObj.tyName, Key.tyName, mro]
        have h1 : isInstance (Val.seq xs) validAttrValueTypes = false := by
          simp [isInstance, PyObj.tyName, Val.tyName, mro, validAttrValueTypes]
        simp only [cleanAttribute, hkey, h1, Val.isSequence, Val.elems, loop_eq, List.nil_append, specClean, hs,
          if_false, Bool.false_eq_true, if_true]
        by_cases hb : xs.any badElem = true
        · simp [hb]
        · have hh : homog none (nonNone (List.map (specElem mvl) xs)) =
              sameType (List.filter (fun y => !y.isNone) (List.map (specElem mvl) xs)) := rfl
          simp only [hb, if_false, Bool.false_eq_true, hh]
          split <;> simp
      | sc x =>
        cases x with
        | other t =>
          simp [cleanAttribute, specClean, Key.truthy, hs, isInstance_other_val, other_not_mem, Val.isSequence,
            specScalar]
        | bytes d =>
          cases d <;>
          simp [cleanAttribute, specClean, Key.truthy, hs, isInstance, PyObj.tyName, Key.tyName, Val.tyName,
            Scalar.tyName, mro, validAttrValueTypes, Val.isSequence, specScalar, Val.mapScalar,
            cleanAttributeValue_eq, specElem, Val.none]
        | _ =>
          simp [cleanAttribute, specClean, Key.truthy, hs, isInstance, PyObj.tyName, Key.tyName, Val.tyName,
            Scalar.tyName, mro, validAttrValueTypes, Val.isSequence, specScalar, Val.mapScalar,
            cleanAttributeValue_eq, specElem, Val.none]

theorem specClean_not_none {k : Key} {v v' : Val} {mvl : Option Int} (h : specClean mvl k v = some v') :
    v'.isNone = false := by
  cases k with
  | other r => simp [specClean] at h
  | str s =>
    by_cases hs : s = ""
    · simp [specClean, hs] at h
    · cases v with
      | seq xs =>
        simp only [specClean, hs, if_false] at h
        split at h
        · simp at h
        · split at h
          · cases h; rfl
          · simp at h
      | sc x =>
        cases x with
        | bytes d => cases d <;> simp [specClean, hs, specScalar] at h <;> subst h <;> rfl
        | _ => simp [specClean, hs, specScalar] at h <;> subst h <;> rfl

/-! ### ordered dict facts -/
theorem contains_erase (d : OD) (k : Key) : OD.contains (OD.erase d k) k = false := by
  simp [OD.contains, OD.erase]

theorem filter_of_not_contains {d : OD} {k : Key} (h : OD.contains d k = false) :
    d.filter (fun e => e.1 != k) = d := by
  simp only [OD.contains, List.any_eq_false, beq_iff_eq] at h
  apply List.filter_eq_self.mpr
  intro e he
  simpa using h e he

theorem contains_tail {d : OD} {k : Key} (h : OD.contains d k = false) : OD.contains d.tail k = false := by
  simp only [OD.contains, List.any_eq_false] at *
  intro e he
  exact h e (List.mem_of_mem_tail he)

theorem set_of_not_contains {d : OD} {k : Key} (v : Val) (h : OD.contains d k = false) :
    OD.set d k v = d ++ [(k, v)] := by
  simp [OD.set, h]

theorem set_filter (d : OD) (k : Key) (v : Val) :
    OD.set (List.filter (fun e => e.1 != k) d) k v = List.filter (fun e => e.1 != k) d ++ [(k, v)] :=
  set_of_not_contains v (contains_erase d k)

theorem length_filter_lt {d : OD} {k : Key} (h : OD.contains d k = true) :
    (d.filter (fun e => e.1 != k)).length < d.length := by
  induction d with
  | nil => simp [OD.contains] at h
  | cons e d ih =>
    by_cases he : e.1 = k
    · have := List.length_filter_le (fun e => e.1 != k) d
      simp only [List.filter_cons, he, bne_self_eq_false, Bool.false_eq_true, if_false, List.length_cons]
      omega
    · have hd : OD.contains d k = true := by
        simp only [OD.contains, List.any_cons, Bool.or_eq_true, beq_iff_eq] at h
        rcases h with h | h
        · exact absurd h he
        · exact h
      have := ih hd
      have hne : (e.1 != k) = true := by simpa using he
      simp only [List.filter_cons, hne, if_true, List.length_cons]
      omega

theorem drop_one_append {α : Type} (d : List α) (x : α) (h : d ≠ []) : (d ++ [x]).drop 1 = d.tail ++ [x] := by
  cases d with
  | nil => exact absurd rfl h
  | cons a d => simp

def Inv (st : BA) : Prop := ∀ c, st.cap = some c → st.dict.length ≤ c

def absOut (r : BA × Option String) : Spec × Option String := (abs r.1, r.2)

theorem setItem_sim (st : BA) (hinv : Inv st) (k : Key) (v : Val) :
    absOut (outcome st (setItem st k v)) = (abs st).set k v ∧ Inv (outcome st (setItem st k v)).1 := by
  unfold setItem Spec.set
  by_cases hf : st.frozen = true
  · simp [hf, outcome, absOut, abs, hinv]
  · have hf' : st.frozen = false := by simpa using hf
    cases hc : st.cap with
    | none =>
      rw [clean_eq_spec]
      cases hs : specClean st.maxValLen k v with
      | none => simp [hf', hc, hs, outcome, absOut, abs, Val.none, Val.isNone, hinv]
      | some v' =>
        have hn := specClean_not_none hs
        by_cases hk : OD.contains st.dict k = true
        · simp [hf', hc, hs, hn, hk, outcome, absOut, abs, OD.del, keepLast, Inv,
            set_filter, OD.erase]
        · have hk' : OD.contains st.dict k = false := by simpa using hk
          simp [hf', hc, hs, hn, hk', outcome, absOut, abs, keepLast, Inv, set_of_not_contains _ hk',
            filter_of_not_contains hk']
    | some c =>
      have hlen : st.dict.length ≤ c := hinv c hc
      by_cases hc0 : c = 0
      · subst hc0
        simp [hf', hc, outcome, absOut, abs, Inv]
        exact List.eq_nil_of_length_eq_zero (Nat.le_zero.mp hlen)
      · rw [clean_eq_spec]
        cases hs : specClean st.maxValLen k v with
        | none => simp [hf', hc, hc0, hs, outcome, absOut, abs, Val.none, Val.isNone, hinv]
        | some v' =>
          have hn := specClean_not_none hs
          by_cases hk : OD.contains st.dict k = true
          · have hlt := length_filter_lt hk
            have h0 : (List.filter (fun e => e.1 != k) st.dict).length + 1 - c = 0 := by omega
            simp [hf', hc, hc0, hs, hn, hk, outcome, absOut, abs, OD.del, keepLast, Inv, set_filter, OD.erase, h0]
            omega
          · have hk' : OD.contains st.dict k = false := by simpa using hk
            by_cases hfull : st.dict.length = c
            · have hne : st.dict ≠ [] := by
                intro h; rw [h] at hfull; simp at hfull; omega
              have hd1 : st.dict.length + 1 - c = 1 := by omega
              simp [hf', hc, hc0, hs, hn, hk', hfull, outcome, absOut, abs, keepLast, Inv, OD.popitem, OD.len, hne,
                set_of_not_contains _ (contains_tail hk'), filter_of_not_contains hk', hd1, drop_one_append _ _ hne]
              omega
            · have hd0 : st.dict.length + 1 - c = 0 := by omega
              simp [hf', hc, hc0, hs, hn, hk', hfull, outcome, absOut, abs, keepLast, Inv, OD.len,
                set_of_not_contains _ hk', filter_of_not_contains hk', hd0]
              omega

theorem delItem_sim (st : BA) (hinv : Inv st) (k : Key) :
    absOut (outcome st (delItem st k)) = (abs st).del k ∧ Inv (outcome st (delItem st k)).1 := by
  unfold delItem Spec.del
  by_cases hf : st.frozen = true
  · simp [hf, outcome, absOut, abs, hinv]
  · have hf' : st.frozen = false := by simpa using hf
    by_cases hk : OD.contains st.dict k = true
    · have hk2 : (st.dict.any fun e => e.1 == k) = true := hk
      have := List.length_filter_le (fun e => e.1 != k) st.dict
      simp only [hf', OD.del, hk, if_true, outcome, absOut, abs, hk2, OD.erase, Bool.false_eq_true, if_false]
      refine ⟨trivial, ?_⟩
      intro c hc
      have := hinv c hc
      simp only
      omega
    · have hk' : OD.contains st.dict k = false := by simpa using hk
      have hk2 : (st.dict.any fun e => e.1 == k) = false := hk'
      simp [hf', OD.del, hk', outcome, absOut, abs, hk2, hinv]

theorem mergeIn_sim (kvs : List (Key × Val)) : ∀ (st : BA), Inv st →
    absOut (mergeIn st kvs) = (abs st).setAll kvs ∧ Inv (mergeIn st kvs).1 := by
  induction kvs with
  | nil => intro st h; exact ⟨rfl, h⟩
  | cons kv kvs ih =>
    intro st hinv
    obtain ⟨k, v⟩ := kv
    have ⟨h1, h2⟩ := setItem_sim st hinv k v
    simp only [mergeIn, Spec.setAll]
    rw [← h1]
    cases hs : setItem st k v with
    | error e => simp [hs, outcome, absOut, hinv]
    | ok st' =>
      simp only [hs, outcome] at h2
      simpa [hs, outcome, absOut] using ih st' h2

theorem step_sim (st : BA) (hinv : Inv st) (op : Op) :
    absOut (step st op) = (abs st).step op ∧ Inv (step st op).1 := by
  cases op with
  | set k v => exact setItem_sim st hinv k v
  | del k => exact delItem_sim st hinv k
  | mergeIn kvs => exact mergeIn_sim kvs st hinv

theorem run_sim (ops : List Op) : ∀ (st : BA), Inv st →
    (abs (run st ops).1, (run st ops).2) = Spec.run (abs st) ops ∧ Inv (run st ops).1 := by
  induction ops with
  | nil => intro st h; exact ⟨rfl, h⟩
  | cons op ops ih =>
    intro st hinv
    have ⟨h1, h2⟩ := step_sim st hinv op
    have ⟨h3, h4⟩ := ih (step st op).1 h2
    simp only [run, Spec.run]
    rw [← h1]
    simp only [absOut]
    rw [← h3]
    exact ⟨rfl, h4⟩

theorem blank_inv (cap : Option Nat) (mvl : Option Int) : Inv (blank cap mvl) := by
  intro c _; simp [blank]

theorem create_sim (cap : Option Nat) (mvl : Option Int) (attrs : List (Key × Val)) (imm : Bool) :
    abs (create cap mvl attrs imm) = Spec.create cap mvl attrs imm ∧ Inv (create cap mvl attrs imm) := by
  have ⟨h1, h2⟩ := mergeIn_sim attrs (blank cap mvl) (blank_inv cap mvl)
  constructor
  · simp only [create, Spec.create]
    have : abs (blank cap mvl) = ⟨cap, mvl, [], 0, false⟩ := rfl
    rw [← this, ← h1]
    rfl
  · intro c hc
    exact h2 c hc

end AttrProofs
