/-
  Proofs/ConfigSvc — lemmas behind C12 and C13: list facts about the parallel registration lists, field-level
  effect of every extracted state transformer, and the simulation between the agent (`step`) and the reference
  machine (`refStep`) with the "something is still in flight, or what is installed is current" invariant.
-/
import DeepModel.Model.ConfigSvc

namespace ConfigSvc
open Extracted.ConfigSvc

/-! ### lists -/

theorem zip_eraseIdx {α β : Type} (l₁ : List α) (l₂ : List β) (i : Nat) :
    (l₁.eraseIdx i).zip (l₂.eraseIdx i) = (l₁.zip l₂).eraseIdx i := by
  induction l₁ generalizing l₂ i with
  | nil => simp
  | cons a as ih =>
    cases l₂ with
    | nil => simp
    | cons b bs =>
      cases i with
      | zero => simp
      | succ i => simp [ih]

theorem filter_zip_not_mem {β : Type} (ids : List Nat) (cs : List β) (h : Nat) (hn : h ∉ ids) :
    (ids.zip cs).filter (fun p => p.1 != h) = ids.zip cs := by
  apply List.filter_eq_self.mpr
  intro p hp
  have := (List.of_mem_zip (a := p.1) (b := p.2) (by simpa using hp)).1
  simp only [bne_iff_ne, ne_eq]
  intro e
  exact hn (e ▸ this)

theorem findIdx_none_not_mem (ids : List Nat) (h : Nat) (hf : ids.findIdx? (fun x => x == h) = none) : h ∉ ids := by
  intro hm
  have := (List.findIdx?_eq_none_iff.mp hf) h hm
  simp at this

/-- erasing the index found by handle = dropping the pairs with that handle (handles are distinct) -/
theorem eraseIdx_found_eq_filter {β : Type} (ids : List Nat) (cs : List β) (h i : Nat) (hn : ids.Nodup)
    (hf : ids.findIdx? (fun x => x == h) = some i) :
    (ids.zip cs).eraseIdx i = (ids.zip cs).filter (fun p => p.1 != h) := by
  induction ids generalizing cs i with
  | nil => simp at hf
  | cons a as ih =>
    cases cs with
    | nil => simp
    | cons c cs' =>
      rw [List.findIdx?_cons] at hf
      have hn' := (List.nodup_cons.mp hn)
      by_cases hah : a = h
      · subst hah
        simp only [beq_self_eq_true, if_true, Option.some.injEq] at hf
        subst hf
        simp only [List.zip_cons_cons, List.eraseIdx_cons_zero]
        rw [List.filter_cons]
        simp only [bne_self_eq_false, Bool.false_eq_true, if_false]
        exact (filter_zip_not_mem as cs' a hn'.1).symm
      · have hne : (a == h) = false := by simpa using hah
        simp only [hne, Bool.false_eq_true, if_false, Option.map_eq_some_iff] at hf
        obtain ⟨j, hj, rfl⟩ := hf
        simp only [List.zip_cons_cons, List.eraseIdx_cons_succ]
        rw [List.filter_cons]
        have : ((a, c).1 != h) = true := by simpa using hah
        simp only [this, if_true]
        rw [ih cs' j hn'.2 hj]

theorem findIdx_some_mem (ids : List Nat) (h i : Nat) (hf : ids.findIdx? (fun x => x == h) = some i) :
    h ∈ ids ∧ i < ids.length := by
  have := List.findIdx?_eq_some_iff_getElem.mp hf
  obtain ⟨hi, hp, _⟩ := this
  refine ⟨?_, hi⟩
  have e : ids[i] = h := by simpa using hp
  exact e ▸ List.getElem_mem hi

/-! ### well-formed registration lists -/

structure Wf (v : Svc) : Prop where
  len : v.customIds.length = v.custom.length
  fresh : ∀ h ∈ v.customIds, h < v.nextHandle
  nodup : v.customIds.Nodup

theorem wf_init : Wf Svc.init := ⟨rfl, by simp [Svc.init], by simp [Svc.init]⟩

/-! ### field-level effect of the extracted transformers -/

@[simp] theorem triggerUpdate_hash (v : Svc) : (triggerUpdate v).hash = v.hash := rfl
@[simp] theorem triggerUpdate_polled (v : Svc) : (triggerUpdate v).polled = v.polled := rfl
@[simp] theorem triggerUpdate_custom (v : Svc) : (triggerUpdate v).custom = v.custom := rfl
@[simp] theorem triggerUpdate_ids (v : Svc) : (triggerUpdate v).customIds = v.customIds := rfl
@[simp] theorem triggerUpdate_next (v : Svc) : (triggerUpdate v).nextHandle = v.nextHandle := rfl
@[simp] theorem triggerUpdate_queued (v : Svc) : (triggerUpdate v).queued = v.queued ++ [⟨v.polled⟩] := rfl

theorem triggerUpdate_queued_ne (v : Svc) : (triggerUpdate v).queued ≠ [] := by simp

theorem updateNoChange_eq (v : Svc) (ts : Int) : updateNoChange v ts = { v with lastUpdate := ts } := rfl

theorem updateNewConfig_eq (v : Svc) (ts : Int) (h : String) (cfg : List Trig) :
    updateNewConfig v ts h cfg =
      { v with lastUpdate := ts, hash := some h, polled := cfg, queued := v.queued ++ [⟨cfg⟩] } := rfl

theorem addCustom_none_eq (v : Svc) :
    addCustom v none = ({ v with nextHandle := v.nextHandle + 1 }, v.nextHandle) := rfl

theorem addCustom_eq (v : Svc) (t : Trig) :
    addCustom v (some t) =
      ({ v with nextHandle := v.nextHandle + 1, custom := v.custom ++ [t],
                customIds := v.customIds ++ [v.nextHandle],
                queued := v.queued ++ [⟨v.polled⟩] }, v.nextHandle) := rfl

theorem removeCustom_none (v : Svc) (h : Handle) (hf : v.customIds.findIdx? (fun x => x == h) = none) :
    removeCustom v h = v := by
  simp [removeCustom, hf]

theorem removeCustom_some (v : Svc) (h : Handle) (i : Nat) (hf : v.customIds.findIdx? (fun x => x == h) = some i) :
    removeCustom v h = { v with custom := v.custom.eraseIdx i, customIds := v.customIds.eraseIdx i,
                                queued := v.queued ++ [⟨v.polled⟩] } := by
  simp [removeCustom, hf, triggerUpdate]

theorem wf_addCustom_none (v : Svc) (w : Wf v) : Wf (addCustom v none).1 := by
  rw [addCustom_none_eq]
  exact ⟨w.len, fun h hm => Nat.lt_succ_of_lt (w.fresh h hm), w.nodup⟩

theorem wf_addCustom (v : Svc) (t : Trig) (w : Wf v) : Wf (addCustom v (some t)).1 := by
  rw [addCustom_eq]
  refine ⟨by simp [w.len], ?_, ?_⟩
  · intro h hm
    simp only [List.mem_append, List.mem_singleton] at hm
    rcases hm with hm | rfl
    · have := w.fresh h hm
      exact Nat.lt_succ_of_lt this
    · exact Nat.lt_succ_self _
  · simp only
    rw [List.nodup_append]
    refine ⟨w.nodup, by simp, ?_⟩
    intro a ha b hb
    simp only [List.mem_singleton] at hb
    subst hb
    have := w.fresh a ha
    exact Nat.ne_of_lt this

theorem wf_removeCustom (v : Svc) (h : Handle) (w : Wf v) : Wf (removeCustom v h) := by
  cases hf : v.customIds.findIdx? (fun x => x == h) with
  | none => rw [removeCustom_none v h hf]; exact w
  | some i =>
    rw [removeCustom_some v h i hf]
    have hi := (findIdx_some_mem _ _ _ hf).2
    refine ⟨?_, ?_, ?_⟩
    · simp only [List.length_eraseIdx, w.len]
    · intro x hx
      exact w.fresh x (List.mem_of_mem_eraseIdx hx)
    · exact List.Nodup.sublist (List.eraseIdx_sublist _ _) w.nodup

/-- `remove_custom` on the pairs: the pairs with that handle disappear, nothing else moves -/
theorem zip_removeCustom (v : Svc) (h : Handle) (w : Wf v) :
    (removeCustom v h).customIds.zip (removeCustom v h).custom =
      (v.customIds.zip v.custom).filter (fun p => p.1 != h) := by
  cases hf : v.customIds.findIdx? (fun x => x == h) with
  | none =>
    rw [removeCustom_none v h hf]
    exact (filter_zip_not_mem _ _ _ (findIdx_none_not_mem _ _ hf)).symm
  | some i =>
    rw [removeCustom_some v h i hf]
    simp only
    rw [zip_eraseIdx]
    exact eraseIdx_found_eq_filter _ _ _ _ w.nodup hf

theorem zip_addCustom (v : Svc) (t : Trig) (w : Wf v) :
    (addCustom v (some t)).1.customIds.zip (addCustom v (some t)).1.custom =
      v.customIds.zip v.custom ++ [(v.nextHandle, t)] := by
  rw [addCustom_eq]
  simp only
  rw [List.zip_append w.len]
  simp

theorem map_snd_regs (v : Svc) (w : Wf v) : (v.customIds.zip v.custom).map (·.2) = v.custom := by
  apply List.map_snd_zip
  have := w.len
  omega

/-- with distinct handles, dropping the pairs of handle `h` is erasing the one pair `(h, t)` -/
theorem filter_eq_erase (l : List (Handle × Trig)) (h : Handle) (t : Trig) (hn : (l.map (·.1)).Nodup)
    (hm : (h, t) ∈ l) : l.filter (fun p => p.1 != h) = l.erase (h, t) := by
  induction l with
  | nil => simp at hm
  | cons p ps ih =>
    simp only [List.map_cons, List.nodup_cons] at hn
    by_cases hp : p = (h, t)
    · subst hp
      simp only [List.erase_cons_head]
      rw [List.filter_cons]
      simp only [bne_self_eq_false, Bool.false_eq_true, if_false]
      apply List.filter_eq_self.mpr
      intro q hq
      simp only [bne_iff_ne, ne_eq]
      intro e
      exact hn.1 (List.mem_map.mpr ⟨q, hq, e⟩)
    · have hm' : (h, t) ∈ ps := by
        rcases List.mem_cons.mp hm with e | e
        · exact absurd e.symm hp
        · exact e
      have hne : p.1 ≠ h := by
        intro e
        exact hn.1 (List.mem_map.mpr ⟨(h, t), hm', e.symm⟩)
      rw [List.filter_cons]
      have : (p.1 != h) = true := by simpa using hne
      simp only [this, if_true]
      rw [List.erase_cons_tail (by simpa using hp)]
      rw [ih hn.2 hm']

theorem map_fst_regs (v : Svc) (w : Wf v) : (v.customIds.zip v.custom).map (·.1) = v.customIds := by
  apply List.map_fst_zip
  have := w.len
  omega

/-- after `remove_custom h` no registration has handle `h` -/
theorem not_mem_removeCustom (v : Svc) (h : Handle) (w : Wf v) : h ∉ (removeCustom v h).customIds := by
  have w' := wf_removeCustom v h w
  rw [← map_fst_regs _ w', zip_removeCustom v h w]
  intro hm
  obtain ⟨p, hp, e⟩ := List.mem_map.mp hm
  have := (List.mem_filter.mp hp).2
  simp only [bne_iff_ne, ne_eq] at this
  exact this e

theorem findIdx_none_of_not_mem (ids : List Nat) (h : Nat) (hn : h ∉ ids) :
    ids.findIdx? (fun x => x == h) = none := by
  apply List.findIdx?_eq_none_iff.mpr
  intro x hx
  simp only [beq_eq_false_iff_ne, ne_eq]
  intro e
  exact hn (e ▸ hx)

/-! ### poll responses -/

/-! ### closed task handler: the same list updates, nothing queued -/

/-- as the source is now, the refused call is the LAST state-changing statement of `add_custom`: cut there, the
    lists are those of the open version, nothing is queued, and the refusal leaves exactly when a trigger was built -/
theorem addCustomRefused_eq (v : Svc) (b : Option Trig) :
    addCustomRefused v b =
      ({ (addCustom v b).1 with queued := v.queued }, if b.isSome then none else some (addCustom v b).2) := by
  cases b <;> rfl

theorem removeCustomRefused_eq (v : Svc) (h : Handle) :
    removeCustomRefused v h =
      ({ removeCustom v h with queued := v.queued }, (v.customIds.findIdx? (fun x => x == h)).isSome) := by
  unfold removeCustomRefused removeCustom
  cases List.findIdx? (fun tp_id => tp_id == h) v.customIds <;> rfl

theorem wf_queued (v : Svc) (q : List ApplyTask) (w : Wf v) : Wf { v with queued := q } := ⟨w.1, w.2, w.3⟩

theorem convertResponse_eq (tps : List RawTp) :
    convertResponse tps = some ((tps.filter (fun t => t.convertible && t.interpretable)).map (·.trig)) := by
  simp [convertResponse, skipsUnconvertible, skipsUninterpretable, List.filter_filter, Bool.and_comm]

theorem pollFail_exc (s : St) : pollFail s .exc = s := by
  simp [pollFail, timerCatches, timerCatchesException]

/-! ### the simulation -/

/-- either an apply task is still to start or stands before the lock, or the one under the lock carries the current
    value, or what is installed is current -/
def Settled (s : St) : Prop :=
  s.holding.length ≤ 1 ∧
  (s.svc.queued ≠ [] ∨ s.pre ≠ [] ∨
    (∃ l v, s.holding = [⟨l, v, false⟩] ∧ l.new_config = s.svc.polled) ∨
    (∃ l, s.holding = [⟨l, s.svc.polled ++ s.svc.custom, true⟩]) ∨
    (s.holding = [] ∧ s.h.installed = s.svc.polled ++ s.svc.custom))

structure Rel (s : St) (r : Ref) : Prop where
  wf : Wf s.svc
  polled : s.svc.polled = r.config
  hash : s.svc.hash = r.hash
  live : regs s = r.live
  n : s.svc.nextHandle = r.n
  running : s.h.stopped = false
  settled : Settled s

theorem rel_init : Rel St.init Ref.init := by
  refine ⟨wf_init, rfl, rfl, rfl, rfl, rfl, ?_⟩
  simp [Settled, St.init, Svc.init]

theorem newConfig_running (h : Handler) (v : List Trig) (hr : h.stopped = false) :
    newConfig h v = { h with installed := v } := by
  simp [newConfig, hr]

theorem listenerPre_eq (v : Svc) (l : Locals) : listenerPre v l = l := rfl
theorem listenerRead_eq (v : Svc) (l : Locals) : (listenerRead v l).new_config = v.polled := rfl
theorem listenerArg_eq (v : Svc) (l : Locals) : listenerArg v l = l.new_config ++ v.custom := rfl

/-- with at most one holder, index `k` naming a holder means `k = 0` and it is the only one -/
theorem holding_single {l : List Hold} {k : Nat} {v : Hold} (hlen : l.length ≤ 1) (hk : l[k]? = some v) :
    k = 0 ∧ l = [v] := by
  match l, hlen, hk with
  | [x], _, hk =>
    cases k with
    | zero => simp at hk; exact ⟨rfl, by rw [hk]⟩
    | succ k => simp at hk
  | [], _, hk => simp at hk
  | _ :: _ :: _, hl, _ => simp at hl

theorem rel_step (s : St) (r : Ref) (op : Op) (hr : Rel s r) : Rel (step true s op) (refStep r op) := by
  obtain ⟨wf, hp, hh, hl, hn, hrun, hlen, hset⟩ := hr
  cases op with
  | poll rt ts h tps =>
    cases rt with
    | noChange =>
      have e : step true s (.poll .noChange ts h tps) = { s with svc := { s.svc with lastUpdate := ts } } := rfl
      rw [e]
      show Rel _ r
      exact ⟨⟨wf.len, wf.fresh, wf.nodup⟩, hp, hh, hl, hn, hrun, hlen, hset⟩
    | other =>
      have e : step true s (.poll .other ts h tps) = s := rfl
      rw [e]
      exact ⟨wf, hp, hh, hl, hn, hrun, hlen, hset⟩
    | update =>
      have e : step true s (.poll .update ts h tps) =
          match convertResponse tps with
          | none => pollFail s .exc
          | some cfg => { s with svc := updateNewConfig s.svc ts h cfg } := rfl
      rw [e]
      simp only [convertResponse_eq, refStep, updateNewConfig_eq]
      refine ⟨⟨wf.len, wf.fresh, wf.nodup⟩, rfl, rfl, hl, hn, hrun, hlen, Or.inl (by simp)⟩
  | pollFail e =>
    exact ⟨wf, hp, hh, hl, hn, hrun, hlen, hset⟩
  | register t =>
    refine ⟨wf_addCustom _ t wf, hp, hh, ?_, ?_, hrun, hlen, Or.inl (by simp [step, addCustom_eq])⟩
    · show (addCustom s.svc (some t)).1.customIds.zip (addCustom s.svc (some t)).1.custom = _
      rw [zip_addCustom _ _ wf]
      simp only [refStep]
      rw [← hl, ← hn]; rfl
    · simp only [step, addCustom_eq, refStep]; rw [← hn]
  | registerBad =>
    refine ⟨wf_addCustom_none _ wf, hp, hh, hl, ?_, hrun, hlen, hset⟩
    simp only [step, addCustom_none_eq, refStep]; rw [← hn]
  | unregister h =>
    have hz := zip_removeCustom s.svc h wf
    cases hf : s.svc.customIds.findIdx? (fun x => x == h) with
    | none =>
      have e : step true s (.unregister h) = s := by simp [step, removeCustom_none _ _ hf]
      rw [e]
      refine ⟨wf, hp, hh, ?_, hn, hrun, hlen, hset⟩
      simp only [refStep]
      rw [← hl]
      simp only [regs]
      exact (filter_zip_not_mem _ _ _ (findIdx_none_not_mem _ _ hf)).symm
    | some i =>
      refine ⟨wf_removeCustom _ h wf, ?_, ?_, ?_, ?_, hrun, hlen, Or.inl ?_⟩
      · simp only [step, removeCustom_some _ _ _ hf]; exact hp
      · simp only [step, removeCustom_some _ _ _ hf]; exact hh
      · simp only [refStep]; rw [← hl]; exact hz
      · simp only [step, removeCustom_some _ _ _ hf, refStep]; exact hn
      · simp [step, removeCustom_some _ _ _ hf]
  | taskStart i =>
    simp only [step, refStep]
    cases hq : s.svc.queued[i]? with
    | none => exact ⟨wf, hp, hh, hl, hn, hrun, hlen, hset⟩
    | some t =>
      refine ⟨⟨wf.len, wf.fresh, wf.nodup⟩, hp, hh, hl, hn, hrun, hlen, Or.inr (Or.inl (by simp))⟩
  | taskRead k =>
    simp only [step, refStep]
    cases hq : s.pre[k]? with
    | none => exact ⟨wf, hp, hh, hl, hn, hrun, hlen, hset⟩
    | some l =>
      cases hhold : s.holding with
      | cons v vs =>
        simp only [Bool.true_and, List.isEmpty_cons, Bool.not_false, if_true]
        exact ⟨wf, hp, hh, hl, hn, hrun, hhold ▸ hlen, hhold ▸ hset⟩
      | nil =>
        simp only [Bool.true_and, List.isEmpty_nil, Bool.not_true, Bool.false_eq_true, if_false, List.nil_append]
        refine ⟨wf, hp, hh, hl, hn, hrun, by simp, Or.inr (Or.inr (Or.inl ⟨_, _, rfl, ?_⟩))⟩
        exact listenerRead_eq _ _
  | taskCall k =>
    simp only [step, refStep]
    cases hk : s.holding[k]? with
    | none => exact ⟨wf, hp, hh, hl, hn, hrun, hlen, hset⟩
    | some v =>
      obtain ⟨hk0, hone⟩ := holding_single hlen hk
      subst hk0
      dsimp only
      cases hb : v.argBuilt with
      | true => simp only [if_true]; exact ⟨wf, hp, hh, hl, hn, hrun, hlen, hset⟩
      | false =>
        simp only [Bool.false_eq_true, if_false]
        refine ⟨wf, hp, hh, hl, hn, hrun, by simp [hone], ?_⟩
        rcases hset with hq | hq | ⟨l, w, hv, hnc⟩ | ⟨l, hv⟩ | ⟨he, _⟩
        · exact Or.inl hq
        · exact Or.inr (Or.inl hq)
        · refine Or.inr (Or.inr (Or.inr (Or.inl ⟨v.loc, ?_⟩)))
          rw [hone] at hv ⊢
          simp only [List.cons.injEq, and_true] at hv
          subst hv
          simp [listenerArg_eq, hnc]
        · rw [hone] at hv
          simp only [List.cons.injEq, and_true] at hv
          rw [hv] at hb; simp at hb
        · rw [hone] at he; simp at he
  | taskInstall k =>
    simp only [step, refStep]
    cases hk : s.holding[k]? with
    | none => exact ⟨wf, hp, hh, hl, hn, hrun, hlen, hset⟩
    | some v =>
      obtain ⟨hk0, hone⟩ := holding_single hlen hk
      subst hk0
      dsimp only
      cases hb : v.argBuilt with
      | false => simp only [Bool.false_eq_true, if_false]; exact ⟨wf, hp, hh, hl, hn, hrun, hlen, hset⟩
      | true =>
        simp only [if_true]
        refine ⟨wf, hp, hh, hl, hn, ?_, ?_, ?_⟩
        · simp [newConfig_running _ _ hrun, hrun]
        · simp [hone]
        · rcases hset with hq | hq | ⟨l, w, hv, hnc⟩ | ⟨l, hv⟩ | ⟨he, _⟩
          · exact Or.inl hq
          · exact Or.inr (Or.inl hq)
          · rw [hone] at hv
            simp only [List.cons.injEq, and_true] at hv
            rw [hv] at hb; simp at hb
          · refine Or.inr (Or.inr (Or.inr (Or.inr ⟨by simp [hone], ?_⟩)))
            rw [hone] at hv
            simp only [List.cons.injEq, and_true] at hv
            simp [newConfig_running _ _ hrun, hv]
          · rw [hone] at he; simp at he
  | applyTask i =>
    simp only [step, refStep]
    cases hq : s.svc.queued[i]? with
    | none => exact ⟨wf, hp, hh, hl, hn, hrun, hlen, hset⟩
    | some t =>
      cases hhold : s.holding with
      | cons v vs =>
        simp only [Bool.true_and, List.isEmpty_cons, Bool.not_false, if_true]
        exact ⟨wf, hp, hh, hl, hn, hrun, hhold ▸ hlen, hhold ▸ hset⟩
      | nil =>
        simp only [Bool.true_and, List.isEmpty_nil, Bool.not_true, Bool.false_eq_true, if_false]
        refine ⟨⟨wf.len, wf.fresh, wf.nodup⟩, hp, hh, hl, hn, ?_, by simp,
          Or.inr (Or.inr (Or.inr (Or.inr ⟨rfl, ?_⟩)))⟩
        · simp [newConfig_running _ _ hrun, hrun]
        · simp [newConfig_running _ _ hrun, listenerArg_eq, listenerRead_eq]
  | timerStart text =>
    exact ⟨wf, hp, hh, hl, hn, hrun, hlen, hset⟩

theorem rel_run_from (ops : List Op) (s : St) (r : Ref) (h : Rel s r) :
    Rel (runFrom true s ops) (ops.foldl refStep r) := by
  induction ops generalizing s r with
  | nil => exact h
  | cons op ops ih => exact ih _ _ (rel_step s r op h)

theorem run_eq (ops : List Op) : run ops = runFrom true St.init ops := rfl

theorem rel_run (ops : List Op) : Rel (run ops) (refRun ops) := by
  rw [run_eq]; exact rel_run_from ops _ _ rel_init

/-! ### progress: from any state the background tasks alone reach quiescence -/

theorem runFrom_append (locked : Bool) (s : St) (a b : List Op) :
    runFrom locked s (a ++ b) = runFrom locked (runFrom locked s a) b := by
  simp [runFrom, List.foldl_append]

/-- the task under the lock (if any) finishes -/
theorem drain_holder (s : St) (hlen : s.holding.length ≤ 1) :
    ∃ ops, (∀ o ∈ ops, o.isTask = true) ∧ (runFrom true s ops).holding = [] ∧
      (runFrom true s ops).pre = s.pre ∧ (runFrom true s ops).svc = s.svc := by
  match hh : s.holding, hlen with
  | [], _ => exact ⟨[], by simp, by simp [runFrom, hh], rfl, rfl⟩
  | [v], _ =>
    cases hb : v.argBuilt with
    | true =>
      refine ⟨[.taskInstall 0], by simp [Op.isTask], ?_, ?_, ?_⟩ <;> simp [runFrom, step, hh, hb]
    | false =>
      refine ⟨[.taskCall 0, .taskInstall 0], by simp [Op.isTask], ?_, ?_, ?_⟩ <;> simp [runFrom, step, hh, hb]
  | _ :: _ :: _, hl => simp at hl

/-- every task standing before the lock takes it, evaluates and installs, one after the other -/
theorem drain_pre (n : Nat) : ∀ (s : St), s.pre.length = n → s.holding = [] →
    ∃ ops, (∀ o ∈ ops, o.isTask = true) ∧ (runFrom true s ops).holding = [] ∧
      (runFrom true s ops).pre = [] ∧ (runFrom true s ops).svc = s.svc := by
  induction n with
  | zero =>
    intro s hn hh
    exact ⟨[], by simp, by simp [runFrom, hh], by simpa [runFrom] using List.length_eq_zero_iff.mp hn, rfl⟩
  | succ n ih =>
    intro s hn hh
    match hp : s.pre, hn with
    | l :: rest, hn' =>
      let ops0 : List Op := [.taskRead 0, .taskCall 0, .taskInstall 0]
      have e1 : (runFrom true s ops0).holding = [] := by simp [ops0, runFrom, step, hp, hh]
      have e2 : (runFrom true s ops0).pre = rest := by simp [ops0, runFrom, step, hp, hh]
      have e3 : (runFrom true s ops0).svc = s.svc := by simp [ops0, runFrom, step, hp, hh]
      obtain ⟨ops1, t1, h1, p1, v1⟩ := ih (runFrom true s ops0) (by rw [e2]; simpa using hn') e1
      refine ⟨ops0 ++ ops1, ?_, ?_, ?_, ?_⟩
      · intro o ho
        rcases List.mem_append.mp ho with ho | ho
        · simp only [ops0, List.mem_cons, List.not_mem_nil, or_false] at ho
          rcases ho with rfl | rfl | rfl <;> rfl
        · exact t1 o ho
      · rw [runFrom_append]; exact h1
      · rw [runFrom_append]; exact p1
      · rw [runFrom_append, v1, e3]

/-- every queued task runs -/
theorem drain_queued (n : Nat) : ∀ (s : St), s.svc.queued.length = n → s.holding = [] → s.pre = [] →
    ∃ ops, (∀ o ∈ ops, o.isTask = true) ∧ quiescent (runFrom true s ops) = true := by
  induction n with
  | zero =>
    intro s hn hh hp
    refine ⟨[], by simp, ?_⟩
    simp [runFrom, quiescent, hh, hp, List.length_eq_zero_iff.mp hn]
  | succ n ih =>
    intro s hn hh hp
    match hq : s.svc.queued, hn with
    | t :: rest, hn' =>
      have e1 : (runFrom true s [.applyTask 0]).holding = [] := by simp [runFrom, step, hq, hh]
      have e2 : (runFrom true s [.applyTask 0]).pre = [] := by simp [runFrom, step, hq, hh, hp]
      have e3 : (runFrom true s [.applyTask 0]).svc.queued = rest := by simp [runFrom, step, hq, hh]
      obtain ⟨ops1, t1, q1⟩ := ih (runFrom true s [.applyTask 0]) (by rw [e3]; simpa using hn') e1 e2
      refine ⟨[.applyTask 0] ++ ops1, ?_, ?_⟩
      · intro o ho
        rcases List.mem_append.mp ho with ho | ho
        · simp only [List.mem_singleton] at ho; subst ho; rfl
        · exact t1 o ho
      · rw [runFrom_append]; exact q1

theorem progress (s : St) (hlen : s.holding.length ≤ 1) :
    ∃ ops, (∀ o ∈ ops, o.isTask = true) ∧ quiescent (runFrom true s ops) = true := by
  obtain ⟨a, ta, ha, pa, _⟩ := drain_holder s hlen
  obtain ⟨b, tb, hb, pb, _⟩ := drain_pre _ (runFrom true s a) rfl ha
  obtain ⟨c, tc, qc⟩ := drain_queued _ (runFrom true (runFrom true s a) b) rfl hb pb
  refine ⟨a ++ b ++ c, ?_, ?_⟩
  · intro o ho
    rcases List.mem_append.mp ho with ho | ho
    · rcases List.mem_append.mp ho with ho | ho
      · exact ta o ho
      · exact tb o ho
    · exact tc o ho
  · rw [runFrom_append, runFrom_append]; exact qc

theorem refStep_task (r : Ref) (o : Op) (h : o.isTask = true) : refStep r o = r := by
  cases o <;> simp [Op.isTask] at h <;> rfl

theorem refRun_tasks (ops ops' : List Op) (h : ∀ o ∈ ops', o.isTask = true) : refRun (ops ++ ops') = refRun ops := by
  simp only [refRun, List.foldl_append]
  generalize ops.foldl refStep Ref.init = r
  induction ops' generalizing r with
  | nil => rfl
  | cons o rest ih =>
    simp only [List.foldl_cons]
    rw [refStep_task r o (h o (List.mem_cons_self ..))]
    exact ih (fun o' ho' => h o' (List.mem_cons_of_mem _ ho')) r

end ConfigSvc
