/-
  Proofs/WireCodec — every generated message codec reads back what it wrote (C08 "survives serialisation").
  `rt_<M>`: `dec<M> (encRecs (enc<M> m)) = some m` for every `m` protobuf accepts (`m.accepts`, the acceptance rule of
  Extracted/Wire.lean) that is a message at all (`wireOk`: a oneof holds one member, a double is a 64-bit pattern).
-/
import DeepModel.Extracted.WireCodec
import DeepModel.Proofs.WireBytes

set_option linter.unusedSimpArgs false
set_option linter.unusedVariables false

namespace Wire
open Extracted.Wire

/-! ### generic: embedded and repeated messages under a `Prop` side condition -/

theorem dOptMsg_rt {α} (dec : Bytes → Option α) (enc : α → List Rec) (P : α → Prop)
    (hrt : ∀ a, P a → dec (encRecs (enc a)) = some a) (o : Option α) (h : ∀ a ∈ o, P a) :
    dOptMsg dec (pOptMsg (o.map enc)) = some o := by
  cases o with
  | none => simp [pOptMsg, dOptMsg, lastLen, allLen]
  | some a => simp [pOptMsg, dOptMsg, lastLen, allLen, hrt a (h a rfl)]

theorem dRepMsg_rt {α} (dec : Bytes → Option α) (enc : α → List Rec) (P : α → Prop)
    (hrt : ∀ a, P a → dec (encRecs (enc a)) = some a) (l : List α) (h : ∀ a ∈ l, P a) :
    dRepMsg dec (pRepMsg (l.map enc)) = some l := by
  have := allSome_map (fun a => encRecs (enc a)) dec id l (fun a ha => by simpa using hrt a (h a ha))
  simp only [dRepMsg, pRepMsg, List.map_map]
  have e : ((fun rs => Payload.len (encRecs rs)) ∘ enc) = fun a => Payload.len (encRecs (enc a)) := rfl
  rw [e, allLen_map_len (fun a => encRecs (enc a)) l]
  simpa using this

local macro "codec_ok" : tactic =>
  `(tactic| simp [recsOk_append, recsOk_fld, ok_pUInt, ok_pOptUInt, ok_pOptBool, ok_pEnum, ok_pStr, ok_pOptStr,
      ok_pRepStr, ok_pBytes, ok_pOptMsg, ok_pRepMsg])

/-! ### VariableID, Variable, StackFrame -/

theorem recsOk_VariableID (m : PVariableID) : recsOk (encVariableID m) = true := by
  unfold encVariableID; codec_ok

theorem rt_VariableID (m : PVariableID) (h : m.accepts = true) :
    decVariableID (encRecs (encVariableID m)) = some m := by
  simp only [PVariableID.accepts, Bool.and_eq_true] at h
  unfold decVariableID
  rw [decRecs_enc' _ (recsOk_VariableID m)]
  simp [decVariableIDRecs, encVariableID, sel_append, sel_fld, dStr_pStr, dRepStr_pRepStr, dOptStr_pOptStr, h]

theorem recsOk_Variable (m : PVariable) : recsOk (encVariable m) = true := by
  unfold encVariable; codec_ok

theorem rt_Variable (m : PVariable) (h : m.accepts = true) : decVariable (encRecs (encVariable m)) = some m := by
  simp only [PVariable.accepts, Bool.and_eq_true] at h
  unfold decVariable
  rw [decRecs_enc' _ (recsOk_Variable m)]
  have l1 := dRepMsg_pRepMsg decVariableID encVariableID PVariableID.accepts rt_VariableID m.children h.2
  simp [decVariableRecs, encVariable, sel_append, sel_fld, dStr_pStr, dOptBool_pOptBool, l1, h]

theorem recsOk_StackFrame (m : PStackFrame) : recsOk (encStackFrame m) = true := by
  unfold encStackFrame; codec_ok

theorem rt_StackFrame (m : PStackFrame) (h : m.accepts = true) :
    decStackFrame (encRecs (encStackFrame m)) = some m := by
  simp only [PStackFrame.accepts, Bool.and_eq_true] at h
  unfold decStackFrame
  rw [decRecs_enc' _ (recsOk_StackFrame m)]
  have l1 := dRepMsg_pRepMsg decVariableID encVariableID PVariableID.accepts rt_VariableID m.variables h.1.2
  simp [decStackFrameRecs, encStackFrame, sel_append, sel_fld, dStr_pStr, dOptStr_pOptStr, dOptBool_pOptBool,
    dU32_pUInt, dOptU32_pOptUInt, l1, h]

/-! ### WatchResult (a real oneof) -/

/-- the constructor arguments describe a message: not both members of the oneof `result` -/
def _root_.Extracted.Wire.PWatchResult.wireOk (m : PWatchResult) : Bool :=
  !(m.good_result.isSome && m.error_result.isSome)

theorem recsOk_WatchResult (m : PWatchResult) : recsOk (encWatchResult m) = true := by
  unfold encWatchResult
  split <;> codec_ok

theorem rt_WatchResult (m : PWatchResult) (h : m.accepts = true) (hw : m.wireOk = true) :
    decWatchResult (encRecs (encWatchResult m)) = some m := by
  obtain ⟨e, g, er, fm, src⟩ := m
  simp only [PWatchResult.accepts, Bool.and_eq_true] at h
  simp only [PWatchResult.wireOk] at hw
  unfold decWatchResult
  rw [decRecs_enc' _ (recsOk_WatchResult _)]
  have l1 := dOptMsg_pOptMsg decVariableID encVariableID PVariableID.accepts rt_VariableID g h.1.1.2
  cases src with
  | none => simp at h
  | some n =>
    have hn : inEnum n = true := by simpa using h.2
    have c2 : ([2, 3] : List Nat).contains 2 = true := by decide
    have c3 : ([2, 3] : List Nat).contains 3 = true := by decide
    have n1 : ([2, 3] : List Nat).contains 1 = false := by decide
    have n4 : ([2, 3] : List Nat).contains 4 = false := by decide
    have n5 : ([2, 3] : List Nat).contains 5 = false := by decide
    cases er with
    | some t =>
      cases g with
      | some _ => simp at hw
      | none =>
        have lf : lastField [2, 3] (encWatchResult ⟨e, none, some t, fm, some n⟩) = some 3 := by
          simp [encWatchResult, lastField_append, lastField_fld_notin _ _ _ n1, lastField_fld_notin _ _ _ n4,
            lastField_fld_notin _ _ _ n5, lastField_fld_nil, pOptStr, lastField_fld_one _ _ _ c3]
        simp [decWatchResultRecs, oneofPick, lf]
        simp [encWatchResult, sel_append, sel_fld, dStr_pStr, dOptStr_pOptStr, dOptBool_pOptBool,
          dEnum_pEnum n hn, h, dOptMsg, lastLen, allLen]
    | none =>
      cases g with
      | none =>
        have lf : lastField [2, 3] (encWatchResult ⟨e, none, none, fm, some n⟩) = none := by
          simp [encWatchResult, lastField_append, lastField_fld_notin _ _ _ n1, lastField_fld_notin _ _ _ n4,
            lastField_fld_notin _ _ _ n5, lastField_fld_nil, pOptStr, pOptMsg]
        simp [decWatchResultRecs, oneofPick, lf]
        simp [encWatchResult, sel_append, sel_fld, dStr_pStr, dOptBool_pOptBool, dEnum_pEnum n hn, h]
      | some v =>
        have lf : lastField [2, 3] (encWatchResult ⟨e, some v, none, fm, some n⟩) = some 2 := by
          simp [encWatchResult, lastField_append, lastField_fld_notin _ _ _ n1, lastField_fld_notin _ _ _ n4,
            lastField_fld_notin _ _ _ n5, lastField_fld_nil, pOptStr, pOptMsg, lastField_fld_one _ _ _ c2]
        simp [decWatchResultRecs, oneofPick, lf]
        have l1' : dOptMsg decVariableID (pOptMsg (some (encVariableID v))) = some (some v) := by simpa using l1
        simp [encWatchResult, sel_append, sel_fld, dStr_pStr, dOptBool_pOptBool, dEnum_pEnum n hn, l1', h]

/-! ### AnyValue / ArrayValue / KeyValueList (recursive; the decoder's fuel is the byte length) -/

theorem encVarint_len_pos (n : Nat) : 1 ≤ (encVarint n).length :=
  List.length_pos_iff.mpr (encVarint_ne_nil n)

theorem encRec_len_ge (k : Nat) (b : Bytes) : b.length + 2 ≤ (encRec ⟨k, .len b⟩).length := by
  have h1 := encVarint_len_pos (k * 8 + (Payload.len b).wt)
  have h2 := encVarint_len_pos b.length
  simp only [encRec, encPayload, List.length_append]
  omega

theorem encRecs_append (a b : List Rec) : encRecs (a ++ b) = encRecs a ++ encRecs b := by
  induction a with
  | nil => simp [encRecs]
  | cons r a ih => simp [encRecs, ih, List.append_assoc]

theorem encRecs_single (r : Rec) : encRecs [r] = encRec r := by simp [encRecs]

theorem recsOk_encAny (v : PAnyValue) (hb : v.bitsOk = true) : recsOk (encAny v) = true := by
  cases v <;> simp [encAny, recsOk, Rec.ok, Payload.ok]
  simpa [PAnyValue.bitsOk] using hb

theorem recsOk_nil : recsOk [] = true := rfl
theorem recsOk_cons (r : Rec) (rs : List Rec) : recsOk (r :: rs) = (r.ok && recsOk rs) := by simp [recsOk]

theorem recsOk_encAnyList : ∀ vs : PAnyList, recsOk (encAnyList vs) = true
  | .nil => by simp [encAnyList, recsOk]
  | .cons v r => by
    have ih := recsOk_encAnyList r
    rw [encAnyList, recsOk_cons, ih]
    simp [Rec.ok, Payload.ok]

/-- the records of one `KeyValue` of a `KeyValueList` -/
def kvBody (k : Text) (v : PAnyValue) : List Rec :=
  fld 1 (pStr k) ++
    (match v with
     | .pyNone => []
     | v => [⟨2, .len (encRecs (encAny v))⟩])

theorem encKVList_cons (k : Text) (v : PAnyValue) (r : PKVList) :
    encKVList (.cons k v r) = ⟨1, .len (encRecs (kvBody k v))⟩ :: encKVList r := by
  cases v <;> simp [encKVList, kvBody]

theorem kvBody_of_ne {k : Text} {v : PAnyValue} (hv : v ≠ .pyNone) :
    kvBody k v = fld 1 (pStr k) ++ [⟨2, .len (encRecs (encAny v))⟩] := by
  cases v <;> simp_all [kvBody]

theorem recsOk_encKVList : ∀ kvs : PKVList, recsOk (encKVList kvs) = true
  | .nil => by simp [encKVList, recsOk]
  | .cons k v r => by
    have ih := recsOk_encKVList r
    rw [encKVList_cons, recsOk_cons, ih]
    simp [Rec.ok, Payload.ok]

theorem recsOk_kvBody (k : Text) (v : PAnyValue) : recsOk (kvBody k v) = true := by
  by_cases hv : v = .pyNone
  · subst hv
    simp [kvBody, recsOk_append, recsOk_fld, ok_pStr, recsOk_nil]
  · rw [kvBody_of_ne hv]
    simp [recsOk_append, recsOk_fld, ok_pStr, recsOk_nil, recsOk_cons, Rec.ok, Payload.ok]

theorem kvBody_len {k : Text} {v : PAnyValue} (hv : v ≠ .pyNone) :
    (encRecs (encAny v)).length + 2 ≤ (encRecs (kvBody k v)).length := by
  have hl := encRec_len_ge 2 (encRecs (encAny v))
  rw [kvBody_of_ne hv, encRecs_append, encRecs_single, List.length_append]
  omega

theorem decKV_body (dec : Bytes → Option PAnyValue) (k : Text) (v : PAnyValue) (hk : k.ok = true)
    (hdec : v ≠ .pyNone → dec (encRecs (encAny v)) = some v) :
    decKVWith dec (encRecs (kvBody k v)) = some (k, v) := by
  unfold decKVWith
  rw [decRecs_enc' _ (recsOk_kvBody k v)]
  by_cases hv : v = .pyNone
  · subst hv
    simp [kvBody, sel_append, sel_fld, sel_nil, dStr_pStr k hk, dOptMsg, lastLen, allLen]
  · rw [kvBody_of_ne hv]
    simp [sel_append, sel_fld, sel_cons, sel_nil, dStr_pStr k hk, dOptMsg, lastLen, allLen, hdec hv]

theorem anyList_accepts_cons {v : PAnyValue} {r : PAnyList} (h : (PAnyList.cons v r).accepts = true) :
    v ≠ .pyNone ∧ v.accepts = true ∧ r.accepts = true := by
  cases v <;> simp_all [PAnyList.accepts]

mutual
  theorem rt_any : ∀ (v : PAnyValue), v.accepts = true → v.bitsOk = true → v ≠ .pyNone →
      ∀ f, (encRecs (encAny v)).length < f → decAnyF f (encRecs (encAny v)) = some v
    | .pyNone, _, _, hn, _, _ => absurd rfl hn
    | .empty, _, _, _, f, hf => by
      obtain ⟨f, rfl⟩ : ∃ f', f = f' + 1 := ⟨f - 1, by omega⟩
      simp [encAny, encRecs, decAnyF, decRecs, decRecsF]
    | .string_value t, ha, hb, _, f, hf => by
      obtain ⟨f, rfl⟩ : ∃ f', f = f' + 1 := ⟨f - 1, by omega⟩
      have hd := decRecs_enc' _ (recsOk_encAny (.string_value t) hb)
      simp only [encAny] at hd ⊢
      rw [decAnyF, hd]
      simp only [PAnyValue.accepts] at ha
      simp [anyMember, utf8Dec_enc t ha]
    | .bool_value b, ha, hb, _, f, hf => by
      obtain ⟨f, rfl⟩ : ∃ f', f = f' + 1 := ⟨f - 1, by omega⟩
      have hd := decRecs_enc' _ (recsOk_encAny (.bool_value b) hb)
      simp only [encAny] at hd ⊢
      rw [decAnyF, hd]
      cases b <;> simp [anyMember]
    | .int_value i, ha, hb, _, f, hf => by
      obtain ⟨f, rfl⟩ : ∃ f', f = f' + 1 := ⟨f - 1, by omega⟩
      have hd := decRecs_enc' _ (recsOk_encAny (.int_value i) hb)
      simp only [encAny] at hd ⊢
      rw [decAnyF, hd]
      simp only [PAnyValue.accepts] at ha
      simp [anyMember, uToI64_i64ToU i ha]
    | .double_value bits, ha, hb, _, f, hf => by
      obtain ⟨f, rfl⟩ : ∃ f', f = f' + 1 := ⟨f - 1, by omega⟩
      have hd := decRecs_enc' _ (recsOk_encAny (.double_value bits) hb)
      simp only [encAny] at hd ⊢
      rw [decAnyF, hd]
      simp [anyMember]
    | .bytes_value b, ha, hb, _, f, hf => by
      obtain ⟨f, rfl⟩ : ∃ f', f = f' + 1 := ⟨f - 1, by omega⟩
      have hd := decRecs_enc' _ (recsOk_encAny (.bytes_value b) hb)
      simp only [encAny] at hd ⊢
      rw [decAnyF, hd]
      simp [anyMember]
    | .array_value vs, ha, hb, _, f, hf => by
      obtain ⟨f, rfl⟩ : ∃ f', f = f' + 1 := ⟨f - 1, by omega⟩
      have hd := decRecs_enc' _ (recsOk_encAny (.array_value vs) hb)
      simp only [encAny] at hd hf ⊢
      rw [decAnyF, hd]
      simp only [PAnyValue.accepts] at ha
      simp only [PAnyValue.bitsOk] at hb
      have hl := encRec_len_ge 5 (encRecs (encAnyList vs))
      rw [encRecs_single] at hf
      obtain ⟨l, h1, h2⟩ := rt_anyList vs ha hb f (by omega)
      simp [anyMember, decRecs_enc' _ (recsOk_encAnyList vs), h1, h2]
    | .kvlist_value kvs, ha, hb, _, f, hf => by
      obtain ⟨f, rfl⟩ : ∃ f', f = f' + 1 := ⟨f - 1, by omega⟩
      have hd := decRecs_enc' _ (recsOk_encAny (.kvlist_value kvs) hb)
      simp only [encAny] at hd hf ⊢
      rw [decAnyF, hd]
      simp only [PAnyValue.accepts] at ha
      simp only [PAnyValue.bitsOk] at hb
      have hl := encRec_len_ge 6 (encRecs (encKVList kvs))
      rw [encRecs_single] at hf
      obtain ⟨l, h1, h2⟩ := rt_kvList kvs ha hb f (by omega)
      simp [anyMember, decRecs_enc' _ (recsOk_encKVList kvs), h1, h2]
  theorem rt_anyList : ∀ (vs : PAnyList), vs.accepts = true → vs.bitsOk = true →
      ∀ f, (encRecs (encAnyList vs)).length ≤ f →
        ∃ l, allSome (decAnyF f) (allLen (sel 1 (encAnyList vs))) = some l ∧ PAnyList.ofList l = vs
    | .nil, _, _, _, _ => ⟨[], by simp [encAnyList, sel, allLen, allSome], rfl⟩
    | .cons v r, ha, hb, f, hf => by
      obtain ⟨hn, hav, har⟩ := anyList_accepts_cons ha
      simp only [PAnyList.bitsOk, Bool.and_eq_true] at hb
      simp only [encAnyList, encRecs, List.length_append] at hf
      have hl := encRec_len_ge 1 (encRecs (encAny v))
      have h1 := rt_any v hav hb.1 hn f (by omega)
      obtain ⟨l, h2, h3⟩ := rt_anyList r har hb.2 f (by omega)
      refine ⟨v :: l, ?_, by simp [PAnyList.ofList, h3]⟩
      simp only [encAnyList, sel_cons, if_true, allLen, List.filterMap_cons, allSome]
      rw [h1]
      have h2' : allSome (decAnyF f) (allLen (sel 1 (encAnyList r))) = some l := h2
      simp only [allLen] at h2'
      simp [h2']
  theorem rt_kvList : ∀ (kvs : PKVList), kvs.accepts = true → kvs.bitsOk = true →
      ∀ f, (encRecs (encKVList kvs)).length ≤ f →
        ∃ l, allSome (decKVWith (decAnyF f)) (allLen (sel 1 (encKVList kvs))) = some l ∧ PKVList.ofList l = kvs
    | .nil, _, _, _, _ => ⟨[], by simp [encKVList, sel, allLen, allSome], rfl⟩
    | .cons k v r, ha, hb, f, hf => by
      simp only [PKVList.accepts, Bool.and_eq_true] at ha
      simp only [PKVList.bitsOk, Bool.and_eq_true] at hb
      rw [encKVList_cons] at hf
      simp only [encRecs, List.length_append] at hf
      have hl := encRec_len_ge 1 (encRecs (kvBody k v))
      obtain ⟨l, h2, h3⟩ := rt_kvList r ha.2 hb.2 f (by omega)
      refine ⟨(k, v) :: l, ?_, by simp [PKVList.ofList, h3]⟩
      have hkv := decKV_body (decAnyF f) k v ha.1.1 (fun hv => by
        have := kvBody_len (k := k) hv
        exact rt_any v ha.1.2 hb.1 hv f (by omega))
      rw [encKVList_cons]
      simp only [sel_cons, if_true, allLen, List.filterMap_cons, allSome]
      rw [hkv]
      have h2' : allSome (decKVWith (decAnyF f)) (allLen (sel 1 (encKVList r))) = some l := h2
      simp only [allLen] at h2'
      simp [h2']
end

/-- **AnyValue**: every value protobuf accepts (valid text, int64 ints, no `None` inside an array), nested to any
    depth, is read back from its bytes exactly -/
theorem rt_AnyValue (v : PAnyValue) (ha : v.accepts = true) (hb : v.bitsOk = true) (hn : v ≠ .pyNone) :
    decAny (encRecs (encAny v)) = some v :=
  rt_any v ha hb hn _ (Nat.lt_succ_self _)

/-! ### KeyValue, TracePointConfig, Snapshot, Resource, PollRequest -/

def _root_.Extracted.Wire.PKeyValue.wireOk (m : PKeyValue) : Bool := m.value.bitsOk
def _root_.Extracted.Wire.PTracePointConfig.wireOk (m : PTracePointConfig) : Bool := m.targeting.all PKeyValue.wireOk
def _root_.Extracted.Wire.PResource.wireOk (m : PResource) : Bool := m.attributes.all PKeyValue.wireOk
def _root_.Extracted.Wire.PPollRequest.wireOk (m : PPollRequest) : Bool := m.resource.all PResource.wireOk
/-- the constructor arguments describe a message: every watch holds one member of its oneof, every double is a
    64-bit pattern -/
def _root_.Extracted.Wire.PSnapshot.wireOk (m : PSnapshot) : Bool :=
  m.tracepoint.all PTracePointConfig.wireOk && m.watches.all PWatchResult.wireOk &&
  m.attributes.all PKeyValue.wireOk && m.resource.all PKeyValue.wireOk

theorem ok_pAny (v : PAnyValue) : (pAny v).all Payload.ok = true := by cases v <;> simp [pAny, Payload.ok]

theorem dAny_pAny (v : PAnyValue) (ha : v.accepts = true) (hb : v.bitsOk = true) : dAny (pAny v) = some v := by
  by_cases hv : v = .pyNone
  · subst hv; simp [pAny, dAny, lastLen, allLen]
  · have e : pAny v = [.len (encRecs (encAny v))] := by cases v <;> simp_all [pAny]
    simp [e, dAny, lastLen, allLen, rt_AnyValue v ha hb hv]

theorem recsOk_KeyValue (m : PKeyValue) : recsOk (encKeyValue m) = true := by
  unfold encKeyValue; simp [recsOk_append, recsOk_fld, ok_pStr, ok_pAny]

theorem rt_KeyValue (m : PKeyValue) (h : m.accepts = true ∧ m.wireOk = true) :
    decKeyValue (encRecs (encKeyValue m)) = some m := by
  obtain ⟨h, hw⟩ := h
  simp only [PKeyValue.accepts, Bool.and_eq_true] at h
  unfold decKeyValue
  rw [decRecs_enc' _ (recsOk_KeyValue m)]
  simp [decKeyValueRecs, encKeyValue, sel_append, sel_fld, dStr_pStr, dAny_pAny m.value h.2 hw, h]

theorem kvs_rt (l : List PKeyValue) (h : List.all l (fun x => PKeyValue.accepts x) = true)
    (hw : l.all PKeyValue.wireOk = true) : dRepMsg decKeyValue (pRepMsg (l.map encKeyValue)) = some l :=
  dRepMsg_rt decKeyValue encKeyValue (fun a => a.accepts = true ∧ a.wireOk = true) rt_KeyValue l
    (fun a ha => ⟨List.all_eq_true.mp h a ha, List.all_eq_true.mp hw a ha⟩)

theorem recsOk_TracePointConfig (m : PTracePointConfig) : recsOk (encTracePointConfig m) = true := by
  unfold encTracePointConfig; codec_ok

theorem rt_TracePointConfig (m : PTracePointConfig) (h : m.accepts = true ∧ m.wireOk = true) :
    decTracePointConfig (encRecs (encTracePointConfig m)) = some m := by
  obtain ⟨h, hw⟩ := h
  simp only [PTracePointConfig.accepts, Bool.and_eq_true] at h
  unfold decTracePointConfig
  rw [decRecs_enc' _ (recsOk_TracePointConfig m)]
  have l1 := dRepMsg_pRepMsg decStrEntry encStrEntry (fun kv => Text.ok kv.1 && Text.ok kv.2) decStrEntry_enc m.args
    h.1.1.2
  have l2 := kvs_rt m.targeting h.2 hw
  simp [decTracePointConfigRecs, encTracePointConfig, sel_append, sel_fld, dStr_pStr, dRepStr_pRepStr, dU32_pUInt,
    l1, l2, h]

theorem recsOk_Snapshot (m : PSnapshot) (h : inU64 m.ts_nanos = true) : recsOk (encSnapshot m) = true := by
  unfold encSnapshot
  simp [recsOk_append, recsOk_fld, ok_pUInt, ok_pOptUInt, ok_pOptBool, ok_pEnum, ok_pStr, ok_pOptStr,
      ok_pRepStr, ok_pBytes, ok_pOptMsg, ok_pRepMsg, ok_pFixed64 _ h]

/-- **Snapshot**: the bytes of every snapshot message protobuf accepts are read back to exactly that message -/
theorem rt_Snapshot (m : PSnapshot) (h : m.accepts = true) (hw : m.wireOk = true) :
    decSnapshot (encRecs (encSnapshot m)) = some m := by
  obtain ⟨ID, tp, vl, ts, fr, wa, at_, du, re, lg⟩ := m
  simp only [PSnapshot.accepts, Bool.and_eq_true] at h
  simp only [PSnapshot.wireOk, Bool.and_eq_true] at hw
  obtain ⟨⟨⟨⟨⟨⟨⟨⟨⟨h1, h2⟩, h3⟩, h4⟩, h5⟩, h6⟩, h7⟩, h8⟩, h9⟩, h10⟩ := h
  obtain ⟨⟨⟨w1, w2⟩, w3⟩, w4⟩ := hw
  unfold decSnapshot
  rw [decRecs_enc' _ (recsOk_Snapshot _ h4)]
  have l2 := dOptMsg_rt decTracePointConfig encTracePointConfig (fun a => a.accepts = true ∧ a.wireOk = true)
    rt_TracePointConfig tp (fun a ha => by
      cases tp with
      | none => cases ha
      | some t => cases ha; exact ⟨by simpa using h2, by simpa using w1⟩)
  have l3 := dRepMsg_pRepMsg (decMsgEntry decVariable) (encMsgEntry encVariable)
    (fun kv => Text.ok kv.1 && PVariable.accepts kv.2)
    (decMsgEntry_enc decVariable encVariable PVariable.accepts rt_Variable) vl h3
  have l5 := dRepMsg_pRepMsg decStackFrame encStackFrame PStackFrame.accepts rt_StackFrame fr h5
  have l6 := dRepMsg_rt decWatchResult encWatchResult (fun a => a.accepts = true ∧ a.wireOk = true)
    (fun a ha => rt_WatchResult a ha.1 ha.2) wa
    (fun a ha => ⟨List.all_eq_true.mp h6 a ha, List.all_eq_true.mp w2 a ha⟩)
  have l7 := kvs_rt at_ h7 w3
  have l9 := kvs_rt re h9 w4
  cases ID with
  | none => simp at h1
  | some b =>
    simp [decSnapshotRecs, encSnapshot, sel_append, sel_fld, dBytes_pBytes, dFixed64_pFixed64 _ h4, dU64_pUInt _ h8,
      dOptStr_pOptStr _ h10, l2, l3, l5, l6, l7, l9]

theorem recsOk_Resource (m : PResource) : recsOk (encResource m) = true := by
  unfold encResource; codec_ok

theorem rt_Resource (m : PResource) (h : m.accepts = true ∧ m.wireOk = true) :
    decResource (encRecs (encResource m)) = some m := by
  obtain ⟨h, hw⟩ := h
  simp only [PResource.accepts, Bool.and_eq_true] at h
  unfold decResource
  rw [decRecs_enc' _ (recsOk_Resource m)]
  have l1 := kvs_rt m.attributes h.1 hw
  simp [decResourceRecs, encResource, sel_append, sel_fld, dU32_pUInt, l1, h]

theorem recsOk_PollRequest (m : PPollRequest) (h : inU64 m.ts_nanos = true) : recsOk (encPollRequest m) = true := by
  unfold encPollRequest
  simp [recsOk_append, recsOk_fld, ok_pStr, ok_pOptMsg, ok_pFixed64 _ h]

/-- **PollRequest** -/
theorem rt_PollRequest (m : PPollRequest) (h : m.accepts = true) (hw : m.wireOk = true) :
    decPollRequest (encRecs (encPollRequest m)) = some m := by
  obtain ⟨ts, ch, rs⟩ := m
  simp only [PPollRequest.accepts, Bool.and_eq_true] at h
  simp only [PPollRequest.wireOk] at hw
  unfold decPollRequest
  rw [decRecs_enc' _ (recsOk_PollRequest _ h.1.1)]
  have l3 := dOptMsg_rt decResource encResource (fun a => a.accepts = true ∧ a.wireOk = true) rt_Resource rs
    (fun a ha => by
      cases rs with
      | none => cases ha
      | some t => cases ha; exact ⟨by simpa using h.2, by simpa using hw⟩)
  simp [decPollRequestRecs, encPollRequest, sel_append, sel_fld, dFixed64_pFixed64 _ h.1.1, dStr_pStr _ h.1.2, l3]

end Wire
