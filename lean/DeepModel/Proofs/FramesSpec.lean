/-
  Proofs/FramesSpec — the collector's rendering and child rules (regenerated from the source) agree with the
  statement-level description `Frames.Spec` (C02).
-/
import DeepModel.Model.Frames

namespace Frames
open Heap Collector FrameBase Extracted.Frames Extracted.Collector

theorem iterLike_spec (o : PyObj) : iterLikeTypes.contains o.tyName = Spec.isIterator o := by
  simp only [iterLikeTypes, Spec.isIterator, List.contains_cons, List.contains_nil, Bool.or_false]
  ac_rfl

theorem listLike_spec (o : PyObj) : listLikeTypes.contains o.tyName = Spec.isSeq o := by
  simp only [listLikeTypes, Spec.isSeq, List.contains_cons, List.contains_nil, Bool.or_false]
  ac_rfl

theorem noChild_spec (o : PyObj) : noChildTypes.contains o.tyName = Spec.isScalar o := by
  simp only [noChildTypes, Spec.isScalar, Spec.isIterator, List.contains_cons, List.contains_nil, Bool.or_false]
  ac_rfl

/-- `variable_to_string` is the statement's rendering -/
theorem renderText_spec (o : PyObj) (text : String) (h : renderText o = .ok text) : text = Spec.render o := by
  unfold renderText renderKind at h
  have h1 := iterLike_spec o
  have h2 := listLike_spec o
  unfold Spec.render Spec.isContainer
  by_cases hi : Spec.isIterator o = true
  · simp only [h1, hi, if_true] at h
    simp only [hi, if_true]
    simpa using h.symm
  · have hi' : Spec.isIterator o = false := by simpa using hi
    by_cases hc : (o.isDictExact || Spec.isSeq o) = true
    · simp only [h1, h2, hi', Bool.false_eq_true, if_false, hc, if_true] at h
      simp only [hi', Bool.false_eq_true, if_false, hc, if_true]
      cases hl : o.len with
      | ok n => simp [hl] at h; simpa using h.symm
      | raises m => simp [hl, lenGuarded, safeStr] at h; simpa using h.symm
    · have hc' : (o.isDictExact || Spec.isSeq o) = false := by simpa using hc
      simp only [h1, h2, hi', Bool.false_eq_true, if_false, hc'] at h
      simp only [hi', Bool.false_eq_true, if_false, hc']
      simpa [safeStr] using h.symm

def kidOf (n : Node) : Spec.Kid := ⟨n.name, n.orig, n.obj⟩

theorem listChildrenFrom_spec (m pvid depth : Nat) (xs : List ObjId) (t : Nat) :
    (listChildrenFrom m pvid depth xs t).map kidOf = Spec.indexed (xs.take (m - t)) t := by
  induction xs generalizing t with
  | nil => simp [listChildrenFrom, Spec.indexed]
  | cons x xs ih =>
    unfold listChildrenFrom
    by_cases hs : collStop (t : Int) (m : Int) = true
    · have : m - t = 0 := by simp [collStop] at hs; omega
      simp [hs, this, Spec.indexed]
    · have hlt : t < m := by simp [collStop] at hs; omega
      have e : m - t = (m - (t + 1)) + 1 := by omega
      simp only [hs, Bool.false_eq_true, if_false, List.map_cons, e, List.take_succ_cons, Spec.indexed, ih (t + 1)]
      simp [kidOf]

theorem listChildrenFrom_meta (m pvid depth : Nat) (xs : List ObjId) (t : Nat) :
    ∀ n ∈ listChildrenFrom m pvid depth xs t, n.depth = depth ∧ n.parent = some pvid := by
  induction xs generalizing t with
  | nil => simp [listChildrenFrom]
  | cons x xs ih =>
    unfold listChildrenFrom
    split
    · simp
    · intro n hn
      rcases List.mem_cons.mp hn with rfl | hn
      · simp
      · exact ih _ n hn

theorem dictChildren_meta (f : String → String) (pvid depth : Nat) (items : List (Key × ObjId)) :
    ∀ n ∈ dictChildren f pvid depth items, n.depth = depth ∧ n.parent = some pvid := by
  intro n hn
  simp only [dictChildren, List.mem_map] at hn
  obtain ⟨kv, _, rfl⟩ := hn
  simp

theorem dictChildren_id_spec (pvid depth : Nat) (items : List (Key × ObjId)) :
    (dictChildren id pvid depth items).map kidOf = items.map (fun kv => ⟨kv.1.text, none, kv.2⟩) := by
  simp only [dictChildren, List.map_map]
  apply List.map_congr_left
  intro kv _
  simp only [Function.comp, kidOf, id, nodeOrig]
  cases kv.1.isStr <;> simp

theorem dictChildren_attr_spec (cls : String) (pvid depth : Nat) (items : List (Key × ObjId)) :
    (dictChildren (correctNames cls) pvid depth items).map kidOf = items.map (Spec.attrKid cls) := by
  simp only [dictChildren, List.map_map]
  apply List.map_congr_left
  intro kv _
  simp only [Function.comp, kidOf, Spec.attrKid, correctNames, nodeOrig]
  cases kv.1.isStr <;> simp [bne]

/-- `process_child_nodes` / `find_children_for_parent` list exactly the statement's children of the kind -/
theorem childNodes_spec (L : Limits) (pvid : Nat) (o : PyObj) (depth : Nat) (cs : List Node)
    (h : childNodes L pvid o depth = .ok cs) :
    cs.map kidOf = Spec.kidsAt L o depth ∧ ∀ n ∈ cs, n.depth = depth + 1 ∧ n.parent = some pvid := by
  unfold childNodes at h
  have hn := noChild_spec o
  have hl := listLike_spec o
  unfold Spec.kidsAt Spec.kids
  by_cases hsc : Spec.isScalar o = true
  · rw [hn, hsc] at h
    simp only [if_true, Except.ok.injEq] at h
    subst h
    simp [hsc]
  · have hsc' : Spec.isScalar o = false := by simpa using hsc
    rw [hn, hsc'] at h
    simp only [Bool.false_eq_true, if_false] at h
    by_cases hd : depth + 1 < L.maxDepth
    · have hds : depthStop (depth : Int) (L.maxDepth : Int) = false := by simp [depthStop]; omega
      simp only [hds, Bool.false_eq_true, if_false, childBranches, branchChildren] at h
      simp only [hd, if_true, hsc', Bool.false_eq_true, if_false]
      by_cases h1 : o.isDictExact = true
      · simp only [h1, if_true, Except.ok.injEq] at h
        subst h
        exact ⟨by simp [h1, dictChildren_id_spec], dictChildren_meta _ _ _ _⟩
      · have h1' : o.isDictExact = false := by simpa using h1
        simp only [h1', Bool.false_eq_true, if_false] at h
        simp only [h1', Bool.false_eq_true, if_false]
        by_cases h2 : Spec.isSeq o = true
        · rw [hl, h2] at h
          simp only [if_true] at h
          cases hq : o.seq with
          | raises m =>
            simp [hq, probeList, childrenGuarded] at h
            subst h
            simp [h2, Spec.got, Spec.indexed]
          | ok xs =>
            simp only [hq, probeList, Except.ok.injEq] at h
            subst h
            exact ⟨by simp [h2, Spec.got, listChildrenFrom_spec], listChildrenFrom_meta _ _ _ _ _⟩
        · have h2' : Spec.isSeq o = false := by simpa using h2
          rw [hl, h2'] at h
          simp only [Bool.false_eq_true, if_false] at h
          simp only [h2', Bool.false_eq_true, if_false]
          cases h3 : o.isExc with
          | raises m =>
            simp [h3, childrenGuarded] at h
            subst h
            simp
          | ok b =>
            cases b with
            | true =>
              simp only [h3] at h
              cases hq : o.excArgs with
              | raises m =>
                simp [hq, probeList, childrenGuarded] at h
                subst h
                simp [Spec.got, Spec.indexed]
              | ok xs =>
                simp only [hq, probeList, Except.ok.injEq] at h
                subst h
                exact ⟨by simp [Spec.got, listChildrenFrom_spec], listChildrenFrom_meta _ _ _ _ _⟩
            | false =>
              simp only [h3] at h
              cases h4 : o.hasDict with
              | raises m =>
                simp [h4, childrenGuarded] at h
                subst h
                simp
              | ok b =>
                cases b with
                | true =>
                  simp only [h4] at h
                  cases hq : o.attrs with
                  | raises m =>
                    simp [hq, probeList, childrenGuarded] at h
                    subst h
                    simp [Spec.got]
                  | ok kvs =>
                    simp only [hq, probeList, Except.ok.injEq] at h
                    subst h
                    exact ⟨by simp [Spec.got, dictChildren_attr_spec], dictChildren_meta _ _ _ _⟩
                | false =>
                  simp only [h4, Except.ok.injEq] at h
                  subst h
                  simp
    · have hds : depthStop (depth : Int) (L.maxDepth : Int) = true := by simp [depthStop]; omega
      simp only [hds, if_true, Except.ok.injEq] at h
      subst h
      simp [hd]

/-- the modifiers a reference carries follow its displayed name -/
theorem varModifiers_spec (name : String) : varModifiers name = Spec.modifiers name := rfl

end Frames
