/-
  Proofs/GuardAt — the raise-set soundness with a per-call-site fault assumption ("only these calls fail, and only
  with these classes"), and its consequence: a function whose remaining calls succeed runs to its end.
-/
import DeepModel.Proofs.GuardProg

namespace Guard
open Py (Exn)

theorem exec_sound_at (at_ : String → RaiseSet) (env : Env) (hf : FaultsAt at_ env) (s : Stmt) :
    ∀ tr e tr', exec env s tr = (.raised e, tr') → (mayRaiseF at_ s).mem e = true := by
  induction s with
  | call site =>
    intro tr e tr' h
    simp only [exec] at h
    cases hfa : env.fault tr site with
    | none => simp [hfa] at h
    | some e' =>
      simp only [hfa, Prod.mk.injEq, Out.raised.injEq] at h
      rw [← h.1]
      exact hf _ _ _ hfa
  | pure => intro tr e tr' h; simp [exec] at h
  | assign f v => intro tr e tr' h; simp [exec] at h
  | seq a b iha ihb =>
    intro tr e tr' h
    simp only [exec] at h
    rw [mayRaiseF, union_mem]
    generalize ha : exec env a tr = ra at h
    obtain ⟨oa, ta⟩ := ra
    cases oa with
    | normal => simp only at h; simp [ihb _ _ _ h]
    | raised e' =>
      simp only [Prod.mk.injEq, Out.raised.injEq] at h
      obtain ⟨rfl, rfl⟩ := h
      simp [iha _ _ _ ha]
    | returned v => simp at h
    | broke => simp at h
    | continued => simp at h
  | branch c a b iha ihb =>
    intro tr e tr' h
    simp only [exec] at h
    rw [mayRaiseF, union_mem]
    split at h
    · simp [iha _ _ _ h]
    · simp [ihb _ _ _ h]
  | loop id b ih =>
    intro tr e tr' h
    simp only [exec] at h
    rw [mayRaiseF]
    exact loopN_raised (fun e => (mayRaiseF at_ b).mem e = true) (fun tr e tr' hh => ih tr e tr' hh) _ _ _ _ _ h
  | tryExcept b c hid hd ihb ihh =>
    intro tr e tr' h
    simp only [exec] at h
    generalize hb : exec env b tr = rb at h
    obtain ⟨ob, tb⟩ := rb
    simp only [mayRaiseF]
    cases ob with
    | normal => simp at h
    | returned v => simp at h
    | broke => simp at h
    | continued => simp at h
    | raised e' =>
      have hbm := ihb _ _ _ hb
      simp only at h
      cases hc : (c.catches e').getD (env.catches tb hid) with
      | true =>
        simp only [hc, if_true] at h
        have hh := ihh _ _ _ h
        rw [union_mem, hh]; simp
      | false =>
        simp only [hc, Bool.false_eq_true, if_false, Prod.mk.injEq, Out.raised.injEq] at h
        obtain ⟨rfl, rfl⟩ := h
        rw [union_mem, union_mem]
        cases e' with
        | exc =>
          simp only [RaiseSet.mem] at hbm
          rw [hbm, uncaught_mem c .exc env tb hid hc]; simp
        | base =>
          simp only [RaiseSet.mem] at hbm
          rw [hbm, uncaught_mem c .base env tb hid hc]; simp
  | tryFinally b f ihb ihf =>
    intro tr e tr' h
    simp only [exec] at h
    rw [mayRaiseF, union_mem]
    generalize hb : exec env b tr = rb at h
    obtain ⟨ob, tb⟩ := rb
    simp only at h
    generalize hfn : exec env f tb = rf at h
    obtain ⟨of, tf⟩ := rf
    cases of with
    | normal =>
      simp only [Prod.mk.injEq] at h
      obtain ⟨rfl, rfl⟩ := h
      simp [ihb _ _ _ hb]
    | raised e' =>
      simp only [Prod.mk.injEq, Out.raised.injEq] at h
      obtain ⟨rfl, rfl⟩ := h
      simp [ihf _ _ _ hfn]
    | returned v => simp at h
    | broke => simp at h
    | continued => simp at h
  | scope n b ih =>
    intro tr e tr' h
    simp only [exec] at h
    rw [mayRaiseF]
    generalize hb : exec env b tr = rb at h
    obtain ⟨ob, tb⟩ := rb
    cases ob with
    | raised e' =>
      simp only [Prod.mk.injEq, Out.raised.injEq] at h
      obtain ⟨rfl, rfl⟩ := h
      exact ih _ _ _ hb
    | normal => simp at h
    | returned v => simp at h
    | broke => simp at h
    | continued => simp at h
  | ret v => intro tr e tr' h; simp [exec] at h
  | raise e0 =>
    intro tr e tr' h
    simp only [exec, Prod.mk.injEq, Out.raised.injEq] at h
    rw [mayRaiseF]
    exact (single_mem e0 e).mpr h.1.symm
  | brk => intro tr e tr' h; simp [exec] at h
  | cont => intro tr e tr' h; simp [exec] at h


/-- nothing escapes when the per-site analysis is empty -/
theorem guard_sound_at (at_ : String → RaiseSet) (s : Stmt) (hg : mayRaiseF at_ s = RaiseSet.empty)
    (env : Env) (hf : FaultsAt at_ env) (tr : Trace) : ∀ e tr', exec env s tr ≠ (.raised e, tr') := by
  intro e tr' h
  have := exec_sound_at at_ env hf s tr e tr' h
  rw [hg, empty_mem] at this
  exact Bool.false_ne_true this

/-- faults only at the listed call sites, and only of the `Exception` class -/
def onlyAt (sites : List String) : String → RaiseSet := fun s => if sites.contains s then RaiseSet.onlyExc else RaiseSet.empty

/-- conditions with a known truth value, given as a list of facts about `env` -/
theorem agrees_of_forall (fx : Fixed) (env : Env) (h : ∀ p ∈ fx, ∀ tr, env.cond tr p.1 = p.2) : Agrees fx env := by
  intro c b hc tr
  simp only [Fixed.get, Option.map_eq_some_iff] at hc
  obtain ⟨a, ha, rfl⟩ := hc
  have hm := List.mem_of_find?_eq_some ha
  have hp := List.find?_some ha
  simp only [beq_iff_eq] at hp
  rw [← hp]; exact h a hm tr

/-- **a function whose only failing calls are guarded runs to its end**: if under the per-site assumption nothing can
    escape `s`, `s` cannot return (for the fixed conditions), break or continue, and its last statement is the store
    `self.f = v`, then every execution ends normally and has made that store. -/
theorem completes_with_store (at_ : String → RaiseSet) (s : Stmt) (hg : mayRaiseF at_ s = RaiseSet.empty)
    (fx : Fixed) (hret : mayRet fx s = []) (hb : mayBreak s = false) (hc : mayCont s = false)
    (f v : String) (hl : lastOf s = .assign f v)
    (env : Env) (hf : FaultsAt at_ env) (ha : Agrees fx env) (tr : Trace) (o : Out) (tr' : Trace)
    (h : exec env s tr = (o, tr')) : o = .normal ∧ Ev.set f v ∈ tr' := by
  have hn : o = .normal := by
    cases o with
    | normal => rfl
    | returned r => have := mayRet_sound fx env ha s _ _ _ h; rw [hret] at this; simp at this
    | broke => have := mayBreak_sound env s _ _ h; rw [hb] at this; simp at this
    | continued => have := mayCont_sound env s _ _ h; rw [hc] at this; simp at this
    | raised e => exact absurd h (guard_sound_at at_ s hg env hf tr e tr')
  subst hn
  exact ⟨rfl, normal_last_assign env f v s hl _ _ h⟩

end Guard
