import DeepModel.Props.C16
#print axioms C16.c16_parse_unparse
#print axioms C16.c16_normalise_keeps
#print axioms C16.c16_render
#print axioms C16.pieces_plain
#print axioms C16.c16_render_plain
#print axioms C16.c16_field_failure_local
#print axioms C16.c16_budget_independent
#print axioms C16.c16_results_isolated
#print axioms C16.c16_message_delivered
#print axioms C16.c16_labels
#print axioms C16.c16_default_logger
#print axioms C16.c16_snapshot_agrees
#print axioms C16.c16_no_logger
#print axioms C16.c16_falsy_logger_still_logs
#print axioms C16.c16_snapshot_watches
#print axioms C16.c16_one_per_hit
#print axioms C16.c16_malformed_nothing
