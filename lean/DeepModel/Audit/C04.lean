import DeepModel.Props.C04
#print axioms C04.c04_count
#print axioms C04.c04_unlimited_only_minus_one
#print axioms C04.c04_spacing
#print axioms C04.c04_sentinel_zero
#print axioms C04.c04_window
#print axioms C04.c04_window_meaning
#print axioms C04.c04_live
#print axioms C04.c04_refines_spec
#print axioms C04.c04_parse_fallback
#print axioms C04.c04_builder_defaults
#print axioms C04.c04_conc_serial
#print axioms C04.c04_conc_serial_count
#print axioms C04.c04_conc_race_witness
#print axioms C04.c04_conc_serial_example
#print axioms C04.c04_count_per_installation
#print axioms C04.c04_update_resets_witness
