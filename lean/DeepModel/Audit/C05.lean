import DeepModel.Props.C05
#print axioms C05.c05_count_search
#print axioms C05.c05_count
#print axioms C05.c05_budget_spent
#print axioms C05.c05_string
#print axioms C05.c05_collection
#print axioms C05.c05_depth
#print axioms C05.c05_depth_queue
#print axioms C05.c05_depth_cut
#print axioms C05.c05_all_sources_same_limits
#print axioms C05.c05_queue_front
#print axioms C05.c05_bfs_order
#print axioms C05.c05_queue_invariant
#print axioms C05.c05_level_order
#print axioms C05.c05_locals_first
#print axioms C05.c05_terminates
#print axioms C05.c05_final_stable
