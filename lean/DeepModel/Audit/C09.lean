import DeepModel.Props.C09
#print axioms C09.c09_flush_returns
#print axioms C09.c09_flush_skeleton_guarded
#print axioms C09.c09_flush_skeleton_never_raises
#print axioms C09.c09_flush_completes
#print axioms C09.c09_drained_partial
#print axioms C09.c09_drained_needs_no_overlap
#print axioms C09.c09_drained_needs_no_timeout
#print axioms C09.c09_waits_for_all
#print axioms C09.c09_once
#print axioms C09.c09_sends_per_outcome
#print axioms C09.c09_ids_distinct
#print axioms C09.c09_not_on_caller
#print axioms C09.c09_contained
#print axioms C09.c09_refuse
#print axioms C09.c09_closed_stays
#print axioms C09.c09_flush_closes
#print axioms C09.c09_executor_rejection
