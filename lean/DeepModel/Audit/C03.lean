import DeepModel.Props.C03
#print axioms C03.c03_line_iff
#print axioms C03.c03_func_iff
#print axioms C03.c03_kinds_partial
#print axioms C03.c03_nameless_witness
#print axioms C03.c03_run_faithful_partial
#print axioms C03.c03_not_on_return_exception_partial
#print axioms C03.c03_exact
#print axioms C03.c03_only_if
#print axioms C03.c03_if
#print axioms C03.c03_empty_slot_harmless
#print axioms C03.c03_slot_never_empty
#print axioms C03.c03_count
#print axioms C03.c03_independent
#print axioms C03.c03_unmatchable_isolated
#print axioms C03.c03_stream
#print axioms C03.c03_none
#print axioms C03.c03_thread
