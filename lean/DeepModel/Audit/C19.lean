import DeepModel.Props.C19
#print axioms C19.c19_precedence
#print axioms C19.c19_code_beats_environment
#print axioms C19.c19_callable_called
#print axioms C19.c19_module_functions_called
#print axioms C19.c19_documented_env_eq_code_partial
#print axioms C19.c19_app_frame
#print axioms C19.c19_exclusion_wins
#print axioms C19.c19_matched_prefix
#print axioms C19.c19_short_path
#print axioms C19.c19_include_list_flat
#print axioms C19.c19_exclude_list_flat
#print axioms C19.c19_poll_interval_text
#print axioms C19.c19_poll_timer_env_eq_code
#print axioms C19.c19_include_string_in_code_witness
#print axioms C19.c19_app_frame_from_env
