import DeepModel.Props.C17
#print axioms C17.c17_calls
#print axioms C17.c17_operation
#print axioms C17.c17_arguments
#print axioms C17.c17_value
#print axioms C17.c17_value_int_examples
#print axioms C17.c17_big_int_witness
#print axioms C17.c17_label_value
#print axioms C17.c17_labels
#print axioms C17.c17_namespace_default
#print axioms C17.c17_no_processor
#print axioms C17.c17_gated
#print axioms C17.c17_fault_isolated
#print axioms C17.c17_healthy_gets_all
