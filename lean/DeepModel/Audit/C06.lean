import DeepModel.Props.C06
#print axioms C06.c06_guard_class
#print axioms C06.c06_guards
#print axioms C06.c06_total
#print axioms C06.c06_probe_failure_contained
#print axioms C06.c06_len_failure_contained
#print axioms C06.c06_raise_means_no_children
#print axioms C06.c06_placeholder
#print axioms C06.c06_entry_local
#print axioms C06.c06_shape_independent
#print axioms C06.c06_str_never_fails
#print axioms C06.c06_others_intact
#print axioms C06.c06_scopes
#print axioms C06.c06_independent
#print axioms C06.c06_others_do_not_matter
#print axioms C06.c06_same_location_equal
