import DeepModel.Props.C06
#print axioms C06.c06_guard_class
#print axioms C06.c06_total_partial
#print axioms C06.c06_hostile_witness
#print axioms C06.c06_total_refuted
#print axioms C06.c06_watch_failure_contained
#print axioms C06.c06_placeholder
#print axioms C06.c06_entry_local
#print axioms C06.c06_shape_independent
#print axioms C06.c06_str_never_fails
#print axioms C06.c06_others_intact
#print axioms C06.c06_scopes
#print axioms C06.c06_independent
#print axioms C06.c06_others_do_not_matter
#print axioms C06.c06_same_location_equal
