import DeepModel.Props.C20
#print axioms C20.c20_loaded
#print axioms C20.c20_loaded_iff
#print axioms C20.c20_order_respected
#print axioms C20.c20_direction
#print axioms C20.c20_import_isolated
#print axioms C20.c20_construct_isolated
#print axioms C20.c20_resource_isolated
#print axioms C20.c20_decorators_isolated
#print axioms C20.c20_metric_processors_isolated
#print axioms C20.c20_span_processors_isolated
#print axioms C20.c20_spans_close_isolated
#print axioms C20.c20_results_isolated
#print axioms C20.c20_shutdown_isolated
#print axioms C20.c20_decorate_returns
