import DeepModel.Props.C15
#print axioms C15.c15_partial
#print axioms C15.c15_lifo
#print axioms C15.c15_after_trigger
#print axioms C15.c15_completion_config_independent
#print axioms C15.c15_failed_callback_isolated
#print axioms C15.c15_recursion_witness
#print axioms C15.c15_stacked_witness
#print axioms C15.c15_capture_kind
#print axioms C15.c15_capture_value_partial
#print axioms C15.c15_capture_strict_witness
#print axioms C15.c15_first_exit_return
#print axioms C15.c15_thread_local
#print axioms C15.c15_interleaved
#print axioms C15.c15_interleaved_complete
#print axioms C15.c15_nothing_inherited
