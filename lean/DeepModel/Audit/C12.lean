import DeepModel.Props.C12
#print axioms C12.c12_converges
#print axioms C12.c12_latest_is_last_update
#print axioms C12.c12_hash
#print axioms C12.c12_hash_received
#print axioms C12.c12_nochange_inert
#print axioms C12.c12_error_keeps
#print axioms C12.c12_polling_continues
#print axioms C12.c12_lock_needed
#print axioms C12.c12_partial_update
#print axioms C12.c12_progress
#print axioms C12.c12_tick_survives_iff
#print axioms C12.c12_timer_issues_every_poll
#print axioms C12.c12_poll_thread_refines
#print axioms C12.c12_stop_ends_polling
#print axioms C12.c12_timer_dies_only_of_base
#print axioms C12.c12_timer_skeleton_contains_exceptions
#print axioms C12.c12_update_after_flush_kills_timer
