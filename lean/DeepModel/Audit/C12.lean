import DeepModel.Props.C12
#print axioms C12.c12_converges
#print axioms C12.c12_latest_is_last_update
#print axioms C12.c12_hash
#print axioms C12.c12_hash_received
#print axioms C12.c12_nochange_inert
#print axioms C12.c12_error_keeps
#print axioms C12.c12_polling_continues
#print axioms C12.c12_lock_needed
#print axioms C12.c12_partial_update
#print axioms C12.c12_progress
