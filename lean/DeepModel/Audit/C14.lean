import DeepModel.Props.C14
#print axioms C14.c14_source_facts
#print axioms C14.c14_start_once
#print axioms C14.c14_notrace_untouched
#print axioms C14.c14_restore
#print axioms C14.c14_start_shutdown
#print axioms C14.c14_shutdown_completes
#print axioms C14.c14_quiet_after
#print axioms C14.c14_poll_survives
#print axioms C14.c14_shutdown_never_raises
#print axioms C14.c14_shutdown_clears_started
#print axioms C14.c14_steps_isolated
#print axioms C14.c14_flush_isolated
#print axioms C14.c14_start_sets_started_last
#print axioms C14.c14_start_marks_started
