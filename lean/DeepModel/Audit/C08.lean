import DeepModel.Props.C08
#print axioms C08.c08_fieldmap_complete
#print axioms C08.c08_poll_request_fields
#print axioms C08.c08_sources_known
#print axioms C08.c08_sent_is_faithful
#print axioms C08.c08_roundtrip_partial
#print axioms C08.c08_total_partial
#print axioms C08.c08_roundtrip_nonvacuous
#print axioms C08.c08_surrogate_dropped_witness
#print axioms C08.c08_big_int_dropped_witness
#print axioms C08.c08_oneof
#print axioms C08.c08_attr_values
#print axioms C08.c08_attr_values_accepted_partial
#print axioms C08.c08_resource
#print axioms C08.c08_auth
#print axioms C08.c08_auth_recovers
#print axioms C08.c08_auth_fault_not_cached
#print axioms C08.c08_auth_concurrent
