import DeepModel.Props.C11
#print axioms C11.c11_table
#print axioms C11.c11_unknown_stage
#print axioms C11.c11_interpretable
#print axioms C11.c11_own_limits
#print axioms C11.c11_own_watches
#print axioms C11.c11_merge_keeps_all
#print axioms C11.c11_merge_no_extra
#print axioms C11.c11_isolated
#print axioms C11.c11_registered_isolated
#print axioms C11.c11_registered_usable
#print axioms C11.c11_metric_defs
#print axioms C11.c11_unconvertible
#print axioms C11.c11_response_never_lost
#print axioms C11.c11_watches_only_in_snapshot
#print axioms C11.c11_nameless_method_ignores_line
#print axioms C11.c11_group_location_partial
#print axioms C11.c11_id_clash_witness
