import DeepModel.Props.C10
#print axioms C10.c10_gate
#print axioms C10.c10_gate_failing
#print axioms C10.c10_truth_words
#print axioms C10.c10_invisible
#print axioms C10.c10_rejected_prefix
#print axioms C10.c10_later_true_hit_fires
#print axioms C10.c10_every_kind_gated
#print axioms C10.c10_limits_first
#print axioms C10.c10_eval_count
#print axioms C10.c10_unasked_irrelevant
#print axioms C10.c10_scope
#print axioms C10.c10_scope_agent_invisible
#print axioms C10.c10_scope_names
#print axioms C10.c10_single_eval_site
#print axioms C10.c10_eval_catches_all
#print axioms C10.c10_contained
#print axioms C10.c10_failing_result
