import DeepModel.Props.C01
#print axioms C01.c01_guarded
#print axioms C01.c01_no_escape
#print axioms C01.c01_no_escape_inlined
#print axioms C01.c01_always_returns
#print axioms C01.c01_trace_kept
#print axioms C01.c01_none_only_without_tracepoints
#print axioms C01.c01_actions_isolated
#print axioms C01.c01_matching_isolated
#print axioms C01.c01_results_isolated
#print axioms C01.c01_callbacks_progress
#print axioms C01.c01_callbacks_self_heal
#print axioms C01.c01_evaluate_expression_total
#print axioms C01.c01_resolution_contained
#print axioms C01.c01_no_host_writes
#print axioms C01.c01_host_touch_in_table
