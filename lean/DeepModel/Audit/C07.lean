import DeepModel.Props.C07
#print axioms C07.c07_ids_stable
#print axioms C07.c07_injective
#print axioms C07.c07_injective_search
#print axioms C07.c07_once
#print axioms C07.c07_same_object_same_id
#print axioms C07.c07_ref_entry
#print axioms C07.c07_closed_partial
#print axioms C07.c07_watch_has_id
#print axioms C07.c07_results_have_id
#print axioms C07.c07_locals_self_ref_witness
#print axioms C07.c07_capture_guarded
#print axioms C07.c07_closed_refuted
#print axioms C07.c07_back_reference
#print axioms C07.c07_cycles_terminate
#print axioms C07.c07_dangling_only_locals
#print axioms C07.c07_closed_of_no_locals_ref
#print axioms C07.c07_deferred_identity
