import DeepModel.Props.C13
#print axioms C13.c13_wf_reachable
#print axioms C13.c13_register_adds
#print axioms C13.c13_register_uninterpretable
#print axioms C13.c13_register_active
#print axioms C13.c13_unregister_exact
#print axioms C13.c13_others_untouched
#print axioms C13.c13_idempotent
#print axioms C13.c13_unknown_handle
#print axioms C13.c13_service_disjoint
#print axioms C13.c13_service_untouched
#print axioms C13.c13_exact_on_runs
#print axioms C13.c13_register_after_close
#print axioms C13.c13_register_bad_after_close
#print axioms C13.c13_unregister_after_close_exact
#print axioms C13.c13_unregister_unknown_after_close
#print axioms C13.c13_closed_never_queues
