/-
  Py — the handful of Python built-in behaviours the models need, as total Lean functions.
  Core Lean only (this file is imported by every model and by the drivers).

  Modelled, not verified (trusted base): these definitions are *my* rendering of CPython behaviour for
  the input alphabets the generators use (stated per function).  Each is exercised differentially by the
  correspondence checks that use it.
-/
namespace Py

/-- `len(s)` of a `str`: number of code points. -/
def len (s : String) : Int := (s.length : Int)

/-- `s.startswith(p)`. -/
def startsWith (s p : String) : Bool := p.toList.isPrefixOf s.toList

/-- `s[:n]` for a `str` (n may be negative, as in Python). -/
def sliceTo (s : String) (n : Int) : String :=
  if n ≥ 0 then String.ofList (s.toList.take n.toNat)
  else String.ofList (s.toList.take (s.length - (-n).toNat))

/-- `s[n:]` for a `str`. -/
def sliceFrom (s : String) (n : Int) : String :=
  if n ≥ 0 then String.ofList (s.toList.drop n.toNat)
  else String.ofList (s.toList.drop (s.length - (-n).toNat))

/-- `s.lower()` — ASCII letters only (generators keep condition results ASCII). -/
def lower (s : String) : String := String.ofList (s.toList.map Char.toLower)

def isSpace (c : Char) : Bool :=
  c = ' ' || c = '\t' || c = '\n' || c = '\r' || c = '\x0b' || c = '\x0c'

/-- `s.strip()` — ASCII white space. -/
def strip (s : String) : String :=
  String.ofList ((s.toList.dropWhile isSpace).reverse.dropWhile isSpace).reverse

def digitVal (c : Char) : Option Nat :=
  if '0' ≤ c ∧ c ≤ '9' then some (c.toNat - '0'.toNat) else none

/-- digits with single underscores allowed *between* digits (PEP 515), as `int()` accepts. -/
def parseDigits : List Char → Option Nat
  | [] => none
  | c :: cs =>
    match digitVal c with
    | none => none
    | some d => go d cs
where
  go (acc : Nat) : List Char → Option Nat
    | [] => some acc
    | '_' :: c :: cs =>
      match digitVal c with
      | some d => go (acc * 10 + d) cs
      | none => none
    | c :: cs =>
      match digitVal c with
      | some d => go (acc * 10 + d) cs
      | none => none

/-- `int(s)` for an ASCII `str`: optional surrounding white space, optional sign, decimal digits.
    `none` = `ValueError`. -/
def parseInt (s : String) : Option Int :=
  match (strip s).toList with
  | '-' :: cs => (parseDigits cs).map (fun n => -(n : Int))
  | '+' :: cs => (parseDigits cs).map (fun n => (n : Int))
  | cs => (parseDigits cs).map (fun n => (n : Int))

/-- the exception classes the agent's `except` clauses distinguish. -/
inductive Exn | exc | base
deriving DecidableEq, Repr, Inhabited

end Py
