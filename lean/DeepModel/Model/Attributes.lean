/-
  Model/Attributes — a `BoundedAttributes` object driven by a sequence of operations (C18).

  The operations themselves (`setItem`, `delItem`, `mergeIn`, `cleanAttribute`, …) are `Extracted.Attributes.*`,
  regenerated from the Python source on every run.  This file adds
  * the constructor glue (`create`, shape-checked against `BoundedAttributes.__init__` by the extractor: initial
    attributes are set one by one *before* `_immutable` is stored),
  * `step`/`run` over operation sequences (what an exception leaves behind: the state at the time it was raised),
  * the reference container written from the property statement (`Spec…`), the refinement target of Props/C18.
-/
import DeepModel.Extracted.Attributes

namespace Attributes
open Attr Extracted.Attributes

inductive Op
  | set (k : Key) (v : Val)
  | del (k : Key)
  | mergeIn (kvs : List (Key × Val))
deriving Repr, DecidableEq

def blank (cap : Option Nat) (mvl : Option Int) : BA := ⟨cap, mvl, [], 0, false⟩

/-- `BoundedAttributes(max_length, attributes, immutable, max_value_len)` -/
def create (cap : Option Nat) (mvl : Option Int) (attrs : List (Key × Val)) (immutable : Bool) : BA :=
  { (mergeIn (blank cap mvl) attrs).1 with frozen := immutable }

/-- state after the call and the exception it raised, if any -/
def outcome (st : BA) : Except String BA → BA × Option String
  | .ok s => (s, none)
  | .error e => (st, some e)

def step (st : BA) : Op → BA × Option String
  | .set k v => outcome st (setItem st k v)
  | .del k => outcome st (delItem st k)
  | .mergeIn kvs => mergeIn st kvs

/-- run a sequence; the exceptions are reported per operation, oldest first -/
def run : BA → List Op → BA × List (Option String)
  | st, [] => (st, [])
  | st, op :: ops =>
    let (st', e) := step st op
    let (st'', es) := run st' ops
    (st'', e :: es)

def final (st : BA) (ops : List Op) : BA := (run st ops).1

/-! ### the statement, written independently of the code

  Cleaning rule (from the property text and the doc comment of `_clean_attribute`): a key is a non-empty `str`;
  a scalar value is a `bool`, `int`, `float`, a `str` (cut to the value limit) or decodable `bytes` (decoded, then
  cut); a sequence value may contain `None` and valid scalars of one single type (after decoding), it is stored
  frozen with each text cut; an undecodable `bytes` *element* counts as `None`.  Everything else is invalid. -/

def cut (mvl : Option Int) (s : String) : String :=
  match mvl with
  | none => s
  | some n => Py.sliceTo s n

/-- a valid scalar, cleaned; `none` = not a valid scalar -/
def specScalar (mvl : Option Int) : Scalar → Option Scalar
  | .bool b => some (.bool b)
  | .int i => some (.int i)
  | .float r => some (.float r)
  | .str s => some (.str (cut mvl s))
  | .bytes (some s) => some (.str (cut mvl s))
  | .bytes none => none
  | .none => none
  | .other _ => none

/-- an element of a sequence that makes the whole sequence invalid: neither `None` nor of a valid type -/
def badElem : Scalar → Bool
  | .other _ => true
  | _ => false

def specElem (mvl : Option Int) (x : Scalar) : Scalar := (specScalar mvl x).getD .none

def sameType : List Scalar → Bool
  | [] => true
  | x :: xs => xs.all (fun y => y.tyName == x.tyName)

def specClean (mvl : Option Int) (k : Key) (v : Val) : Option Val :=
  match k with
  | .other _ => none
  | .str s =>
    if s = "" then none else
    match v with
    | .sc x => (specScalar mvl x).map .sc
    | .seq xs =>
      if xs.any badElem then none else
      let ys := xs.map (specElem mvl)
      if sameType (ys.filter (fun y => !y.isNone)) then some (.seq ys) else none

/-- what the reference keeps: the last `cap` entries -/
def keepLast (cap : Option Nat) (d : OD) : OD :=
  match cap with
  | none => d
  | some c => d.drop (d.length - c)

structure Spec where
  cap : Option Nat
  mvl : Option Int
  dict : OD
  dropped : Nat
  frozen : Bool
deriving Repr, DecidableEq

/-- one assignment on the reference: a frozen container refuses; with capacity 0 every assignment is a drop; an
    invalid key/value is ignored; otherwise the key moves to the newest position with the cleaned value and only
    the newest `cap` entries are kept, each entry cut off being counted. -/
def Spec.set (s : Spec) (k : Key) (v : Val) : Spec × Option String :=
  if s.frozen then (s, some "TypeError") else
  if s.cap = some 0 then ({ s with dropped := s.dropped + 1 }, none) else
  match specClean s.mvl k v with
  | none => (s, none)
  | some v' =>
    let d := s.dict.filter (fun e => e.1 != k) ++ [(k, v')]
    let kept := keepLast s.cap d
    ({ s with dict := kept, dropped := s.dropped + (d.length - kept.length) }, none)

def Spec.del (s : Spec) (k : Key) : Spec × Option String :=
  if s.frozen then (s, some "TypeError") else
  if s.dict.any (fun e => e.1 == k) then ({ s with dict := s.dict.filter (fun e => e.1 != k) }, none)
  else (s, some "KeyError")

def Spec.setAll (s : Spec) : List (Key × Val) → Spec × Option String
  | [] => (s, none)
  | (k, v) :: rest =>
    match s.set k v with
    | (s', none) => Spec.setAll s' rest
    | (s', some e) => (s', some e)

def Spec.step (s : Spec) : Op → Spec × Option String
  | .set k v => s.set k v
  | .del k => s.del k
  | .mergeIn kvs => s.setAll kvs

def Spec.run : Spec → List Op → Spec × List (Option String)
  | s, [] => (s, [])
  | s, op :: ops =>
    let (s', e) := s.step op
    let (s'', es) := Spec.run s' ops
    (s'', e :: es)

def Spec.create (cap : Option Nat) (mvl : Option Int) (attrs : List (Key × Val)) (immutable : Bool) : Spec :=
  { (Spec.setAll ⟨cap, mvl, [], 0, false⟩ attrs).1 with frozen := immutable }

/-! ### what "valid, cleaned" means for a stored entry (declarative; used by c18_values_clean) -/

def okLen (mvl : Option Int) (s : String) : Prop := ∀ n : Int, mvl = some n → 0 ≤ n → (s.length : Int) ≤ n

def CleanScalar (mvl : Option Int) : Scalar → Prop
  | .bool _ => True
  | .int _ => True
  | .float _ => True
  | .str s => okLen mvl s
  | _ => False

def CleanKey : Key → Prop
  | .str s => s ≠ ""
  | .other _ => False

def CleanVal (mvl : Option Int) : Val → Prop
  | .sc x => CleanScalar mvl x
  | .seq ys => (∀ y ∈ ys, y = Scalar.none ∨ CleanScalar mvl y) ∧ sameType (ys.filter (fun y => !y.isNone)) = true

def CleanDict (mvl : Option Int) (d : OD) : Prop := ∀ e ∈ d, CleanKey e.1 ∧ CleanVal mvl e.2

def DistinctKeys (d : OD) : Prop := (d.map (·.1)).Nodup

/-- the abstraction: a container state seen as a reference state -/
def abs (st : BA) : Spec := ⟨st.cap, st.maxValLen, st.dict, st.dropped, st.frozen⟩

end Attributes
