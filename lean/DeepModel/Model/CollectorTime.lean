/-
  Model/CollectorTime — the per-trigger processing-time budget of `FrameCollector` (C05; used by C02).

  `FrameCollector.collect` walks the stack; for every frame `_process_frame` evaluates the guard
  `collect_vars and not self.__time_exceeded()` ONCE, before anything of the frame is collected.  Both the guard
  (`frameGuard`, with its short-circuit order) and `__time_exceeded` (`timeExceeded`: sticky flag, one clock read,
  true division by 10^6, strict comparison with the budget) are definitions of `Extracted.CollectorTime`, regenerated
  from the Python source on every run.  This file is the glue: the flag and the number of clock reads threaded through
  the frames of one action (`decisionsFrom`), and through the actions of one trace event (`timedActions`: every action
  has its own collector, hence its own flag; all read the same clock).

  The clock is a script: `read k` = the value the k-th call of `time_ns()` made by the frame collector returns — any
  function, not assumed monotone.  Core Lean only.

  `Spec` (bottom): the stateless description the theorems refine to.
-/
import DeepModel.Extracted.CollectorTime
import DeepModel.Model.Collector

namespace CollectorTime
open Heap Collector Extracted.CollectorTime

structure Clock where
  /-- `TriggerContext.ts` (ns) -/
  ts : Int
  /-- `max_tp_process_time` of the action (ms) -/
  maxMs : Int
  /-- the value the k-th `time_ns()` call of this collector returns (ns) -/
  read : Nat → Int

/-- the state of one `FrameCollector` between two frames -/
structure TState where
  flag : Bool
  reads : Nat
deriving Repr, DecidableEq

def TState.init : TState := ⟨initialExceeded, 0⟩

/-- the guard of one `_process_frame` call: are this frame's variables collected; the state afterwards -/
def frameStep (ck : Clock) (sel : Bool) (st : TState) : Bool × TState :=
  let r := frameGuard sel st.flag (ck.read st.reads) ck.ts ck.maxMs
  (r.1, ⟨r.2.1, if r.2.2 then st.reads + 1 else st.reads⟩)

/-- the loop of `FrameCollector.collect` as far as the guard goes: `sels` = `should_collect_vars(i)` per frame -/
def decisionsFrom (ck : Clock) : List Bool → TState → List Bool × TState
  | [], st => ([], st)
  | sel :: rest, st =>
    let d := frameStep ck sel st
    let r := decisionsFrom ck rest d.2
    (d.1 :: r.1, r.2)

/-- which frames of the stack get their variables collected -/
def decisions (ck : Clock) (sels : List Bool) : List Bool := (decisionsFrom ck sels TState.init).1

/-- how often the collector reads the clock during the walk -/
def readsUsed (ck : Clock) (sels : List Bool) : Nat := (decisionsFrom ck sels TState.init).2.reads

/-- a frame as the walk meets it: its locals and what `should_collect_vars(index)` says -/
structure TFrame where
  locals : ObjId
  selected : Bool
deriving Repr, DecidableEq

def frameIns (ck : Clock) (fs : List TFrame) : List FrameIn :=
  List.zipWith (fun f d => ⟨f.locals, d⟩) fs (decisions ck (fs.map (·.selected)))

structure TimedAction where
  limits : Limits
  frames : List TFrame
  watches : List WatchIn
  maxMs : Int
deriving Repr

/-- the actions of one trace event, in order: each has its own collector (flag), all read the same scripted clock
    (`script k` = the k-th reading of the event) -/
def timedActions (ts : Int) (script : Nat → Int) : Nat → List TimedAction → List ActionIn × Nat
  | off, [] => ([], off)
  | off, a :: as =>
    let ck : Clock := ⟨ts, a.maxMs, fun k => script (off + k)⟩
    let r := timedActions ts script (off + readsUsed ck (a.frames.map (·.selected))) as
    (⟨a.limits, frameIns ck a.frames, a.watches⟩ :: r.1, r.2)

/-! ## the description the theorems refine to -/
namespace Spec

/-- reading `k` finds the budget spent: it is more than `maxMs` milliseconds (= `maxMs`·10⁶ ns) after the trigger's time
    stamp — strictly more; integers only -/
def over (ck : Clock) (k : Nat) : Bool := decide (ck.maxMs * 1000000 < ck.read k - ck.ts)

/-- how many of the frames above frame `i` are selected by the frame type -/
def selectedBefore (sels : List Bool) (i : Nat) : Nat := (sels.take i).count true

/-- frame `i` carries variables iff the frame type selects it and the budget was not found spent at its own reading nor at
    any earlier one.  The clock is looked at once per selected frame, on reaching it (reading number = number of selected
    frames above it), and never again once the budget was found spent. -/
def collects (ck : Clock) (sels : List Bool) (i : Nat) : Bool :=
  sels.getD i false && (List.range (selectedBefore sels i + 1)).all (fun m => !over ck m)

end Spec

end CollectorTime
