/-
  Model/ResEnv — the vocabulary the *translated* `DeepResourceDetector.detect` (Extracted/Attributes.lean:
  `detectEnv` / `detectLoop`) is written in (C18, owner O7).  Hand-written, core Lean only.

  Modelled, not verified: `str.split(",")`, `item.split("=", maxsplit=1)` followed by the two-name unpacking
  (`none` = the ValueError the source catches), `str.strip()` (ASCII white space, `Py.strip`), `urllib.parse.unquote`
  for `%XX` escapes below 0x80 (other escapes are outside the model: the generators mark such cases and they are
  judged by the oracle only), truthiness of `os.environ.get(..)` (unset and "" are falsy).
-/
import DeepModel.Model.AttrBase

namespace Resource
open Attr

def splitOn (c : Char) : List Char → List (List Char)
  | [] => [[]]
  | x :: xs =>
    if x == c then [] :: splitOn c xs
    else match splitOn c xs with
      | [] => [[x]]
      | p :: ps => (x :: p) :: ps

/-- `item.split("=", maxsplit=1)`; `none` = no "=" (unpacking fails with ValueError) -/
def splitFirst (c : Char) : List Char → Option (List Char × List Char)
  | [] => none
  | x :: xs =>
    if x == c then some ([], xs)
    else (splitFirst c xs).map (fun p => (x :: p.1, p.2))

def hexVal (c : Char) : Option Nat :=
  if '0' ≤ c ∧ c ≤ '9' then some (c.toNat - '0'.toNat)
  else if 'a' ≤ c ∧ c ≤ 'f' then some (c.toNat - 'a'.toNat + 10)
  else if 'A' ≤ c ∧ c ≤ 'F' then some (c.toNat - 'A'.toNat + 10)
  else none

/-- the character a `%XX` escape spells, looking at the two characters after the "%": only escapes below 0x80 -/
def decodeAt : List Char → Option Char
  | a :: b :: _ =>
    match hexVal a, hexVal b with
    | some x, some y => if x * 16 + y < 128 then some (Char.ofNat (x * 16 + y)) else none
    | _, _ => none
  | _ => none

/-- `skip` = characters of an escape already consumed (structural recursion, so that closed terms evaluate) -/
def unquoteAux : Nat → List Char → List Char
  | _, [] => []
  | n + 1, _ :: tl => unquoteAux n tl
  | 0, c :: tl =>
    if c == '%' then
      match decodeAt tl with
      | some ch => ch :: unquoteAux 2 tl
      | none => c :: unquoteAux 0 tl
    else c :: unquoteAux 0 tl

/-- `urllib.parse.unquote` for escapes below 0x80; anything else is kept as written. -/
def unquote (l : List Char) : List Char := unquoteAux 0 l

def stripS (s : List Char) : String := Py.strip (String.ofList s)

/-! ### text-level operations the translated detector calls -/

/-- `if x:` for `x = os.environ.get(NAME)` — unset and the empty text are falsy -/
def envTruthy : Option String → Bool
  | some s => s != ""
  | none => false

/-- the text of an environment value known to be set -/
def envText (x : Option String) : String := x.getD ""

/-- `s.split(",")` -/
def splitItems (s : String) : List String := (splitOn ',' s.toList).map String.ofList

/-- `key, value = item.split("=", maxsplit=1)`; `none` = ValueError (no "=" in the item) -/
def splitKV (item : String) : Option (String × String) :=
  (splitFirst '=' item.toList).map (fun p => (String.ofList p.1, String.ofList p.2))

/-- `parse.unquote(s)` -/
def unquoteS (s : String) : String := String.ofList (unquote s.toList)

/-- a text as attribute value -/
def strVal (s : String) : Val := Val.sc (.str s)

end Resource
