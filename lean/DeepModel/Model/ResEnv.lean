/-
  Model/ResEnv — the vocabulary the *translated* `DeepResourceDetector.detect` (Extracted/Attributes.lean:
  `detectEnv` / `detectLoop`) is written in (C18, owner O7).  Hand-written, core Lean only.

  Modelled, not verified: `str.split(",")`, `item.split("=", maxsplit=1)` followed by the two-name unpacking
  (`none` = the ValueError the source catches), `str.strip()` on ASCII text (`asciiStrip`: the ten ASCII characters
  Python's `str.strip` removes — \t \n \v \f \r \x1c \x1d \x1e \x1f and space; `Py.strip` of the shared Py.lean lacks
  \x1c–\x1f and is not used here), `urllib.parse.unquote` for `%XX` escapes below 0x80, truthiness of
  `os.environ.get(..)` (unset and "" are falsy).
  DOMAIN on which these definitions are the Python operations: `AsciiPlain` texts — every character below 0x80 and no
  `%XX` escape with XX ≥ 0x80 (Python also strips non-ASCII white space such as U+00A0 / U+2003 and decodes %80+ escapes
  as UTF-8 with U+FFFD replacement).  The theorems carry this domain as a hypothesis; outside it the generators label
  the case `unmodelled` and only the oracle judges it.
-/
import DeepModel.Model.AttrBase

namespace Resource
open Attr

def splitOn (c : Char) : List Char → List (List Char)
  | [] => [[]]
  | x :: xs =>
    if x == c then [] :: splitOn c xs
    else match splitOn c xs with
      | [] => [[x]]
      | p :: ps => (x :: p) :: ps

/-- `item.split("=", maxsplit=1)`; `none` = no "=" (unpacking fails with ValueError) -/
def splitFirst (c : Char) : List Char → Option (List Char × List Char)
  | [] => none
  | x :: xs =>
    if x == c then some ([], xs)
    else (splitFirst c xs).map (fun p => (x :: p.1, p.2))

def hexVal (c : Char) : Option Nat :=
  if '0' ≤ c ∧ c ≤ '9' then some (c.toNat - '0'.toNat)
  else if 'a' ≤ c ∧ c ≤ 'f' then some (c.toNat - 'a'.toNat + 10)
  else if 'A' ≤ c ∧ c ≤ 'F' then some (c.toNat - 'A'.toNat + 10)
  else none

/-- the character a `%XX` escape spells, looking at the two characters after the "%": only escapes below 0x80 -/
def decodeAt : List Char → Option Char
  | a :: b :: _ =>
    match hexVal a, hexVal b with
    | some x, some y => if x * 16 + y < 128 then some (Char.ofNat (x * 16 + y)) else none
    | _, _ => none
  | _ => none

/-- `skip` = characters of an escape already consumed (structural recursion, so that closed terms evaluate) -/
def unquoteAux : Nat → List Char → List Char
  | _, [] => []
  | n + 1, _ :: tl => unquoteAux n tl
  | 0, c :: tl =>
    if c == '%' then
      match decodeAt tl with
      | some ch => ch :: unquoteAux 2 tl
      | none => c :: unquoteAux 0 tl
    else c :: unquoteAux 0 tl

/-- `urllib.parse.unquote` for escapes below 0x80; anything else is kept as written. -/
def unquote (l : List Char) : List Char := unquoteAux 0 l

/-- the ASCII characters `str.strip()` removes (`str.isspace` below 0x80) -/
def isAsciiSpace (c : Char) : Bool :=
  c = ' ' || c = '\t' || c = '\n' || c = '\r' || c = '\x0b' || c = '\x0c' ||
  c = '\x1c' || c = '\x1d' || c = '\x1e' || c = '\x1f'

/-- `s.strip()` for ASCII text -/
def asciiStrip (s : String) : String :=
  String.ofList ((s.toList.dropWhile isAsciiSpace).reverse.dropWhile isAsciiSpace).reverse

def stripS (s : List Char) : String := asciiStrip (String.ofList s)

/-- is there a `%XX` escape with XX ≥ 0x80 right after this "%"? -/
def highAt : List Char → Bool
  | a :: b :: _ =>
    match hexVal a, hexVal b with
    | some x, some y => decide (128 ≤ x * 16 + y)
    | _, _ => false
  | _ => false

def noHighEscape : List Char → Bool
  | [] => true
  | c :: tl => !(c == '%' && highAt tl) && noHighEscape tl

/-- the texts on which `asciiStrip` / `unquote` ARE `str.strip` / `urllib.parse.unquote`: only characters below 0x80
    and no escape of a byte ≥ 0x80 -/
def asciiPlainC (l : List Char) : Bool := l.all (fun c => decide (c.toNat < 128)) && noHighEscape l

/-- **the modelled domain** of the environment parser (decidable) -/
def AsciiPlain (s : String) : Prop := asciiPlainC s.toList = true

instance (s : String) : Decidable (AsciiPlain s) := by unfold AsciiPlain; infer_instance

/-! ### text-level operations the translated detector calls -/

/-- `if x:` for `x = os.environ.get(NAME)` — unset and the empty text are falsy -/
def envTruthy : Option String → Bool
  | some s => s != ""
  | none => false

/-- the text of an environment value known to be set -/
def envText (x : Option String) : String := x.getD ""

/-- `s.split(",")` -/
def splitItems (s : String) : List String := (splitOn ',' s.toList).map String.ofList

/-- `key, value = item.split("=", maxsplit=1)`; `none` = ValueError (no "=" in the item) -/
def splitKV (item : String) : Option (String × String) :=
  (splitFirst '=' item.toList).map (fun p => (String.ofList p.1, String.ofList p.2))

/-- `parse.unquote(s)` -/
def unquoteS (s : String) : String := String.ofList (unquote s.toList)

/-- a text as attribute value -/
def strVal (s : String) : Val := Val.sc (.str s)

end Resource
