/-
  Model/ActionCtx — one action's firing history when hits carry a *condition outcome* (C10, used by C16/C17).

  The decisions are not written here: `Extracted.Expr.canTrigger` is the translation of
  `ActionContext.can_trigger` (limits first, blank condition, eval oracle, `str2bool(str(result))`),
  `Extracted.Limiter.canTrigger / fire` the rate limiter.  This file adds the glue
  `with action_context: if ctx.can_trigger(): ctx.process()` + `__exit__` (shapes checked by the extractor:
  `process` always marks the action triggered, `__exit__` records iff triggered), and the environment that
  `evaluate_expression` hands to `eval`.
-/
import DeepModel.Model.Limiter
import DeepModel.Extracted.Expr

namespace ActionCtx
open Extracted.Limiter Extracted.Expr

/-- an action: rate-limit configuration + the condition text (none = no condition configured) -/
structure Cfg where
  lim : Limiter.Cfg
  condition : Option String
deriving Repr

/-- one hit of the location: trigger time stamp, and what the eval oracle answers for the action's condition
    in the frame of this hit (only consulted when the code actually evaluates the condition). -/
structure Hit where
  ts : Int
  cond : Outcome
deriving Repr, DecidableEq

/-- `ctx.can_trigger()` at this hit: (may trigger?, number of eval-oracle calls made) -/
def check (c : Cfg) (st : Stats) (h : Hit) : Bool × Nat :=
  Extracted.Expr.canTrigger (Limiter.allowed c.lim st h.ts) c.condition (fun _ => h.cond)

/-- `can_trigger(); process(); __exit__` for one hit: new stats, fired?, oracle calls -/
def stepHit (c : Cfg) (st : Stats) (h : Hit) : Stats × Bool × Nat :=
  let r := check c st h
  if r.1 then (fire st h.ts, true, r.2) else (st, false, r.2)

/-- run a history: final stats and the hits that fired, oldest first -/
def runFrom (c : Cfg) : Stats → List Hit → Stats × List Hit
  | st, [] => (st, [])
  | st, h :: hs =>
    let r := stepHit c st h
    let rest := runFrom c r.1 hs
    (rest.1, if r.2.1 then h :: rest.2 else rest.2)

def runHits (c : Cfg) (hs : List Hit) : List Hit := (runFrom c Stats.init hs).2

/-- per hit: (fired?, oracle calls) — what the driver reports -/
def traceFrom (c : Cfg) : Stats → List Hit → List (Bool × Nat)
  | _, [] => []
  | st, h :: hs =>
    let r := stepHit c st h
    (r.2.1, r.2.2) :: traceFrom c r.1 hs

/-! ### every action kind: the subclasses that override the gate -/

inductive Kind | snapshot | log | metric | span
deriving DecidableEq, Repr

/-- `can_trigger()` of the action context class of kind `k`; `hasProc` = a processor plugin for that kind is active
    (only metric and span actions look at it) -/
def checkKind (k : Kind) (hasProc : Bool) (c : Cfg) (st : Stats) (h : Hit) : Bool × Nat :=
  match k with
  | .metric => metricCanTrigger hasProc (fun _ => check c st h)
  | .span => spanCanTrigger hasProc (fun _ => check c st h)
  | _ => check c st h

def stepHitK (k : Kind) (hasProc : Bool) (c : Cfg) (st : Stats) (h : Hit) : Stats × Bool × Nat :=
  let r := checkKind k hasProc c st h
  if r.1 then (fire st h.ts, true, r.2) else (st, false, r.2)

def traceFromK (k : Kind) (hasProc : Bool) (c : Cfg) : Stats → List Hit → List (Bool × Nat)
  | _, [] => []
  | st, h :: hs =>
    let r := stepHitK k hasProc c st h
    (r.2.1, r.2.2) :: traceFromK k hasProc c r.1 hs

/-! ### the statement's side: when does a condition "evaluate to true" -/

/-- no condition, or a blank one = always -/
def blank (cond : Option String) : Bool :=
  match cond with
  | none => true
  | some s => (Py.strip s).isEmpty

/-- the condition holds at this hit: it evaluated (did not fail, is not an exception object) and the text of its
    value is one of the truthy words (`True` for a boolean-valued condition). -/
def Outcome.holds (o : Outcome) : Bool := !o.failed && !o.isExc && str2bool o.text

def condTrue (c : Cfg) (h : Hit) : Bool := blank c.condition || Outcome.holds h.cond

/-- an oracle answer is coherent: a failed evaluation's result object is the exception -/
def Outcome.coherent (o : Outcome) : Prop := o.failed = true → o.isExc = true

/-! ### scope: which environment `eval` gets -/

/-- the paused frame, and the agent's own module (whose names must not leak): name ↦ value -/
structure Frame (V : Type) where
  globals : String → Option V
  locals : String → Option V

structure Agent (V : Type) where
  globals : String → Option V
  locals : String → Option V

def envOf {V : Type} (src : EnvSrc) (f : Frame V) (a : Agent V) : String → Option V :=
  match src with
  | .frameGlobals => f.globals
  | .frameLocals => f.locals
  | .agentGlobals => a.globals
  | .agentLocals => a.locals

/-- (globals, locals) as `evaluate_expression` passes them to `eval` (sources extracted from the code) -/
def handlerEnv {V : Type} (f : Frame V) (a : Agent V) : (String → Option V) × (String → Option V) :=
  (envOf evalGlobals f a, envOf evalLocals f a)

/-- Python's name resolution inside `eval(expr, globals, locals)`: locals, then globals, then builtins;
    `none` = NameError -/
def resolve {V : Type} (env : (String → Option V) × (String → Option V)) (builtins : String → Option V)
    (n : String) : Option V :=
  match env.2 n with
  | some v => some v
  | none => match env.1 n with
    | some v => some v
    | none => builtins n

/-- name resolution for an occurrence INSIDE a nested scope of the expression (the body of a lambda, a generator
    expression): the nested code object looks free names up in globals and builtins only — the `locals` mapping handed
    to `eval` is not visible there (CPython; list / set / dict comprehensions are inlined since 3.12 and are not
    nested in this sense). -/
def resolveNested {V : Type} (env : (String → Option V) × (String → Option V)) (builtins : String → Option V)
    (n : String) : Option V :=
  match env.1 n with
  | some v => some v
  | none => builtins n

def resolveAt {V : Type} (nested : Bool) (env : (String → Option V) × (String → Option V))
    (builtins : String → Option V) (n : String) : Option V :=
  if nested then resolveNested env builtins n else resolve env builtins n

/-- the statement's side: the names visible at the paused line — its locals, then its module's globals, then the
    builtins — wherever in the expression the name occurs (a lambda written at that line would close over the locals) -/
def visibleAtLine {V : Type} (f : Frame V) (builtins : String → Option V) (n : String) : Option V :=
  match f.locals n with
  | some v => some v
  | none => match f.globals n with
    | some v => some v
    | none => builtins n

/-! ### expression results of one action: watches / log fields each go through `eval_watch` -/

/-- circumstances of collecting the i-th expression's value.  The expressions of one action share one variable cache
    and one budget, so these depend on what was collected before (frame variables, earlier expressions) — they are
    an input here, not computed. -/
structure Collect where
  budgetSpent : Bool
  raises : Option String
deriving Repr, DecidableEq

def evalFrom (source : String) (ev : String → Outcome) (col : Nat → Collect) : Nat → List String → List WatchOut
  | _, [] => []
  | i, e :: es => evalWatch source e (ev e) (col i).budgetSpent (col i).raises :: evalFrom source ev col (i + 1) es

/-- the results of the expressions `es` of one action, in order -/
def evalAll (source : String) (ev : String → Outcome) (col : Nat → Collect) (es : List String) : List WatchOut :=
  evalFrom source ev col 0 es

def Collect.plain : Nat → Collect := fun _ => ⟨false, none⟩

end ActionCtx
