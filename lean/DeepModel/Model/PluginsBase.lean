/-
  Model/PluginsBase — the values a `PLUGIN_<NAME>` setting can have when it reaches `Plugin.is_active` (C20).
  Hand-written types only; `Extracted.Plugins.isActive` (generated) is the translation of `is_active` + `str2bool`.
-/
import DeepModel.Py

namespace Plugins

/-- a configured value: text (from the environment or given as text in code), or a Python bool / int given in code -/
inductive PyVal where
  | text (s : String)
  | bool (b : Bool)
  | int (n : Int)
deriving DecidableEq, Repr

/-- Python `str(v)` -/
def pyStr : PyVal → String
  | .text s => s
  | .bool true => "True"
  | .bool false => "False"
  | .int n => toString n

end Plugins
