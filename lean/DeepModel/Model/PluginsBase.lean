/-
  Model/PluginsBase — the values a `PLUGIN_<NAME>` setting can have when it reaches `Plugin.is_active` (C20).
  Hand-written types only; `Extracted.Plugins.isActive` (generated) is the translation of `is_active` + `str2bool`.
-/
import DeepModel.Py

namespace Plugins

/-- a configured value: text (from the environment or given as text in code), or a Python bool / int given in code -/
inductive PyVal where
  | text (s : String)
  | bool (b : Bool)
  | int (n : Int)
deriving DecidableEq, Repr

/-- Python `str(v)` -/
def pyStr : PyVal → String
  | .text s => s
  | .bool true => "True"
  | .bool false => "False"
  | .int n => toString n

/-- a number as `order()` may return it and as Python compares it: the decimal `m / 10^e`.  Every int, bool
    (`True` = 1) and finite float is such a number exactly. -/
structure Num where
  m : Int
  e : Nat
deriving DecidableEq, Repr

def Num.ofInt (n : Int) : Num := ⟨n, 0⟩

/-- Python `a <= b` on numbers: `a.m / 10^a.e ≤ b.m / 10^b.e`, cross-multiplied -/
def Num.le (a b : Num) : Bool := decide (a.m * (10 : Int) ^ b.e ≤ b.m * (10 : Int) ^ a.e)

/-- Python `a == b` on numbers (`1 == 1.0 == True`) -/
def Num.eqv (a b : Num) : Bool := a.le b && b.le a

/-- Python truthiness of a number: zero (0, 0.0, -0.0, False) is falsy -/
def Num.isZero (a : Num) : Bool := a.m == 0

end Plugins
