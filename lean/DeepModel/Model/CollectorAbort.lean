/-
  Model/CollectorAbort — a search that ABORTS (C07; the domain boundary of C06).

  `Model/Collector.lean` has no way for a search to be left by an exception: every probe that can raise is guarded in the
  source, and the heap facts have no "raises" outcome for the probes that are NOT guarded (`Extracted/Collector.lean`,
  "ASSUMED NOT TO RAISE": `type(value).__name__` with a hostile metaclass, `str(value)` raising a BaseException, …).
  This file adds exactly that outcome, as an oracle beside the heap: `ab o = some msg` — on object `o` an unguarded probe of
  `variable_processor.process_variable` raises `msg`.  The probe comes AFTER `new_var_id` (the object has its id) and BEFORE
  `append_variable` (it has no entry): the search is left with the identity cache as it is at that moment.

  What the callers do with the exception (source): `eval_watch` (watches, log fields) catches it — error result, the private
  table of that watch is dropped, THE CACHE KEEPS THE IDS; `process_capture_variable` and `_process_frame` do not catch it —
  the action produces no snapshot.  Core Lean only.
-/
import DeepModel.Model.Collector

namespace Collector
open Heap Extracted.Collector

abbrev Aborts := ObjId → Option String

/-- the next iteration would record a NEW object on which an unguarded probe raises -/
def abortsNext (ab : Aborts) (L : Limits) (s : BState) : Option (Node × String) :=
  if s.final then none else
  match pop s.queue with
  | none => none
  | some (n, _) =>
    if budgetOk L s.cache && (lookupId s.cache n.obj).isNone then (ab n.obj).map (fun m => (n, m)) else none

/-- iterate the search; stop when it aborts: the object in progress keeps the id it was given -/
def runA (H : Heap) (L : Limits) (ab : Aborts) : Nat → BState → BState × Option String
  | 0, s => (s, none)
  | k + 1, s =>
    match abortsNext ab L s with
    | some (n, m) => ({ s with cache := s.cache ++ [(n.obj, newId s.cache)] }, some m)
    | none => runA H L ab k (step H L s)

/-- `VariableSetProcessor.process_variable` with the abort outcome (`aborted = some msg`: the exception left it) -/
def processVariableA (H : Heap) (L : Limits) (ab : Aborts) (c : Cache) (t : List Entry) (name : String) (obj : ObjId) :
    PV × Option String :=
  match lookupId c obj with
  | some id => (⟨c, t, some id, none⟩, none)
  | none =>
    let r := runA H L ab (fuelBound H L (bfsInit L c t name obj)) (bfsInit L c t name obj)
    (⟨r.1.cache, r.1.table, lookupId r.1.cache obj, r.1.failed⟩, r.2)

/-- `collectFrames`; an abort inside a frame's collection is not caught: the action fails -/
def collectFramesA (H : Heap) (L : Limits) (ab : Aborts) : List FrameIn → Cache → List Entry → FramesOut
  | [], c, t => ⟨c, t, [], none⟩
  | f :: fs, c, t =>
    if !f.collect then
      let r := collectFramesA H L ab fs c t
      { r with frames := [] :: r.frames }
    else
      let pa := processVariableA H L ab c t localsName f.locals
      match pa.2 with
      | some m => ⟨pa.1.cache, pa.1.table, [], some m⟩
      | none =>
        match pa.1.failed with
        | some m => ⟨pa.1.cache, pa.1.table, [], some m⟩
        | none =>
          let u := unwrap pa.1.table pa.1.vid
          let r := collectFramesA H L ab fs pa.1.cache u.2
          { r with frames := u.1 :: r.frames }

/-- `collectWatches`; an aborted watch / log field is an error result, its table is dropped, its ids stay in the cache;
    an aborted capture fails the action -/
def collectWatchesA (H : Heap) (L : Limits) (ab : Aborts) : List WatchIn → Cache → List Entry → WatchesOut
  | [], c, t => ⟨c, t, [], none⟩
  | w :: ws, c, t =>
    let pa := processVariableA H L ab c [] w.expr w.value
    match pa.2 with
    | some m =>
      match w.source with
      | .capture => ⟨pa.1.cache, t, [], some m⟩
      | _ =>
        let r := collectWatchesA H L ab ws pa.1.cache t
        { r with outs := ⟨w.source, w.expr, false, none, some m, w.value⟩ :: r.outs }
    | none =>
      -- no abort: the one-watch behaviour of `collectWatches`, continued with this function
      let one := collectWatches H L [w] c t
      match one.failed with
      | some m => ⟨one.cache, one.table, one.outs, some m⟩
      | none =>
        let r := collectWatchesA H L ab ws one.cache one.table
        { r with outs := one.outs ++ r.outs }

/-- `_process_action` when searches may abort -/
def collectA (H : Heap) (ab : Aborts) (a : ActionIn) : Outcome :=
  let fr := collectFramesA H a.limits ab a.frames [] []
  match fr.failed with
  | some m => .failed m
  | none =>
    let wr := collectWatchesA H a.limits ab a.watches fr.cache fr.table
    match wr.failed with
    | some m => .failed m
    | none => .ok ⟨fr.frames, wr.table, wr.outs⟩

/-- the hypothesis of the closure theorems, named: no search of the action is left by an exception -/
def NoAbortedSearch (ab : Aborts) : Prop := ∀ o, ab o = none

end Collector
