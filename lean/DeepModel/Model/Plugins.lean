/-
  Model/Plugins — `load_plugins` (C20): which of the configured plugins end up loaded, and in which order.

  From the source (Extracted.Plugins, regenerated every run): the sort direction (`sortReverse`), what a falsy
  `order()` counts as (`orderNoneAs`), the built-in list that precedes the custom one.  That a plugin that
  cannot be imported / constructed / is inactive is *skipped and the others still loaded* is the isolation of
  the two loops of the loader, proved on their extracted skeletons in Props/C20.
  Modelled: `list.sort` is a stable sort (insertion sort here; a stable sort's result is unique).
-/
import DeepModel.Extracted.Guards

namespace Plugins
open Extracted.Plugins

/-- one configured plugin name, with what happens when the loader tries it -/
structure Spec where
  id : Nat
  importOk : Bool          -- module imports and has the class
  ctorOk : Bool            -- the constructor returns
  active : Bool            -- `is_active()` is true (not switched off with PLUGIN_<NAME>=False)
  order : Option Int       -- value of `order()`; `none` = Python `None`
deriving DecidableEq, Repr

def Spec.loadable (s : Spec) : Bool := s.importOk && s.ctorOk && s.active

/-- `pl.order() or 0` -/
def Spec.key (s : Spec) : Int :=
  match s.order with
  | some o => if o = 0 then orderNoneAs else o
  | none => orderNoneAs

/-- "x may stay in front of y" in the direction the code sorts -/
def before (x y : Spec) : Bool := if sortReverse then decide (y.key ≤ x.key) else decide (x.key ≤ y.key)

def insert (x : Spec) : List Spec → List Spec
  | [] => [x]
  | y :: ys => if before x y then x :: y :: ys else y :: insert x ys

/-- stable sort: an element stays in front of the later elements it ties with -/
def sort : List Spec → List Spec
  | [] => []
  | x :: xs => insert x (sort xs)

/-- `load_plugins(config, custom)` on `DEEP_PLUGINS + custom` described as `specs` -/
def load (specs : List Spec) : List Spec := sort (specs.filter Spec.loadable)

end Plugins
