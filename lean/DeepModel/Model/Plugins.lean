/-
  Model/Plugins — `load_plugins` (C20): which of the configured plugins end up loaded, and in which order.

  From the source (Extracted.Plugins, regenerated every run): the sort direction (`sortReverse`), what a falsy
  `order()` counts as (`orderNoneAs`), the built-in list that precedes the custom one.  That a plugin that
  cannot be imported / constructed / is inactive is *skipped and the others still loaded* is the isolation of
  the two loops of the loader, proved on their extracted skeletons in Props/C20.
  Modelled: `list.sort` is a stable sort (insertion sort here; a stable sort's result is unique); the sort key is the
  number `order()` returned, compared as Python compares numbers (`Num`: decimals `m / 10^e`, which covers ints, bools
  and every finite float exactly).  `inf` / `nan` orders are outside the model (not generated).
-/
import DeepModel.Extracted.Guards
import DeepModel.Model.PluginsBase

namespace Plugins
open Extracted.Plugins

/-- what `order()` of a constructed plugin does -/
inductive Order where
  | value (o : Option Num)    -- returns a number (exact type int / bool / finite float), or (`none`) something FALSY
                              -- that is not a number: `None`, '', [], {} — `order() or 0` runs before the number test
  | unusable                  -- raises, or returns something TRUTHY that is not a number
deriving DecidableEq, Repr

/-- one configured plugin name, with what happens when the loader tries it -/
structure Spec where
  id : Nat
  importOk : Bool             -- module imports and has the class
  ctorOk : Bool               -- the constructor returns
  switch : Option PyVal       -- the value of PLUGIN_<NAME> as `is_active` reads it (`none` = Python None / not set)
  order : Order
deriving DecidableEq, Repr

/-- `is_active()` is true (a switch that cannot be read makes `is_active` raise: the loader skips the plugin) -/
def Spec.active (s : Spec) : Bool := (isActive s.switch).getD false

def Spec.orderOk (s : Spec) : Bool := match s.order with | .value _ => true | .unusable => false

/-- the loader keeps it: imports, constructs, is active and — when the order is read inside the per-plugin `try` —
    has a usable order -/
def Spec.loadable (s : Spec) : Bool := s.importOk && s.ctorOk && s.active && (s.orderOk || !orderGuarded)

/-- the whole load fails: the order of a kept plugin cannot be used and is only looked at by the sort -/
def loadRaises (specs : List Spec) : Bool := !orderGuarded && (specs.filter Spec.loadable).any (fun s => !s.orderOk)

/-- `order() or 0`: the DECLARED order, as the number it is (a falsy one — `None`, 0, 0.0, False — counts as
    `orderNoneAs`); nothing is rounded or truncated -/
def Spec.key (s : Spec) : Num :=
  match s.order with
  | .value (some o) => if o.isZero then Num.ofInt orderNoneAs else o
  | _ => Num.ofInt orderNoneAs

/-- "x may stay in front of y" in the direction the code sorts -/
def before (x y : Spec) : Bool := if sortReverse then y.key.le x.key else x.key.le y.key

def insert (x : Spec) : List Spec → List Spec
  | [] => [x]
  | y :: ys => if before x y then x :: y :: ys else y :: insert x ys

/-- stable sort: an element stays in front of the later elements it ties with -/
def sort : List Spec → List Spec
  | [] => []
  | x :: xs => insert x (sort xs)

/-- `load_plugins(config, custom)` on `DEEP_PLUGINS + custom` described as `specs` -/
def load (specs : List Spec) : List Spec := sort (specs.filter Spec.loadable)

end Plugins
