/-
  Model/Heap — the Python objects reachable from a paused frame, as *raw facts* (DESIGN.md §5 "Heap").

  An object is described by what the collector can observe of it, not by the collector's classification: the
  name and text of its type, whether it is exactly `dict`, the outcome of `str(o)`, `len(o)`, `tuple(o)`,
  `isinstance(o, Exception)`, `o.args`, `hasattr(o, '__dict__')`, `o.__dict__`, each either a value or
  "raises".  The model applies the *extracted* type-name lists and kind tests to these facts, so a change of the
  classification in the code shows up as a disagreement with the code, not as a silently shifted model.

  A heap is a finite list of objects; references are indices (sharing and cycles are repeated indices); an index
  outside the list denotes an inert `None`-like object.  Core Lean only.
-/
namespace Heap

abbrev ObjId := Nat

/-- outcome of an operation on a host object that may raise -/
inductive Probe (α : Type) where
  | ok (a : α)
  | raises (msg : String)
deriving Repr, DecidableEq

/-- a dict key as the collector names it: the key itself when it is a `str`, else `safe_str(key)` -/
structure Key where
  text : String
  isStr : Bool
deriving Repr, DecidableEq

structure PyObj where
  /-- `type(o).__name__` -/
  tyName : String
  /-- `str(type(o))` -/
  tyRepr : String
  /-- `type(o) is dict` -/
  isDictExact : Bool
  /-- `str(o)`; `none` = it raises an `Exception` -/
  str : Option String
  /-- the text `safe_str` falls back to: `f'{type(o)}@{id(o)}'` -/
  placeholder : String
  /-- `len(o)` -/
  len : Probe Nat
  /-- items of an exact dict, insertion order -/
  dictItems : List (Key × ObjId)
  /-- `tuple(o)` -/
  seq : Probe (List ObjId)
  /-- `isinstance(o, Exception)` (raises when `__class__` cannot be read) -/
  isExc : Probe Bool
  /-- `tuple(o.args)` -/
  excArgs : Probe (List ObjId)
  /-- `hasattr(o, '__dict__')` (raises when the attribute lookup raises something other than AttributeError) -/
  hasDict : Probe Bool
  /-- items of `o.__dict__` -/
  attrs : Probe (List (Key × ObjId))
  /-- `o.__class__.__name__` (read for the local named `self` of a frame): raises when `__getattribute__` or a
      `__class__` property raises; differs from `tyName` for proxies.  Default: readable, the type name. -/
  clsName : Probe String := .ok tyName
deriving Repr

/-- the inert object an out-of-range reference denotes -/
def PyObj.inert : PyObj :=
  { tyName := "NoneType", tyRepr := "<class 'NoneType'>", isDictExact := false, str := some "None",
    placeholder := "", len := .raises "", dictItems := [], seq := .raises "", isExc := .ok false,
    excArgs := .raises "", hasDict := .ok false, attrs := .raises "" }

def Probe.size {α : Type} : Probe (List α) → Nat
  | .ok xs => xs.length
  | .raises _ => 0

/-- an upper bound of the number of child values any kind test can yield for this object -/
def PyObj.kids (o : PyObj) : Nat :=
  max (max o.dictItems.length o.seq.size) (max o.excArgs.size o.attrs.size)

structure Heap where
  objs : List PyObj
deriving Repr

def Heap.obj (H : Heap) (i : ObjId) : PyObj := H.objs[i]?.getD PyObj.inert

def maxKidsOf : List PyObj → Nat
  | [] => 0
  | o :: os => max o.kids (maxKidsOf os)

def Heap.maxKids (H : Heap) : Nat := maxKidsOf H.objs

theorem kids_le_maxKidsOf (os : List PyObj) (i : Nat) : (os[i]?.getD PyObj.inert).kids ≤ maxKidsOf os := by
  induction os generalizing i with
  | nil => simp [maxKidsOf, PyObj.inert, PyObj.kids, Probe.size]
  | cons o os ih =>
    cases i with
    | zero => simp [maxKidsOf]; omega
    | succ i => simp only [List.getElem?_cons_succ, maxKidsOf]; have := ih i; omega

theorem Heap.kids_le (H : Heap) (i : ObjId) : (H.obj i).kids ≤ H.maxKids := kids_le_maxKidsOf H.objs i

/-- the part of an object that decides the *shape* of a collection (everything but the two texts of `str`) -/
structure Shape where
  tyName : String
  tyRepr : String
  isDictExact : Bool
  len : Probe Nat
  dictItems : List (Key × ObjId)
  seq : Probe (List ObjId)
  isExc : Probe Bool
  excArgs : Probe (List ObjId)
  hasDict : Probe Bool
  attrs : Probe (List (Key × ObjId))
  clsName : Probe String

def PyObj.shape (o : PyObj) : Shape :=
  ⟨o.tyName, o.tyRepr, o.isDictExact, o.len, o.dictItems, o.seq, o.isExc, o.excArgs, o.hasDict, o.attrs, o.clsName⟩

end Heap
