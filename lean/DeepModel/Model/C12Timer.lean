/-
  Model/C12Timer — the poll thread: `RepeatedTimer._target` running `LongPoll.poll` (C12 "polling continues").

  Everything the thread does is regenerated from the Python source on every run:
    * one pass of the loop body is read off `Extracted.ConfigSvc.timerSkeleton` (harness/skeleton.py): which calls stand
      outside the `try` (`_time`, `event.wait`), that the function call is the whole `try` body, which classes the
      `except` around it catches and that its handler is silent (`timerCatchesSk`);
    * the function is `Extracted.ConfigSvc.pollOnce`, the statement-by-statement translation of `LongPoll.poll`;
    * whether the task handler refuses the apply task of an UPDATE is `Extracted.Tasks.submitTask` on the handler's
      state (C09's translation of `submit_task` / `__check_open`), and `flush` closes it iff the guard skeleton of
      `TaskHandler.flush` says so (`Tasks.flushCloses`).
  Hand-written here: the events (what the environment does) and the bookkeeping (`issued`, `sent`).
  TRUSTED: `Event.wait` returns True once `set()` was called and False on a timeout; `_time` and `event.wait` do not
  raise (interval coerced and not zero); a thread whose target raises is dead.
-/
import DeepModel.Model.ConfigSvc
import DeepModel.Model.Tasks

namespace C12Timer
open Extracted.ConfigSvc ConfigSvc

/-- the loop body of `_target` as the skeleton shows it: `[<calls of the loop test>…, try: <one call> except C: h]` -/
def timerBody : Option Guard.Stmt := Guard.findLoop timerLoopId timerSkeleton

/-- the `try` statement of the loop body: (body, clause, handler) -/
def lastTry : Guard.Stmt → Option (Guard.Stmt × Guard.Catch × Guard.Stmt)
  | .tryExcept b c _ h => some (b, c, h)
  | .seq _ rest => lastTry rest
  | _ => none

/-- an exception of class `e` raised by the timer's function is caught, and the handler is silent -/
def timerCatchesSk (e : Py.Exn) : Bool :=
  match timerBody.bind lastTry with
  | some (.call _, c, h) => (c.catches e == some true) && (Guard.mayRaise h == Guard.RaiseSet.empty)
  | _ => false

/-- the calls of the loop test (`self._time`, `self.event.wait`) stand in the loop body OUTSIDE its `try` (read off the
    skeleton): an `Exception` they raise ends the thread -/
def timerTestUnguarded : Bool :=
  match timerBody with
  | some (.seq (.call _) _) => true
  | _ => false

/-- the poll thread and what it touches -/
structure PT where
  svc : Svc
  /-- the task handler the apply tasks are submitted to -/
  th : Extracted.Tasks.TH
  /-- the thread is inside its loop -/
  alive : Bool
  /-- `stop()` was called (the event is set) -/
  stopped : Bool
  /-- calls of the function (= `stub.poll` requests) made by the loop -/
  issued : Nat
  /-- `current_hash` of those requests, in order -/
  sent : List (Option String)
  /-- the exception that ended the thread -/
  died : Option Py.Exn
deriving Repr, DecidableEq

def PT.init : PT := ⟨Svc.init, Extracted.Tasks.TH.init, true, false, 0, [], none⟩

inductive Ev where
  /-- `event.wait(self._time)` timed out: the function runs; `out` is what the stub does, `tps` what the answer
      carries -/
  | tick (out : StubOut) (tps : List RawTp)
  /-- the loop test itself raises an `Exception`: `_time` with interval 0 (ZeroDivisionError: float modulo) or
      `Event.wait` with interval inf (OverflowError) — an interval that is not usable -/
  | testFails
  /-- `LongPoll.shutdown()` → `RepeatedTimer.stop()` -/
  | stop
  /-- `TaskHandler.flush()` (Deep.shutdown calls it BEFORE `poll.shutdown`): every queued apply task is run, the
      handler is closed -/
  | flush
deriving Repr, DecidableEq

/-- what `submit_task` raises in this state of the handler (none = accepted) -/
def refusal (th : Extracted.Tasks.TH) : Option Py.Exn :=
  match Extracted.Tasks.submitTask th with
  | .error e => some e
  | .ok _ => none

def stepPT (s : PT) : Ev → PT
  | .tick out tps =>
    if s.alive && !s.stopped then
      let r := pollOnce s.svc (refusal s.th) out (convertResponse tps)
      let s' := if out.sendsRequest
        then { s with svc := r.1, issued := s.issued + 1, sent := s.sent ++ [requestHash s.svc] }
        else { s with svc := r.1 }
      match r.2 with
      | none => s'
      | some e => if timerCatchesSk e then s' else { s' with alive := false, died := some e }
    else s
  | .testFails =>
    if s.alive && !s.stopped && timerTestUnguarded then { s with alive := false, died := some .exc } else s
  | .stop =>
    if pollShutdownStopsTimer && timerStopSetsEvent then { s with stopped := true, alive := false } else s
  | .flush =>
    { s with svc := { s.svc with queued := [] },
             th := { s.th with isOpen := if Tasks.flushCloses then false else s.th.isOpen } }

def runPTFrom (s : PT) (evs : List Ev) : PT := evs.foldl stepPT s
def runPT (evs : List Ev) : PT := runPTFrom PT.init evs

/-- the op of the configuration machine (`ConfigSvc.step`) a tick stands for while the handler accepts work -/
def Ev.toOp : StubOut → List RawTp → Op
  | .beforeSend e, _ => .pollFail e
  | .raises e, _ => .pollFail e
  | .garbage, _ => .pollFail .exc
  | .answer rt ts h, tps => .poll rt ts h tps

/-- this tick ends the thread, in a state where the handler is open / closed: a non-`Exception` `BaseException` out of
    the stub or out of what is evaluated before the send, or an UPDATE answered to a closed handler -/
def Kills (isOpen : Bool) (out : StubOut) : Prop :=
  out = .raises .base ∨ out = .beforeSend .base ∨
  (isOpen = false ∧ ∃ ts h, out = .answer .update ts h)

/-- `IntervalUsable`: the loop test never raises along the history (the interval is neither 0 nor inf; trusted for the
    theorems that carry it — `c12_interval_unusable_kills` is the witness that it is needed) -/
def IntervalUsable (evs : List Ev) : Prop := Ev.testFails ∉ evs

end C12Timer
