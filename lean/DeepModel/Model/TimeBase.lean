/-
  Model/TimeBase — the vocabulary the *translated* time-budget code (Extracted/CollectorTime.lean) is written in
  (C05, C02).  Hand-written, core Lean only.

  `Ratio` is the result of Python's true division `a / b` of two ints, kept exact (numerator, denominator) so that the
  comparison `a / b > c` the source makes is decided without floating point.

  Modelled, not verified (trusted base, exercised by the correspondence run on the boundary values ±1 ns):
  CPython computes `a / b` (ints) as the correctly rounded double of the exact quotient and compares it exactly with the int
  `c`.  For b = 10^6 and |c| < 2^32 the comparison `a / b > c` has the same outcome as the exact `a > c·b`: `c` is
  representable; if a > c·b the exact quotient is ≥ c + 10^-6 while half an ulp below 2^32 is < 2.4·10^-7, so the rounded
  quotient stays > c; if a ≤ c·b the quotient is ≤ c and monotone rounding keeps it ≤ c.  The magnitude of `a` does not
  matter.  For larger |c| the outcomes differ (c = 10^13, a = c·b + 1: Python says False) — `C05.BudgetInRange` carries the
  range into the statements.  This argument is on paper (no float model in Lean).  Denominators are literals of the
  source; the order below is the order of the rationals when both denominators are positive.
-/
namespace TimeBase

structure Ratio where
  num : Int
  den : Int
deriving Repr, DecidableEq

/-- Python `a / b` on ints (b ≠ 0) -/
def trueDiv (a b : Int) : Ratio := ⟨a, b⟩

instance : Coe Int Ratio := ⟨fun n => ⟨n, 1⟩⟩

instance : LT Ratio := ⟨fun a b => a.num * b.den < b.num * a.den⟩
instance : LE Ratio := ⟨fun a b => a.num * b.den ≤ b.num * a.den⟩

instance (a b : Ratio) : Decidable (a < b) := inferInstanceAs (Decidable (a.num * b.den < b.num * a.den))
instance (a b : Ratio) : Decidable (a ≤ b) := inferInstanceAs (Decidable (a.num * b.den ≤ b.num * a.den))

theorem gt_int_iff (a b c : Int) : (trueDiv a b > (c : Ratio)) ↔ c * b < a := by
  show (c * b < a * 1) ↔ c * b < a
  rw [Int.mul_one]

end TimeBase
