/-
  Model/TimeBase — the vocabulary the *translated* time-budget code (Extracted/CollectorTime.lean) is written in
  (C05, C02).  Hand-written, core Lean only.

  `Ratio` is the result of Python's true division `a / b` of two ints, kept exact (numerator, denominator) so that the
  comparison `a / b > c` the source makes is decided without floating point.

  Modelled, not verified (trusted base, exercised by the correspondence run on the boundary values ±1 ns):
  CPython computes `a / b` as the correctly rounded double of the exact quotient and compares it exactly with the int
  `c`.  For |a| < 2^53 and b = 10^6 the rounded quotient is on the same side of every integer c (|c| < 2^31) as the
  exact one unless the exact quotient is within 2^-22 of c, which needs |a − c·b| < 1 — i.e. equality.  The generators
  stay inside that range (offsets < 2^50 ns ≈ 13 days).  Denominators are literals of the source; the order below is
  the order of the rationals when both denominators are positive.
-/
namespace TimeBase

structure Ratio where
  num : Int
  den : Int
deriving Repr, DecidableEq

/-- Python `a / b` on ints (b ≠ 0) -/
def trueDiv (a b : Int) : Ratio := ⟨a, b⟩

instance : Coe Int Ratio := ⟨fun n => ⟨n, 1⟩⟩

instance : LT Ratio := ⟨fun a b => a.num * b.den < b.num * a.den⟩
instance : LE Ratio := ⟨fun a b => a.num * b.den ≤ b.num * a.den⟩

instance (a b : Ratio) : Decidable (a < b) := inferInstanceAs (Decidable (a.num * b.den < b.num * a.den))
instance (a b : Ratio) : Decidable (a ≤ b) := inferInstanceAs (Decidable (a.num * b.den ≤ b.num * a.den))

theorem gt_int_iff (a b c : Int) : (trueDiv a b > (c : Ratio)) ↔ c * b < a := by
  show (c * b < a * 1) ↔ c * b < a
  rw [Int.mul_one]

end TimeBase
