/-
  Model/Limiter — a tracepoint action's firing history (C04, C10).

  The *decision* functions (`canTrigger`, `inWindow`, `fire`, `getInt`) are not written here: they are
  `Extracted.Limiter.*`, regenerated from the Python source on every run.  This file only adds the glue
  that `ActionContext.can_trigger / process / __exit__` and `trace_call` put around them:
  limits first, then the condition, then `process`, then `record_triggered(ts)` iff `process` ran.
-/
import DeepModel.Extracted.Limiter

namespace Limiter
open Extracted.Limiter

/-- configuration of one action as the code sees it: raw config texts (none = key absent). -/
structure Cfg where
  fireCount : Option String
  firePeriod : Option String
  window : Window
deriving Repr

def Cfg.count (c : Cfg) : Int := fireCountOf c.fireCount
def Cfg.period (c : Cfg) : Int := firePeriodOf c.firePeriod

/-- one hit of the location: trigger time stamp and whether the condition evaluates to a truthy value
    (`false` also stands for a condition that fails to evaluate: `evaluate_expression` returns the
    exception object, whose text is not truthy). -/
structure Hit where
  ts : Int
  cond : Bool
deriving Repr, DecidableEq

def allowed (c : Cfg) (st : Stats) (ts : Int) : Bool := canTrigger c.count c.period c.window st ts

/-- `ActionContext.can_trigger(); process(); __exit__` for one hit: new stats, collected? -/
def stepHit (c : Cfg) (st : Stats) (h : Hit) : Stats × Bool :=
  if allowed c st h.ts && h.cond then (fire st h.ts, true) else (st, false)

/-- run a history; returns final stats and the time stamps of the collections, oldest first. -/
def runFrom (c : Cfg) : Stats → List Hit → Stats × List Int
  | st, [] => (st, [])
  | st, h :: hs =>
    let (st', fired) := stepHit c st h
    let (st'', rest) := runFrom c st' hs
    (st'', if fired then h.ts :: rest else rest)

def runHits (c : Cfg) (hs : List Hit) : List Int := (runFrom c Stats.init hs).2

/-- the service re-sends the tracepoint in a later UPDATE response: `convert_response` builds a new action with
    fresh statistics for every tracepoint of every UPDATE, so the history of one tracepoint id is cut into
    segments (the hits between two UPDATEs), each run from `Stats.init`. -/
def runSegments (c : Cfg) (segs : List (List Hit)) : List Int := segs.flatMap (runHits c)

/-! ### the statement, written independently of the code (the refinement target)

  A reference limiter kept from the property text: it remembers how many collections it made and when
  the last one was, and permits a hit iff the count is not used up, the time is in the window, and the
  last collection (if any) is at least `period` ms old. -/
structure SpecState where
  made : Nat
  lastAt : Option Int
deriving Repr, DecidableEq

def specInWindow (w : Window) (ts : Int) : Bool :=
  (w.start ≤ 0 || w.start ≤ ts) && (w.stop ≤ 0 || ts ≤ w.stop)

def specAllowed (count period : Int) (w : Window) (s : SpecState) (ts : Int) : Bool :=
  (count == -1 || decide ((s.made : Int) < count)) && specInWindow w ts &&
  (match s.lastAt with | none => true | some l => decide (ts - l ≥ period * 1000000))

def specRun (count period : Int) (w : Window) : SpecState → List Hit → List Int
  | _, [] => []
  | s, h :: hs =>
    if specAllowed count period w s h.ts && h.cond
    then h.ts :: specRun count period w ⟨s.made + 1, some h.ts⟩ hs
    else specRun count period w s hs

/-! ### two threads at one action (the code has no lock between check and record)

  Regions of `trace_call` for one hit of one action by one thread: `check` (limits + condition),
  `proc` (collect), `rec` (`record_triggered`).  A schedule is a list of thread ids; each occurrence
  advances that thread by one region. -/
inductive Pc | check | proc | record | done
deriving DecidableEq, Repr

structure Thr where
  pc : Pc
  ts : Int
deriving Repr

structure Conc where
  st : Stats
  thrs : List Thr
  collected : Nat
deriving Repr

def Conc.stepThr (c : Cfg) (s : Conc) (i : Nat) : Conc :=
  match s.thrs[i]? with
  | none => s
  | some t =>
    match t.pc with
    | .check =>
      let pc' := if allowed c s.st t.ts then Pc.proc else Pc.done
      { s with thrs := s.thrs.set i { t with pc := pc' } }
    | .proc => { s with thrs := s.thrs.set i { t with pc := .record }, collected := s.collected + 1 }
    | .record => { s with thrs := s.thrs.set i { t with pc := .done }, st := fire s.st t.ts }
    | .done => s

def Conc.run (c : Cfg) (s : Conc) (sched : List Nat) : Conc := sched.foldl (Conc.stepThr c) s

def Conc.init (tss : List Int) : Conc := ⟨Stats.init, tss.map (fun ts => ⟨.check, ts⟩), 0⟩

end Limiter
