/-
  Model/CfgBase — the vocabulary the *translated* configuration code (Extracted/Config.lean) is written in (C19).

  Configuration values as Python hands them around: `None`, text, numbers, lists, callables (identified by what
  they return when called with no arguments), anything else.  The process environment is an association list
  (first entry wins).  Hand-written, core Lean only.

  Modelled, not verified: `os.getenv`, `str.split(sep)` / `sep in text` for a one-character separator, list
  `append`, `callable(x)` (true exactly for the `callable` constructor — the generators use functions/lambdas).
-/
import DeepModel.Py

namespace Cfg

inductive CVal
  | none
  | str (s : String)
  | int (i : Int)
  | bool (b : Bool)
  | float (repr : String)
  | list (xs : List CVal)
  | callable (ret : CVal)
  | other (tag : String)
deriving Repr, Inhabited

abbrev Env := List (String × String)

/-- `os.getenv(name, None)` -/
def getenv (env : Env) (name : String) : CVal :=
  match env.lookup name with
  | some s => .str s
  | none => .none

def CVal.isNone : CVal → Bool
  | .none => true
  | _ => false

/-- `sep in text` for a one-character `sep` -/
def CVal.strIn (sep : Char) : CVal → Bool
  | .str s => s.toList.contains sep
  | _ => false

def splitChars (c : Char) : List Char → List (List Char)
  | [] => [[]]
  | x :: xs =>
    if x == c then [] :: splitChars c xs
    else match splitChars c xs with
      | [] => [[x]]
      | p :: ps => (x :: p) :: ps

/-- `text.split(sep)` for a one-character `sep` -/
def splitStr (c : Char) (s : String) : List String := (splitChars c s.toList).map String.ofList

def CVal.split (c : Char) : CVal → CVal
  | .str s => .list ((splitStr c s).map .str)
  | v => v

/-- `xs.append(x)` -/
def CVal.append : CVal → CVal → CVal
  | .list xs, x => .list (xs ++ [x])
  | v, _ => v

/-- `attr()` when `callable(attr)`, else `attr` -/
def callIt : CVal → CVal
  | .callable r => r
  | v => v

/-- a list whose elements are all text -/
def strList : List CVal → Option (List String)
  | [] => some []
  | .str s :: rest => (strList rest).map (s :: ·)
  | _ :: _ => Option.none

/-- what `for path in value: filename.startswith(path)` iterates over: the elements of a list of texts — or the
    characters of a text (Python iterates a `str` character by character); `none` = the loop raises TypeError -/
def pathList : CVal → Option (List String)
  | .list xs => strList xs
  | .str s => some (s.toList.map String.singleton)
  | _ => Option.none

end Cfg
