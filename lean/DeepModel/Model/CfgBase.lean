/-
  Model/CfgBase — the vocabulary the *translated* configuration code (Extracted/Config.lean) is written in (C19).

  Configuration values as Python hands them around: `None`, text, numbers, lists, callables (identified by what
  they return when called with no arguments), anything else.  The process environment is an association list
  (first entry wins).  Hand-written, core Lean only.

  Modelled, not verified: `os.getenv`, `str.split(sep)` / `sep in text` for a one-character separator, list
  `append`, `callable(x)` (true exactly for the `callable` constructor — the generators use functions/lambdas).
-/
import DeepModel.Py

namespace Cfg

inductive CVal
  | none
  | str (s : String)
  | int (i : Int)
  | bool (b : Bool)
  | float (repr : String)
  | list (xs : List CVal)
  | callable (ret : CVal)
  | other (tag : String)
deriving Repr, Inhabited

abbrev Env := List (String × String)

/-- `os.getenv(name, None)` -/
def getenv (env : Env) (name : String) : CVal :=
  match env.lookup name with
  | some s => .str s
  | none => .none

def CVal.isNone : CVal → Bool
  | .none => true
  | _ => false

/-- `sep in text` for a one-character `sep` -/
def CVal.strIn (sep : Char) : CVal → Bool
  | .str s => s.toList.contains sep
  | _ => false

def splitChars (c : Char) : List Char → List (List Char)
  | [] => [[]]
  | x :: xs =>
    if x == c then [] :: splitChars c xs
    else match splitChars c xs with
      | [] => [[x]]
      | p :: ps => (x :: p) :: ps

/-- `text.split(sep)` for a one-character `sep` -/
def splitStr (c : Char) (s : String) : List String := (splitChars c s.toList).map String.ofList

def CVal.split (c : Char) : CVal → CVal
  | .str s => .list ((splitStr c s).map .str)
  | v => v

/-- `xs.append(x)` -/
def CVal.append : CVal → CVal → CVal
  | .list xs, x => .list (xs ++ [x])
  | v, _ => v

/-- `attr()` when `callable(attr)`, else `attr` -/
def callIt : CVal → CVal
  | .callable r => r
  | v => v

/-- what `super().__getattribute__(name)` did: returned a value (an instance attribute, a method, or a property whose
    getter returned), raised AttributeError (no such attribute — OR a property whose getter raised AttributeError: the
    code cannot tell them apart), or raised something else (propagates) -/
inductive OwnOut
  | value (v : CVal)
  | attributeError
  | raises
deriving Repr, Inhabited

/-- `callable(x)` -/
def CVal.isCallable : CVal → Bool
  | .callable _ => true
  | _ => false

/-- `x()` — what the callable returns; for a value that is not callable Python raises TypeError: the translated
    code only calls behind a `callable(x)` test (`C19.call_guarded`), the value itself is returned here. -/
def CVal.call : CVal → CVal
  | .callable r => r
  | v => v

/-- `name in d` for the dict given in code (`none` = Python `None`, for which the source tests first) -/
def dictHas (d : Option (List (String × CVal))) (k : String) : Bool :=
  match d with
  | some l => (l.lookup k).isSome
  | Option.none => false

/-- `d[name]`; a missing key raises KeyError in Python: the translated code only reads behind a `name in d` test,
    `None` is returned here (the value an absent entry is treated as by the statements that follow). -/
def dictGet (d : Option (List (String × CVal))) (k : String) : CVal :=
  match d with
  | some l => (l.lookup k).getD CVal.none
  | Option.none => CVal.none

/-- `str(x)` for the values whose text the model knows (`none` = not modelled: lists, callables, foreign objects) -/
def pyStr : CVal → Option String
  | .none => some "None"
  | .str s => some s
  | .int i => some (toString i)
  | .bool b => some (if b then "True" else "False")
  | .float r => some r
  | _ => Option.none

/-- a decimal number `mant / 10^scale` (what an interval text such as "10", "10.5", " 2 " spells) -/
structure Dec where
  mant : Int
  scale : Nat
deriving Repr, DecidableEq

def isDigit (c : Char) : Bool := '0' ≤ c && c ≤ '9'

/-- split at the first '.' -/
def splitDot : List Char → Option (List Char × List Char)
  | [] => Option.none
  | c :: cs => if c == '.' then some ([], cs) else (splitDot cs).map (fun p => (c :: p.1, p.2))

def digitsVal (cs : List Char) : Nat := cs.foldl (fun acc c => acc * 10 + (c.toNat - '0'.toNat)) 0

/-- `float(text)` for plain decimal texts: optional white space, optional sign, digits with an optional fraction
    (integer texts as `int()` reads them included).  `none` = not of that form (exponents, inf/nan are outside the
    model: the generators do not send such texts to it). -/
def parseDecimal (s : String) : Option Dec :=
  match Py.parseInt s with
  | some i => some ⟨i, 0⟩
  | Option.none =>
    let cs := (Py.strip s).toList
    let (neg, body) := match cs with
      | '-' :: r => (true, r)
      | '+' :: r => (false, r)
      | r => (false, r)
    match splitDot body with
    | Option.none => Option.none
    | some (ip, fp) =>
      if (ip.isEmpty && fp.isEmpty) || !(ip.all isDigit) || !(fp.all isDigit) then Option.none
      else
        let m : Int := (digitsVal ip * 10 ^ fp.length + digitsVal fp : Nat)
        some ⟨if neg then -m else m, fp.length⟩

/-- a list whose elements are all text -/
def strList : List CVal → Option (List String)
  | [] => some []
  | .str s :: rest => (strList rest).map (s :: ·)
  | _ :: _ => Option.none

/-- what `for path in value: filename.startswith(path)` iterates over: the elements of a list of texts — or the
    characters of a text (Python iterates a `str` character by character); `none` = the loop raises TypeError -/
def pathList : CVal → Option (List String)
  | .list xs => strList xs
  | .str s => some (s.toList.map String.singleton)
  | _ => Option.none

end Cfg
